(* Text forms of scalars used in the JSON encodings of blocks (chain/nom/account_block.go
   ToNomMarshalJson / FromNomMarshalJson / UnmarshalJSON, common/types/hash.go, common/bytes.go):
   amounts as decimal strings (big.Int.String / common.StringToBigInt), hashes and nonces as
   lower-case hex (hex.EncodeToString / hex.DecodeString + length check). Characters are byte values. *)
From ZV Require Import Prelude.
Open Scope Z_scope.

(* ---- decimal: big.Int.String *)
Fixpoint dec_digits (fuel : nat) (z : Z) (acc : bytes) : bytes :=
  match fuel with
  | O => acc
  | S k => let acc' := (48 + z mod 10) :: acc in
           if z <? 10 then acc' else dec_digits k (z / 10) acc'
  end.
Definition dec_fuel (z : Z) : nat := S (S (Z.to_nat (Z.log2 z))).  (* more than the number of digits *)
Definition print_dec (z : Z) : bytes :=
  if z <? 0 then 45 :: dec_digits (dec_fuel (- z)) (- z) [] else dec_digits (dec_fuel z) z [].

(* ---- decimal: common.StringToBigInt = big.Int.SetString(s, 10), 0 when it does not parse.
   SetString(…,10): optional sign, then one or more digits, nothing else. *)
Definition is_digit (c : Z) : bool := (48 <=? c) && (c <=? 57).
Fixpoint parse_digits (acc : Z) (s : bytes) : option Z :=
  match s with
  | [] => Some acc
  | c :: r => if is_digit c then parse_digits (acc * 10 + (c - 48)) r else None
  end.
Definition parse_unsigned (s : bytes) : option Z :=
  match s with [] => None | _ => parse_digits 0 s end.
Definition set_string10 (s : bytes) : option Z :=
  match s with
  | [] => None
  | c :: r => if c =? 45 then option_map Z.opp (parse_unsigned r)
              else if c =? 43 then parse_unsigned r
              else parse_unsigned s
  end.
Definition parse_dec (s : bytes) : Z := match set_string10 s with Some v => v | None => 0 end.

(* ---- hex *)
Definition hexc (n : Z) : Z := if n <? 10 then 48 + n else 87 + n.
Fixpoint hex_enc (b : bytes) : bytes :=
  match b with [] => [] | x :: r => hexc (x / 16) :: hexc (x mod 16) :: hex_enc r end.
Definition unhex (c : Z) : option Z :=
  if (48 <=? c) && (c <=? 57) then Some (c - 48)
  else if (97 <=? c) && (c <=? 102) then Some (c - 87)
  else if (65 <=? c) && (c <=? 70) then Some (c - 55)
  else None.
Fixpoint hex_dec (s : bytes) : option bytes :=
  match s with
  | [] => Some []
  | a :: s' =>
    match s' with
    | [] => None
    | b :: r =>
      match unhex a, unhex b, hex_dec r with
      | Some x, Some y, Some t => Some ((16 * x + y) :: t)
      | _, _, _ => None
      end
    end
  end.
(* types.HexToHash (exactly 64 characters) and Nonce.UnmarshalText (decodes, then 8 bytes) *)
Definition parse_hash (s : bytes) : option bytes :=
  if Nat.eqb (length s) 64 then hex_dec s else None.
Definition parse_nonce (s : bytes) : option bytes :=
  match hex_dec s with Some b => if Nat.eqb (length b) 8 then Some b else None | None => None end.
