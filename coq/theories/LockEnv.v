(* Shared by the sentinel and pillar models: error codes, the revoke-window function, the environment record. *)
From ZV Require Import Prelude GoSem Abi VmReceive Emb.
From ZV.gen Require Import Consts Pure.
Open Scope Z_scope.

Definition E_already_registered := 18.
Definition E_not_enough_deposited_qsr := 19.
Definition E_already_revoked := 20.
Definition E_invalid_name := 21.
Definition E_not_active := 22.

(* implementation.PillarGetRevokeStatus / GetSentinelRevokeStatus with the window lengths as parameters *)
Definition revoke_window (lock rev reg now : Z) : res (bool * Z) :=
  guard (negb (wrapS 64 (lock + rev) =? 0))
    (let epochTime := wrapS 64 (Z.rem (wrapS 64 (now - reg)) (wrapS 64 (lock + rev))) in
     if epochTime <? lock then Ok (false, wrapS 64 (lock - epochTime))
     else Ok (true, wrapS 64 (wrapS 64 (lock + rev) - epochTime))).

(* frontier momentum time + the constants of the two contracts (the harness shortens the windows) *)
Record lenv := { l_now : Z;
                 c_SentinelLock : Z; c_SentinelRevoke : Z; c_SentinelZnn : Z; c_SentinelQsr : Z;
                 c_PillarLock : Z; c_PillarRevoke : Z; c_PillarStake : Z;
                 c_PillarQsrBase : Z; c_PillarQsrIncr : Z }.

Definition E_not_unique := 23.
Definition E_not_enough_slots := 24.
Definition E_invalid_signature := 25.


Fixpoint tsum {V} (f : V -> Z) (t : tab V) : Z := match t with [] => 0 | (_, v) :: r => f v + tsum f r end.
(* keys are unique (a leveldb table) *)
Fixpoint tnodup {V} (t : tab V) : Prop := match t with [] => True | (k, _) :: r => tget r k = None /\ tnodup r end.

Definition zsel (z z' : bytes) (x : Z) : Z := if bytes_eqb z z' then x else 0.
Definition tcount {V} (f : V -> bool) (t : tab V) : Z := tsum (fun v => if f v then 1 else 0) t.
