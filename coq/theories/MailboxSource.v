(* C04 — the receive decision of the mailbox model (Mailbox.recv_check) IS the code: fromHash() followed by sequencer()
   of verifier.accountBlockVerifier, as translated from /repo's source by go2coq on every run (gen/PureAccountVerifier.v).
   Inputs of the translations: the send block found in the store of the acknowledged momentum (its ToAddress), the
   received marker of the account store, the head of the contract's inbox (SequencerFront), the frontier height, the
   enforcement height; headers enter as numbers under any injective encoding [hdr]. *)
From ZV Require Import Prelude GoSem Ledger Mailbox.
From ZV.gen Require Import Consts Pure PureVerifCommon PureAccountVerifier.
Open Scope Z_scope.

Definition mbmap : list (Z * Z) :=
  [ (0, 0);
    (Err_verifier_ErrABFromBlockMissing, E_FROM_MISSING);
    (Err_verifier_ErrABFromBlockReceiverMismatch, E_MISMATCH);
    (Err_verifier_ErrABFromBlockAlreadyReceived, E_ALREADY);
    (Err_verifier_ErrABSequencerNothing, E_SEQ_NOTHING);
    (Err_verifier_ErrABSequencerNotNext, E_SEQ_NOT_NEXT) ].
Definition mbcode (e : Z) : Z :=
  match find (fun p => fst p =? e) mbmap with Some p => snd p | None => -1 end.

(* the two checks in the order of all(): the first non-nil error decides *)
Definition src_recv_check (t : Z) (a : addr) (h : hash) (sendto : option addr) (received : bool)
           (nextinline : option hash) (frontier_height enf_height : Z) (hdr : Z -> Z) : Z :=
  let e := abv_fromHash t 0 (match sendto with Some _ => true | None => false end) a
             (match sendto with Some to => to | None => 0 end) frontier_height enf_height received in
  if negb (e =? 0) then e
  else abv_sequencer (is_emb a) t (match nextinline with Some _ => true | None => false end) 0
         (hdr h) (match nextinline with Some h' => hdr h' | None => 0 end).

Lemma recv_check_is_source t a h sendto received nextinline fh E (hdr : Z -> Z) :
  (forall x y, hdr x = hdr y -> x = y) ->
  t = 3 \/ t = 5 ->                               (* a user receive or a contract receive *)
  mbcode (src_recv_check t a h sendto received nextinline fh E hdr)
  = recv_check (E <=? fh) a h sendto received nextinline.
Proof.
  intros Hinj Ht. unfold src_recv_check, abv_fromHash, abv_sequencer, recv_check, ab_IsSendBlock, ab_IsReceiveBlock,
    nom_IsSendBlock, nom_IsReceiveBlock. cbv zeta.
  assert (Hs : ((t =? 2) || (t =? 4)) = false) by (destruct Ht; subst; reflexivity).
  assert (Hr : ((t =? 3) || (t =? 5) || (t =? 1)) = true) by (destruct Ht; subst; reflexivity).
  rewrite Hs, Hr. change (0 =? 0) with true. cbn [negb]. rewrite andb_true_r.
  destruct sendto as [to|]; cbn [negb]; [|reflexivity].
  rewrite (Z.eqb_sym a to).
  destruct (to =? a) eqn:Eto; cbn [negb andb].
  - rewrite andb_false_r.
    destruct received; [reflexivity|]. change (0 =? 0) with true. cbn [negb].
    destruct (is_emb a); [|reflexivity].
    destruct nextinline as [h'|]; cbn [negb]; [|reflexivity].
    destruct (h' =? h) eqn:Eh.
    + apply Z.eqb_eq in Eh. subst. rewrite Z.eqb_refl. reflexivity.
    + assert (hdr h =? hdr h' = false) as ->; [|reflexivity].
      apply Z.eqb_neq. intros Hh. apply Hinj in Hh. apply Z.eqb_neq in Eh. congruence.
  - rewrite andb_true_r.
    destruct (E <=? fh); [reflexivity|].
    destruct received; [reflexivity|]. change (0 =? 0) with true. cbn [negb].
    destruct (is_emb a); [|reflexivity].
    destruct nextinline as [h'|]; cbn [negb]; [|reflexivity].
    destruct (h' =? h) eqn:Eh.
    + apply Z.eqb_eq in Eh. subst. rewrite Z.eqb_refl. reflexivity.
    + assert (hdr h =? hdr h' = false) as ->; [|reflexivity].
      apply Z.eqb_neq. intros Hh. apply Hinj in Hh. apply Z.eqb_neq in Eh. congruence.
Qed.
