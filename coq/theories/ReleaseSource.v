(* C10 — the release rules, proved DIRECTLY about the code: the ReceiveBlock methods that pay locked funds out
   (stake.Cancel, plasma.CancelFuse, WithdrawQsr, htlc.Reclaim, htlc.Unlock, sentinel.Revoke, pillar.Revoke) are
   translated from /repo's source by go2coq on every run (gen/PureRelease.v). A result is
     (descendant blocks as (ToAddress, Amount, TokenStandard), error, written fields of the entry…, effects…)
   where an effect `eff_x_Save / eff_x_Delete = Some 1` means that the method called Save / Delete on entry x.
   Inputs of the translations (oracles): the verdict of ValidateSendBlock and of the ABI unpacking, the entry read
   from the contract's storage (its fields are inputs; GetX's error is an input), the frontier momentum, the revoke
   window verdicts (PillarGetRevokeStatus / GetSentinelRevokeStatus, themselves translated in gen/Pure.v), the hash
   comparison of htlc.Unlock (bytes.Equal of the hashed preimage and the hash lock), the results of Save / Delete.
   Every theorem has the shape "a payout implies the guard", "a refusal changes nothing", or "the entry is closed". *)
From ZV Require Import Prelude GoSem.
From ZV.gen Require Import Consts Pure PureRelease.
Open Scope Z_scope.

Ltac split_ifs H :=
  repeat match type of H with
         | context [if ?c then _ else _] => let E := fresh "E" in destruct c eqn:E
         | context [guard ?c _] => let E := fresh "G" in destruct c eqn:E; cbn [guard] in H
         end.

(* ------------------------------------------------------------------ stake.Cancel *)
Theorem cancel_stake_payout rt amt v u g f exp now sv owner bl rt' amt' eff :
  CancelStake_receive rt amt v u g f exp now sv owner = Ok (bl, 0, rt', amt', eff) ->
  bl = [(owner, amt, ZnnTokenStandard)] /\ exp <= now /\ v = 0 /\ g = 0 /\
  rt' = now /\ amt' = 0 /\ eff = Some 1.
Proof.
  unfold CancelStake_receive, Err_constants_ErrDataNonExistent, Err_constants_RevokeNotDue, Big0. cbv zeta. intros H.
  split_ifs H; try discriminate; inversion H; subst; repeat split; try lia; reflexivity.
Qed.

Theorem cancel_stake_refusal rt amt v u g f exp now sv owner bl e rt' amt' eff :
  CancelStake_receive rt amt v u g f exp now sv owner = Ok (bl, e, rt', amt', eff) -> e <> 0 ->
  bl = [] /\ rt' = rt /\ amt' = amt /\ eff = None.
Proof.
  unfold CancelStake_receive. cbv zeta. intros H He.
  split_ifs H; try discriminate; inversion H; subst; try (exfalso; apply He; reflexivity); repeat split; reflexivity.
Qed.

(* never twice: the entry a successful cancel leaves behind (amount 0) pays 0 when cancelled again *)
Theorem cancel_stake_twice rt amt v u g f exp now sv owner bl rt' amt' eff now2 sv2 bl2 e2 rt2 amt2 eff2 :
  CancelStake_receive rt amt v u g f exp now sv owner = Ok (bl, 0, rt', amt', eff) ->
  CancelStake_receive rt' amt' v u g f exp now2 sv2 owner = Ok (bl2, e2, rt2, amt2, eff2) ->
  bl2 = [] \/ bl2 = [(owner, 0, ZnnTokenStandard)].
Proof.
  intros H1 H2. apply cancel_stake_payout in H1. destruct H1 as (_ & _ & _ & _ & _ & -> & _).
  unfold CancelStake_receive in H2. cbv zeta in H2.
  split_ifs H2; try discriminate; inversion H2; subst; auto.
Qed.

(* ------------------------------------------------------------------ plasma.CancelFuse *)
Theorem cancel_fuse_payout fa v u f g exph h ge amt d1 d2 sender sv bl fa' e1 e2 e3 :
  CancelFuse_receive fa v u f g exph h ge amt d1 d2 sender sv = Ok (bl, 0, fa', e1, e2, e3) ->
  bl = [(sender, amt, QsrTokenStandard)] /\ exph <= h /\ v = 0 /\ g = 0 /\
  fa' = fa - amt /\ e1 = Some 1 /\ (e2 = Some 1 \/ e3 = Some 1).
Proof.
  unfold CancelFuse_receive, Err_constants_ErrDataNonExistent, Err_constants_RevokeNotDue. cbv zeta. intros H.
  split_ifs H; try discriminate; inversion H; subst; repeat split; try lia; auto.
Qed.

Theorem cancel_fuse_refusal fa v u f g exph h ge amt d1 d2 sender sv bl e fa' e1 e2 e3 :
  CancelFuse_receive fa v u f g exph h ge amt d1 d2 sender sv = Ok (bl, e, fa', e1, e2, e3) -> e <> 0 ->
  bl = [] /\ fa' = fa /\ e1 = None /\ e2 = None /\ e3 = None.
Proof.
  unfold CancelFuse_receive. cbv zeta. intros H He.
  split_ifs H; try discriminate; inversion H; subst; try (exfalso; apply He; reflexivity); repeat split; reflexivity.
Qed.

(* a deleted entry cannot be cancelled again: GetFusionInfo answers ErrDataNonExistent *)
Theorem cancel_fuse_deleted fa v u f exph h ge amt d1 d2 sender sv r :
  CancelFuse_receive fa v u f Err_constants_ErrDataNonExistent exph h ge amt d1 d2 sender sv = Ok r ->
  fst (fst (fst (fst (fst r)))) = [].
Proof.
  unfold CancelFuse_receive. cbv zeta. intros H. rewrite Z.eqb_refl in H.
  split_ifs H; try discriminate; inversion H; subst; reflexivity.
Qed.

(* ------------------------------------------------------------------ WithdrawQsr (pillar and sentinel contracts) *)
Theorem withdraw_qsr_payout v g qsr d owner bl eff :
  WithdrawQsr_receive v g qsr d owner = Ok (bl, 0, eff) ->
  bl = [(owner, qsr, QsrTokenStandard)] /\ qsr <> 0 /\ v = 0 /\ eff = Some 1.
Proof.
  unfold WithdrawQsr_receive, Err_constants_ErrNothingToWithdraw. cbv zeta. intros H.
  split_ifs H; try discriminate; inversion H; subst; repeat split; try reflexivity; lia.
Qed.

Theorem withdraw_qsr_refusal v g qsr d owner bl e eff :
  WithdrawQsr_receive v g qsr d owner = Ok (bl, e, eff) -> e <> 0 -> bl = [] /\ eff = None.
Proof.
  unfold WithdrawQsr_receive. cbv zeta. intros H He.
  split_ifs H; try discriminate; inversion H; subst; try (exfalso; apply He; reflexivity); split; reflexivity.
Qed.

(* ------------------------------------------------------------------ htlc.Reclaim *)
Theorem reclaim_htlc_payout v u g tl sender f now exp d amt zts bl eff :
  ReclaimHtlc_receive v u g tl sender f now exp d amt zts = Ok (bl, 0, eff) ->
  bl = [(tl, amt, zts)] /\ tl = sender /\ exp <= now /\ v = 0 /\ g = 0 /\ eff = Some 1.
Proof.
  unfold ReclaimHtlc_receive, Err_constants_ErrDataNonExistent, Err_constants_ErrPermissionDenied, Err_constants_ReclaimNotDue.
  cbv zeta. intros H.
  split_ifs H; try discriminate; inversion H; subst; repeat split; try reflexivity; lia.
Qed.

Theorem reclaim_htlc_refusal v u g tl sender f now exp d amt zts bl e eff :
  ReclaimHtlc_receive v u g tl sender f now exp d amt zts = Ok (bl, e, eff) -> e <> 0 -> bl = [] /\ eff = None.
Proof.
  unfold ReclaimHtlc_receive. cbv zeta. intros H He.
  split_ifs H; try discriminate; inversion H; subst; try (exfalso; apply He; reflexivity); split; reflexivity.
Qed.

(* ------------------------------------------------------------------ htlc.Unlock *)
Theorem unlock_htlc_payout v u g proxy pe sender hl f now exp plen kmax ht heq d amt zts bl eff :
  UnlockHtlc_receive v u g proxy pe sender hl f now exp plen kmax ht heq d amt zts = Ok (bl, 0, eff) ->
  bl = [(hl, amt, zts)] /\ (proxy = true \/ sender = hl) /\ now < exp /\ plen <= wrapS 64 kmax /\ heq = true /\
  v = 0 /\ g = 0 /\ eff = Some 1.
Proof.
  unfold UnlockHtlc_receive, Err_constants_ErrDataNonExistent, Err_constants_ErrPermissionDenied, Err_constants_ErrExpired,
    Err_constants_ErrInvalidPreimage. cbv zeta. intros H.
  split_ifs H; try discriminate; inversion H; subst;
    (repeat split; try reflexivity; try lia;
     try (destruct proxy; [left; reflexivity|right; cbn [negb andb] in *; lia]);
     try (destruct heq; [reflexivity|discriminate])).
Qed.

Theorem unlock_htlc_refusal v u g proxy pe sender hl f now exp plen kmax ht heq d amt zts bl e eff :
  UnlockHtlc_receive v u g proxy pe sender hl f now exp plen kmax ht heq d amt zts = Ok (bl, e, eff) -> e <> 0 ->
  bl = [] /\ eff = None.
Proof.
  unfold UnlockHtlc_receive. cbv zeta. intros H He.
  split_ifs H; try discriminate; inversion H; subst; try (exfalso; apply He; reflexivity); split; reflexivity.
Qed.

(* ------------------------------------------------------------------ sentinel.Revoke *)
Theorem revoke_sentinel_payout rts v f nn can until znn qsr now owner bl rts' znn' qsr' eff :
  RevokeSentinel_receive rts znn qsr v f nn can until now owner = Ok (bl, 0, rts', znn', qsr', eff) ->
  bl = [(owner, znn, ZnnTokenStandard); (owner, qsr, QsrTokenStandard)] /\ nn = true /\ rts = 0 /\ can = true /\
  rts' = now /\ znn' = 0 /\ qsr' = 0 /\ eff = Some 1.
Proof.
  unfold RevokeSentinel_receive, Err_constants_ErrDataNonExistent, Err_constants_ErrAlreadyRevoked, Err_constants_RevokeNotDue, Big0.
  cbv zeta. intros H.
  split_ifs H; try discriminate; inversion H; subst; repeat split; try reflexivity; try lia;
    try (destruct nn; [reflexivity|discriminate]); try (destruct can; [reflexivity|discriminate]).
Qed.

(* never twice: once revoked at a positive time, a second revoke is refused *)
Theorem revoke_sentinel_twice rts v f nn can until znn qsr now owner bl rts' znn' qsr' eff v2 f2 can2 until2 now2 r :
  0 < now ->
  RevokeSentinel_receive rts znn qsr v f nn can until now owner = Ok (bl, 0, rts', znn', qsr', eff) ->
  RevokeSentinel_receive rts' znn' qsr' v2 f2 nn can2 until2 now2 owner = Ok r ->
  fst (fst (fst (fst (fst r)))) = [].
Proof.
  intros Hnow H1 H2. apply revoke_sentinel_payout in H1. destruct H1 as (_ & _ & _ & _ & -> & _ & _ & _).
  unfold RevokeSentinel_receive in H2. cbv zeta in H2.
  assert (now =? 0 = false) as Hz by lia. rewrite Hz in H2. cbn [negb] in H2.
  split_ifs H2; try discriminate; inversion H2; subst; reflexivity.
Qed.

(* ------------------------------------------------------------------ pillar.Revoke *)
Theorem revoke_pillar_payout rt amt v u g active stake sender f status left now sv bl rt' amt' eff :
  RevokePillar_receive rt amt v u g active stake sender f status left now sv = Ok (bl, 0, rt', amt', eff) ->
  bl = [(stake, PillarStakeAmount, ZnnTokenStandard)] /\ active = true /\ stake = sender /\ status = true /\
  rt' = now /\ amt' = 0 /\ eff = Some 1.
Proof.
  unfold RevokePillar_receive, Err_constants_ErrDataNonExistent, Err_constants_ErrNotActive, Err_constants_ErrPermissionDenied,
    Err_constants_RevokeNotDue. cbv zeta. intros H.
  split_ifs H; try discriminate; inversion H; subst; repeat split; try reflexivity; try lia;
    try (destruct active; [reflexivity|discriminate]); try (destruct status; [reflexivity|discriminate]).
Qed.

Theorem revoke_pillar_refusal rt amt v u g active stake sender f status left now sv bl e rt' amt' eff :
  RevokePillar_receive rt amt v u g active stake sender f status left now sv = Ok (bl, e, rt', amt', eff) -> e <> 0 ->
  bl = [] /\ rt' = rt /\ amt' = amt /\ eff = None.
Proof.
  unfold RevokePillar_receive. cbv zeta. intros H He.
  split_ifs H; try discriminate; inversion H; subst; try (exfalso; apply He; reflexivity); repeat split; reflexivity.
Qed.

(* non-vacuity: each method does pay out on some input *)
Example release_examples :
  CancelStake_receive 0 100 0 0 0 0 50 60 0 7 = Ok ([(7, 100, ZnnTokenStandard)], 0, 60, 0, Some 1) /\
  CancelFuse_receive 100 0 0 0 0 5 9 0 40 0 0 7 0 = Ok ([(7, 40, QsrTokenStandard)], 0, 60, Some 1, None, Some 1) /\
  WithdrawQsr_receive 0 0 33 0 7 = Ok ([(7, 33, QsrTokenStandard)], 0, Some 1) /\
  ReclaimHtlc_receive 0 0 0 7 7 0 60 50 0 10 3 = Ok ([(7, 10, 3)], 0, Some 1) /\
  UnlockHtlc_receive 0 0 0 false 0 8 8 0 40 50 32 32 0 true 0 10 3 = Ok ([(8, 10, 3)], 0, Some 1) /\
  RevokeSentinel_receive 0 5 6 0 0 true true 0 60 7 = Ok ([(7, 5, ZnnTokenStandard); (7, 6, QsrTokenStandard)], 0, 60, 0, 0, Some 1) /\
  RevokePillar_receive 0 15 0 0 0 true 7 7 0 true 0 60 0 = Ok ([(7, PillarStakeAmount, ZnnTokenStandard)], 0, 60, 0, Some 1).
Proof. repeat split; reflexivity. Qed.

(* ------------------------------------------------------------------ liquidity.CancelLiquidityStake *)
Theorem cancel_liquidity_stake_payout rt amt v u g f exp now sv owner zts bl rt' amt' eff :
  CancelLiquidityStake_receive rt amt v u g f exp now sv owner zts = Ok (bl, 0, rt', amt', eff) ->
  bl = [(owner, amt, zts)] /\ exp <= now /\ v = 0 /\ g = 0 /\ rt' = now /\ amt' = 0 /\ eff = Some 1.
Proof.
  unfold CancelLiquidityStake_receive, Err_constants_ErrDataNonExistent, Err_constants_RevokeNotDue, Big0. cbv zeta. intros H.
  split_ifs H; try discriminate; inversion H; subst; repeat split; try lia; reflexivity.
Qed.

Theorem cancel_liquidity_stake_refusal rt amt v u g f exp now sv owner zts bl e rt' amt' eff :
  CancelLiquidityStake_receive rt amt v u g f exp now sv owner zts = Ok (bl, e, rt', amt', eff) -> e <> 0 ->
  bl = [] /\ rt' = rt /\ amt' = amt /\ eff = None.
Proof.
  unfold CancelLiquidityStake_receive. cbv zeta. intros H He.
  split_ifs H; try discriminate; inversion H; subst; try (exfalso; apply He; reflexivity); repeat split; reflexivity.
Qed.

Theorem cancel_liquidity_stake_twice rt amt v u g f exp now sv owner zts bl rt' amt' eff now2 sv2 bl2 e2 rt2 amt2 eff2 :
  CancelLiquidityStake_receive rt amt v u g f exp now sv owner zts = Ok (bl, 0, rt', amt', eff) ->
  CancelLiquidityStake_receive rt' amt' v u g f exp now2 sv2 owner zts = Ok (bl2, e2, rt2, amt2, eff2) ->
  bl2 = [] \/ bl2 = [(owner, 0, zts)].
Proof.
  intros H1 H2. apply cancel_liquidity_stake_payout in H1. destruct H1 as (_ & _ & _ & _ & _ & -> & _).
  unfold CancelLiquidityStake_receive in H2. cbv zeta in H2.
  split_ifs H2; try discriminate; inversion H2; subst; auto.
Qed.

(* ------------------------------------------------------------------ the QSR deposit (pillar / sentinel registration)
   DepositQsr adds the received amount to the sender's deposit and saves it; checkAndConsumeQsr (called by pillar.Register
   and sentinel.Register) takes the required amount out of it — never more than is there — and deletes the emptied entry. *)
Theorem deposit_qsr_adds q v g amt sv bl q' eff :
  DepositQsr_receive q v g amt sv = Ok (bl, 0, q', eff) ->
  bl = [] /\ v = 0 /\ q' = q + amt /\ eff = Some 1.
Proof.
  unfold DepositQsr_receive. cbv zeta. intros H.
  split_ifs H; try discriminate; inversion H; subst; repeat split; try lia; try reflexivity.
  all: try (apply Z.eqb_eq; assumption).
  all: try (cbn in *; apply Z.eqb_eq; destruct (v =? 0); [reflexivity|discriminate]).
Qed.

Theorem deposit_qsr_refusal q v g amt sv bl e q' eff :
  DepositQsr_receive q v g amt sv = Ok (bl, e, q', eff) -> e <> 0 -> bl = [] /\ q' = q /\ eff = None.
Proof.
  unfold DepositQsr_receive. cbv zeta. intros H He.
  split_ifs H; try discriminate; inversion H; subst; try (exfalso; apply He; reflexivity); repeat split; reflexivity.
Qed.

Ltac zcmp_cases :=
  unfold zcmp in *;
  repeat match goal with
         | E : context [?a <? ?b] |- _ => destruct (Z.ltb_spec a b); cbn in E
         | E : context [?a =? ?b] |- _ => destruct (Z.eqb_spec a b); cbn in E
         end.

Theorem consume_qsr_success req q g d sv q' ed es :
  checkAndConsumeQsr req q g d sv = Ok (0, q', ed, es) ->
  req <= q /\ q' = q - req /\
  ((q' = 0 /\ ed = Some 1 /\ es = None) \/ (q' <> 0 /\ ed = None /\ es = Some 1)).
Proof.
  unfold checkAndConsumeQsr, Err_constants_ErrNotEnoughDepositedQsr, Big0. cbv zeta. intros H.
  split_ifs H; try discriminate; inversion H; subst; zcmp_cases; try discriminate.
  all: repeat split; try lia; try (left; repeat split; lia); try (right; repeat split; lia).
Qed.

Theorem consume_qsr_refusal req q g d sv e q' ed es :
  checkAndConsumeQsr req q g d sv = Ok (e, q', ed, es) -> e <> 0 -> q < req /\ q' = q /\ ed = None /\ es = None.
Proof.
  unfold checkAndConsumeQsr. cbv zeta. intros H He.
  split_ifs H; try discriminate; inversion H; subst; try (exfalso; apply He; reflexivity); zcmp_cases; try discriminate.
  all: repeat split; try lia; reflexivity.
Qed.

Example qsr_deposit_examples :
  DepositQsr_receive 10 0 0 5 0 = Ok ([], 0, 15, Some 1) /\
  checkAndConsumeQsr 15 15 0 0 0 = Ok (0, 0, Some 1, None) /\
  checkAndConsumeQsr 10 15 0 0 0 = Ok (0, 5, None, Some 1) /\
  checkAndConsumeQsr 16 15 0 0 0 = Ok (Err_constants_ErrNotEnoughDepositedQsr, 15, None, None).
Proof. vm_compute. repeat split; reflexivity. Qed.
