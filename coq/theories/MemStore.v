(* Model of memdbManager (/repo/common/db/versioned_db.go): the in-memory versioned store used for the
   unconfirmed account chains. Every version keeps its own database value; a transaction may carry several
   commits (an account block with its descendants); only the last commit of a transaction can be rolled back to.
   Database values are modelled by their decoded content (the layering of snapshots is the same code as for
   LevelDB views, modelled and proved in Store.v). *)
From ZV Require Import Prelude.
From stdpp Require Import gmap sorting.
From ZV Require Import Store StoreSpec.
Open Scope Z_scope.

Record mentry := ME { me_id : list Z * Z; me_prev : option (list Z * Z); me_state : gmap (list Z) (list Z); me_patch : list pop }.
Record mmgr := MM {
  mm_stable_id : list Z * Z;
  mm_stable : gmap (list Z) (list Z);
  mm_front : list Z * Z;
  mm_versions : list mentry        (* newest first; includes the intermediate commits of transactions *)
}.
Definition mm_init : mmgr := MM zero_id ∅ zero_id [].

Fixpoint me_find (l : list mentry) (i : list Z * Z) : option mentry :=
  match l with [] => None | e :: r => if ident_eqb (me_id e) i then Some e else me_find r i end.
Definition mm_state (m : mmgr) (i : list Z * Z) : option (gmap (list Z) (list Z)) :=
  match me_find (mm_versions m) i with
  | Some e => Some (me_state e)
  | None => if ident_eqb i (mm_stable_id m) then Some (mm_stable m) else None
  end.

(* Add: a transaction = intermediate commits (identifier, serialized data) in order, then the head commit *)
Definition mm_add (m : mmgr) (prev : list Z * Z) (inter : list ((list Z * Z) * list Z)) (headc : (list Z * Z) * list Z)
           (p : list pop) : mmgr * bool :=
  if negb (ident_eqb prev (mm_front m)) then (m, false) else
  match mm_state m prev with
  | None => (m, false)
  | Some st =>
    let commits := inter ++ [headc] in
    let full := p ++ concat (map (fun c => frontier_ops (fst c) (snd c)) commits) in
    let st' := abs_apply st full in
    let head := fst headc in
    let fresh e := negb (existsb (fun c => ident_eqb (fst c) (me_id e)) commits) in
    (MM (mm_stable_id m) (mm_stable m) head
        (ME head (Some prev) st' full :: map (fun c => ME (fst c) None st' []) inter ++ List.filter fresh (mm_versions m)), true)
  end.

Fixpoint me_remove (l : list mentry) (i : list Z * Z) : list mentry :=
  match l with [] => [] | e :: r => if ident_eqb (me_id e) i then r else e :: me_remove r i end.
Definition mm_pop (m : mmgr) : mmgr * bool :=
  if ident_eqb (mm_front m) (mm_stable_id m) then (m, false) else
  match me_find (mm_versions m) (mm_front m) with
  | Some e => match me_prev e with
              | Some pv => (MM (mm_stable_id m) (mm_stable m) pv (me_remove (mm_versions m) (mm_front m)), true)
              | None => (m, false)
              end
  | None => (m, false)
  end.
Definition mm_get_patch (m : mmgr) (i : list Z * Z) : option (list pop) :=
  match me_find (mm_versions m) i with Some e => Some (me_patch e) | None => None end.

(* ---- machine driven by the harness (views reuse the view table of Store.v) *)
Inductive mop :=
| MAdd (prev : list Z * Z) (inter : list ((list Z * Z) * list Z)) (headc : (list Z * Z) * list Z) (p : list pop)
| MPop
| MGet (v : Z) (i : list Z * Z)
| MFrontier (v : Z)
| MView (o : op)                  (* OVGet / OVHas / OVScan / OVPut / OVDel / OVSnap / OVChanges / OVSub / OVApply *)
| MGetPatch (i : list Z * Z).

Definition enc_map (s : gmap (list Z) (list Z)) : gmap (list Z) (list Z) := (fun v => 0 :: v) <$> s.
Record mstate := MSt { ms_mgr : mmgr; ms_views : gmap Z vnode }.
Definition mst_init : mstate := MSt mm_init ∅.

Definition mstep (s : mstate) (o : mop) : mstate * ans :=
  let m := ms_mgr s in
  let vs := ms_views s in
  match o with
  | MAdd prev inter headc p => let '(m', ok) := mm_add m prev inter headc p in (MSt m' vs, ABool ok)
  | MPop => let '(m', ok) := mm_pop m in (MSt m' vs, ABool ok)
  | MGet v i => match mm_state m i with
                | Some st => (MSt m (<[v := VRoot ∅ ∅ (enc_map st)]> vs), AKind 1)
                | None => (MSt m (delete v vs), AKind 0)
                end
  | MFrontier v => match mm_state m (mm_front m) with
                   | Some st => (MSt m (<[v := VRoot ∅ ∅ (enc_map st)]> vs), AKind 1)
                   | None => (MSt m (delete v vs), AKind 0)
                   end
  | MView vo => let '(s', a) := step (St mgr_init vs) vo in (MSt m (s_views s'), a)
  | MGetPatch i => (s, AOptPatch (mm_get_patch m i))
  end.
Fixpoint mrun (s : mstate) (ops : list mop) : list ans :=
  match ops with [] => [] | o :: r => let '(s', a) := mstep s o in a :: mrun s' r end.
