(* Model of consensus/points.go + consensus/chain_ticker.go + consensus/storage/point.go (C06 "consensus statistics",
   C11 "the credited amounts are a function of the chain alone"):

     periodPoints.GetPoint / generatePointFromChain      period statistics (produced / expected per pillar, weights)
     compoundPoints.GetPoint / generatePointFromLower     epoch statistics = merge of the period points of the epoch
     Point.LeftAppend, ProducerDetail.Merge / AddNum      (uint32 counters with wrap, big.Int weights)
     chainTicker.HasStarted / IsFinished / GetEndBlock / GetContent
     points.InsertMomentum (pre-computation of completed ticks), points.DeleteMomentum (nothing)
     the consensus DB as two caches (tick -> stored point), which survive rollbacks AND restarts

   A stored point is reused only if its EndHash is the hash of the tick's end block on the CURRENT chain.
   The election of a tick (consensus/election.go ElectionByTick) enters as a function of the chain prefix that ends
   before the end of the tick (its proof momentum lies two ticks earlier): C05 is about that function.
   Definitions only; proofs in PointsProofs.v. *)
From ZV Require Import Prelude GoSem.
Open Scope Z_scope.

Record mom := mkMom { m_hash : Z; m_prev : Z; m_ts : Z; m_prod : Z }.      (* m_prod: producer address *)
Record detail := mkD { d_exp : Z; d_fact : Z; d_w : Z }.                     (* ExpectedNum, FactualNum (uint32), Weight *)
(* Pillars: association list name -> detail, kept sorted by name (the Go map has no order; observers sort) *)
Record point := mkP { p_prev : Z; p_end : Z; p_pillars : list (Z * detail); p_total : Z }.
(* electionResult: Producers (address, name) per slot, Delegations (name, weight) *)
Record elect := mkE { e_producers : list (Z * Z); e_delegs : list (Z * Z) }.

Inductive pres := PNone | PSome (p : point) | PErr | PPanic.

Fixpoint last_opt {A} (l : list A) : option A :=
  match l with [] => None | [x] => Some x | _ :: r => last_opt r end.

(* ---- Pillars map *)
Fixpoint pil_upd (f : option detail -> detail) (k : Z) (l : list (Z * detail)) : list (Z * detail) :=
  match l with
  | [] => [(k, f None)]
  | (k0, d0) :: r => if k <? k0 then (k, f None) :: l
                     else if k =? k0 then (k, f (Some d0)) :: r
                     else (k0, d0) :: pil_upd f k r
  end.
(* pillar.AddNum(e, f) or a new entry {e, f, 0} *)
Definition add_num (e f : Z) (k : Z) (l : list (Z * detail)) : list (Z * detail) :=
  pil_upd (fun o => match o with
                    | None => mkD e f 0
                    | Some d => mkD (u32 (d_exp d + e)) (u32 (d_fact d + f)) (d_w d)
                    end) k l.
Definition add_weight (w : Z) (k : Z) (l : list (Z * detail)) : list (Z * detail) :=
  pil_upd (fun o => match o with None => mkD 0 0 w | Some d => mkD (d_exp d) (d_fact d) (d_w d + w) end) k l.
(* LeftAppend: copy or Merge *)
Definition merge_detail (v : detail) (k : Z) (l : list (Z * detail)) : list (Z * detail) :=
  pil_upd (fun o => match o with
                    | None => v
                    | Some d => mkD (u32 (d_exp d + d_exp v)) (u32 (d_fact d + d_fact v)) (d_w d + d_w v)
                    end) k l.

Definition empty_point (h : Z) : point := mkP h h [] 0.
(* Point.LeftAppend(left): None = "failed to merge consensus points" *)
Definition left_append (p left : point) : option point :=
  if negb (p_end left =? p_prev p) then None
  else Some (mkP (p_prev left) (p_end p)
                 (fold_left (fun acc kv => merge_detail (snd kv) (fst kv) acc) (p_pillars left) (p_pillars p))
                 (p_total p + p_total left)).

(* nameLookup[el.Producer] = el.Name, later entries overwrite earlier ones; a producer that is not in the election
   has the empty name (0) *)
Definition name_of (prods : list (Z * Z)) (a : Z) : Z :=
  fold_left (fun acc an => if fst an =? a then snd an else acc) prods 0.

(* ---- caches: tick -> stored point *)
Definition cache := list (Z * point).
Fixpoint c_get (c : cache) (t : Z) : option point :=
  match c with [] => None | (t0, p) :: r => if t0 =? t then Some p else c_get r t end.
Fixpoint c_del (c : cache) (t : Z) : cache :=
  match c with [] => [] | (t0, p) :: r => if t0 =? t then c_del r t else (t0, p) :: c_del r t end.
Definition c_put (c : cache) (t : Z) (p : point) : cache := (t, p) :: c_del c t.

Section Points.
  Variables (gts dur mult : Z).     (* genesis time; seconds per election tick; election ticks per epoch *)
  Variable election : list mom -> Z -> option elect.

  Definition t_start (d t : Z) : Z := gts + t * d.
  Definition t_end (d t : Z) : Z := gts + (t + 1) * d.

  (* the momentums before a point in time (timestamps increase along a chain: the prefix GetMomentumBeforeTime
     finds the head of) *)
  Fixpoint upto (c : list mom) (time : Z) : list mom :=
    match c with
    | [] => []
    | m :: r => if m_ts m <? time then m :: upto r time else []
    end.
  Definition frontier_ts (c : list mom) : Z := match last_opt c with Some m => m_ts m | None => gts end.
  Definition has_started (c : list mom) (d t : Z) : bool := negb (frontier_ts c <? t_start d t).
  Definition is_finished (c : list mom) (d t : Z) : bool := t_end d t <=? frontier_ts c.
  (* GetEndBlock(tick) *)
  Definition end_block (c : list mom) (d t : Z) : option mom := last_opt (upto c (t_end d t)).

  (* everything a period point is computed from lies in [pre] = the chain before the end of the tick *)
  Definition content_pre (pre : list mom) (t : Z) : list mom :=
    let l := skipn (length (upto pre (t_start dur t))) pre in
    if t =? 0 then tl l else l.                       (* tick 0: the genesis momentum is the start block *)
  Definition gen_period_pre (pre : list mom) (t : Z) : pres :=
    match election pre t with
    | None => PErr
    | Some el =>
        match last_opt pre with
        | None => PErr
        | Some eb =>
            let blocks := content_pre pre t in
            let p0 := empty_point (m_hash eb) in
            let p1 := match blocks with
                      | [] => p0
                      | b :: _ => mkP (m_prev b) (match last_opt blocks with Some x => m_hash x | None => m_hash eb end) [] 0
                      end in
            let pl1 := fold_left (fun acc b => add_num 0 1 (name_of (e_producers el) (m_prod b)) acc) blocks [] in
            let pl2 := fold_left (fun acc s => add_num 1 0 (snd s) acc) (e_producers el) pl1 in
            let pl3 := fold_left (fun acc dl => add_weight (snd dl) (fst dl) acc) (e_delegs el) pl2 in
            let tw := fold_left (fun acc dl => acc + snd dl) (e_delegs el) 0 in
            PSome (mkP (p_prev p1) (p_end p1) pl3 tw)
        end
    end.
  Definition gen_period (c : list mom) (t : Z) : pres := gen_period_pre (upto c (t_end dur t)) t.

  (* periodPoints.GetPoint *)
  Definition get_period (pc : cache) (c : list mom) (t : Z) : pres * cache :=
    if negb (has_started c dur t) then (PNone, pc) else
    match end_block c dur t with
    | None => (PErr, pc)
    | Some eb =>
        let regen (pc' : cache) :=
          match gen_period c t with
          | PSome p => (PSome p, if is_finished c dur t then c_put pc' t p else pc')
          | r => (r, pc')
          end in
        match c_get pc t with
        | Some p => if p_end p =? m_hash eb then (PSome p, pc) else regen (c_del pc t)
        | None => regen pc
        end
    end.

  (* generatePointFromLower: i runs from the last lower tick of the epoch downwards; a lower tick in the future is
     skipped WITHOUT the `i == start` test (Go: `continue`), so the loop would run below [start] — it cannot, see
     PointsProofs.gather_no_panic *)
  Fixpoint gather (fuel : nat) (pc : cache) (c : list mom) (i start : Z) (acc : point) (n : Z) : option (pres * Z) * cache :=
    match fuel with
    | O => (Some (PPanic, n), pc)
    | S fuel' =>
        if i <? start then (Some (PPanic, n), pc) else
        let '(r, pc1) := get_period pc c i in
        match r with
        | PErr => (Some (PErr, n), pc1)
        | PPanic => (Some (PPanic, n), pc1)
        | PNone => gather fuel' pc1 c (i - 1) start acc n
        | PSome p =>
            match left_append acc p with
            | None => (Some (PErr, n), pc1)
            | Some acc' => if i =? start then (Some (PSome acc', n + 1), pc1)
                           else gather fuel' pc1 c (i - 1) start acc' (n + 1)
            end
        end
    end.
  Definition edur : Z := dur * mult.
  Definition finish_epoch (acc : point) (n : Z) : point :=
    let pl := map (fun kv => (fst kv, mkD (d_exp (snd kv)) (d_fact (snd kv)) (Z.quot (d_w (snd kv)) n))) (p_pillars acc) in
    mkP (p_prev acc) (p_end acc) pl (fold_left (fun s kv => s + d_w (snd kv)) pl 0).
  Definition gen_epoch (pc : cache) (c : list mom) (e : Z) (eb : mom) : pres * cache :=
    let start := e * mult in
    match gather (Z.to_nat mult + 1) pc c (start + mult - 1) start (empty_point (m_hash eb)) 0 with
    | (Some (PSome acc, n), pc') => (PSome (finish_epoch acc n), pc')
    | (Some (r, _), pc') => (r, pc')
    | (None, pc') => (PErr, pc')
    end.
  (* compoundPoints.GetPoint *)
  Definition get_epoch (pc ec : cache) (c : list mom) (e : Z) : pres * cache * cache :=
    if negb (has_started c edur e) then (PNone, pc, ec) else
    match end_block c edur e with
    | None => (PErr, pc, ec)
    | Some eb =>
        let regen (ec' : cache) :=
          match gen_epoch pc c e eb with
          | (PSome p, pc') => (PSome p, pc', if is_finished c edur e then c_put ec' e p else ec')
          | (r, pc') => (r, pc', ec')
          end in
        match c_get ec e with
        | Some p => if p_end p =? m_hash eb then (PSome p, pc, ec) else regen (c_del ec e)
        | None => regen ec
        end
    end.

  (* what a node without any stored point answers *)
  Definition fresh_period (c : list mom) (t : Z) : pres := fst (get_period [] c t).
  Definition fresh_epoch (c : list mom) (e : Z) : pres := fst (fst (get_epoch [] [] c e)).

  (* ---- the node *)
  Record nstate := mkNS { n_chain : list mom; n_pc : cache; n_ec : cache; n_lastp : Z; n_laste : Z }.
  Inductive op := OInsert (m : mom) | ORollback (k : nat) | OPeriod (t : Z) | OEpoch (e : Z) | ORestart.

  (* points.InsertMomentum: ticks completed by the new momentum are computed (and stored) right away *)
  Fixpoint pre_periods (fuel : nat) (pc : cache) (c : list mom) (i upto_ : Z) : cache * bool :=
    match fuel with
    | O => (pc, true)
    | S f => if upto_ <=? i then (pc, true) else
             match get_period pc c i with
             | (PErr, pc') | (PPanic, pc') => (pc', false)
             | (_, pc') => pre_periods f pc' c (i + 1) upto_
             end
    end.
  Fixpoint pre_epochs (fuel : nat) (pc ec : cache) (c : list mom) (i upto_ : Z) : cache * cache * bool :=
    match fuel with
    | O => (pc, ec, true)
    | S f => if upto_ <=? i then (pc, ec, true) else
             match get_epoch pc ec c i with
             | (PErr, pc', ec') | (PPanic, pc', ec') => (pc', ec', false)
             | (_, pc', ec') => pre_epochs f pc' ec' c (i + 1) upto_
             end
    end.
  Definition to_tick (ts : Z) : Z := Z.quot (ts - gts) dur.
  Definition insert_momentum (s : nstate) (m : mom) : nstate :=
    let c := n_chain s ++ [m] in
    let tick := to_tick (m_ts m) in
    let etick := Z.quot tick mult in
    let '(pc1, ok) := pre_periods (Z.to_nat (tick - n_lastp s)) (n_pc s) c (n_lastp s + 1) tick in
    if negb ok then mkNS c pc1 (n_ec s) (n_lastp s) (n_laste s) else
    let lastp := Z.max (n_lastp s) (tick - 1) in
    let '(pc2, ec2, ok2) := pre_epochs (Z.to_nat (etick - n_laste s)) pc1 (n_ec s) c (n_laste s + 1) etick in
    if negb ok2 then mkNS c pc2 ec2 lastp (n_laste s) else
    mkNS c pc2 ec2 lastp (Z.max (n_laste s) (etick - 1)).
  (* newPoints: last completed period by binary search over the stored period points *)
  Fixpoint bsearch (i : nat) (pc : cache) (lastc : Z) : Z :=
    let now := lastc + 2 ^ Z.of_nat i in
    let l := match c_get pc now with Some _ => now | None => lastc end in
    match i with O => l | S j => bsearch j pc l end.
  Definition restart (s : nstate) : nstate :=
    let lp := bsearch 30 (n_pc s) (-1) in
    mkNS (n_chain s) (n_pc s) (n_ec s) lp (Z.quot lp mult - 1).

  Definition step (s : nstate) (o : op) : nstate * pres :=
    match o with
    | OInsert m => (insert_momentum s m, PNone)
    | ORollback k => (mkNS (firstn (length (n_chain s) - k) (n_chain s)) (n_pc s) (n_ec s) (n_lastp s) (n_laste s), PNone)
    | OPeriod t => let '(r, pc) := get_period (n_pc s) (n_chain s) t in (mkNS (n_chain s) pc (n_ec s) (n_lastp s) (n_laste s), r)
    | OEpoch e => let '(r, pc, ec) := get_epoch (n_pc s) (n_ec s) (n_chain s) e in (mkNS (n_chain s) pc ec (n_lastp s) (n_laste s), r)
    | ORestart => (restart s, PNone)
    end.
  Fixpoint run (s : nstate) (ops : list op) : nstate * list pres :=
    match ops with
    | [] => (s, [])
    | o :: r => let '(s1, x) := step s o in let '(s2, xs) := run s1 r in (s2, x :: xs)
    end.
End Points.
