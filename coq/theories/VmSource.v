(* C09 — the refund path proved DIRECTLY about the code: VM.rollbackEmbedded (vm/vm.go) translated whole from /repo's
   source by go2coq on every run (gen/PureVm.v).
   Inputs of the translation: methodErr (the error being rolled back), the verdict of GetAccountBlockByHash and the
   send block it returns (Amount, Address, TokenStandard), the verdict of vm.applySend on the refund block, the two
   error results of finalizeEmbedded (its block result is dropped).
   Outputs: (methodErr result, err result, Reset called on vm.context, amount handed to AddBalance, the descendant
   blocks handed to finalizeEmbedded as (ToAddress, Amount, TokenStandard), the execution error handed to it). *)
From ZV Require Import Prelude GoSem VmReceive.
From ZV.gen Require Import Consts Pure PureVm.
Open Scope Z_scope.

Ltac split_ifs H :=
  repeat match type of H with
         | context [if ?c then _ else _] => let E := fresh "E" in destruct c eqn:E
         | context [guard ?c _] => let E := fresh "G" in destruct c eqn:E; cbn [guard] in H
         end.

(* whatever is rolled back: the context is reset, the amount of the send is credited to the contract again, and the
   descendants handed on are EXACTLY the refund (to the sender, the send's amount and token) when the send carried
   funds, and nothing when it carried none; the error that caused the rollback is handed on unchanged *)
Theorem rollback_refunds_exactly me g amt from zts asv f1 f2 r1 r2 eR eA eB eE :
  rollbackEmbedded me g amt from zts asv f1 f2 = Ok (r1, r2, eR, eA, eB, eE) ->
  g = 0 /\ eR = Some 1 /\ eA = Some amt /\
  ((0 < amt /\ asv = 0 /\ eB = Some [(from, amt, zts)] /\ eE = Some me /\ r1 = f1 /\ r2 = f2) \/
   (0 < amt /\ asv <> 0 /\ eB = None /\ eE = None /\ r1 = 0 /\ r2 = asv) \/
   (amt <= 0 /\ eB = Some [] /\ eE = Some me /\ r1 = f1 /\ r2 = f2)).
Proof.
  unfold rollbackEmbedded. cbv zeta. intros H.
  split_ifs H; try discriminate; inversion H; subst; clear H.
  all: split; [lia|split; [reflexivity|split; [reflexivity|]]].
  - right. left. repeat split; try reflexivity; lia.
  - left. repeat split; try reflexivity; lia.
  - right. right. repeat split; try reflexivity. lia.
Qed.

(* a send block that cannot be found again is a panic (DealWithErr), never a silent non-refund *)
Theorem rollback_lookup_failure_panics me g amt from zts asv f1 f2 :
  g <> 0 -> rollbackEmbedded me g amt from zts asv f1 f2 = Panic.
Proof.
  intros Hg. unfold rollbackEmbedded. cbv zeta.
  assert ((g =? 0) = false) as -> by lia. reflexivity.
Qed.

(* the model's rollback IS the source: the hand model of VmReceive.v (the one the C09 theorems over all queues are
   about) answers what the translated function answers, with [num] any encoding of addresses / token standards as
   numbers and the verdict of applySend on the refund taken from the model's apply_send *)
Section ModelIsSource.
  Variable cstate : Type.
  Variable dest_check : dsend -> option Z.
  Variable num : bytes -> Z.
  Definition enc_d (d : dsend) : Z * Z * Z := (num (d_to d), d_amount d, num (d_zts d)).

  Theorem rollback_is_source (a : cacct cstate) (s : send) code f1 f2 :
    match rollback cstate dest_check (Some a) s code with
    | RRefunded a2 ds c =>
        c = code /\
        rollbackEmbedded code 0 (s_amount s) (num (s_from s)) (num (s_zts s)) 0 f1 f2 =
        Ok (f1, f2, Some 1, Some (s_amount s), Some (map enc_d ds), Some code)
    | RInternal c =>
        c <> 0 ->
        rollbackEmbedded code 0 (s_amount s) (num (s_from s)) (num (s_zts s)) c f1 f2 =
        Ok (0, c, Some 1, Some (s_amount s), None, None)
    | _ => True
    end.
  Proof.
    unfold rollback, rollbackEmbedded. cbv zeta. change (0 =? 0) with true. cbn [guard].
    destruct (0 <? s_amount s) eqn:Ea.
    - assert ((0 <? Z.sgn (s_amount s)) = true) as -> by lia.
      destruct (apply_send cstate dest_check _ _) as [a2|c|]; [| |exact I].
      + split; [reflexivity|]. reflexivity.
      + intros Hc. assert ((c =? 0) = false) as -> by lia. reflexivity.
    - assert ((0 <? Z.sgn (s_amount s)) = false) as -> by lia.
      split; reflexivity.
  Qed.
End ModelIsSource.

Example rollback_examples :
  rollbackEmbedded 7 0 50 11 3 0 0 0 = Ok (0, 0, Some 1, Some 50, Some [(11, 50, 3)], Some 7) /\
  rollbackEmbedded 7 0 0 11 3 0 0 0 = Ok (0, 0, Some 1, Some 0, Some [], Some 7) /\
  rollbackEmbedded 7 0 50 11 3 9 0 0 = Ok (0, 9, Some 1, Some 50, None, None).
Proof. vm_compute. repeat split; reflexivity. Qed.
