(* C09 — the refund path proved DIRECTLY about the code: VM.rollbackEmbedded (vm/vm.go) translated whole from /repo's
   source by go2coq on every run (gen/PureVm.v).
   Inputs of the translation: methodErr (the error being rolled back), the verdict of GetAccountBlockByHash and the
   send block it returns (Amount, Address, TokenStandard), the verdict of vm.applySend on the refund block, the two
   error results of finalizeEmbedded (its block result is dropped).
   Outputs: (methodErr result, err result, Reset called on vm.context, amount handed to AddBalance, the descendant
   blocks handed to finalizeEmbedded as (ToAddress, Amount, TokenStandard), the execution error handed to it). *)
From ZV Require Import Prelude GoSem VmReceive.
From ZV.gen Require Import Consts Pure PureVm.
Open Scope Z_scope.

Ltac split_ifs H :=
  repeat match type of H with
         | context [if ?c then _ else _] => let E := fresh "E" in destruct c eqn:E
         | context [guard ?c _] => let E := fresh "G" in destruct c eqn:E; cbn [guard] in H
         end.

(* whatever is rolled back: the context is reset, the amount of the send is credited to the contract again, and the
   descendants handed on are EXACTLY the refund (to the sender, the send's amount and token) when the send carried
   funds, and nothing when it carried none; the error that caused the rollback is handed on unchanged *)
Theorem rollback_refunds_exactly me g amt from zts asv f1 f2 r1 r2 eR eA eB eE :
  rollbackEmbedded me g amt from zts asv f1 f2 = Ok (r1, r2, eR, eA, eB, eE) ->
  g = 0 /\ eR = Some 1 /\ eA = Some amt /\
  ((0 < amt /\ asv = 0 /\ eB = Some [(from, amt, zts)] /\ eE = Some me /\ r1 = f1 /\ r2 = f2) \/
   (0 < amt /\ asv <> 0 /\ eB = None /\ eE = None /\ r1 = 0 /\ r2 = asv) \/
   (amt <= 0 /\ eB = Some [] /\ eE = Some me /\ r1 = f1 /\ r2 = f2)).
Proof.
  unfold rollbackEmbedded. cbv zeta. intros H.
  split_ifs H; try discriminate; inversion H; subst; clear H.
  all: split; [lia|split; [reflexivity|split; [reflexivity|]]].
  - right. left. repeat split; try reflexivity; lia.
  - left. repeat split; try reflexivity; lia.
  - right. right. repeat split; try reflexivity. lia.
Qed.

(* a send block that cannot be found again is a panic (DealWithErr), never a silent non-refund *)
Theorem rollback_lookup_failure_panics me g amt from zts asv f1 f2 :
  g <> 0 -> rollbackEmbedded me g amt from zts asv f1 f2 = Panic.
Proof.
  intros Hg. unfold rollbackEmbedded. cbv zeta.
  assert ((g =? 0) = false) as -> by lia. reflexivity.
Qed.

(* the model's rollback IS the source: the hand model of VmReceive.v (the one the C09 theorems over all queues are
   about) answers what the translated function answers, with [num] any encoding of addresses / token standards as
   numbers and the verdict of applySend on the refund taken from the model's apply_send *)
Section ModelIsSource.
  Variable cstate : Type.
  Variable dest_check : dsend -> option Z.
  Variable num : bytes -> Z.
  Definition enc_d (d : dsend) : Z * Z * Z := (num (d_to d), d_amount d, num (d_zts d)).

  Theorem rollback_is_source (a : cacct cstate) (s : send) code f1 f2 :
    match rollback cstate dest_check (Some a) s code with
    | RRefunded a2 ds c =>
        c = code /\
        rollbackEmbedded code 0 (s_amount s) (num (s_from s)) (num (s_zts s)) 0 f1 f2 =
        Ok (f1, f2, Some 1, Some (s_amount s), Some (map enc_d ds), Some code)
    | RInternal c =>
        c <> 0 ->
        rollbackEmbedded code 0 (s_amount s) (num (s_from s)) (num (s_zts s)) c f1 f2 =
        Ok (0, c, Some 1, Some (s_amount s), None, None)
    | _ => True
    end.
  Proof.
    unfold rollback, rollbackEmbedded. cbv zeta. change (0 =? 0) with true. cbn [guard].
    destruct (0 <? s_amount s) eqn:Ea.
    - assert ((0 <? Z.sgn (s_amount s)) = true) as -> by lia.
      destruct (apply_send cstate dest_check _ _) as [a2|c|]; [| |exact I].
      + split; [reflexivity|]. reflexivity.
      + intros Hc. assert ((c =? 0) = false) as -> by lia. reflexivity.
    - assert ((0 <? Z.sgn (s_amount s)) = false) as -> by lia.
      split; reflexivity.
  Qed.
End ModelIsSource.

Example rollback_examples :
  rollbackEmbedded 7 0 50 11 3 0 0 0 = Ok (0, 0, Some 1, Some 50, Some [(11, 50, 3)], Some 7) /\
  rollbackEmbedded 7 0 0 11 3 0 0 0 = Ok (0, 0, Some 1, Some 0, Some [], Some 7) /\
  rollbackEmbedded 7 0 50 11 3 9 0 0 = Ok (0, 9, Some 1, Some 50, None, None).
Proof. vm_compute. repeat split; reflexivity. Qed.

(* ------------------------------------------------------------------ VM.generateEmbeddedReceive, translated whole.
   Inputs: the verdict of GetAccountBlockByHash, the error of embedded.GetEmbeddedMethod, the send's amount, the two
   results of method.ReceiveBlock (descendants, error), per descendant the verdict of vm.applySend (the loop runs over
   the parallel list `items`, one entry per descendant), the error results of rollbackEmbedded / finalizeEmbedded at
   each call site. Outputs: (methodErr, err, SequencerPopFront called, Save called, the error handed to
   rollbackEmbedded, the amount handed to AddBalance, Done called, the descendants and the execution error handed to
   finalizeEmbedded). NOT expressed by the translation: a lookup error other than ErrContractMethodNotFound leaves
   method == nil and method.ReceiveBlock dereferences it (the hand model's LOther -> RPanic). *)
Definition verdicts (items : list (Z * Z * Z)) : list Z := map (fun it => fst (fst it)) items.

Theorem gen_receive_completes_or_rolls_back g gm rb11 rb12 amt ds me rb21 rb22 items f1 f2 r1 r2 ePop eSave eRb eAdd eDone eB eE :
  generateEmbeddedReceive g gm rb11 rb12 amt ds me rb21 rb22 items f1 f2 = (r1, r2, ePop, eSave, eRb, eAdd, eDone, eB, eE) ->
  ePop = Some 1 /\
  ((g <> 0 /\ r2 = g /\ eSave = None /\ eRb = None /\ eAdd = None /\ eDone = None /\ eB = None /\ eE = None) \/
   (g = 0 /\ eSave = Some 1 /\
    ((eDone = Some 1 /\ eRb = None /\ eAdd = Some amt /\ eB = Some ds /\ eE = Some 0 /\
      gm <> Err_constants_ErrContractMethodNotFound /\ me = 0 /\ Forall (fun v => v = 0) (verdicts items) /\ r1 = f1 /\ r2 = f2) \/
     (eDone = None /\ eB = None /\ eE = None /\ exists e, eRb = Some e /\ e <> 0 /\
      ((e = gm /\ gm = Err_constants_ErrContractMethodNotFound /\ eAdd = None) \/
       (e = me /\ gm <> Err_constants_ErrContractMethodNotFound /\ eAdd = Some amt) \/
       (me = 0 /\ gm <> Err_constants_ErrContractMethodNotFound /\ eAdd = Some amt /\ In e (verdicts items))))))).
Proof.
  unfold generateEmbeddedReceive. cbv zeta.
  destruct (Z.eqb_spec g 0) as [Hg|Hg]; cbn [negb].
  2:{ intros H; inversion H; subst. split; [reflexivity|]. left. repeat split; try reflexivity; assumption. }
  destruct (Z.eqb_spec gm Err_constants_ErrContractMethodNotFound) as [Hn|Hn].
  { intros H; inversion H; subst. split; [reflexivity|]. right. split; [reflexivity|]. split; [reflexivity|].
    right. repeat split; try reflexivity. exists Err_constants_ErrContractMethodNotFound.
    split; [reflexivity|]. split; [unfold Err_constants_ErrContractMethodNotFound; lia|]. left. repeat split; reflexivity. }
  destruct (Z.eqb_spec me 0) as [Hm|Hm]; cbn [negb].
  2:{ intros H; inversion H; subst. split; [reflexivity|]. right. split; [reflexivity|]. split; [reflexivity|].
      right. repeat split; try reflexivity. exists me. split; [reflexivity|]. split; [assumption|].
      right. left. repeat split; try reflexivity; assumption. }
  induction items as [|[[v q1] q2] tl IH].
  - intros H; inversion H; subst. split; [reflexivity|]. right. split; [reflexivity|]. split; [reflexivity|].
    left. repeat split; try reflexivity; try assumption. constructor.
  - destruct (Z.eqb_spec v 0) as [Hv|Hv]; cbn [negb].
    + intros H. specialize (IH H). destruct IH as [Hp [IH|IH]]; (split; [exact Hp|]).
      * left. exact IH.
      * right. destruct IH as (Hg0 & Hs & [Hd|Hr]); (split; [exact Hg0|split; [exact Hs|]]).
        -- left. destruct Hd as (A & B & C & D & E & F & G & Hall & I & J).
           repeat split; try assumption. cbn. constructor; assumption.
        -- right. destruct Hr as (A & B & C & e & He & Hne & Hcase).
           repeat split; try assumption. exists e. split; [exact He|]. split; [exact Hne|].
           destruct Hcase as [H1|[H2|H3]]; [left; exact H1|right; left; exact H2|right; right].
           destruct H3 as (X & Y & Z0 & Hin). repeat split; try assumption. cbn. right. exact Hin.
    + intros H; inversion H; subst. split; [reflexivity|]. right. split; [reflexivity|]. split; [reflexivity|].
      right. repeat split; try reflexivity. exists v. split; [reflexivity|]. split; [assumption|].
      right. right. repeat split; try reflexivity; try assumption. cbn. left. reflexivity.
Qed.

(* ------------------------------------------------------------------ the hand model's generate_receive IS the source.
   The model (VmReceive.v) runs the method and the descendants on its own account state; the translation takes the
   outcomes as inputs. Instantiating those inputs with what the model computes — the lookup verdict, the method's error,
   the descendants, and per descendant the verdict of apply_send on the state the previous ones left ([verdict_items]) —
   the translated function commits (Done, exactly the method's descendants, no error) exactly where the model answers
   RApplied, and enters rollbackEmbedded with the model's error code exactly where the model rolls back. *)
Lemma gen_nil gm r1 r2 amt dsx r3 r4 f1 f2 :
  gm <> Err_constants_ErrContractMethodNotFound ->
  generateEmbeddedReceive 0 gm r1 r2 amt dsx 0 r3 r4 [] f1 f2 =
  (f1, f2, Some 1, Some 1, None, Some amt, Some 1, Some dsx, Some 0).
Proof.
  intros Hn. unfold generateEmbeddedReceive. cbv zeta.
  destruct (Z.eqb_spec gm Err_constants_ErrContractMethodNotFound); [contradiction|]. reflexivity.
Qed.

Lemma gen_cons_ok gm r1 r2 amt dsx r3 r4 q1 q2 tl f1 f2 :
  gm <> Err_constants_ErrContractMethodNotFound ->
  generateEmbeddedReceive 0 gm r1 r2 amt dsx 0 r3 r4 ((0, q1, q2) :: tl) f1 f2 =
  generateEmbeddedReceive 0 gm r1 r2 amt dsx 0 r3 r4 tl f1 f2.
Proof.
  intros Hn. unfold generateEmbeddedReceive. cbv zeta.
  destruct (Z.eqb_spec gm Err_constants_ErrContractMethodNotFound); [contradiction|]. reflexivity.
Qed.

Lemma gen_cons_err gm r1 r2 amt dsx r3 r4 c q1 q2 tl f1 f2 :
  gm <> Err_constants_ErrContractMethodNotFound -> c <> 0 ->
  generateEmbeddedReceive 0 gm r1 r2 amt dsx 0 r3 r4 ((c, q1, q2) :: tl) f1 f2 =
  (q1, q2, Some 1, Some 1, Some c, Some amt, None, None, None).
Proof.
  intros Hn Hc. unfold generateEmbeddedReceive. cbv zeta.
  destruct (Z.eqb_spec gm Err_constants_ErrContractMethodNotFound); [contradiction|].
  change (0 =? 0) with true. cbn [negb].
  destruct (Z.eqb_spec c 0); [contradiction|]. reflexivity.
Qed.

Section ReceiveIsSource.
  Variable cstate : Type.
  Variable dest_check : dsend -> option Z.
  Variable num : bytes -> Z.
  Variables rb1 rb2 : Z.     (* what rollbackEmbedded answers (the same at every call site) *)

  Fixpoint verdict_items (a : cacct cstate) (ds : list dsend) : list (Z * Z * Z) :=
    match ds with
    | [] => []
    | d :: r =>
      match apply_send cstate dest_check a d with
      | ASOk a' => (0, rb1, rb2) :: verdict_items a' r
      | ASErr c => [(c, rb1, rb2)]
      | ASPanic => []
      end
    end.

  Lemma loop_is_source gm r1 r2 amt dsx r3 r4 f1 f2 :
    gm <> Err_constants_ErrContractMethodNotFound ->
    forall ds a2,
    match apply_all cstate dest_check a2 ds with
    | ASOk _ =>
        generateEmbeddedReceive 0 gm r1 r2 amt dsx 0 r3 r4 (verdict_items a2 ds) f1 f2 =
        (f1, f2, Some 1, Some 1, None, Some amt, Some 1, Some dsx, Some 0)
    | ASErr c =>
        c <> 0 ->
        generateEmbeddedReceive 0 gm r1 r2 amt dsx 0 r3 r4 (verdict_items a2 ds) f1 f2 =
        (rb1, rb2, Some 1, Some 1, Some c, Some amt, None, None, None)
    | ASPanic => True
    end.
  Proof.
    intros Hn. induction ds as [|d r IH]; intros a2; cbn [apply_all verdict_items].
    - apply gen_nil. exact Hn.
    - destruct (apply_send cstate dest_check a2 d) as [a'|c|].
      + rewrite gen_cons_ok by exact Hn. apply IH.
      + intros Hc. apply gen_cons_err; assumption.
      + exact I.
  Qed.

  Theorem generate_receive_is_source (lookup : send -> lres cstate) (a : cacct cstate) (s : send) gm f1 f2 :
    let a0 := pop_front cstate a in
    let a1 := add_balance cstate a0 (s_zts s) (s_amount s) in
    let enc := map (enc_d num) in
    match lookup s with
    | LNotFound =>
        generate_receive cstate dest_check lookup a s = rollback cstate dest_check (Some a0) s (E_method_not_found) /\
        forall dsx me items,
        generateEmbeddedReceive 0 Err_constants_ErrContractMethodNotFound rb1 rb2 (s_amount s) dsx me rb1 rb2 items f1 f2 =
        (rb1, rb2, Some 1, Some 1, Some Err_constants_ErrContractMethodNotFound, None, None, None, None)
    | LFound m =>
        gm <> Err_constants_ErrContractMethodNotFound ->
        match m a1 s with
        | MErr c =>
            generate_receive cstate dest_check lookup a s = rollback cstate dest_check (Some a0) s c /\
            (c <> 0 -> forall dsx items,
             generateEmbeddedReceive 0 gm rb1 rb2 (s_amount s) dsx c rb1 rb2 items f1 f2 =
             (rb1, rb2, Some 1, Some 1, Some c, Some (s_amount s), None, None, None))
        | MOk a2 ds =>
            match apply_all cstate dest_check a2 ds with
            | ASOk a3 =>
                generate_receive cstate dest_check lookup a s = RApplied a3 ds /\
                generateEmbeddedReceive 0 gm rb1 rb2 (s_amount s) (enc ds) 0 rb1 rb2 (verdict_items a2 ds) f1 f2 =
                (f1, f2, Some 1, Some 1, None, Some (s_amount s), Some 1, Some (enc ds), Some 0)
            | ASErr c =>
                generate_receive cstate dest_check lookup a s = rollback cstate dest_check (Some a0) s c /\
                (c <> 0 ->
                 generateEmbeddedReceive 0 gm rb1 rb2 (s_amount s) (enc ds) 0 rb1 rb2 (verdict_items a2 ds) f1 f2 =
                 (rb1, rb2, Some 1, Some 1, Some c, Some (s_amount s), None, None, None))
            | ASPanic => generate_receive cstate dest_check lookup a s = RPanic
            end
        | MPanic => generate_receive cstate dest_check lookup a s = RPanic
        end
    | LOther => generate_receive cstate dest_check lookup a s = RPanic
    end.
  Proof.
    cbv zeta. unfold generate_receive.
    destruct (lookup s) as [m| |].
    - intros Hn.
      destruct (m (add_balance cstate (pop_front cstate a) (s_zts s) (s_amount s)) s) as [a2 ds|c|].
      + pose proof (loop_is_source gm rb1 rb2 (s_amount s) (map (enc_d num) ds) rb1 rb2 f1 f2 Hn ds a2) as HL.
        destruct (apply_all cstate dest_check a2 ds) as [a3|c|].
        * split; [reflexivity|exact HL].
        * split; [reflexivity|exact HL].
        * reflexivity.
      + split; [reflexivity|]. intros Hc dsx items.
        unfold generateEmbeddedReceive. cbv zeta.
        destruct (Z.eqb_spec gm Err_constants_ErrContractMethodNotFound); [contradiction|].
        change (0 =? 0) with true. cbn [negb].
        destruct (Z.eqb_spec c 0); [contradiction|]. reflexivity.
      + reflexivity.
    - split; [reflexivity|]. intros dsx me items.
      unfold generateEmbeddedReceive. cbv zeta. rewrite Z.eqb_refl. reflexivity.
    - reflexivity.
  Qed.
End ReceiveIsSource.
