(* Executable entry point compared with the implementation by ./check C03:
   (what the node knows for this candidate, the candidate block) |-> verdict code of Supervisor.ApplyBlock *)
From ZV Require Import Prelude Ledger Verifier.
Open Scope Z_scope.

Definition c03_apply_run (i : vctx * vblk) : Z := apply_block (fst i) (snd i).
Definition c03_apply_eqb : Z -> Z -> bool := Z.eqb.
