(* Proofs about the bridge unwrap model (Bridge.v): the method table is well formed (no panic, frame), release rule of
   Redeem as success => guard, never twice, a revoked request is never redeemed - for single steps and along every
   history of the modelled methods (a closed request stays closed). *)
From ZV Require Import Prelude GoSem Abi AbiProofs VmReceive VmReceiveProofs Emb EmbProofs Locks LocksProofs LocksBacked Bridge.
From ZV.gen Require Import Consts.
Open Scope Z_scope.
Ltac Zify.zify_post_hook ::= Z.div_mod_to_equations.

(* ---------------------------------------------------------------- validation never panics *)
Lemma unwrap_validate_no_panic s : data_ok (s_data s) -> unwrap_validate s <> VPanic.
Proof.
  intros Hd. unfold unwrap_validate.
  validate_args Sel_bridge_UnwrapToken [TUint 32; TUint 32; THash; TUint 32; TAddress; TString; TUint 256; TString].
Qed.
Lemma redeem_validate_no_panic s : data_ok (s_data s) -> redeem_validate s <> VPanic.
Proof. intros Hd. unfold redeem_validate. validate_args Sel_bridge_Redeem [THash; TUint 32]. Qed.
Lemma revoke_validate_no_panic s : data_ok (s_data s) -> revoke_validate s <> VPanic.
Proof. intros Hd. unfold revoke_validate. validate_args Sel_bridge_RevokeUnwrapRequest [THash; TUint 32]. Qed.

Lemma unwrap_validate_amount s class chain tx log to tok amount sig :
  unwrap_validate s = VOk (class, chain, tx, log, to, tok, amount, sig) -> 0 < amount /\ is_hex_address tok = true /\ s_amount s = 0.
Proof.
  unfold unwrap_validate. destruct (unpack_args _ _ _) as [vs| |]; try discriminate.
  intros H. repeat (vcase H).
  all: inversion H; subst; repeat split; try lia.
  all: try (match goal with E : negb (is_hex_address _) = false |- _ => apply negb_false_iff in E; exact E end).
  all: try (match goal with E : negb (_ =? 0) = false |- _ => apply negb_false_iff in E; lia end).
Qed.

(* ---------------------------------------------------------------- release rule of Redeem: success => guard *)
Section Guards.
  (* what a successful Redeem pays: the request's amount to the request's recipient, in the pair's token - by a transfer
     from the bridge's balance (not-owned pair) or by a Mint call to the token contract (owned pair) *)
  Definition redeem_payout (p : tpair) (req : unwrap) : dsend :=
    if tp_owned p
    then {| d_to := AddrTokenContract; d_amount := 0; d_zts := tp_zts p; d_data := mint_data (tp_zts p) (u_amount req) (u_to req) |}
    else {| d_to := u_to req; d_amount := u_amount req; d_zts := tp_zts p; d_data := [] |}.

  Theorem redeem_guard e (a a' : cacct bstore) s ds :
    redeem_receive e a s = MOk a' ds ->
    exists tx log req nw p,
      redeem_validate s = VOk (tx, log) /\
      tget (b_unwraps (a_store a)) (unwrap_key tx log) = Some req /\
      u_redeemed req <= 0 /\ u_revoked req <= 0 /\                                  (* not redeemed, not revoked *)
      can_perform (a_store a) (e_height e) = None /\                                (* initialised, not halted *)
      get_network (a_store a) (u_class req) (u_chain req) = Some nw /\
      find_pair_redeem (nw_pairs nw) req = Some p /\
      tp_delay p <= u64 (e_height e - u_reg req) /\                                 (* the redeem delay of the pair has passed *)
      (tp_owned p = false -> u_amount req <= bal_get (a_bal a) (tp_zts p)) /\
      ds = [redeem_payout p req] /\                                                 (* exactly the request's amount, to its recipient *)
      tget (b_unwraps (a_store a')) (unwrap_key tx log) = Some (redeemed_of req) /\   (* marked redeemed *)
      a_bal a' = a_bal a.
  Proof.
    unfold redeem_receive. destruct (redeem_validate s) as [[tx log]| |] eqn:Ev; try discriminate.
    destruct (can_perform (a_store a) (e_height e)) eqn:Ec; [discriminate|].
    destruct (tget (b_unwraps (a_store a)) (unwrap_key tx log)) as [req|] eqn:Eg; [|discriminate].
    destruct ((0 <? u_redeemed req) || (0 <? u_revoked req)) eqn:Er; [discriminate|].
    destruct (get_network (a_store a) (u_class req) (u_chain req)) as [nw|] eqn:En; [|discriminate].
    destruct (find_pair_redeem (nw_pairs nw) req) as [p|] eqn:Ep; [|discriminate].
    destruct (u64 (e_height e - u_reg req) <? tp_delay p) eqn:Ed; [discriminate|].
    apply orb_false_iff in Er. destruct Er as (Er1 & Er2).
    destruct (tp_owned p) eqn:Eo.
    - intros H; inv_ok H. exists tx, log, req, nw, p. unfold redeem_payout. rewrite Eo.
      cbn [a_store with_store set_unwraps b_unwraps a_bal]. rewrite tget_tput, bytes_eqb_refl.
      repeat split; auto; try lia; try (intros; discriminate).
    - destruct (bal_get (a_bal a) (tp_zts p) <? u_amount req) eqn:Eb; [discriminate|].
      intros H; inv_ok H. exists tx, log, req, nw, p. unfold redeem_payout. rewrite Eo.
      cbn [a_store with_store set_unwraps b_unwraps a_bal]. rewrite tget_tput, bytes_eqb_refl.
      repeat split; auto; try lia.
  Qed.

  (* a request that is redeemed or revoked is closed: no Redeem of it is applied, in whatever state of the rest *)
  Definition closed (st : bstore) (k : bytes) : Prop :=
    exists r, tget (b_unwraps st) k = Some r /\ (0 < u_redeemed r \/ 0 < u_revoked r).

  Theorem redeem_closed_refused e (a : cacct bstore) s tx log :
    redeem_validate s = VOk (tx, log) -> closed (a_store a) (unwrap_key tx log) ->
    forall a' ds, redeem_receive e a s <> MOk a' ds.
  Proof.
    intros Ev (r & Eg & Hc) a' ds H.
    destruct (redeem_guard e a a' s ds H) as (tx' & log' & req & _ & _ & Ev' & Eg' & H1 & H2 & _).
    rewrite Ev in Ev'. inversion Ev'; subst tx' log'. rewrite Eg in Eg'. inversion Eg'; subst req. lia.
  Qed.

  (* never twice: after a successful Redeem the same request cannot be redeemed again *)
  Theorem redeem_never_twice e e' (a a' : cacct bstore) s s2 ds tx log :
    redeem_receive e a s = MOk a' ds -> redeem_validate s = VOk (tx, log) -> redeem_validate s2 = VOk (tx, log) ->
    forall a'' ds2, redeem_receive e' a' s2 <> MOk a'' ds2.
  Proof.
    intros H Ev Ev2. apply redeem_closed_refused with (tx := tx) (log := log); [exact Ev2|].
    destruct (redeem_guard e a a' s ds H) as (tx' & log' & req & _ & _ & Ev' & _ & _ & _ & _ & _ & _ & _ & _ & _ & Hg & _).
    rewrite Ev in Ev'. inversion Ev'; subst tx' log'. exists (redeemed_of req). split; [exact Hg|]. left. cbn. lia.
  Qed.

  (* RevokeUnwrapRequest: only the administrator, only an existing request; afterwards it is closed *)
  Theorem revoke_guard (a a' : cacct bstore) s ds :
    revoke_receive a s = MOk a' ds ->
    exists tx log req, revoke_validate s = VOk (tx, log) /\ tget (b_unwraps (a_store a)) (unwrap_key tx log) = Some req /\
      s_from s = b_admin (a_store a) /\ ds = [] /\ a_bal a' = a_bal a /\
      tget (b_unwraps (a_store a')) (unwrap_key tx log) = Some (revoked_of req).
  Proof.
    unfold revoke_receive. destruct (revoke_validate s) as [[tx log]| |] eqn:Ev; try discriminate.
    destruct (tget (b_unwraps (a_store a)) (unwrap_key tx log)) as [req|] eqn:Eg; [|discriminate].
    destruct (negb (bytes_eqb (s_from s) (b_admin (a_store a)))) eqn:Ea; [discriminate|].
    intros H; inv_ok H. apply negb_false_iff, bytes_eqb_eq in Ea. exists tx, log, req.
    cbn [a_store with_store set_unwraps b_unwraps a_bal]. rewrite tget_tput, bytes_eqb_refl. repeat split; auto.
  Qed.
  Theorem revoked_never_redeemed e' (a a' : cacct bstore) s s2 ds tx log :
    revoke_receive a s = MOk a' ds -> revoke_validate s = VOk (tx, log) -> redeem_validate s2 = VOk (tx, log) ->
    forall a'' ds2, redeem_receive e' a' s2 <> MOk a'' ds2.
  Proof.
    intros H Ev Ev2. apply redeem_closed_refused with (tx := tx) (log := log); [exact Ev2|].
    destruct (revoke_guard a a' s ds H) as (tx' & log' & req & Ev' & _ & _ & _ & _ & Hg).
    rewrite Ev in Ev'. inversion Ev'; subst tx' log'. exists (revoked_of req). split; [exact Hg|]. right. cbn. lia.
  Qed.

End Guards.

Section UnwrapGuard.
  Variable zstr : bytes -> bytes.
  Variable sigcheck : send -> Z.

  (* UnwrapToken: a request is registered only with a valid TSS signature, on an initialised bridge that is not halted,
     for a redeemable pair, under a fresh (txHash, logIndex); it records the recipient and amount carried by the call *)
  Theorem unwrap_guard e (a a' : cacct bstore) s ds :
    unwrap_receive zstr sigcheck e a s = MOk a' ds ->
    exists class chain tx log to tok amount sig nw p,
      unwrap_validate s = VOk (class, chain, tx, log, to, tok, amount, sig) /\
      sigcheck s = 0 /\ can_perform (a_store a) (e_height e) = None /\
      tget (b_unwraps (a_store a)) (unwrap_key tx log) = None /\
      get_network (a_store a) class chain = Some nw /\ find_pair_unwrap zstr (nw_pairs nw) (to_lower tok) = Some p /\ tp_redeemable p = true /\
      ds = [] /\ a_bal a' = a_bal a /\
      tget (b_unwraps (a_store a')) (unwrap_key tx log) =
        Some {| u_reg := e_height e; u_class := class; u_chain := chain; u_to := to; u_tokaddr := to_lower tok; u_zts := tp_zts p;
                u_amount := amount; u_sig := sig; u_redeemed := 0; u_revoked := 0 |}.
  Proof.
    unfold unwrap_receive. destruct (unwrap_validate s) as [[[[[[[[class chain] tx] log] to] tok] amount] sig]| |] eqn:Ev; try discriminate.
    destruct (can_perform (a_store a) (e_height e)) eqn:Ec; [discriminate|].
    destruct (tget (b_unwraps (a_store a)) (unwrap_key tx log)) eqn:Eg; [discriminate|].
    destruct (get_network (a_store a) class chain) as [nw|] eqn:En; [|discriminate].
    destruct (find_pair_unwrap zstr (nw_pairs nw) (to_lower tok)) as [p|] eqn:Ep; [|discriminate].
    destruct (negb (tp_redeemable p)) eqn:Er; [discriminate|].
    destruct (negb (sigcheck s =? 0)) eqn:Es; [discriminate|].
    intros H; inv_ok H. exists class, chain, tx, log, to, tok, amount, sig, nw, p.
    cbn [a_store with_store set_unwraps b_unwraps a_bal]. rewrite tget_tput, bytes_eqb_refl.
    apply negb_false_iff in Er. apply negb_false_iff in Es. repeat split; auto; lia.
  Qed.
End UnwrapGuard.

(* ---------------------------------------------------------------- the method table; closed requests stay closed *)
Section Tables.
  Variable dc : dsend -> option Z.
  Variable zstr : bytes -> bytes.
  Variable sigcheck : send -> Z.

  Definition bridge_lookup (ef : send -> env) (s : send) : lres bstore :=
    let sel := sel_of (s_data s) in
    if bytes_eqb sel Sel_bridge_UnwrapToken then LFound (unwrap_receive zstr sigcheck (ef s))
    else if bytes_eqb sel Sel_bridge_Redeem then LFound (redeem_receive (ef s))
    else if bytes_eqb sel Sel_bridge_RevokeUnwrapRequest then LFound revoke_receive
    else LNotFound.

  (* amounts of requests are not negative; no token pair is on the zero token standard (SetTokenPair refuses it) *)
  Definition J_bridge (a : cacct bstore) : Prop :=
    tall (fun r => 0 <= u_amount r) (b_unwraps (a_store a)) /\
    tall (fun nw => Forall (fun p => tp_zts p <> zero_zts) (nw_pairs nw)) (b_networks (a_store a)).

  Ltac br_cases El :=
    unfold bridge_lookup in El; cbv zeta in El;
    repeat (match type of El with context [bytes_eqb ?x ?y] => destruct (bytes_eqb x y) end;
            [inversion El; subst; clear El|]); try discriminate.

  Lemma get_network_some st class chain nw : get_network st class chain = Some nw ->
    tget (b_networks st) (net_key class chain) = Some nw.
  Proof. unfold get_network. destruct (tget _ _) as [n|]; [|discriminate]. destruct (_ =? _); [discriminate|]. intros H; inversion H; reflexivity. Qed.

  Lemma bridge_table_ok ef : table_ok bstore dc J_bridge (bridge_lookup ef).
  Proof.
    split.
    - intros a a' HJ Hs _. unfold J_bridge in *. rewrite Hs. exact HJ.
    - intros s. unfold bridge_lookup. cbv zeta. repeat destruct (bytes_eqb _ _); discriminate.
    - intros s m a El HJ Hn Hs. assert (Hd : data_ok (s_data s)) by (split; apply Hs). br_cases El.
      + unfold unwrap_receive. pose proof (unwrap_validate_no_panic s Hd).
        destruct (unwrap_validate s) as [[[[[[[[class chain] tx] log] to] tok] amount] sig]| |]; [|discriminate|contradiction].
        destruct (can_perform _ _); [discriminate|]. destruct (tget _ _); [discriminate|].
        destruct (get_network _ _ _); [|discriminate]. destruct (find_pair_unwrap _ _ _); [|discriminate].
        destruct (negb _); [discriminate|]. destruct (negb _); discriminate.
      + unfold redeem_receive. pose proof (redeem_validate_no_panic s Hd).
        destruct (redeem_validate s) as [[tx log]| |]; [|discriminate|contradiction].
        destruct (can_perform _ _); [discriminate|]. destruct (tget _ _); [|discriminate].
        destruct (_ || _); [discriminate|]. destruct (get_network _ _ _); [|discriminate].
        destruct (find_pair_redeem _ _); [|discriminate]. destruct (_ <? _); [discriminate|].
        destruct (tp_owned _); [discriminate|]. destruct (_ <? _); discriminate.
      + unfold revoke_receive. pose proof (revoke_validate_no_panic s Hd).
        destruct (revoke_validate s) as [[tx log]| |]; [|discriminate|contradiction].
        destruct (tget _ _); [|discriminate]. destruct (negb _); discriminate.
    - intros s m a a' ds El (HJ1 & HJ2) Hn Hs Em.
      pose proof (credited_nonneg bstore a s Hn Hs) as Hnc. br_cases El.
      + destruct (unwrap_guard zstr sigcheck (ef s) _ a' s ds Em)
          as (class & chain & tx & log & to & tok & amount & sig & nw & p & Ev & _ & _ & _ & _ & _ & _ & Hds & _ & _).
        subst ds. unfold unwrap_receive in Em. rewrite Ev in Em.
        destruct (can_perform _ _); [discriminate|]. destruct (tget _ _); [discriminate|].
        destruct (get_network _ _ _); [|discriminate]. destruct (find_pair_unwrap _ _ _); [|discriminate].
        destruct (negb _); [discriminate|]. destruct (negb _); [discriminate|]. inversion Em; subst a'. clear Em.
        split; [|split; [|split]]; auto.
        intros a'' Ea. inversion Ea; subst a''. unfold J_bridge. cbn [a_store with_store set_unwraps b_unwraps b_networks]. rewrite ?credited_store.
        split; [|exact HJ2]. apply tall_tput; [exact HJ1|]. cbn. destruct (unwrap_validate_amount _ _ _ _ _ _ _ _ _ Ev). lia.
      + destruct (redeem_guard (ef s) _ a' s ds Em)
          as (tx & log & req & nw & p & Ev & Eg & _ & _ & _ & En & Ep & _ & _ & Hds & _ & _).
        rewrite credited_store in Eg, En.
        assert (Hreq : 0 <= u_amount req) by (apply (HJ1 _ _ Eg)).
        assert (Hp : tp_zts p <> zero_zts).
        { apply get_network_some in En. pose proof (HJ2 _ _ En) as Hf. rewrite Forall_forall in Hf.
          unfold find_pair_redeem in Ep. apply find_some in Ep. apply Hf. apply Ep. }
        assert (Hdsok : Forall ds_ok ds).
        { subst ds. constructor; [|constructor]. unfold redeem_payout. destruct (tp_owned p); split; cbn; try lia; intros; auto; lia. }
        unfold redeem_receive in Em. rewrite Ev in Em.
        destruct (can_perform _ _); [discriminate|]. rewrite credited_store in Em. rewrite Eg in Em.
        destruct (_ || _); [discriminate|]. rewrite En, Ep in Em. destruct (_ <? _); [discriminate|].
        assert (Ha' : a' = with_store (credited bstore a s) (set_unwraps (a_store a) (tput (b_unwraps (a_store a)) (unwrap_key tx log) (redeemed_of req)))).
        { destruct (tp_owned p); [inversion Em; reflexivity|]. destruct (_ <? _); [discriminate|]. inversion Em; reflexivity. }
        subst a'.
        split; [auto|]. split; [apply with_store_nonneg; exact Hnc|]. split; [exact Hdsok|].
        intros a'' Ea. unfold J_bridge.
        rewrite (apply_all_store bstore dc _ _ a'' (with_store_nonneg bstore _ _ Hnc) Hdsok Ea).
        cbn [a_store with_store set_unwraps b_unwraps b_networks].
        split; [|exact HJ2]. apply tall_tput; [exact HJ1|]. cbn. exact Hreq.
      + destruct (revoke_guard _ a' s ds Em) as (tx & log & req & Ev & Eg & _ & Hds & _ & _).
        rewrite credited_store in Eg. subst ds.
        unfold revoke_receive in Em. rewrite Ev in Em. rewrite credited_store in Em. rewrite Eg in Em.
        destruct (negb _); [discriminate|]. inversion Em; subst a'. clear Em.
        split; [|split; [|split]]; auto.
        intros a'' Ea. inversion Ea; subst a''. unfold J_bridge. cbn [a_store with_store set_unwraps b_unwraps b_networks].
        split; [|exact HJ2]. apply tall_tput; [exact HJ1|]. cbn. apply (HJ1 _ _ Eg).
  Qed.

  (* no modelled method re-opens a closed request *)
  Lemma closed_tput st k k' r : closed st k -> (k' = k -> 0 < u_redeemed r \/ 0 < u_revoked r) ->
    closed (set_unwraps st (tput (b_unwraps st) k' r)) k.
  Proof.
    intros (r0 & Eg & Hc) Hk. unfold closed. cbn [set_unwraps b_unwraps]. rewrite tget_tput.
    destruct (bytes_eqb k' k) eqn:E.
    - apply bytes_eqb_eq in E. exists r. split; [reflexivity|apply Hk; exact E].
    - exists r0. split; assumption.
  Qed.

  Lemma bridge_closed_table_ok ef k :
    table_ok bstore dc (fun a => J_bridge a /\ closed (a_store a) k) (bridge_lookup ef).
  Proof.
    apply table_ok_strengthen; [apply bridge_table_ok| |].
    - intros a a' Hc Hs _. rewrite Hs. exact Hc.
    - intros s m a a' ds a'' El HJ Hc Hn Hs Em Hn' Hds Ea.
      rewrite (apply_all_store bstore dc _ _ a'' Hn' Hds Ea). br_cases El.
      + destruct (unwrap_guard zstr sigcheck (ef s) _ a' s ds Em)
          as (class & chain & tx & log & to & tok & amount & sig & nw & p & Ev & _ & _ & Eg & _ & _ & _ & _ & _ & _).
        rewrite credited_store in Eg.
        unfold unwrap_receive in Em. rewrite Ev in Em. rewrite ?credited_store in Em.
        destruct (can_perform _ _); [discriminate|]. rewrite Eg in Em.
        destruct (get_network _ _ _); [|discriminate]. destruct (find_pair_unwrap _ _ _); [|discriminate].
        destruct (negb _); [discriminate|]. destruct (negb _); [discriminate|]. inversion Em; subst a'. clear Em.
        cbn [a_store with_store]. rewrite ?credited_store. apply closed_tput; [exact Hc|].
        intros Hk. exfalso. rewrite <- Hk in Hc. destruct Hc as (r0 & Eg0 & _). congruence.
      + destruct (redeem_guard (ef s) _ a' s ds Em) as (tx & log & req & nw & p & _ & _ & _ & _ & _ & _ & _ & _ & _ & _ & Hg & _).
        (* the store after: the request is marked redeemed, everything else as before *)
        unfold redeem_receive in Em. destruct (redeem_validate s) as [[tx' log']| |]; try discriminate.
        destruct (can_perform _ _); [discriminate|]. rewrite credited_store in Em.
        destruct (tget (b_unwraps (a_store a)) (unwrap_key tx' log')) as [req'|]; [|discriminate].
        destruct (_ || _); [discriminate|]. destruct (get_network _ _ _); [|discriminate].
        destruct (find_pair_redeem _ _) as [p'|]; [|discriminate]. destruct (_ <? _); [discriminate|].
        assert (Ha' : a_store a' = set_unwraps (a_store a) (tput (b_unwraps (a_store a)) (unwrap_key tx' log') (redeemed_of req'))).
        { destruct (tp_owned p'); [inversion Em; reflexivity|]. destruct (_ <? _); [discriminate|]. inversion Em; reflexivity. }
        rewrite Ha'. apply closed_tput; [exact Hc|]. intros _. left. cbn. lia.
      + unfold revoke_receive in Em. destruct (revoke_validate s) as [[tx log]| |]; try discriminate.
        rewrite credited_store in Em.
        destruct (tget (b_unwraps (a_store a)) (unwrap_key tx log)) as [req|]; [|discriminate].
        destruct (negb _); [discriminate|]. inversion Em; subst a'. clear Em.
        cbn [a_store with_store]. apply closed_tput; [exact Hc|]. intros _. right. cbn. lia.
  Qed.

  (* along every history of the modelled bridge calls: every call gets its receive block, and a request that is
     redeemed or revoked stays so - hence (redeem_closed_refused) it is never paid again *)
  Theorem bridge_closed_history ef q a k : deliverable dc q -> nonneg bstore a -> J_bridge a -> closed (a_store a) k ->
    exists a', process_all bstore dc (bridge_lookup ef) a q = Some a' /\ J_bridge a' /\ closed (a_store a') k.
  Proof.
    intros Hq Hn HJ Hc.
    destruct (inbox_never_wedged bstore dc _ (bridge_lookup ef) q (bridge_closed_table_ok ef k) Hq a Hn (conj HJ Hc))
      as (a' & E & _ & _ & HJ' & Hc'). eauto.
  Qed.
End Tables.
