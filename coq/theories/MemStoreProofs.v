From ZV Require Import Prelude.
From stdpp Require Import gmap sorting.
From ZV Require Import Store StoreSpec StoreProofs MemStore.
Open Scope Z_scope.

(* a commit on any parent other than the frontier is refused and changes nothing *)
Lemma mm_stale_refused m prev inter headc p : prev <> mm_front m -> mm_add m prev inter headc p = (m, false).
Proof. intros H. unfold mm_add. apply ident_eqb_false in H. by rewrite H. Qed.

Lemma me_find_app l1 l2 i :
  me_find (l1 ++ l2) i = match me_find l1 i with Some e => Some e | None => me_find l2 i end.
Proof. induction l1 as [|e l1 IH]; cbn [app me_find]; [done|]. by destruct (ident_eqb (me_id e) i). Qed.

Lemma me_find_filter_keep l (f : mentry -> bool) i :
  (forall e, me_id e = i -> f e = true) -> me_find (List.filter f l) i = me_find l i.
Proof.
  intros Hf. induction l as [|e l IH]; [done|]. cbn [List.filter me_find].
  destruct (ident_eqb (me_id e) i) eqn:E.
  - pose proof (proj1 (ident_eqb_true _ _) E) as Heq. rewrite (Hf e Heq). cbn [me_find]. by rewrite E.
  - destruct (f e); cbn [me_find]; by rewrite ?E.
Qed.

Lemma me_find_map_none (inter : list ((list Z * Z) * list Z)) st i :
  i ∉ map fst inter -> me_find (map (fun c => ME (fst c) None st []) inter) i = None.
Proof.
  induction inter as [|c r IH]; intros H; [done|]. cbn [map] in *. apply not_elem_of_cons in H as [Hne H].
  cbn [me_find me_id]. rewrite (proj2 (ident_eqb_false (fst c) i)) by done. by apply IH.
Qed.

(* a successful commit: the new head shows the previous state plus the patch (and the frontier keys); every
   version whose identifier is not one of the transaction's commits is untouched *)
Lemma mm_add_spec m inter headc p st :
  mm_state m (mm_front m) = Some st ->
  let full := p ++ concat (map (fun c => frontier_ops (fst c) (snd c)) (inter ++ [headc])) in
  exists m', mm_add m (mm_front m) inter headc p = (m', true) /\ mm_front m' = fst headc /\
    mm_stable_id m' = mm_stable_id m /\
    mm_state m' (fst headc) = Some (abs_apply st full) /\
    (forall i, i ∉ map fst (inter ++ [headc]) -> mm_state m' i = mm_state m i).
Proof.
  intros Hst full. unfold mm_add. unfold ident_eqb at 1. rewrite bool_decide_true by done. cbn [negb]. rewrite Hst.
  eexists. split; [reflexivity|]. split; [done|]. split; [done|]. split.
  - unfold mm_state. cbn [mm_versions me_find me_id]. unfold ident_eqb. by rewrite bool_decide_true.
  - intros i Hi. rewrite map_app in Hi. cbn [map] in Hi. apply not_elem_of_app in Hi as [Hi1 Hi2].
    apply not_elem_of_cons in Hi2 as [Hi2 _].
    unfold mm_state. cbn [mm_versions mm_stable_id mm_stable me_find me_id].
    rewrite (proj2 (ident_eqb_false (fst headc) i)) by done.
    rewrite me_find_app, me_find_map_none by done.
    rewrite me_find_filter_keep; [done|].
    intros e He. apply negb_true_iff. apply not_true_iff_false. intros Hex.
    apply existsb_exists in Hex as (c & Hc & Hcid). apply ident_eqb_true in Hcid.
    apply in_app_or in Hc as [Hc|[<-|[]]].
    + apply Hi1. apply elem_of_list_fmap. exists c. split; [congruence|by apply elem_of_list_In].
    + congruence.
Qed.

Lemma mm_add_unfold m inter headc p st :
  mm_state m (mm_front m) = Some st ->
  mm_add m (mm_front m) inter headc p =
  (let commits := inter ++ [headc] in
   let full := p ++ concat (map (fun c => frontier_ops (fst c) (snd c)) commits) in
   let st' := abs_apply st full in
   MM (mm_stable_id m) (mm_stable m) (fst headc)
      (ME (fst headc) (Some (mm_front m)) st' full :: map (fun c => ME (fst c) None st' []) inter ++
       List.filter (fun e => negb (existsb (fun c => ident_eqb (fst c) (me_id e)) commits)) (mm_versions m)), true).
Proof.
  intros Hst. unfold mm_add. unfold ident_eqb at 1. rewrite bool_decide_true by done. cbn [negb]. by rewrite Hst.
Qed.

(* rolling back the head commit of a transaction returns to its parent, whose state is what it was *)
Lemma mm_add_pop m inter headc p st :
  mm_state m (mm_front m) = Some st -> fst headc <> mm_stable_id m -> mm_front m ∉ map fst (inter ++ [headc]) ->
  exists m1 m2, mm_add m (mm_front m) inter headc p = (m1, true) /\ mm_pop m1 = (m2, true) /\
    mm_front m2 = mm_front m /\ mm_state m2 (mm_front m) = Some st.
Proof.
  intros Hst Hns Hfresh. rewrite (mm_add_unfold m inter headc p st Hst). cbv zeta.
  eexists. eexists. split; [reflexivity|].
  unfold mm_pop. cbn [mm_front mm_stable_id mm_versions me_find me_id].
  rewrite (proj2 (ident_eqb_false _ _) Hns).
  rewrite (proj2 (ident_eqb_true (fst headc) (fst headc)) eq_refl). cbn [me_prev].
  split; [reflexivity|]. split; [done|].
  cbn [me_remove me_id]. rewrite (proj2 (ident_eqb_true (fst headc) (fst headc)) eq_refl).
  unfold mm_state. cbn [mm_versions mm_stable_id mm_stable].
  rewrite map_app in Hfresh. cbn [map] in Hfresh. apply not_elem_of_app in Hfresh as [Hf1 Hf2].
  rewrite me_find_app, me_find_map_none by done.
  rewrite me_find_filter_keep.
  - unfold mm_state in Hst. exact Hst.
  - intros e He. apply negb_true_iff. apply not_true_iff_false. intros Hex.
    apply existsb_exists in Hex as (c & Hc & Hcid). apply ident_eqb_true in Hcid.
    apply in_app_or in Hc as [Hc|[<-|[]]].
    + apply Hf1. apply elem_of_list_fmap. exists c. split; [congruence|by apply elem_of_list_In].
    + apply Hf2. rewrite Hcid, He. apply elem_of_list_here.
Qed.
