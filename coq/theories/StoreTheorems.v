(* Consequences of the refinement theorem, stated about the model's runs (run st_init ops) for arbitrary
   operation sequences: view exactness and stability, locality of writes, refusal of stale parents, rollback as
   an exact inverse, branch switches, change sets. *)
From ZV Require Import Prelude.
From stdpp Require Import gmap sorting.
From ZV Require Import Store StoreSpec StoreProofs.
Open Scope Z_scope.

Definition afinal (a : astate) (ops : list op) : astate := foldl (fun a o => fst (astep a o)) a ops.

Lemma arun_app a l1 l2 : arun a (l1 ++ l2) = arun a l1 ++ arun (afinal a l1) l2.
Proof.
  revert a; induction l1 as [|o l1 IH]; intros a; [done|].
  cbn [app arun afinal foldl]. destruct (astep a o) as [a' x] eqn:E. cbn [fst]. by rewrite IH.
Qed.
Lemma afinal_app a l1 l2 : afinal a (l1 ++ l2) = afinal (afinal a l1) l2.
Proof. unfold afinal. apply foldl_app. Qed.
Lemma arun_length a ops : length (arun a ops) = length ops.
Proof.
  revert a; induction ops as [|o ops IH]; intros a; [done|]. cbn [arun]. destruct (astep a o). cbn. by rewrite IH.
Qed.

(* the answer of the last operation of a sequence *)
Definition last_ans (l : list ans) : option ans := last l.
Lemma arun_last a ops o : last_ans (arun a (ops ++ [o])) = Some (snd (astep (afinal a ops) o)).
Proof.
  rewrite arun_app. cbn [arun]. destruct (astep (afinal a ops) o) as [a' x]. cbn [snd].
  unfold last_ans. by rewrite last_snoc.
Qed.

(* --- a root view is a value: operations that do not write to its slot cannot change it.
   A write reaches slot v directly, or through a Subset of v (a window, writes go to the parent); so "no
   subset of v exists" is carried along as an invariant. *)
Definition not_slot (v : Z) (o : op) : Prop :=
  match o with
  | OGet v' _ | OVPut v' _ _ | OVDel v' _ | OVApply v' _ | OVSnap _ v' => v' <> v
  | OVSub src nv _ => src <> v /\ nv <> v
  | _ => True
  end.
Definition no_sub_of (v : Z) (vs : avtable) : Prop := forall x pre p, vs !! x = Some (ASub pre p) -> p <> v.

Lemma no_sub_insert v vs x n : no_sub_of v vs -> (forall pre p, n = ASub pre p -> p <> v) -> no_sub_of v (<[x := n]> vs).
Proof.
  intros H Hn x' pre p Hl. destruct (decide (x = x')) as [<-|Hne].
  - rewrite lookup_insert in Hl. injection Hl as ->. by eapply Hn.
  - rewrite lookup_insert_ne in Hl by done. by eapply H.
Qed.
Lemma no_sub_delete v vs x : no_sub_of v vs -> no_sub_of v (delete x vs).
Proof.
  intros H x' pre p Hl. destruct (decide (x = x')) as [<-|Hne].
  - by rewrite lookup_delete in Hl.
  - rewrite lookup_delete_ne in Hl by done. by eapply H.
Qed.

Lemma awrite_f_other fuel : forall vs x k val v, no_sub_of v vs -> x <> v ->
  awrite_f fuel vs x k val !! v = vs !! v /\ no_sub_of v (awrite_f fuel vs x k val).
Proof.
  induction fuel as [|f IH]; intros vs x k val v Hns Hne; [done|]. cbn [awrite_f].
  destruct (vs !! x) as [n|] eqn:E; [|done].
  destruct n as [la Sm|la p|pre p].
  - split; [by rewrite lookup_insert_ne|]. apply no_sub_insert; [done|]. intros ? ? [=].
  - split; [by rewrite lookup_insert_ne|]. apply no_sub_insert; [done|]. intros ? ? [=].
  - apply IH; [done|]. by eapply Hns.
Qed.
Lemma awrite_other vs x k val v : no_sub_of v vs -> x <> v ->
  awrite vs x k val !! v = vs !! v /\ no_sub_of v (awrite vs x k val).
Proof. apply awrite_f_other. Qed.
Lemma awrite_fold_other p : forall vs x v, no_sub_of v vs -> x <> v ->
  foldl (fun vs o => awrite vs x (pkey o) (dec_op o)) vs p !! v = vs !! v /\
  no_sub_of v (foldl (fun vs o => awrite vs x (pkey o) (dec_op o)) vs p).
Proof.
  induction p as [|o p IH]; intros vs x v Hns Hne; [done|]. cbn [foldl].
  destruct (awrite_other vs x (pkey o) (dec_op o) v Hns Hne) as [H1 H2].
  destruct (IH _ x v H2 Hne) as [H3 H4]. split; [by rewrite H3|done].
Qed.

Lemma astep_keeps_slot a o v : no_sub_of v (a_views a) -> not_slot v o ->
  a_views (fst (astep a o)) !! v = a_views a !! v /\ no_sub_of v (a_views (fst (astep a o))).
Proof.
  intros Hns Hn. destruct a as [c vs]. destruct o; cbn [astep a_chain a_views not_slot] in *; try done.
  - by destruct (ident_eqb prev (a_front_id c)).
  - destruct (ident_eqb i zero_id); cbn [fst a_views].
    { split; [by rewrite lookup_insert_ne|]. apply no_sub_insert; [done|]. intros ? ? [=]. }
    destruct (a_find c i); cbn [fst a_views].
    + split; [by rewrite lookup_insert_ne|]. apply no_sub_insert; [done|]. intros ? ? [=].
    + split; [by rewrite lookup_delete_ne|]. by apply no_sub_delete.
  - cbn [fst a_views]. by apply awrite_other.
  - cbn [fst a_views]. by apply awrite_other.
  - cbn [fst a_views]. split; [by rewrite lookup_insert_ne|]. apply no_sub_insert; [done|]. intros ? ? [=].
  - cbn [fst a_views]. destruct Hn as [Hsrc Hnv]. split; [by rewrite lookup_insert_ne|].
    apply no_sub_insert; [done|]. intros ? ? [= _ <-]. done.
  - cbn [fst a_views]. by apply awrite_fold_other.
Qed.
Lemma afinal_keeps_slot a ops v : no_sub_of v (a_views a) -> Forall (not_slot v) ops ->
  a_views (afinal a ops) !! v = a_views a !! v /\ no_sub_of v (a_views (afinal a ops)).
Proof.
  revert a; induction ops as [|o ops IH]; intros a Hns H; [done|].
  apply Forall_cons in H as [Ho Hr]. cbn [afinal foldl]. fold (afinal (fst (astep a o)) ops).
  destruct (astep_keeps_slot a o v Hns Ho) as [H1 H2].
  destruct (IH _ H2 Hr) as [H3 H4]. split; [by rewrite H3|done].
Qed.

Lemma aget_root vs v la Sm : vs !! v = Some (ARoot la Sm) -> aget vs v = overlay la Sm.
Proof. intros H. unfold aget, afuel. cbn [acontent]. by rewrite H. Qed.

(* opening a view at a commit of the chain yields the content the store had when that commit was the frontier *)
Lemma open_exact a v i e : a_find (a_chain a) i = Some e -> i <> zero_id ->
  a_views (fst (astep a (OGet v i))) !! v = Some (ARoot ∅ (ce_state e)).
Proof.
  intros Hf Hz. destruct a as [c vs]. cbn [astep a_chain a_views] in *.
  apply ident_eqb_false in Hz. rewrite Hz, Hf. cbn [fst a_views]. apply lookup_insert.
Qed.

Lemma open_keeps_no_sub a v i : no_sub_of v (a_views a) -> no_sub_of v (a_views (fst (astep a (OGet v i)))).
Proof.
  intros Hns. destruct a as [c vs]. cbn [astep a_chain a_views] in *.
  destruct (ident_eqb i zero_id); cbn [fst a_views]; [apply no_sub_insert; [done|]; intros ? ? [=]|].
  destruct (a_find c i); cbn [fst a_views]; [apply no_sub_insert; [done|]; intros ? ? [=]|by apply no_sub_delete].
Qed.

(* Theorem (view exactness, for every history): whatever happened before [pre], whatever happens after the
   view was opened [post: commits on the frontier or on stale parents, rollbacks, evictions, other views], a
   lookup through a view opened at commit i answers with the content the store had when i was the frontier. *)
Theorem view_get_exact pre v i post k e :
  let ops := pre ++ [OGet v i] ++ post ++ [OVGet v k] in
  wf_ops ast_init ops ->
  a_find (a_chain (afinal ast_init pre)) i = Some e -> i <> zero_id ->
  no_sub_of v (a_views (afinal ast_init pre)) -> Forall (not_slot v) post ->
  last_ans (run st_init ops) = Some (AOpt (ce_state e !! k)).
Proof.
  intros ops Hwf Hf Hz Hns Hpost. subst ops. rewrite store_refines_spec by done.
  rewrite !app_assoc. rewrite arun_last. rewrite <- !app_assoc.
  rewrite afinal_app. cbn [afinal foldl app]. fold (afinal (fst (astep (afinal ast_init pre) (OGet v i))) post).
  set (a1 := fst (astep (afinal ast_init pre) (OGet v i))).
  assert (H1 : a_views (afinal a1 post) !! v = Some (ARoot ∅ (ce_state e))).
  { destruct (afinal_keeps_slot a1 post v (open_keeps_no_sub _ v i Hns) Hpost) as [-> _]. by apply open_exact. }
  destruct (afinal a1 post) as [c2 vs2]. cbn [astep snd a_views] in *.
  by rewrite (aget_root _ _ _ _ H1), overlay_empty.
Qed.

Theorem view_has_exact pre v i post k e :
  let ops := pre ++ [OGet v i] ++ post ++ [OVHas v k] in
  wf_ops ast_init ops ->
  a_find (a_chain (afinal ast_init pre)) i = Some e -> i <> zero_id ->
  no_sub_of v (a_views (afinal ast_init pre)) -> Forall (not_slot v) post ->
  last_ans (run st_init ops) = Some (ABool (match ce_state e !! k with Some _ => true | None => false end)).
Proof.
  intros ops Hwf Hf Hz Hns Hpost. subst ops. rewrite store_refines_spec by done.
  rewrite !app_assoc. rewrite arun_last. rewrite <- !app_assoc.
  rewrite afinal_app. cbn [afinal foldl app]. fold (afinal (fst (astep (afinal ast_init pre) (OGet v i))) post).
  set (a1 := fst (astep (afinal ast_init pre) (OGet v i))).
  assert (H1 : a_views (afinal a1 post) !! v = Some (ARoot ∅ (ce_state e))).
  { destruct (afinal_keeps_slot a1 post v (open_keeps_no_sub _ v i Hns) Hpost) as [-> _]. by apply open_exact. }
  destruct (afinal a1 post) as [c2 vs2]. cbn [astep snd a_views] in *.
  by rewrite (aget_root _ _ _ _ H1), overlay_empty.
Qed.

Theorem view_scan_exact pre v i post p e :
  let ops := pre ++ [OGet v i] ++ post ++ [OVScan v p] in
  wf_ops ast_init ops ->
  a_find (a_chain (afinal ast_init pre)) i = Some e -> i <> zero_id ->
  no_sub_of v (a_views (afinal ast_init pre)) -> Forall (not_slot v) post ->
  last_ans (run st_init ops) = Some (AScan (ascan (ce_state e) p)).
Proof.
  intros ops Hwf Hf Hz Hns Hpost. subst ops. rewrite store_refines_spec by done.
  rewrite !app_assoc. rewrite arun_last. rewrite <- !app_assoc.
  rewrite afinal_app. cbn [afinal foldl app]. fold (afinal (fst (astep (afinal ast_init pre) (OGet v i))) post).
  set (a1 := fst (astep (afinal ast_init pre) (OGet v i))).
  assert (H1 : a_views (afinal a1 post) !! v = Some (ARoot ∅ (ce_state e))).
  { destruct (afinal_keeps_slot a1 post v (open_keeps_no_sub _ v i Hns) Hpost) as [-> _]. by apply open_exact. }
  destruct (afinal a1 post) as [c2 vs2]. cbn [astep snd a_views] in *.
  by rewrite (aget_root _ _ _ _ H1), overlay_empty.
Qed.

(* what an ordered prefix scan of a content is: sorted by key, exactly the entries with that prefix *)
Lemma lex_leb_total a b : lex_leb a b = true \/ lex_leb b a = true.
Proof.
  revert b; induction a as [|x a IH]; intros [|y b]; cbn [lex_leb]; auto.
  destruct (x <? y) eqn:E1; [auto|]. destruct (y <? x) eqn:E2; [auto|]. apply IH.
Qed.
Global Instance kv_le_total : Total kv_le.
Proof. intros a b. apply lex_leb_total. Qed.

Lemma ascan_spec Sm p : Sorted kv_le (ascan Sm p) /\
  forall k x, (k, x) ∈ ascan Sm p <-> has_prefix p k = true /\ Sm !! k = Some x.
Proof.
  split; [apply Sorted_merge_sort, _|].
  intros k x. unfold ascan. rewrite merge_sort_Permutation.
  rewrite elem_of_list_In, filter_In, <- elem_of_list_In, elem_of_map_to_list. cbn [fst]. tauto.
Qed.

(* --- a commit on a stale parent changes nothing *)
Theorem stale_parent_refused pre prev cid data p post :
  prev <> a_front_id (a_chain (afinal ast_init pre)) ->
  wf_ops ast_init (pre ++ [OAdd prev cid data p] ++ post) -> wf_ops ast_init (pre ++ post) ->
  skipn (S (length pre)) (run st_init (pre ++ [OAdd prev cid data p] ++ post)) =
  skipn (length pre) (run st_init (pre ++ post)).
Proof.
  intros Hstale Hwf1 Hwf2. rewrite !store_refines_spec by done.
  rewrite !arun_app. rewrite !drop_app_ge by (rewrite arun_length; lia).
  rewrite !arun_length. replace (length pre - length pre)%nat with 0%nat by lia.
  replace (S (length pre) - length pre)%nat with 1%nat by lia.
  cbn [app arun afinal foldl]. apply ident_eqb_false in Hstale.
  destruct (afinal ast_init pre) as [c vs] eqn:E. cbn [astep a_chain a_views] in *. rewrite Hstale.
  cbn [fst skipn drop app]. rewrite drop_app_ge by (rewrite arun_length; lia).
  by rewrite arun_length, Nat.sub_diag.
Qed.

(* --- rolling back a commit restores exactly the state before it (for every later observation) *)
Lemma add_pop_inverse a cid data p :
  afinal a [OAdd (a_front_id (a_chain a)) cid data p; OPop] = a.
Proof.
  destruct a as [c vs]. cbn [afinal foldl astep a_chain a_views fst].
  unfold ident_eqb. rewrite bool_decide_true by done. done.
Qed.

Theorem pop_inverse pre cid data p post :
  let prev := a_front_id (a_chain (afinal ast_init pre)) in
  wf_ops ast_init (pre ++ [OAdd prev cid data p; OPop] ++ post) -> wf_ops ast_init (pre ++ post) ->
  skipn (S (S (length pre))) (run st_init (pre ++ [OAdd prev cid data p; OPop] ++ post)) =
  skipn (length pre) (run st_init (pre ++ post)).
Proof.
  intros prev Hwf1 Hwf2. rewrite !store_refines_spec by done.
  rewrite !arun_app. rewrite !drop_app_ge by (rewrite arun_length; lia).
  rewrite !arun_length. replace (length pre - length pre)%nat with 0%nat by lia.
  replace (S (S (length pre)) - length pre)%nat with 2%nat by lia.
  rewrite (drop_app_ge (arun (afinal ast_init pre) [OAdd prev cid data p; OPop])) by (rewrite arun_length; cbn; lia).
  rewrite arun_length. cbn [length Nat.sub drop].
  rewrite drop_app_ge by (rewrite arun_length; lia). rewrite arun_length, Nat.sub_diag. cbn [drop].
  subst prev. by rewrite add_pop_inverse.
Qed.

(* --- switching branches: commits A then as many rollbacks leave no trace *)
Fixpoint on_frontier_adds (a : astate) (adds : list op) : Prop :=
  match adds with
  | [] => True
  | OAdd prev cid data p :: r => prev = a_front_id (a_chain a) /\ on_frontier_adds (fst (astep a (OAdd prev cid data p))) r
  | _ => False
  end.

Lemma branch_rollback a adds : on_frontier_adds a adds -> afinal a (adds ++ replicate (length adds) OPop) = a.
Proof.
  revert a; induction adds as [|o r IH]; intros a H; [done|].
  destruct o; try done. destruct H as [-> Hr].
  set (o := OAdd (a_front_id (a_chain a)) cid data p) in *.
  change (afinal a ((o :: r) ++ replicate (length (o :: r)) OPop))
    with (afinal (fst (astep a o)) (r ++ replicate (S (length r)) OPop)).
  rewrite replicate_S_end, app_assoc, afinal_app, IH by done.
  subst o. destruct a as [c vs]. cbn [afinal foldl astep a_chain a_views fst].
  unfold ident_eqb. rewrite bool_decide_true by done. done.
Qed.

Theorem switch_equiv pre branchA post :
  on_frontier_adds (afinal ast_init pre) branchA ->
  let detour := branchA ++ replicate (length branchA) OPop in
  wf_ops ast_init (pre ++ detour ++ post) -> wf_ops ast_init (pre ++ post) ->
  skipn (length pre + length detour) (run st_init (pre ++ detour ++ post)) =
  skipn (length pre) (run st_init (pre ++ post)).
Proof.
  intros HA detour Hwf1 Hwf2. rewrite !store_refines_spec by done.
  rewrite !arun_app. rewrite !drop_app_ge by (rewrite arun_length; lia).
  rewrite !arun_length. replace (length pre - length pre)%nat with 0%nat by lia.
  replace (length pre + length detour - length pre)%nat with (length detour) by lia.
  rewrite drop_app_ge by (rewrite arun_length; lia). rewrite arun_length, Nat.sub_diag. cbn [skipn drop].
  rewrite drop_app_ge by (rewrite arun_length; lia). rewrite arun_length, Nat.sub_diag. cbn [drop].
  subst detour. by rewrite branch_rollback.
Qed.

(* --- writes through a view: seen by the view, never by the manager or by another root view *)
Theorem view_write_local a v k x v' la Sm :
  v' <> v -> no_sub_of v' (a_views a) -> a_views a !! v' = Some (ARoot la Sm) ->
  a_chain (fst (astep a (OVPut v k x))) = a_chain a /\
  aget (a_views (fst (astep a (OVPut v k x)))) v' = overlay la Sm.
Proof.
  intros Hne Hns Hv'. split; [by destruct a|].
  apply aget_root. destruct (astep_keeps_slot a (OVPut v k x) v' Hns) as [-> _]; [|done]. cbn [not_slot]. done.
Qed.

Theorem view_write_seen a v k x la Sm :
  a_views a !! v = Some (ARoot la Sm) ->
  aget (a_views (fst (astep a (OVPut v k x)))) v !! k = Some x.
Proof.
  intros Hv. destruct a as [c vs]. cbn [astep a_views fst] in *. unfold awrite, afuel. cbn [awrite_f]. rewrite Hv.
  cbn [aset_local alocal_of].
  rewrite (aget_root _ v (<[k := Some x]> la) Sm) by apply lookup_insert.
  by rewrite overlay_lookup, lookup_insert.
Qed.

(* a direct snapshot of a view sees the view's writes (also later ones) unless it has overwritten the key itself *)
Theorem snapshot_sees_parent vs v nv la Sm lb k :
  v <> nv -> vs !! v = Some (ARoot la Sm) -> vs !! nv = Some (ASnap lb v) -> lb !! k = None ->
  aget vs nv !! k = aget vs v !! k.
Proof.
  intros Hne Hv Hnv Hk. unfold aget, afuel.
  assert (1 < size vs)%nat as Hsz.
  { rewrite <- (insert_id vs v _ Hv), <- (insert_delete_insert vs).
    rewrite map_size_insert_None by apply lookup_delete.
    assert (delete v vs !! nv = Some (ASnap lb v)) as Hd by (by rewrite lookup_delete_ne).
    assert (delete v vs <> ∅) as Hnz by (intros E; by rewrite E, lookup_empty in Hd).
    apply map_size_non_empty_iff in Hnz. lia. }
  destruct (size vs) as [|[|n]]; try lia.
  cbn [acontent]. rewrite Hnv, Hv. rewrite overlay_lookup, Hk. done.
Qed.

(* --- the change set of a view replays to exactly its writes, and is sorted by key *)
Lemma achanges_mem la o : o ∈ achanges la <-> la !! pkey o = Some (dec_op o).
Proof.
  unfold achanges. rewrite elem_of_list_fmap. split.
  - intros ([k ov] & -> & Hin). rewrite merge_sort_Permutation in Hin. apply elem_of_map_to_list in Hin.
    cbn [fst snd] in *. by destruct ov.
  - intros H. exists (pkey o, dec_op o). split.
    + by destruct o.
    + rewrite merge_sort_Permutation. by apply elem_of_map_to_list.
Qed.

Theorem changes_replay la Sm : abs_apply Sm (achanges la) = overlay la Sm.
Proof.
  apply map_eq; intros k. destruct (decide (k ∈ pkeys (achanges la))) as [Hin|Hnin].
  - rewrite (abs_apply_encodes (overlay la Sm)); [done| |done].
    apply Forall_forall. intros o Ho. apply achanges_mem in Ho. by rewrite overlay_lookup, Ho.
  - rewrite abs_apply_other by done. rewrite overlay_lookup.
    destruct (la !! k) as [ov|] eqn:E; [|done]. exfalso. apply Hnin.
    unfold pkeys. apply elem_of_list_fmap.
    exists (match ov with Some x => PPut k x | None => PDel k end). split; [by destruct ov|].
    apply achanges_mem. by destruct ov.
Qed.

Global Instance kvo_le_total : Total kvo_le.
Proof. intros a b. apply lex_leb_total. Qed.
Lemma changes_sorted la : Sorted (fun a b => lex_leb (pkey a) (pkey b) = true) (achanges la).
Proof.
  unfold achanges.
  assert (H : Sorted kvo_le (merge_sort kvo_le (map_to_list la))) by apply Sorted_merge_sort, _.
  induction H as [|kv l Hs IH Hhd]; [constructor|]. cbn [map]. constructor; [done|].
  destruct Hhd as [|kv' l' Hle]; constructor. unfold kvo_le in Hle. by destruct kv as [? []], kv' as [? []].
Qed.

(* a Subset(prefix) of a view is a window onto it: key k of the subset is key prefix++k of the view *)
Theorem subset_is_window vs v nv la Sm pre k :
  v <> nv -> vs !! v = Some (ARoot la Sm) -> vs !! nv = Some (ASub pre v) ->
  aget vs nv !! k = aget vs v !! (pre ++ k).
Proof.
  intros Hne Hv Hnv. unfold aget, afuel.
  assert (1 < size vs)%nat as Hsz.
  { rewrite <- (insert_id vs v _ Hv), <- (insert_delete_insert vs).
    rewrite map_size_insert_None by apply lookup_delete.
    assert (delete v vs !! nv = Some (ASub pre v)) as Hd by (by rewrite lookup_delete_ne).
    assert (delete v vs <> ∅) as Hnz by (intros E; by rewrite E, lookup_empty in Hd).
    apply map_size_non_empty_iff in Hnz. lia. }
  destruct (size vs) as [|[|n]]; try lia.
  cbn [acontent]. rewrite Hnv, Hv. by rewrite lookup_sub_map.
Qed.
