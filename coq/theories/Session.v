(* C15 — life cycle of an inbound peer connection and the timer that is armed in each phase.
   Mirrors: p2p/rlpx.go newRLPX (fd.SetDeadline(handshakeTimeout) covers the encryption AND the protocol handshake),
   rlpx.ReadMsg (SetReadDeadline(frameReadTimeout) before every frame), p2p/peer.go run / readLoop / pingLoop
   (a ping every pingInterval makes a live peer answer, so a connection stays open only while frames keep arriving),
   protocol/peer.go Handshake (waits for the remote status WITHOUT a timer of its own) and handler.go handle.
   Time is counted in seconds; `Tick` = one second passes without a complete message from the peer.
   The deadline component: `age` for the phases before the connection is a peer (one absolute deadline for both
   handshakes, HandshakeTimeoutSec after the accept, which no byte from the peer moves), `idle` afterwards. *)
From ZV Require Import Prelude GoSem.
From ZV.gen Require Import Consts.
Open Scope Z_scope.

Inductive phase := PEnc | PProto | PWaitStatus | PRunning | PClosed.
Inductive frame :=
| FProgress      (* the next well-formed handshake message of the transport *)
| FBase          (* pong or another base-protocol frame *)
| FStatusOk | FStatusBad
| FMsgOk | FMsgBad   (* a sub-protocol message that handleMsg accepts / answers with an error *)
| FGarbage       (* bad MAC, undecodable frame *)
| FPartial.      (* bytes that do not complete a message: part of an auth message, part of a frame (a peer that trickles) *)
Inductive event := Tick | Recv (f : frame).

(* age: seconds since the connection was accepted; idle: seconds since the last frame *)
Record conn := mkConn { ph : phase; age : Z; idle : Z }.

Definition step (c : conn) (e : event) : conn :=
  match ph c, e with
  | PClosed, _ => c
  | (PEnc | PProto), Tick =>
      if HandshakeTimeoutSec <=? age c + 1 then mkConn PClosed (age c + 1) 0 else mkConn (ph c) (age c + 1) 0
  (* bytes that complete nothing change nothing: the handshake deadline is one absolute deadline on the connection
     (newRLPX), the frame read deadline is set once per message, before its first byte (rlpx.ReadMsg) *)
  | (PEnc | PProto | PWaitStatus | PRunning), Recv FPartial => c
  | PEnc, Recv FProgress => mkConn PProto (age c) 0
  | PProto, Recv FProgress => mkConn PWaitStatus (age c) 0
  | (PEnc | PProto), Recv _ => mkConn PClosed (age c) 0
  | (PWaitStatus | PRunning), Tick =>
      if FrameReadTimeoutSec <=? idle c + 1 then mkConn PClosed (age c + 1) 0 else mkConn (ph c) (age c + 1) (idle c + 1)
  | (PWaitStatus | PRunning), Recv FBase => mkConn (ph c) (age c) 0
  | PWaitStatus, Recv FStatusOk => mkConn PRunning (age c) 0
  | PWaitStatus, Recv _ => mkConn PClosed (age c) 0          (* ErrNoStatusMsg, decode / genesis / network / version mismatch *)
  | PRunning, Recv FMsgOk => mkConn PRunning (age c) 0
  | PRunning, Recv _ => mkConn PClosed (age c) 0             (* ErrExtraStatusMsg, handleMsg error, bad frame *)
  end.
Fixpoint run (c : conn) (es : list event) : conn :=
  match es with [] => c | e :: r => run (step c e) r end.

Definition is_recv (e : event) : bool := match e with Recv _ => true | Tick => false end.
Definition frames (es : list event) : Z := Z.of_nat (length (filter is_recv es)).
Definition ticks (es : list event) : Z := Z.of_nat (length (filter (fun e => negb (is_recv e)) es)).
Definition wf_conn (c : conn) : Prop :=
  0 <= age c /\ 0 <= idle c /\
  match ph c with
  | PEnc | PProto => age c < HandshakeTimeoutSec
  | PWaitStatus | PRunning => idle c < FrameReadTimeoutSec
  | PClosed => True
  end.

(* For the record: the life cycle WITHOUT a deadline on the protocol handshake (the deadline armed for the encryption
   handshake only and cleared afterwards; the protocol handshake is read from the bare frame reader, which sets none).
   SessionProofs.proto_deadline_is_load_bearing: a peer that is silent after the encryption handshake is then never closed. *)
Definition step_nodl (c : conn) (e : event) : conn :=
  match ph c, e with
  | PProto, Tick => mkConn PProto (age c + 1) 0
  | _, _ => step c e
  end.
Fixpoint run_nodl (c : conn) (es : list event) : conn :=
  match es with [] => c | e :: r => run_nodl (step_nodl c e) r end.

(* a peer that only stalls: seconds pass, bytes arrive that complete nothing *)
Definition stalls (e : event) : Prop := e = Tick \/ e = Recv FPartial.
Definition fresh : conn := mkConn PEnc 0 0.
