(* C15 — life cycle of an inbound peer connection and the timer that is armed in each phase.
   Mirrors: p2p/rlpx.go newRLPX (fd.SetDeadline(handshakeTimeout) covers the encryption AND the protocol handshake),
   rlpx.ReadMsg (SetReadDeadline(frameReadTimeout) before every frame), p2p/peer.go run / readLoop / pingLoop
   (a ping every pingInterval makes a live peer answer, so a connection stays open only while frames keep arriving),
   protocol/peer.go Handshake (waits for the remote status WITHOUT a timer of its own) and handler.go handle.
   Time is counted in seconds; `Tick` = one second passes without a frame from the peer. *)
From ZV Require Import Prelude GoSem.
From ZV.gen Require Import Consts.
Open Scope Z_scope.

Inductive phase := PEnc | PProto | PWaitStatus | PRunning | PClosed.
Inductive frame :=
| FProgress      (* the next well-formed handshake message of the transport *)
| FBase          (* pong or another base-protocol frame *)
| FStatusOk | FStatusBad
| FMsgOk | FMsgBad   (* a sub-protocol message that handleMsg accepts / answers with an error *)
| FGarbage.      (* bad MAC, undecodable frame *)
Inductive event := Tick | Recv (f : frame).

(* age: seconds since the connection was accepted; idle: seconds since the last frame *)
Record conn := mkConn { ph : phase; age : Z; idle : Z }.

Definition step (c : conn) (e : event) : conn :=
  match ph c, e with
  | PClosed, _ => c
  | (PEnc | PProto), Tick =>
      if HandshakeTimeoutSec <=? age c + 1 then mkConn PClosed (age c + 1) 0 else mkConn (ph c) (age c + 1) 0
  | PEnc, Recv FProgress => mkConn PProto (age c) 0
  | PProto, Recv FProgress => mkConn PWaitStatus (age c) 0
  | (PEnc | PProto), Recv _ => mkConn PClosed (age c) 0
  | (PWaitStatus | PRunning), Tick =>
      if FrameReadTimeoutSec <=? idle c + 1 then mkConn PClosed (age c + 1) 0 else mkConn (ph c) (age c + 1) (idle c + 1)
  | (PWaitStatus | PRunning), Recv FBase => mkConn (ph c) (age c) 0
  | PWaitStatus, Recv FStatusOk => mkConn PRunning (age c) 0
  | PWaitStatus, Recv _ => mkConn PClosed (age c) 0          (* ErrNoStatusMsg, decode / genesis / network / version mismatch *)
  | PRunning, Recv FMsgOk => mkConn PRunning (age c) 0
  | PRunning, Recv _ => mkConn PClosed (age c) 0             (* ErrExtraStatusMsg, handleMsg error, bad frame *)
  end.
Fixpoint run (c : conn) (es : list event) : conn :=
  match es with [] => c | e :: r => run (step c e) r end.

Definition is_recv (e : event) : bool := match e with Recv _ => true | Tick => false end.
Definition frames (es : list event) : Z := Z.of_nat (length (filter is_recv es)).
Definition ticks (es : list event) : Z := Z.of_nat (length (filter (fun e => negb (is_recv e)) es)).
Definition wf_conn (c : conn) : Prop :=
  0 <= age c /\ 0 <= idle c /\
  match ph c with
  | PEnc | PProto => age c < HandshakeTimeoutSec
  | PWaitStatus | PRunning => idle c < FrameReadTimeoutSec
  | PClosed => True
  end.
