(* C15 — proofs about Session.v *)
From ZV Require Import Prelude GoSem Session.
From ZV.gen Require Import Consts.
Open Scope Z_scope.

Lemma step_wf c e : wf_conn c -> wf_conn (step c e).
Proof.
  unfold wf_conn, HandshakeTimeoutSec, FrameReadTimeoutSec. intros [Ha [Hi Hp]].
  destruct c as [p a i]. cbn [ph age idle] in *.
  destruct p, e as [|f]; cbn [step ph age idle]; unfold HandshakeTimeoutSec, FrameReadTimeoutSec;
    try (destruct f; cbn [ph age idle]; lia);
    try (destruct (5 <=? a + 1) eqn:E; cbn [ph age idle]; lia);
    try (destruct (30 <=? i + 1) eqn:E; cbn [ph age idle]; lia); try lia.
Qed.

Lemma closed_stays c es : ph c = PClosed -> ph (run c es) = PClosed.
Proof.
  revert c. induction es as [|e es IH]; intros c H; [exact H|].
  cbn [run]. apply IH. destruct c as [p a i]. cbn [ph] in H. subst p. destruct e; reflexivity.
Qed.

(* seconds until the armed timer fires *)
Definition remaining (c : conn) : Z :=
  match ph c with
  | PEnc | PProto => HandshakeTimeoutSec - age c
  | PWaitStatus | PRunning => FrameReadTimeoutSec - idle c
  | PClosed => 0
  end.

Lemma silent_closes n : forall c, wf_conn c -> remaining c <= Z.of_nat n -> ph (run c (repeat Tick n)) = PClosed.
Proof.
  induction n as [|n IH]; intros c Hwf Hr.
  - cbn [repeat run]. unfold remaining, wf_conn in *. destruct (ph c); try reflexivity; lia.
  - cbn [repeat run]. destruct (ph (step c Tick)) eqn:Ep; try (apply IH; [apply step_wf; exact Hwf|]);
      try (apply closed_stays; exact Ep).
    all: unfold remaining, wf_conn, HandshakeTimeoutSec, FrameReadTimeoutSec in *; destruct Hwf as [Ha [Hi Hp]];
      destruct c as [p a i]; cbn [ph age idle] in *; rewrite Ep;
      destruct p; cbn [step ph age idle] in *; unfold HandshakeTimeoutSec, FrameReadTimeoutSec in *;
      try discriminate;
      try (destruct (5 <=? a + 1) eqn:E; cbn [ph age idle] in *; try discriminate; inversion Ep; subst; lia);
      try (destruct (30 <=? i + 1) eqn:E; cbn [ph age idle] in *; try discriminate; inversion Ep; subst; lia).
Qed.

(* every phase has an armed timer: a peer that stops sending is dropped after at most FrameReadTimeoutSec seconds *)
Lemma silent_peer_dropped c : wf_conn c -> ph (run c (repeat Tick (Z.to_nat FrameReadTimeoutSec))) = PClosed.
Proof.
  intros Hwf. apply silent_closes; [exact Hwf|].
  unfold remaining, wf_conn, HandshakeTimeoutSec, FrameReadTimeoutSec in *. destruct (ph c); lia.
Qed.

(* the handshake phases end after HandshakeTimeoutSec seconds whatever the peer sends at whatever pace *)
Lemma handshake_deadline es : forall c, wf_conn c -> (ph c = PEnc \/ ph c = PProto) ->
  HandshakeTimeoutSec - age c <= ticks es ->
  ph (run c es) <> PEnc /\ ph (run c es) <> PProto.
Proof.
  unfold ticks. induction es as [|e es IH]; intros c Hwf Hp Ht.
  - cbn [filter length] in Ht. unfold wf_conn, HandshakeTimeoutSec in *. destruct Hp as [E|E]; rewrite E in *; lia.
  - cbn [run].
    assert (Hcases : ph (step c e) = PEnc \/ ph (step c e) = PProto \/ (ph (step c e) <> PEnc /\ ph (step c e) <> PProto)).
    { destruct (ph (step c e)); auto; right; right; split; discriminate. }
    destruct Hcases as [E|[E|[N1 N2]]].
    + apply IH; [apply step_wf; exact Hwf|left; exact E|].
      destruct c as [p a i], e as [|f]; cbn [ph age idle filter is_recv negb length] in *.
      * destruct Hp as [Hp|Hp]; subst p; cbn [step ph age idle] in *; destruct (HandshakeTimeoutSec <=? a + 1); cbn [ph age] in *; try discriminate; lia.
      * destruct Hp as [Hp|Hp]; subst p; destruct f; cbn [step ph age idle] in *; try discriminate; lia.
    + apply IH; [apply step_wf; exact Hwf|right; exact E|].
      destruct c as [p a i], e as [|f]; cbn [ph age idle filter is_recv negb length] in *.
      * destruct Hp as [Hp|Hp]; subst p; cbn [step ph age idle] in *; destruct (HandshakeTimeoutSec <=? a + 1); cbn [ph age] in *; try discriminate; lia.
      * destruct Hp as [Hp|Hp]; subst p; destruct f; cbn [step ph age idle] in *; try discriminate; lia.
    + (* left the handshake phases: they are never re-entered *)
      clear IH Ht Hp. generalize (step_wf c e Hwf). generalize (step c e) N1 N2. clear.
      induction es as [|e es IH]; intros c N1 N2 Hwf; [split; assumption|].
      cbn [run]. apply IH; try (apply step_wf; exact Hwf).
      all: destruct c as [p a i]; cbn [ph] in *; destruct p, e as [|f]; try congruence; cbn [step ph age idle];
        try (destruct f; cbn [ph]; discriminate); try (destruct (FrameReadTimeoutSec <=? i + 1); cbn [ph]; discriminate); try discriminate.
Qed.

(* a connection that is still open after T seconds has received at least T / FrameReadTimeoutSec - 1 frames beyond the
   handshake: holding a peer slot costs the peer a frame every FrameReadTimeoutSec seconds (the status wait has no
   deadline of its own, only this one) *)
Lemma open_needs_frames es : forall c, wf_conn c -> (ph c = PWaitStatus \/ ph c = PRunning) ->
  ph (run c es) <> PClosed -> ticks es <= (frames es + 1) * FrameReadTimeoutSec - idle c - 1.
Proof.
  unfold ticks, frames, FrameReadTimeoutSec. induction es as [|e es IH]; intros c Hwf Hp Hopen.
  - cbn [filter length]. unfold wf_conn, FrameReadTimeoutSec in Hwf. destruct Hp as [E|E]; rewrite E in Hwf; lia.
  - cbn [run] in Hopen.
    assert (Hn : ph (step c e) <> PClosed).
    { intros E. apply Hopen. apply closed_stays. exact E. }
    assert (Hp' : ph (step c e) = PWaitStatus \/ ph (step c e) = PRunning).
    { destruct c as [p a i]; cbn [ph] in *; destruct Hp as [Hp|Hp]; subst p; destruct e as [|f]; cbn [step ph age idle] in *;
        try (destruct (FrameReadTimeoutSec <=? i + 1); cbn [ph] in *; auto; congruence);
        destruct f; cbn [ph] in *; auto; congruence. }
    specialize (IH (step c e) (step_wf c e Hwf) Hp' Hopen).
    destruct c as [p a i], e as [|f]; cbn [ph age idle filter is_recv negb length] in *.
    + destruct Hp as [Hp|Hp]; subst p; cbn [step ph age idle] in *; unfold FrameReadTimeoutSec in *;
        destruct (30 <=? i + 1) eqn:E; cbn [ph age idle] in *; try congruence; lia.
    + unfold wf_conn, FrameReadTimeoutSec in Hwf. cbn [ph age idle] in Hwf.
      destruct Hp as [Hp|Hp]; subst p; destruct f; cbn [step ph age idle] in *; try congruence; lia.
Qed.

Lemma ticks_nonneg es : 0 <= ticks es.
Proof. unfold ticks. lia. Qed.

Lemma ticks_cons_tick es : ticks (Tick :: es) = 1 + ticks es.
Proof. unfold ticks. cbn [filter is_recv negb length]. lia. Qed.

Lemma ticks_cons_recv f es : ticks (Recv f :: es) = ticks es.
Proof. unfold ticks. cbn [filter is_recv negb length]. reflexivity. Qed.

Lemma fresh_wf : wf_conn fresh.
Proof. unfold wf_conn, fresh, HandshakeTimeoutSec. cbn [ph age idle]. lia. Qed.

(* the deadline component: a connection that only stalls in a handshake phase - seconds pass, bytes trickle in that
   complete nothing - is closed exactly when HandshakeTimeoutSec seconds have passed since the accept: not later (the
   slot is given back) and not earlier (a slow honest peer has the whole timeout); until then it stays where it is *)
Lemma stalled_closed_iff es : forall c, wf_conn c -> (ph c = PEnc \/ ph c = PProto) -> Forall stalls es ->
  (ph (run c es) = PClosed <-> HandshakeTimeoutSec - age c <= ticks es) /\
  (ph (run c es) <> PClosed -> ph (run c es) = ph c).
Proof.
  induction es as [|e es IH]; intros c Hwf Hp Hst.
  - cbn [run]. unfold ticks. cbn [filter length]. unfold wf_conn, HandshakeTimeoutSec in *.
    destruct Hwf as [Ha [Hi Hq]]. split; [|reflexivity].
    destruct Hp as [E|E]; rewrite E in *; split; intros Hx; try discriminate; lia.
  - inversion Hst as [|e' es' He Hes]; subst. cbn [run].
    destruct He as [He|He]; subst e.
    + (* a second passes *)
      rewrite ticks_cons_tick.
      destruct (HandshakeTimeoutSec <=? age c + 1) eqn:E.
      * assert (Hc : ph (step c Tick) = PClosed).
        { destruct c as [p a i]; cbn [ph age idle] in *. destruct Hp as [Hp|Hp]; subst p; cbn [step ph age idle]; rewrite E; reflexivity. }
        rewrite (closed_stays _ es Hc). pose proof (ticks_nonneg es). apply Z.leb_le in E.
        split; [split; [intros _; lia|reflexivity]|intros Hx; congruence].
      * assert (Hs : step c Tick = mkConn (ph c) (age c + 1) 0).
        { destruct c as [p a i]; cbn [ph age idle] in *. destruct Hp as [Hp|Hp]; subst p; cbn [step ph age idle]; rewrite E; reflexivity. }
        assert (Hwf' : wf_conn (step c Tick)) by (apply step_wf; exact Hwf).
        rewrite Hs in *. specialize (IH _ Hwf' Hp Hes). cbn [ph age] in IH. destruct IH as [IH1 IH2].
        split; [|exact IH2]. rewrite IH1. lia.
    + (* bytes that complete nothing *)
      rewrite ticks_cons_recv.
      assert (Hs : step c (Recv FPartial) = c).
      { destruct c as [p a i]; cbn [ph] in *. destruct Hp as [Hp|Hp]; subst p; reflexivity. }
      rewrite Hs. apply IH; assumption.
Qed.

(* no state before "peer added" lasts longer than the handshake timeout, whatever the peer sends at whatever pace *)
Lemma no_pre_peer_state_outlasts_timeout es : HandshakeTimeoutSec <= ticks es ->
  ph (run fresh es) <> PEnc /\ ph (run fresh es) <> PProto.
Proof.
  intros H. apply handshake_deadline; [exact fresh_wf|left; reflexivity|]. unfold fresh. cbn [age]. lia.
Qed.

(* without the deadline on the protocol handshake a peer that is silent after the encryption handshake is never closed *)
Lemma proto_deadline_is_load_bearing n : forall a, ph (run_nodl (mkConn PProto a 0) (repeat Tick n)) = PProto.
Proof.
  induction n as [|n IH]; intros a; [reflexivity|]. cbn [repeat run_nodl step_nodl ph age]. apply IH.
Qed.
