(* Proofs about the election model (C05). *)
From Coq Require Import Permutation.
From ZV Require Import Prelude GoSem Election.
Open Scope Z_scope.
Ltac Zify.zify_post_hook ::= Z.div_mod_to_equations.

(* ------------------------------------------------------------------ the order *)
Lemma bytes_cmp_refl a : bytes_cmp a a = Eq.
Proof. induction a as [|x a IH]; cbn; [reflexivity|]. rewrite Z.compare_refl. exact IH. Qed.

Lemma bytes_cmp_eq a : forall b, bytes_cmp a b = Eq -> a = b.
Proof.
  induction a as [|x a IH]; intros [|y b] H; cbn in H; try discriminate; [reflexivity|].
  destruct (x ?= y) eqn:E; try discriminate.
  apply Z.compare_eq in E. subst. f_equal. apply IH. exact H.
Qed.

Lemma bytes_cmp_antisym a : forall b, bytes_cmp b a = CompOpp (bytes_cmp a b).
Proof.
  induction a as [|x a IH]; intros [|y b]; cbn; try reflexivity.
  rewrite (Z.compare_antisym x y). destruct (x ?= y); cbn; auto.
Qed.

Lemma bytes_cmp_trans_lt a : forall b c, bytes_cmp a b = Lt -> bytes_cmp b c = Lt -> bytes_cmp a c = Lt.
Proof.
  induction a as [|x a IH]; intros [|y b] [|z c] H1 H2; cbn in *; try discriminate; try reflexivity.
  destruct (x ?= y) eqn:E1; try discriminate.
  - apply Z.compare_eq in E1. subst y.
    destruct (x ?= z) eqn:E2; try discriminate; [|reflexivity].
    eapply IH; eauto.
  - destruct (y ?= z) eqn:E2; try discriminate.
    + apply Z.compare_eq in E2. subst z. rewrite E1. reflexivity.
    + pose proof (proj1 (Z.compare_lt_iff _ _) E1) as L1. pose proof (proj1 (Z.compare_lt_iff _ _) E2) as L2.
      assert (L : x < z) by lia.
      rewrite (proj2 (Z.compare_lt_iff _ _) L). reflexivity.
Qed.

(* d_less is a strict total order up to (weight, name) *)
Lemma d_less_true a b : d_less a b = true <->
  (d_weight b < d_weight a \/ (d_weight a = d_weight b /\ bytes_cmp (d_name a) (d_name b) = Lt)).
Proof.
  unfold d_less. destruct (Z.compare_spec (d_weight b) (d_weight a)) as [E|L|G].
  - destruct (bytes_cmp (d_name a) (d_name b)); split; intros H; try discriminate; try reflexivity;
      try (right; split; [lia|reflexivity]); destruct H as [H|[_ H]]; try lia; discriminate.
  - split; [left; exact L|reflexivity].
  - split; [discriminate|]. intros [H|[H _]]; lia.
Qed.
Lemma bytes_cmp_lt_asym a b : bytes_cmp a b = Lt -> bytes_cmp b a = Lt -> False.
Proof. intros H1 H2. rewrite (bytes_cmp_antisym a b), H1 in H2. discriminate. Qed.

Lemma d_less_irrefl a : d_less a a = false.
Proof. unfold d_less. rewrite Z.compare_refl, bytes_cmp_refl. reflexivity. Qed.

Lemma d_less_asym a b : d_less a b = true -> d_less b a = false.
Proof.
  intros H. destruct (d_less b a) eqn:E; [|reflexivity]. exfalso.
  apply d_less_true in H, E. destruct H as [H|[H1 H2]], E as [E|[E1 E2]]; try lia.
  eapply bytes_cmp_lt_asym; eauto.
Qed.

Lemma d_less_trans a b c : d_less a b = true -> d_less b c = true -> d_less a c = true.
Proof.
  intros H1 H2. apply d_less_true in H1, H2. apply d_less_true.
  destruct H1 as [H1|[W1 B1]], H2 as [H2|[W2 B2]]; try (left; lia).
  right. split; [lia|]. eapply bytes_cmp_trans_lt; eauto.
Qed.

(* neither smaller: same weight and same name *)
Lemma d_less_tie a b : d_less a b = false -> d_less b a = false ->
  d_weight a = d_weight b /\ d_name a = d_name b.
Proof.
  intros H1 H2.
  assert (N1 : ~ (d_weight b < d_weight a \/ (d_weight a = d_weight b /\ bytes_cmp (d_name a) (d_name b) = Lt))).
  { intros C. apply d_less_true in C. congruence. }
  assert (N2 : ~ (d_weight a < d_weight b \/ (d_weight b = d_weight a /\ bytes_cmp (d_name b) (d_name a) = Lt))).
  { intros C. apply d_less_true in C. congruence. }
  assert (W : d_weight a = d_weight b) by lia. split; [exact W|].
  destruct (bytes_cmp (d_name a) (d_name b)) eqn:B.
  - apply bytes_cmp_eq, B.
  - exfalso. apply N1. right. split; [exact W|reflexivity].
  - exfalso. apply N2. right. split; [lia|]. rewrite (bytes_cmp_antisym (d_name a) (d_name b)), B. reflexivity.
Qed.

Lemma d_leb_total a b : d_leb a b = true \/ d_leb b a = true.
Proof.
  unfold d_leb. destruct (d_less b a) eqn:E; [right|left; reflexivity].
  rewrite (d_less_asym _ _ E). reflexivity.
Qed.
Lemma d_leb_refl a : d_leb a a = true.
Proof. unfold d_leb. rewrite d_less_irrefl. reflexivity. Qed.
Lemma d_leb_trans a b c : d_leb a b = true -> d_leb b c = true -> d_leb a c = true.
Proof.
  unfold d_leb. intros H1 H2.
  destruct (d_less c a) eqn:E; [|reflexivity]. exfalso.
  destruct (d_less b a) eqn:E1; [discriminate|]. destruct (d_less c b) eqn:E2; [discriminate|].
  (* c < a, not b < a, not c < b *)
  destruct (d_less a b) eqn:E3.
  - rewrite (d_less_trans _ _ _ E E3) in E2. discriminate.
  - destruct (d_less_tie _ _ E3 E1) as [W N].
    apply d_less_true in E. assert (C : d_less c b = true); [|congruence].
    apply d_less_true. rewrite <- W, <- N. exact E.
Qed.
Lemma d_leb_antisym a b : d_leb a b = true -> d_leb b a = true -> d_weight a = d_weight b /\ d_name a = d_name b.
Proof.
  unfold d_leb. intros H1 H2. apply d_less_tie.
  - destruct (d_less a b); [discriminate|reflexivity].
  - destruct (d_less b a); [discriminate|reflexivity].
Qed.

(* ------------------------------------------------------------------ sorting *)
Fixpoint ssorted (l : list deleg) : Prop :=
  match l with [] => True | x :: r => Forall (fun y => d_leb x y = true) r /\ ssorted r end.

Lemma d_insert_perm x l : Permutation (d_insert x l) (x :: l).
Proof.
  induction l as [|y r IH]; cbn; [reflexivity|].
  destruct (d_leb x y); [reflexivity|].
  rewrite IH. apply perm_swap.
Qed.
Lemma dsort_perm l : Permutation (dsort l) l.
Proof. induction l as [|x r IH]; cbn; [reflexivity|]. rewrite d_insert_perm. constructor. exact IH. Qed.
Lemma dsort_length l : length (dsort l) = length l.
Proof. apply Permutation_length, dsort_perm. Qed.
Lemma dsort_in x l : In x (dsort l) <-> In x l.
Proof. split; apply Permutation_in; [|symmetry]; apply dsort_perm. Qed.

Lemma d_insert_sorted x l : ssorted l -> ssorted (d_insert x l).
Proof.
  induction l as [|y r IH]; cbn; intros H; [split; [constructor|exact I]|].
  destruct H as [Hy Hr].
  destruct (d_leb x y) eqn:E.
  - cbn. split; [|split; assumption].
    constructor; [exact E|]. eapply Forall_impl; [|exact Hy]. intros z Hz. cbn in Hz. eapply d_leb_trans; eauto.
  - cbn. split; [|apply IH; exact Hr].
    assert (Lyx : d_leb y x = true) by (destruct (d_leb_total x y) as [T|T]; congruence).
    rewrite Forall_forall. intros z Hz.
    apply (Permutation_in _ (d_insert_perm x r)) in Hz. destruct Hz as [->|Hz]; [exact Lyx|].
    rewrite Forall_forall in Hy. apply Hy, Hz.
Qed.
Lemma dsort_sorted l : ssorted (dsort l).
Proof. induction l as [|x r IH]; cbn; [exact I|]. apply d_insert_sorted, IH. Qed.

(* two sorted arrangements of the same elements coincide when (weight, name) identifies an element *)
Lemma sorted_perm_unique l1 : forall l2,
  ssorted l1 -> ssorted l2 -> Permutation l1 l2 ->
  (forall a b, In a l1 -> In b l1 -> d_weight a = d_weight b -> d_name a = d_name b -> a = b) ->
  l1 = l2.
Proof.
  induction l1 as [|x r1 IH]; intros l2 S1 S2 P U.
  - apply Permutation_nil in P. auto.
  - destruct l2 as [|y r2]; [apply Permutation_sym, Permutation_nil in P; discriminate|].
    destruct S1 as [Hx S1]. destruct S2 as [Hy S2].
    assert (Exy : x = y).
    { assert (Iy : In y (x :: r1)) by (eapply Permutation_in; [symmetry; exact P|left; reflexivity]).
      assert (Ix : In x (y :: r2)) by (eapply Permutation_in; [exact P|left; reflexivity]).
      destruct Iy as [->|Iy]; [reflexivity|]. destruct Ix as [->|Ix]; [reflexivity|].
      rewrite Forall_forall in Hx, Hy.
      destruct (d_leb_antisym x y (Hx _ Iy) (Hy _ Ix)) as [W N].
      apply U; auto; [left; reflexivity|right; exact Iy]. }
    subst y. f_equal. apply IH; auto.
    + eapply Permutation_cons_inv; exact P.
    + intros a b Ia Ib. apply U; right; assumption.
Qed.

Lemma nodup_names_unique (l : list deleg) : NoDup (map d_name l) ->
  forall a b, In a l -> In b l -> d_name a = d_name b -> a = b.
Proof.
  induction l as [|x r IH]; cbn; intros ND a b Ia Ib E; [contradiction|].
  inversion ND as [|? ? Hn ND']; subst.
  destruct Ia as [->|Ia], Ib as [->|Ib]; auto.
  - exfalso. apply Hn. rewrite E. apply in_map, Ib.
  - exfalso. apply Hn. rewrite <- E. apply in_map, Ia.
Qed.

(* sort.Sort by (weight desc, name) is canonical: the result does not depend on the input order *)
Theorem dsort_canonical d d' : Permutation d d' -> NoDup (map d_name d) -> dsort d = dsort d'.
Proof.
  intros P ND. apply sorted_perm_unique; try apply dsort_sorted.
  - rewrite (dsort_perm d), (dsort_perm d'). exact P.
  - intros a b Ia Ib _ N. apply (proj1 (dsort_in _ _)) in Ia. apply (proj1 (dsort_in _ _)) in Ib. exact (nodup_names_unique d ND a b Ia Ib N).
Qed.

(* ------------------------------------------------------------------ pick *)
Lemma pick_ok l : forall idx, Forall (fun i => (i < length l)%nat) idx ->
  exists r, pick l idx = EOk r /\ length r = length idx /\ Forall (fun x => In x l) r.
Proof.
  induction idx as [|i idx IH]; intros F; cbn.
  - exists []. repeat split; constructor.
  - inversion F as [|? ? Hi F']; subst. destruct (IH F') as (r & E & L & M).
    destruct (nth_error l i) eqn:N; [|apply nth_error_None in N; lia].
    rewrite E. cbn. exists (d :: r). repeat split; [cbn; lia|].
    constructor; [eapply nth_error_In; eauto|exact M].
Qed.

Definition perm_ok (perm : Z -> nat -> list nat) : Prop := forall s n, Permutation (perm s n) (seq 0 n).

Lemma perm_ok_length perm s n : perm_ok perm -> length (perm s n) = n.
Proof. intros H. rewrite (Permutation_length (H s n)). apply seq_length. Qed.
Lemma perm_ok_range perm s n : perm_ok perm -> Forall (fun i => (i < n)%nat) (perm s n).
Proof.
  intros H. rewrite Forall_forall. intros i Hi. apply (Permutation_in _ (H s n)) in Hi.
  apply in_seq in Hi. lia.
Qed.
Lemma in_firstn {A} n : forall (l : list A) x, In x (firstn n l) -> In x l.
Proof. induction n as [|n IH]; intros [|y l] x H; cbn in *; try contradiction. destruct H; [left|right]; auto. Qed.
Lemma in_skipn {A} n : forall (l : list A) x, In x (skipn n l) -> In x l.
Proof. induction n as [|n IH]; intros [|y l] x H; cbn in *; try contradiction; auto. Qed.
Lemma Forall_firstn {A} (P : A -> Prop) n l : Forall P l -> Forall P (firstn n l).
Proof. intros F. rewrite Forall_forall in *. intros x Hx. apply F. eapply in_firstn; eauto. Qed.
Lemma Forall_skipn {A} (P : A -> Prop) n l : Forall P l -> Forall P (skipn n l).
Proof. intros F. rewrite Forall_forall in *. intros x Hx. apply F. eapply in_skipn; eauto. Qed.
Lemma Forall_in_app (l1 l2 r : list deleg) :
  Forall (fun x => In x l2) r -> Forall (fun x => In x (l1 ++ l2)) r.
Proof. apply Forall_impl. intros a H. apply in_or_app. right. exact H. Qed.

Section ElectionProofs.
  Variable perm : Z -> nat -> list nat.
  Variables nc rc : nat.
  Hypothesis Hperm : perm_ok perm.
  Hypothesis Hrc : (rc <= nc)%nat.
  Hypothesis Hnc : (0 < nc)%nat.

  (* the fill-up loop ends with at least nc elements of A, given one round of fuel per missing element *)
  Lemma fill_ok A arr : A <> [] -> length arr = length A -> Forall (fun i => (i < length A)%nat) arr ->
    forall fuel result, (nc < fuel + length result)%nat -> Forall (fun x => In x A) result ->
    exists r, fill nc fuel A arr result = EOk r /\ (nc <= length r)%nat /\ Forall (fun x => In x A) r.
  Proof.
    intros HA HL HF. induction fuel as [|f IH]; intros result Hfuel HM; cbn.
    - destruct (nc <=? length result)%nat eqn:E; [|apply Nat.leb_gt in E; lia].
      apply Nat.leb_le in E. eauto.
    - destruct (nc <=? length result)%nat eqn:E; [apply Nat.leb_le in E; eauto|].
      destruct (pick_ok A arr HF) as (c & Ec & Lc & Mc). rewrite Ec. cbn.
      apply IH.
      + rewrite app_length, Lc, HL. destruct A; [congruence|cbn; lia].
      + apply Forall_app. split; assumption.
  Qed.

  Lemma filter_random_ok gA gB seed :
    gA <> [] -> (length gA <= nc)%nat ->
    exists r, filter_random perm nc rc (S nc) gA gB seed = EOk r /\ length r = nc /\
              Forall (fun x => In x gA \/ In x gB) r.
  Proof.
    intros HA HLA. unfold filter_random.
    assert (LA : length (dsort gA) = length gA) by apply dsort_length.
    destruct (nc =? length (dsort gA))%nat eqn:E; cbn [negb].
    - (* exactly NodeCount candidates in group A *)
      apply Nat.eqb_eq in E.
      destruct (nc <? rc)%nat eqn:E1; [apply Nat.ltb_lt in E1; lia|].
      rewrite (perm_ok_length _ seed _ Hperm), <- E, Nat.ltb_irrefl.
      assert (R : Forall (fun i => (i < length (dsort gA))%nat) (perm seed nc)).
      { rewrite <- E. apply perm_ok_range, Hperm. }
      pose proof (perm_ok_length _ seed nc Hperm) as PL.
      destruct (pick_ok (dsort gA) (firstn (nc - rc) (perm seed nc))) as (r1 & E1' & L1 & M1);
        [apply Forall_firstn; exact R|].
      destruct (pick_ok (dsort gA) (firstn rc (skipn (nc - rc) (perm seed nc)))) as (r2 & E2 & L2 & M2);
        [apply Forall_firstn, Forall_skipn; exact R|].
      rewrite E1'. cbn [ebind]. rewrite E2. cbn [ebind].
      rewrite firstn_length, skipn_length, PL in L2.
      rewrite firstn_length, PL in L1.
      set (B2 := dsort gB ++ r2).
      assert (LB2 : (rc <= length B2)%nat) by (unfold B2; rewrite app_length; lia).
      rewrite (perm_ok_length _ _ _ Hperm).
      destruct (length B2 <? rc)%nat eqn:E3; [apply Nat.ltb_lt in E3; lia|].
      destruct (pick_ok B2 (firstn rc (perm (wrapS 64 (seed + 1)) (length B2)))) as (r3 & E3' & L3 & M3);
        [apply Forall_firstn, perm_ok_range; exact Hperm|].
      rewrite E3'. cbn [ebind]. exists (r1 ++ r3). split; [reflexivity|]. split.
      + rewrite app_length, L1, L3, firstn_length, (perm_ok_length _ _ _ Hperm). lia.
      + apply Forall_app. split.
        * eapply Forall_impl; [|exact M1]. intros a Ha. left. apply dsort_in, Ha.
        * eapply Forall_impl; [|exact M3]. intros a Ha. unfold B2 in Ha. apply in_app_or in Ha.
          destruct Ha as [Ha|Ha]; [right; apply dsort_in, Ha|].
          left. rewrite Forall_forall in M2. apply dsort_in, M2, Ha.
    - (* fewer: fill up *)
      assert (NE : dsort gA <> []) by (intros C; apply HA; destruct gA; [reflexivity|]; rewrite C in LA; discriminate).
      destruct (fill_ok (dsort gA) (perm seed (length (dsort gA))) NE
                  (perm_ok_length _ _ _ Hperm) (perm_ok_range _ _ _ Hperm) (S nc) [])
        as (r & Er & Lr & Mr); [cbn; lia|constructor|].
      rewrite Er. cbn [ebind]. exists (firstn nc r). split; [reflexivity|]. split.
      + rewrite firstn_length. lia.
      + apply Forall_firstn. eapply Forall_impl; [|exact Mr]. intros a Ha. left. apply dsort_in, Ha.
  Qed.

  (* every slot gets exactly one pillar, and it is one of the given delegations *)
  Theorem select_one_per_slot ds height : ds <> [] ->
    exists l, select perm nc rc ds height = EOk l /\ length l = nc /\ Forall (fun x => In x ds) l.
  Proof.
    intros HD. unfold select, select_f, filter_by_weight.
    destruct (length ds <=? nc)%nat eqn:E.
    - apply Nat.leb_le in E.
      destruct (filter_random_ok ds [] (find_seed height) HD E) as (r & Er & Lr & Mr).
      rewrite Er. cbn [ebind]. unfold shuffle_order.
      destruct (pick_ok r (perm (find_seed height) (length r))) as (l & El & Ll & Ml);
        [apply perm_ok_range; exact Hperm|].
      exists l. split; [exact El|]. split; [rewrite Ll, (perm_ok_length _ _ _ Hperm); exact Lr|].
      rewrite Forall_forall in *. intros x Hx. destruct (Mr _ (Ml _ Hx)) as [H|H]; [exact H|contradiction].
    - apply Nat.leb_gt in E.
      assert (LS : length (dsort ds) = length ds) by apply dsort_length.
      assert (HA : firstn nc (dsort ds) <> []).
      { intros C. apply (f_equal (@length deleg)) in C. rewrite firstn_length in C. cbn in C. lia. }
      assert (HL : (length (firstn nc (dsort ds)) <= nc)%nat) by (rewrite firstn_length; lia).
      destruct (filter_random_ok _ (skipn nc (dsort ds)) (find_seed height) HA HL) as (r & Er & Lr & Mr).
      rewrite Er. cbn [ebind]. unfold shuffle_order.
      destruct (pick_ok r (perm (find_seed height) (length r))) as (l & El & Ll & Ml);
        [apply perm_ok_range; exact Hperm|].
      exists l. split; [exact El|]. split; [rewrite Ll, (perm_ok_length _ _ _ Hperm); exact Lr|].
      rewrite Forall_forall in *. intros x Hx.
      destruct (Mr _ (Ml _ Hx)) as [H|H]; [apply in_firstn in H|apply in_skipn in H]; apply dsort_in, H.
  Qed.

  (* F4: with no active pillar the loop never reaches NodeCount elements, whatever the fuel *)
  Theorem no_pillars_no_schedule fuel height : select_f perm nc rc fuel [] height = EFuel.
  Proof.
    unfold select_f, filter_by_weight. cbn [length]. cbn [Nat.leb]. cbn [dsort].
    unfold filter_random. cbn [dsort length].
    destruct (nc =? 0)%nat eqn:E; [apply Nat.eqb_eq in E; lia|]. cbn [negb].
    assert (P0 : perm (find_seed height) 0%nat = []).
    { pose proof (Hperm (find_seed height) 0%nat) as P. cbn in P. apply Permutation_sym, Permutation_nil in P. exact P. }
    rewrite P0.
    assert (F : forall f, fill nc f [] [] [] = EFuel).
    { induction f as [|f IH]; cbn; destruct (nc <=? 0)%nat eqn:E0; try (apply Nat.leb_le in E0; lia); [reflexivity|exact IH]. }
    rewrite F. reflexivity.
  Qed.

  (* the schedule depends on the SET of delegations only, not on the order in which they are handed over *)
  Theorem select_order_independent d d' height :
    Permutation d d' -> NoDup (map d_name d) -> select perm nc rc d height = select perm nc rc d' height.
  Proof.
    intros P ND. pose proof (dsort_canonical _ _ P ND) as S. pose proof (Permutation_length P) as L.
    unfold select, select_f, filter_by_weight. rewrite <- L, <- S.
    destruct (length d <=? nc)%nat; [|reflexivity].
    unfold filter_random. cbn [dsort]. rewrite <- S. reflexivity.
  Qed.
End ElectionProofs.

(* ------------------------------------------------------------------ slots *)
Section SlotProofs.
  Variable bt : Z.
  Hypothesis Hbt : 0 < bt.

  Lemma find_start_spec ps : forall start ts p,
    find_start (slot_events bt start ps) ts = Some p <->
    exists i, nth_error ps i = Some p /\ ts = start + bt * Z.of_nat i.
  Proof.
    induction ps as [|q ps IH]; intros start ts p; cbn.
    - split; [discriminate|]. intros (i & H & _). destruct i; discriminate.
    - destruct (start =? ts) eqn:E.
      + apply Z.eqb_eq in E. split.
        * intros H. inversion H; subst. exists 0%nat. cbn. split; [reflexivity|lia].
        * intros (i & H & T). destruct i as [|i]; cbn in H; [congruence|]. exfalso. nia.
      + apply Z.eqb_neq in E. rewrite IH. split.
        * intros (i & H & T). exists (S i). cbn. split; [exact H|lia].
        * intros (i & H & T). destruct i as [|i]; cbn in H; [exfalso; lia|]. exists i. split; [exact H|lia].
  Qed.

  (* the lookup StartTime == timestamp hits at most one slot: slot number (ts - start) / bt *)
  Theorem slot_lookup ncz genesis tick ps ts p :
    find_start (producer_events bt ncz genesis tick ps) ts = Some p ->
    Z.of_nat (length ps) = ncz /\ (ts - tick_start bt ncz genesis tick) mod bt = 0 /\
    0 <= (ts - tick_start bt ncz genesis tick) / bt < ncz /\
    nth_error ps (Z.to_nat ((ts - tick_start bt ncz genesis tick) / bt)) = Some p.
  Proof.
    unfold producer_events. destruct (Z.of_nat (length ps) =? ncz) eqn:E; [|discriminate].
    apply Z.eqb_eq in E. intros H. apply find_start_spec in H. destruct H as (i & H & T).
    assert (Hi : (i < length ps)%nat) by (apply nth_error_Some; congruence).
    set (s := tick_start bt ncz genesis tick) in *.
    replace (ts - s) with (Z.of_nat i * bt) by lia.
    rewrite Z.mod_mul, Z.div_mul by lia. rewrite Nat2Z.id. repeat split; try lia. exact H.
  Qed.
End SlotProofs.

(* ------------------------------------------------------------------ cache *)
Section CacheProofs.
  Context {R : Type}.
  Variable compute : Z -> R.
  (* every stored entry is what recomputation from the ledger as of that proof momentum gives *)
  Definition coherent (c : cache (R := R)) : Prop := Forall (fun kv => snd kv = compute (fst kv)) c.

  Lemma cache_get_coherent c h v : coherent c -> cache_get c h = Some v -> v = compute h.
  Proof.
    induction c as [|[k w] r IH]; cbn; intros C H; [discriminate|].
    inversion_clear C as [|? ? Hk Cr]. cbn in Hk.
    destruct (k =? h) eqn:E.
    - apply Z.eqb_eq in E. inversion H as [Hv]. rewrite <- Hv, <- E. exact Hk.
    - apply IH; assumption.
  Qed.
  Lemma cached_election_coherent c h : coherent c ->
    fst (cached_election compute c h) = compute h /\ coherent (snd (cached_election compute c h)).
  Proof.
    intros C. unfold cached_election. destruct (cache_get c h) eqn:E; cbn.
    - split; [eapply cache_get_coherent; eauto|exact C].
    - split; [reflexivity|]. constructor; [reflexivity|exact C].
  Qed.
  Lemma cache_remove_coherent c h : coherent c -> coherent (cache_remove c h).
  Proof.
    induction c as [|[k w] r IH]; cbn; intros C; [constructor|].
    inversion_clear C as [|? ? Hk Cr].
    destruct (k =? h); [apply IH, Cr|constructor; [exact Hk|apply IH, Cr]].
  Qed.
  (* any history of queries, LRU evictions and rollbacks: every answer equals recomputation *)
  Theorem cache_run_coherent ops : forall c, coherent c ->
    Forall (fun hv => snd hv = compute (fst hv)) (fst (cache_run compute c ops)) /\
    coherent (snd (cache_run compute c ops)).
  Proof.
    induction ops as [|o ops IH]; intros c C; cbn.
    - split; [constructor|exact C].
    - destruct o as [h|h|].
      + destruct (cached_election compute c h) as [v c1] eqn:E1.
        pose proof (cached_election_coherent c h C) as [Hv Hc]. rewrite E1 in Hv, Hc. cbn in Hv, Hc.
        destruct (cache_run compute c1 ops) as [ans c2] eqn:E2.
        pose proof (IH c1 Hc) as [Ha Hc2]. rewrite E2 in Ha, Hc2. cbn in *.
        split; [constructor; [exact Hv|exact Ha]|exact Hc2].
      + apply IH, cache_remove_coherent, C.
      + apply IH, C.
  Qed.
End CacheProofs.
