(* Ledger / VM model (executable, no proofs).  Mirrors
     vm/vm.go                      enoughFunds, applySend, applyReceive, generateEmbeddedReceive,
                                   rollbackEmbedded (+ the descendant checks of packBlock/verifier)
     vm/vm_context/balance.go      AddBalance, SubBalance (panic on negative)
     vm/vm_context/lifecycle.go    Save / Reset / Done
     chain/account/balance.go      GetBalance (absent = 0), SetBalance
     chain/account/received.go     MarkAsReceived / IsReceived (per-account marker)
     chain/account/sequencer.go    SequencerFront / SequencerPopFront
     chain/account/mailbox         SequencerPushBack (on confirmation, chain/momentum/ledger_store.go)
     verifier/account_block.go     amounts(), fromHash(), sequencer()  (the parts that guard value)
     vm/embedded/implementation/token.go   IssueMethod, MintMethod, BurnMethod, UpdateTokenMethod
   Addresses, token standards and block hashes are opaque integer ids (the harness numbers them);
   is_emb says which addresses are embedded contracts.  big.Int is Z.
   Every other embedded method is the parameter [KOther ok descs]: it can fail (-> refund) or return
   descendant sends, and cannot touch balances otherwise (the VM discipline; checked against the node by the tie). *)
From ZV Require Import Prelude.
From ZV.gen Require Import Consts.
Open Scope Z_scope.

Definition addr := Z.
Definition zts := Z.
Definition hash := Z.

(* ids fixed by the harness numbering (harness/hz/ledger.go) *)
Definition TokenContract : addr := 1.
Definition is_emb (a : addr) : bool := (0 <? a) && (a <? 100).
Definition ZeroId : zts := 0.
Definition ZnnId : zts := 1.
Definition QsrId : zts := 2.

Record token := mkToken { t_total : Z; t_max : Z; t_owner : addr; t_mintable : bool; t_burnable : bool }.
Record send := mkSend { s_hash : hash; s_from : addr; s_to : addr; s_zts : zts; s_amt : Z }.

Record state := mkState {
  bal   : list ((addr * zts) * Z);   (* chain/account/balance.go, absent = 0 *)
  toks  : list (zts * token);        (* token contract storage: TokenInfo *)
  sends : list send;                 (* every send block present (chain + pool), oldest first *)
  rcv   : list (addr * hash);        (* received markers: (receiving account, send hash), newest first *)
  conf  : list (addr * hash);        (* confirmed sends (ToAddress, hash) in confirmation order = sequencer contents *)
  front : list (addr * Z)            (* per contract: sequencerLastReceived *)
}.

(* ---------------------------------------------------------------- finite maps as association lists *)
Definition key_eqb (k1 k2 : Z * Z) : bool := (fst k1 =? fst k2) && (snd k1 =? snd k2).

Fixpoint get_bal (k : addr * zts) (m : list ((addr * zts) * Z)) : Z :=
  match m with
  | [] => 0
  | (k', v) :: r => if key_eqb k k' then v else get_bal k r
  end.
Fixpoint set_bal (k : addr * zts) (v : Z) (m : list ((addr * zts) * Z)) : list ((addr * zts) * Z) :=
  match m with
  | [] => [(k, v)]
  | (k', v') :: r => if key_eqb k k' then (k, v) :: r else (k', v') :: set_bal k v r
  end.
Fixpoint sum_bal (z : zts) (m : list ((addr * zts) * Z)) : Z :=
  match m with
  | [] => 0
  | (k, v) :: r => if snd k =? z then v + sum_bal z r else sum_bal z r
  end.

Fixpoint get_tok (z : zts) (m : list (zts * token)) : option token :=
  match m with
  | [] => None
  | (z', t) :: r => if z =? z' then Some t else get_tok z r
  end.
Fixpoint set_tok (z : zts) (t : token) (m : list (zts * token)) : list (zts * token) :=
  match m with
  | [] => [(z, t)]
  | (z', t') :: r => if z =? z' then (z, t) :: r else (z', t') :: set_tok z t r
  end.

Fixpoint get_front (c : addr) (m : list (addr * Z)) : Z :=
  match m with
  | [] => 0
  | (c', v) :: r => if c =? c' then v else get_front c r
  end.
Fixpoint set_front (c : addr) (v : Z) (m : list (addr * Z)) : list (addr * Z) :=
  match m with
  | [] => [(c, v)]
  | (c', v') :: r => if c =? c' then (c, v) :: r else (c', v') :: set_front c v r
  end.

Fixpoint find_send (h : hash) (l : list send) : option send :=
  match l with
  | [] => None
  | sd :: r => if s_hash sd =? h then Some sd else find_send h r
  end.

Definition mem_pair (p : Z * Z) (l : list (Z * Z)) : bool := existsb (key_eqb p) l.
Definition rcvd_any (h : hash) (l : list (addr * hash)) : bool := existsb (fun p => snd p =? h) l.

(* hashes of the pairs whose first component is c, in list order *)
Fixpoint hashes_of (c : addr) (l : list (addr * hash)) : list hash :=
  match l with
  | [] => []
  | (c', h) :: r => if c' =? c then h :: hashes_of c r else hashes_of c r
  end.
(* the contract's sequencer: headers pushed by SequencerPushBack, oldest first *)
Definition inbox (c : addr) (s : state) : list hash := hashes_of c (conf s).
(* SequencerFront: nil when last == total, otherwise entry last+1 *)
Definition seq_front (c : addr) (s : state) : option hash :=
  nth_error (inbox c s) (Z.to_nat (get_front c (front s))).

(* ---------------------------------------------------------------- observables of the property *)
Definition tok_total (s : state) (z : zts) : Z :=
  match get_tok z (toks s) with Some t => t_total t | None => 0 end.
Definition tok_max (s : state) (z : zts) : Z :=
  match get_tok z (toks s) with Some t => t_max t | None => 0 end.
Definition balance (s : state) (a : addr) (z : zts) : Z := get_bal (a, z) (bal s).
(* amounts of the send blocks of token z that no block receives *)
Fixpoint inflight_of (z : zts) (r : list (addr * hash)) (l : list send) : Z :=
  match l with
  | [] => 0
  | sd :: t => (if (s_zts sd =? z) && negb (rcvd_any (s_hash sd) r) then s_amt sd else 0) + inflight_of z r t
  end.
Definition inflight_sum (z : zts) (s : state) : Z := inflight_of z (rcv s) (sends s).

(* ---------------------------------------------------------------- results *)
(* error codes (only the class matters for the tie) *)
Definition E_AMOUNT_NEGATIVE := 1.     (* verifier.ErrABAmountNegative *)
Definition E_AMOUNT_TOO_BIG := 2.      (* verifier.ErrABAmountTooBig *)
Definition E_ZTS_MISSING := 3.         (* verifier.ErrABZtsMissing *)
Definition E_METHOD := 4.              (* embedded lookup / ValidateSendBlock refused the send *)
Definition E_INSUFFICIENT := 5.        (* constants.ErrInsufficientBalance *)
Definition E_FROM_MISSING := 6.        (* verifier.ErrABFromBlockMissing *)
Definition E_MISMATCH := 7.            (* verifier.ErrABFromBlockReceiverMismatch *)
Definition E_ALREADY := 8.             (* verifier.ErrABFromBlockAlreadyReceived *)
Definition E_SEQ_NOTHING := 9.         (* verifier.ErrABSequencerNothing *)
Definition E_SEQ_NOT_NEXT := 10.       (* verifier.ErrABSequencerNotNext *)
Definition E_PANIC := 11.              (* Go panic (recovered as ErrVmRunPanic, or lost block) *)
Definition E_REFUND_FAILED := 12.      (* rollbackEmbedded: refund send refused -> no block *)
Definition E_DESC_VERIFY := 13.        (* verifier.ErrABDescendantVerify *)
Definition E_BAD_OP := 14.             (* not an event of the system: duplicate hash id, unknown send to confirm, ... *)
Definition E_TYPE := 15.               (* block type does not fit the address class (ErrABTypeMustBeUser/Contract) *)

Inductive res :=
| ROk (status : bool)     (* block accepted; for contract receives: true = method succeeded, false = failed and refunded *)
| RErr (code : Z).        (* no block, state unchanged *)

(* ---------------------------------------------------------------- balances *)
Definition add_balance (s : state) (a : addr) (z : zts) (v : Z) : state :=
  mkState (set_bal (a, z) (get_bal (a, z) (bal s) + v) (bal s)) (toks s) (sends s) (rcv s) (conf s) (front s).
(* SubBalance: None = panic("negative balance after sub") *)
Definition sub_balance (s : state) (a : addr) (z : zts) (v : Z) : option state :=
  let b := get_bal (a, z) (bal s) in
  if v <=? b then Some (mkState (set_bal (a, z) (b - v) (bal s)) (toks s) (sends s) (rcv s) (conf s) (front s))
  else None.
Definition enough_funds (s : state) (a : addr) (z : zts) (v : Z) : bool :=
  if z =? ZeroId then true else v <=? get_bal (a, z) (bal s).
Definition push_send (s : state) (sd : send) : state :=
  mkState (bal s) (toks s) (sends s ++ [sd]) (rcv s) (conf s) (front s).
Definition set_toks (s : state) (t : list (zts * token)) : state :=
  mkState (bal s) t (sends s) (rcv s) (conf s) (front s).

Definition two255 : Z := 2 ^ 255.
(* accountBlockVerifier.amounts() for a send block *)
Definition amounts_check (z : zts) (v : Z) : Z :=
  if v <? 0 then E_AMOUNT_NEGATIVE
  else if two255 <=? v then E_AMOUNT_TOO_BIG
  else if (0 <? v) && (z =? ZeroId) then E_ZTS_MISSING
  else 0.

Definition hash_used (h : hash) (s : state) : bool :=
  match find_send h (sends s) with Some _ => true | None => false end.

(* vm.applySend on an account context: method lookup + ValidateSendBlock (observed flag vok), enoughFunds, SubBalance.
   Returns the error code or the new state with the send block recorded. *)
Definition apply_send (s : state) (h : hash) (from to : addr) (z : zts) (v : Z) (vok : bool) : state + Z :=
  if hash_used h s then inr E_BAD_OP
  else if negb vok then inr E_METHOD
  else if negb (enough_funds s from z v) then inr E_INSUFFICIENT
  else match sub_balance s from z v with
       | None => inr E_PANIC
       | Some s1 => inl (push_send s1 (mkSend h from to z v))
       end.

(* ---------------------------------------------------------------- what an embedded method does when it receives *)
Inductive call :=
| KNotFound                                             (* ErrContractMethodNotFound at receive time: rolled back and refunded *)
| KPanic                                                (* the method panics (DealWithErr, nil dereference, ...) *)
| KIssue (nz : zts) (total max : Z) (mintable burnable : bool) (text_ok : bool) (dok : bool)
| KMint (z : zts) (amount : Z) (to : addr) (unpack_ok : bool) (dok : bool)
| KBurn (unpack_ok : bool)
| KUpdateToken (z : zts) (owner : addr) (mintable burnable : bool) (unpack_ok : bool)
| KOther (ok : bool) (descs : list (addr * zts * Z * bool)).   (* (to, zts, amount, lookup/validate ok) *)

Definition is_token_call (k : call) : bool :=
  match k with KIssue _ _ _ _ _ _ _ | KMint _ _ _ _ _ | KBurn _ => true | _ => false end.

(* outcome of ReceiveBlock: new state + descendant sends to apply, or a method error *)
Definition mres := option (state * list (addr * zts * Z * bool)).

(* IssueMethod.ReceiveBlock (ValidateSendBlock + checkToken numeric rules; the text rules are the flag text_ok) *)
Definition m_issue (s : state) (sd : send) (nz : zts) (total max : Z) (mintable burnable text_ok dok : bool) : mres :=
  if negb text_ok then None
  else if (total <? 0) || (max <? 0) then None            (* uint256 parameters *)
  else if TokenMaxSupplyBig <? max then None
  else if max =? 0 then None
  else if max <? total then None
  else if negb mintable && negb (max =? total) then None
  else if negb (s_zts sd =? ZnnId) then None
  else if negb (s_amt sd =? TokenIssueAmount) then None
  else match get_tok nz (toks s) with
       | Some _ => None                                    (* ErrIDNotUnique *)
       | None =>
         let s1 := set_toks s (set_tok nz (mkToken total max (s_from sd) mintable burnable) (toks s)) in
         let s2 := add_balance s1 TokenContract nz total in
         Some (s2, [(s_from sd, nz, total, dok)])
       end.

(* MintMethod.ReceiveBlock *)
Definition m_mint (s : state) (sd : send) (z : zts) (amount : Z) (to : addr) (unpack_ok dok : bool) : mres :=
  if negb unpack_ok then None
  else if amount <=? 0 then None
  else if negb (s_amt sd =? 0) then None
  else match get_tok z (toks s) with
       | None => None
       | Some t =>
         if negb (t_mintable t) then None
         else if t_max t - t_total t <? amount then None
         else if negb (if (z =? ZnnId) || (z =? QsrId) then is_emb (s_from sd) else t_owner t =? s_from sd) then None
         else
           let t' := mkToken (t_total t + amount) (t_max t) (t_owner t) (t_mintable t) (t_burnable t) in
           let s1 := set_toks s (set_tok z t' (toks s)) in
           let s2 := add_balance s1 TokenContract z amount in
           Some (s2, [(to, z, amount, dok)])
       end.

(* BurnMethod.ReceiveBlock; the inner option is SubBalance's panic *)
Definition m_burn (s : state) (sd : send) (unpack_ok : bool) : option mres :=
  if negb unpack_ok then Some None
  else if s_amt sd <=? 0 then Some None
  else match get_tok (s_zts sd) (toks s) with
       | None => Some None
       | Some t =>
         if negb (t_burnable t) && negb (t_owner t =? s_from sd) then Some None
         else
           let mx := if t_mintable t then t_max t else t_max t - s_amt sd in
           let t' := mkToken (t_total t - s_amt sd) mx (t_owner t) (t_mintable t) (t_burnable t) in
           let s1 := set_toks s (set_tok (s_zts sd) t' (toks s)) in
           match sub_balance s1 TokenContract (s_zts sd) (s_amt sd) with
           | None => None
           | Some s2 => Some (Some (s2, []))
           end
       end.

(* UpdateTokenMethod.ReceiveBlock *)
Definition m_update (s : state) (sd : send) (z : zts) (owner : addr) (mintable burnable unpack_ok : bool) : mres :=
  if negb unpack_ok then None
  else if 0 <? s_amt sd then None
  else match get_tok z (toks s) with
       | None => None
       | Some t =>
         if negb (t_owner t =? s_from sd) then None
         else if negb (Bool.eqb (t_mintable t) mintable) && negb (t_mintable t) then None
         else
           let mx := if negb (Bool.eqb (t_mintable t) mintable) then t_total t else t_max t in
           let t' := mkToken (t_total t) mx owner mintable burnable in
           Some (set_toks s (set_tok z t' (toks s)), [])
       end.

(* method.ReceiveBlock for the contract c; None = Go panic.  KNotFound: generateEmbeddedReceive takes the snapshot
   before it looks at the lookup result (fix ea6a52e), so a missing method is an ordinary failure: reset, refund. *)
Definition run_method (s : state) (c : addr) (sd : send) (k : call) : option mres :=
  match k with
  | KNotFound => Some None
  | KPanic => None
  | KIssue nz total max mi bu tok dok => if c =? TokenContract then Some (m_issue s sd nz total max mi bu tok dok) else None
  | KMint z amount to uok dok => if c =? TokenContract then Some (m_mint s sd z amount to uok dok) else None
  | KBurn uok => if c =? TokenContract then m_burn s sd uok else None
  | KUpdateToken z owner mi bu uok => if c =? TokenContract then Some (m_update s sd z owner mi bu uok) else None
  | KOther ok descs => Some (if ok then Some (s, descs) else None)
  end.

(* "for _, dblock := range descendantBlocks { vm.applySend(dblock) }" ; hashes of the descendant blocks come from dh *)
Fixpoint apply_descs (s : state) (c : addr) (descs : list (addr * zts * Z * bool)) (dh : list hash) : state + Z :=
  match descs with
  | [] => inl s
  | (to, z, v, ok) :: r =>
    if negb ok then inr E_METHOD
    else if negb (enough_funds s c z v) then inr E_INSUFFICIENT
    else
    match dh with
    | [] => inr E_BAD_OP                (* the block would exist, so it has a hash *)
    | h :: dh' =>
      match apply_send s h c to z v ok with
      | inr e => inr e
      | inl s1 => apply_descs s1 c r dh'
      end
    end
  end.

(* the descendant blocks of the generated receive pass accountBlockVerifier.amounts() (transaction verifier) *)
Fixpoint descs_amounts_ok (descs : list (addr * zts * Z * bool)) : bool :=
  match descs with
  | [] => true
  | (_, z, v, _) :: r => (amounts_check z v =? 0) && descs_amounts_ok r
  end.

(* rollbackEmbedded: Reset to the saved context, re-credit, refund the full amount if > 0 *)
Definition rollback_embedded (saved : state) (c : addr) (sd : send) (dh : list hash) (rok : bool) : state * res :=
  let s1 := add_balance saved c (s_zts sd) (s_amt sd) in
  if 0 <? s_amt sd then
    match dh with
    | [] => (saved, RErr E_BAD_OP)
    | h :: _ =>
      match apply_send s1 h c (s_from sd) (s_zts sd) (s_amt sd) rok with
      | inr _ => (saved, RErr E_REFUND_FAILED)
      | inl s2 => (s2, ROk false)
      end
    end
  else (s1, ROk false).

(* SequencerPopFront (+ the ghost marker that a block of c now receives h) *)
Definition pop_front (s : state) (c : addr) (h : hash) : state :=
  mkState (bal s) (toks s) (sends s) ((c, h) :: rcv s) (conf s) (set_front c (get_front c (front s) + 1) (front s)).

(* A contract receive block: verifier fromHash() + sequencer(), then vm.generateEmbeddedReceive, then the
   descendant checks of the transaction verifier.  Any RErr leaves the state as it was (no block exists). *)
Definition contract_receive (enf : bool) (s : state) (c : addr) (h : hash) (k : call) (dh : list hash) (rok : bool) : state * res :=
  if negb (is_emb c) then (s, RErr E_TYPE) else
  match find_send h (sends s) with
  | None => (s, RErr E_FROM_MISSING)
  | Some sd =>
    if negb (mem_pair (s_to sd, h) (conf s)) then (s, RErr E_FROM_MISSING)       (* not in the momentum store *)
    else if enf && negb (s_to sd =? c) then (s, RErr E_MISMATCH)
    else match seq_front c s with
    | None => (s, RErr E_SEQ_NOTHING)
    | Some h' =>
      if negb (h' =? h) then (s, RErr E_SEQ_NOT_NEXT) else
      let saved := pop_front s c h in                                  (* SequencerPopFront, then Save *)
        let s1 := add_balance saved c (s_zts sd) (s_amt sd) in
        match run_method s1 c sd k with
        | None => (s, RErr E_PANIC)
        | Some None =>
          match rollback_embedded saved c sd dh rok with
          | (s', RErr e) => (s, RErr e)
          | r => r
          end
        | Some (Some (s2, descs)) =>
          match apply_descs s2 c descs dh with
          | inr e =>
            if e =? E_PANIC then (s, RErr E_PANIC) else
            if e =? E_BAD_OP then (s, RErr E_BAD_OP) else
            match rollback_embedded saved c sd dh rok with
            | (s', RErr e) => (s, RErr e)
            | r => r
            end
          | inl s3 => if descs_amounts_ok descs then (s3, ROk true) else (s, RErr E_DESC_VERIFY)
          end
        end
    end
  end.

(* A user send block: verifier amounts(), vm.applySend *)
Definition user_send (s : state) (h : hash) (from to : addr) (z : zts) (v : Z) (vok : bool) : state * res :=
  if is_emb from then (s, RErr E_TYPE) else
  let e := amounts_check z v in
  if negb (e =? 0) then (s, RErr e) else
  match apply_send s h from to z v vok with
  | inr e => (s, RErr e)
  | inl s1 => (s1, ROk true)
  end.

(* A user receive block: verifier fromHash(), vm.applyReceive (MarkAsReceived, AddBalance) *)
Definition user_receive (enf : bool) (s : state) (a : addr) (h : hash) : state * res :=
  if is_emb a then (s, RErr E_TYPE) else
  match find_send h (sends s) with
  | None => (s, RErr E_FROM_MISSING)
  | Some sd =>
    if negb (mem_pair (s_to sd, h) (conf s)) then (s, RErr E_FROM_MISSING)
    else if enf && negb (s_to sd =? a) then (s, RErr E_MISMATCH)
    else if mem_pair (a, h) (rcv s) then (s, RErr E_ALREADY)
    else
      let s1 := mkState (bal s) (toks s) (sends s) ((a, h) :: rcv s) (conf s) (front s) in
      (add_balance s1 a (s_zts sd) (s_amt sd), ROk true)
  end.

(* momentumStore.AddAccountBlockTransaction for a send block: confirmation height, MarkAsUnreceived, SequencerPushBack *)
Definition confirm (s : state) (h : hash) : state * res :=
  match find_send h (sends s) with
  | None => (s, RErr E_BAD_OP)
  | Some sd =>
    if mem_pair (s_to sd, h) (conf s) then (s, RErr E_BAD_OP)
    else (mkState (bal s) (toks s) (sends s) (rcv s) (conf s ++ [(s_to sd, h)]) (front s), ROk true)
  end.

Inductive op :=
| OSend (h : hash) (from to : addr) (z : zts) (v : Z) (vok : bool)
| OReceive (a : addr) (h : hash)
| OContractReceive (c : addr) (h : hash) (k : call) (dh : list hash) (rok : bool)
| OConfirm (h : hash).

(* enf: the frontier is at or above verifier.ReceiverMismatchEnforcementHeight *)
Definition step (enf : bool) (s : state) (o : op) : state * res :=
  match o with
  | OSend h from to z v vok => user_send s h from to z v vok
  | OReceive a h => user_receive enf s a h
  | OContractReceive c h k dh rok => contract_receive enf s c h k dh rok
  | OConfirm h => confirm s h
  end.

Fixpoint run (enf : bool) (s : state) (ops : list op) : state :=
  match ops with
  | [] => s
  | o :: r => run enf (fst (step enf s o)) r
  end.

(* ---------------------------------------------------------------- genesis (chain/genesis/shared_tests.go) *)
(* CheckTokenTotalSupply: per declared token, the sum of the genesis balances equals TotalSupply, and every
   token given in a balance list is declared. *)
Definition genesis_state (balances : list ((addr * zts) * Z)) (tokens : list (zts * token)) : state :=
  mkState balances tokens [] [] [] [].
Definition check_token_total_supply (balances : list ((addr * zts) * Z)) (tokens : list (zts * token)) : bool :=
  forallb (fun zt => t_total (snd zt) =? sum_bal (fst zt) balances) tokens
  && forallb (fun e => match get_tok (snd (fst e)) tokens with Some _ => true | None => false end) balances.
