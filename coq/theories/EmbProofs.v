(* The concrete methods of Emb.v never panic once ValidateSendBlock accepted the call, and each contract's method
   table satisfies [table_ok] (VmReceiveProofs), so the vm completion theorems apply to them. *)
From ZV Require Import Prelude GoSem Abi AbiProofs VmReceive VmReceiveProofs Emb.
From ZV.gen Require Import Consts.
Open Scope Z_scope.
Ltac Zify.zify_post_hook ::= Z.div_mod_to_equations.

Lemma u256_nonneg x : 0 <= u256 x.
Proof. unfold u256, two256. apply Z.mod_pos_bound. apply Z.pow_pos_nonneg; lia. Qed.

(* ---- tables *)
Lemma tget_tdel {V} (t : tab V) k k' : tget (tdel t k) k' = if bytes_eqb k k' then None else tget t k'.
Proof.
  induction t as [|[k0 v] r IH]; cbn [tdel tget].
  - destruct (bytes_eqb k k'); reflexivity.
  - destruct (bytes_eqb k0 k) eqn:E.
    + apply bytes_eqb_eq in E. subst k0. rewrite IH. destruct (bytes_eqb k k'); reflexivity.
    + cbn [tget]. rewrite IH. destruct (bytes_eqb k0 k') eqn:E2; [|reflexivity].
      apply bytes_eqb_eq in E2. subst k0.
      destruct (bytes_eqb k k') eqn:E3; [|reflexivity].
      apply bytes_eqb_eq in E3. subst. rewrite bytes_eqb_refl in E. discriminate.
Qed.
Lemma tget_tput {V} (t : tab V) k v k' : tget (tput t k v) k' = if bytes_eqb k k' then Some v else tget t k'.
Proof.
  unfold tput. cbn [tget]. destruct (bytes_eqb k k') eqn:E; [reflexivity|]. rewrite tget_tdel, E. reflexivity.
Qed.

Definition tall {V} (P : V -> Prop) (t : tab V) : Prop := forall k v, tget t k = Some v -> P v.
Lemma tall_tput {V} (P : V -> Prop) t k v : tall P t -> P v -> tall P (tput t k v).
Proof.
  intros H Hv k' v'. rewrite tget_tput. destruct (bytes_eqb k k'); [intros E; inversion E; subst; exact Hv | apply H].
Qed.
Lemma tall_tdel {V} (P : V -> Prop) t k : tall P t -> tall P (tdel t k).
Proof. intros H k' v'. rewrite tget_tdel. destruct (bytes_eqb k k'); [discriminate | apply H]. Qed.

Lemma zts_qsr_not_zero : ZtsQsr <> zero_zts. Proof. vm_compute. discriminate. Qed.
Lemma zts_znn_not_zero : ZtsZnn <> zero_zts. Proof. vm_compute. discriminate. Qed.

(* selector of call data, as abi.MethodById reads it *)
Definition sel_of (data : bytes) : bytes := firstn 4 data.

Ltac vcase H :=
  match type of H with
  | context [match ?x with _ => _ end] => destruct x eqn:?; try discriminate H
  | context [if ?x then _ else _] => destruct x eqn:?; try discriminate H
  end.

Section Generic.
  Variable S : Type.
  Lemma with_store_bal (a : cacct S) st z : bal_get (a_bal (with_store a st)) z = bal_get (a_bal a) z.
  Proof. reflexivity. Qed.
  Lemma with_store_nonneg (a : cacct S) st : nonneg S a -> nonneg S (with_store a st).
  Proof. intros H z. apply H. Qed.
  (* debiting descendants does not touch the storage *)
  Lemma apply_all_store dc ds : forall (a a'' : cacct S), nonneg S a -> Forall ds_ok ds ->
    apply_all S dc a ds = ASOk a'' -> a_store a'' = a_store a.
  Proof.
    intros a a'' Hn Hd E. pose proof (apply_all_spec S dc ds a Hn Hd) as H. rewrite E in H. apply H.
  Qed.
  Lemma credited_cursor (a : cacct S) s : a_cursor (credited S a s) = a_cursor a + 1.
  Proof. reflexivity. Qed.
  Lemma credited_store (a : cacct S) s : a_store (credited S a s) = a_store a.
  Proof. reflexivity. Qed.
  Lemma credited_nonneg (a : cacct S) s : nonneg S a -> send_ok s -> nonneg S (credited S a s).
  Proof. intros H Hs. unfold credited. apply add_balance_nonneg; [intros z; apply H | apply Hs]. Qed.
  Lemma credited_bal (a : cacct S) s : nonneg S a -> s_amount s <= bal_get (a_bal (credited S a s)) (s_zts s).
  Proof.
    intros H. unfold credited. rewrite add_balance_get, bytes_eqb_refl. cbn. specialize (H (s_zts s)). lia.
  Qed.
End Generic.

(* ================================================================ decoded values have the shape of their type *)
Definition shape (v : val) (t : ty) : Prop :=
  match t with
  | TUint _ | TInt _ => exists z, v = VInt z
  | TBool => exists b, v = VBool b
  | TString | TBytes | TAddress | TZts | THash | TFixed _ => exists l, v = VBytes l
  | TSlice _ | TArray _ _ => exists l, v = VList l
  end.

Lemma for_each_shape f es output start size v : for_each f es output start size = UOk v -> exists l, v = VList l.
Proof.
  unfold for_each. destruct (size <? 0); [discriminate|]. destruct (len output <? _); [discriminate|].
  unfold ubind. destruct (each_loop _ _ _ _ _); try discriminate. intros E; inversion E. eauto.
Qed.
Lemma read_integer_shape u bits w v : read_integer u bits w = UOk v -> exists z, v = VInt z.
Proof.
  unfold read_integer. destruct (_ =? 0); [intros E; inversion E; eauto|].
  destruct (slice_from _ _); [|discriminate]. intros E; inversion E; eauto.
Qed.
Lemma read_bool_shape w v : read_bool w = UOk v -> exists b, v = VBool b.
Proof.
  unfold read_bool. destruct (slice w 0 31); [|discriminate]. destruct (negb _); [discriminate|].
  destruct (nth_error w 31); [|discriminate]. destruct (Z.eqb _ 0); [intros E; inversion E; eauto|].
  destruct (Z.eqb _ 1); [intros E; inversion E; eauto|discriminate].
Qed.
Lemma to_go_shape t index output v : to_go t index output = UOk v -> shape v t.
Proof.
  destruct t; cbn [to_go shape]; destruct (len output <? _); try discriminate; unfold ubind;
    try (destruct (slice output index _); [|discriminate]).
  - apply read_integer_shape.
  - apply read_integer_shape.
  - apply read_bool_shape.
  - destruct (length_prefix_points_to _ _); try discriminate. destruct (slice _ _ _); [|discriminate]. intros E; inversion E; eauto.
  - destruct (length_prefix_points_to _ _); try discriminate. destruct (slice _ _ _); [|discriminate]. intros E; inversion E; eauto.
  - destruct (slice _ 12 32); [|discriminate]. intros E; inversion E; eauto.
  - destruct (slice _ 22 32); [|discriminate]. intros E; inversion E; eauto.
  - destruct (slice _ 0 32); [|discriminate]. destruct (len _ =? 32); [|discriminate]. intros E; inversion E; eauto.
  - destruct (slice _ 0 n); [|discriminate]. intros E; inversion E; eauto.
  - destruct (length_prefix_points_to _ _); try discriminate. destruct (slice_from _ _); [|discriminate]. apply for_each_shape.
  - apply for_each_shape.
Qed.
Lemma unpack_from_shape tys : forall slot data vs, unpack_from tys slot data = UOk vs -> Forall2 shape vs tys.
Proof.
  induction tys as [|t r IH]; intros slot data vs; cbn [unpack_from].
  - intros E; inversion E. constructor.
  - unfold ubind. destruct (to_go t _ data) eqn:Et; try discriminate.
    destruct (unpack_from r _ data) eqn:Er; try discriminate. intros E; inversion E; subst.
    constructor; [eapply to_go_shape; eassumption | eapply IH; eassumption].
Qed.
Lemma unpack_args_shape sel tys data vs : unpack_args sel tys data = VOk vs -> Forall2 shape vs tys.
Proof.
  unfold unpack_args, unpack_method. destruct (len data <=? 4); [discriminate|].
  destruct (slice data 0 4); [|discriminate]. destruct (bytes_eqb _ sel); [|discriminate].
  destruct (slice_from data 4); [|discriminate].
  destruct (unpack_values tys b0) eqn:E; try discriminate. intros Ev; inversion Ev; subst.
  eapply unpack_from_shape. exact E.
Qed.
Definition data_ok (d : bytes) : Prop := Forall is_byte d /\ len d < MaxData.
Lemma unpack_args_no_panic sel tys data : Forall wf_ty tys -> tuple_words tys <= MaxTuple -> data_ok data ->
  unpack_args sel tys data <> VPanic.
Proof.
  intros Hw Ht (HB & HL). unfold unpack_args.
  pose proof (unpack_method_total sel tys data Hw Ht HB HL) as H.
  destruct (unpack_method sel tys data); [discriminate|discriminate|contradiction].
Qed.
Lemma unpack_empty_no_panic sel data : unpack_empty sel data <> VPanic.
Proof.
  unfold unpack_empty. pose proof (unpack_empty_method_total sel data) as H.
  destruct (unpack_empty_method sel data); [discriminate|discriminate|contradiction].
Qed.

Ltac shapes :=
  repeat match goal with
         | H : Forall2 shape _ (_ :: _) |- _ => inversion H; subst; clear H
         | H : Forall2 shape _ [] |- _ => inversion H; subst; clear H
         end;
  cbn [shape] in *;
  repeat match goal with H : exists _, _ = _ |- _ => destruct H; subst end.
Ltac wf_tys := repeat constructor; cbn; try exact I; try lia.
Ltac ifs := repeat match goal with |- context [if ?c then _ else _] => destruct c end; try discriminate.

(* ValidateSendBlock never panics on the data of a send block *)
Definition env_ok (e : env) : Prop := c_StakeTimeUnit e <> 0.

Ltac validate_args sel tys :=
  match goal with
  | Hd : data_ok _ |- _ =>
    let E := fresh "E" in
    destruct (unpack_args sel tys _) as [vs| |] eqn:E;
    [apply unpack_args_shape in E; shapes; ifs
    | discriminate
    | exfalso; revert E; apply unpack_args_no_panic; [wf_tys | vm_compute; discriminate | exact Hd]]
  end.
Ltac validate_empty sel :=
  let E := fresh "E" in
  destruct (unpack_empty sel _) eqn:E; [ifs | discriminate | exfalso; revert E; apply unpack_empty_no_panic].

Lemma fuse_validate_no_panic e s : data_ok (s_data s) -> fuse_validate e s <> VPanic.
Proof. intros Hd. unfold fuse_validate. validate_args Sel_plasma_Fuse [TAddress]. Qed.
Lemma cancel_fuse_validate_no_panic s : data_ok (s_data s) -> cancel_fuse_validate s <> VPanic.
Proof. intros Hd. unfold cancel_fuse_validate. validate_args Sel_plasma_CancelFuse [THash]. Qed.
Lemma stake_validate_no_panic e s : env_ok e -> data_ok (s_data s) -> stake_validate e s <> VPanic.
Proof.
  intros He Hd. unfold stake_validate. destruct (unpack_args Sel_stake_Stake [TInt 64] (s_data s)) as [vs| |] eqn:E.
  - apply unpack_args_shape in E; shapes.
    destruct (_ || _); [discriminate|]. destruct (_ || _); [discriminate|].
    destruct (c_StakeTimeUnit e =? 0) eqn:Eu; [exfalso; apply He; lia|]. destruct (negb _); discriminate.
  - discriminate.
  - exfalso; revert E; apply unpack_args_no_panic; [wf_tys | vm_compute; discriminate | exact Hd].
Qed.
Lemma cancel_stake_validate_no_panic s : data_ok (s_data s) -> cancel_stake_validate s <> VPanic.
Proof. intros Hd. unfold cancel_stake_validate. validate_args Sel_stake_Cancel [THash]. Qed.
Lemma create_validate_no_panic s : data_ok (s_data s) -> create_validate s <> VPanic.
Proof. intros Hd. unfold create_validate. validate_args Sel_htlc_Create [TAddress; TInt 64; TUint 8; TUint 8; TBytes]. Qed.
Lemma reclaim_validate_no_panic s : data_ok (s_data s) -> reclaim_validate s <> VPanic.
Proof. intros Hd. unfold reclaim_validate. validate_args Sel_htlc_Reclaim [THash]. Qed.
Lemma unlock_validate_no_panic s : data_ok (s_data s) -> unlock_validate s <> VPanic.
Proof. intros Hd. unfold unlock_validate. validate_args Sel_htlc_Unlock [THash; TBytes]. Qed.
Lemma proxy_validate_no_panic sel s : proxy_validate sel s <> VPanic.
Proof. unfold proxy_validate. validate_empty sel. Qed.
Lemma mint_validate_no_panic s : data_ok (s_data s) -> mint_validate s <> VPanic.
Proof. intros Hd. unfold mint_validate. validate_args Sel_token_Mint [TZts; TUint 256; TAddress]. Qed.
Lemma update_token_validate_no_panic s : data_ok (s_data s) -> update_token_validate s <> VPanic.
Proof. intros Hd. unfold update_token_validate. validate_args Sel_token_UpdateToken [TZts; TAddress; TBool; TBool]. Qed.
Lemma burn_validate_no_panic s : burn_validate s <> VPanic.
Proof. unfold burn_validate. validate_empty Sel_token_Burn. Qed.
Lemma deposit_qsr_validate_no_panic s : deposit_qsr_validate s <> VPanic.
Proof. unfold deposit_qsr_validate. validate_empty Sel_common_DepositQsr. Qed.
Lemma withdraw_qsr_validate_no_panic s : withdraw_qsr_validate s <> VPanic.
Proof. unfold withdraw_qsr_validate. validate_empty Sel_common_WithdrawQsr. Qed.
Lemma donate_validate_no_panic s : donate_validate s <> VPanic.
Proof. unfold donate_validate. validate_empty Sel_common_Donate. Qed.
Lemma collect_validate_no_panic s : collect_validate s <> VPanic.
Proof. unfold collect_validate. validate_empty Sel_common_CollectReward. Qed.

(* ================================================================ per-method: validated => no panic *)
Theorem deposit_qsr_no_panic a s x : deposit_qsr_validate s = VOk x -> deposit_qsr_receive a s <> MPanic.
Proof. intros H. unfold deposit_qsr_receive. rewrite H. discriminate. Qed.
Theorem withdraw_qsr_no_panic self a s x : withdraw_qsr_validate s = VOk x -> withdraw_qsr_receive self a s <> MPanic.
Proof. intros H. unfold withdraw_qsr_receive. rewrite H. destruct (Z.eqb _ 0); discriminate. Qed.
Theorem donate_no_panic S (a : cacct S) s x : donate_validate s = VOk x -> donate_receive a s <> MPanic.
Proof. intros H. unfold donate_receive. rewrite H. discriminate. Qed.
Theorem collect_no_panic a s x : collect_validate s = VOk x -> collect_receive a s <> MPanic.
Proof.
  intros H. unfold collect_receive. rewrite H. destruct (tget _ _) as [[z q]|]; destruct (_ && _); discriminate.
Qed.
Theorem fuse_no_panic e a s x : fuse_validate e s = VOk x -> fuse_receive e a s <> MPanic.
Proof. intros H. unfold fuse_receive. rewrite H. discriminate. Qed.
Theorem cancel_fuse_no_panic e a s x : cancel_fuse_validate s = VOk x -> cancel_fuse_receive e a s <> MPanic.
Proof.
  intros H. unfold cancel_fuse_receive. rewrite H. destruct (tget _ _); [|discriminate].
  destruct (Z.ltb _ _); discriminate.
Qed.
Theorem stake_no_panic e a s x : stake_validate e s = VOk x -> stake_receive e a s <> MPanic.
Proof. intros H. unfold stake_receive. rewrite H. discriminate. Qed.
Theorem cancel_stake_no_panic e a s x : cancel_stake_validate s = VOk x -> cancel_stake_receive e a s <> MPanic.
Proof.
  intros H. unfold cancel_stake_receive. rewrite H. destruct (tget _ _); [|discriminate].
  destruct (Z.ltb _ _); discriminate.
Qed.
Theorem create_htlc_no_panic e a s x : create_validate s = VOk x -> create_receive e a s <> MPanic.
Proof.
  intros H. unfold create_receive. rewrite H. destruct x as [[[[hl ex] ty] km] lk]. destruct (Z.leb _ _); discriminate.
Qed.
Theorem reclaim_htlc_no_panic e a s x : reclaim_validate s = VOk x -> reclaim_receive e a s <> MPanic.
Proof.
  intros H. unfold reclaim_receive. rewrite H. destruct (tget _ _); [|discriminate].
  destruct (negb _); [discriminate|]. destruct (Z.ltb _ _); discriminate.
Qed.
Theorem unlock_htlc_no_panic H e a s x : unlock_validate s = VOk x -> unlock_receive H e a s <> MPanic.
Proof.
  intros Hv. unfold unlock_receive. rewrite Hv. destruct x as [id pre]. destruct (tget _ _); [|discriminate].
  destruct (_ && _); [discriminate|]. destruct (Z.leb _ _); [discriminate|]. destruct (Z.ltb _ _); [discriminate|].
  destruct (negb _); discriminate.
Qed.
Theorem proxy_htlc_no_panic (allow : bool) (a : cacct hstore) (s : send) x :
  proxy_validate (if allow then Sel_htlc_AllowProxyUnlock else Sel_htlc_DenyProxyUnlock) s = VOk x -> proxy_receive allow a s <> MPanic.
Proof. intros H. unfold proxy_receive. rewrite H. discriminate. Qed.
Theorem mint_no_panic a s x : mint_validate s = VOk x -> mint_receive a s <> MPanic.
Proof.
  intros H. unfold mint_receive. rewrite H. destruct x as [[z amt] recv]. destruct (tget _ _); [|discriminate].
  repeat (match goal with |- context [if ?c then _ else _] => destruct c end; try discriminate).
Qed.
Theorem update_token_no_panic a s x : update_token_validate s = VOk x -> update_token_receive a s <> MPanic.
Proof.
  intros H. unfold update_token_receive. rewrite H. destruct x as [[[z o] mi] bu]. destruct (tget _ _); [|discriminate].
  repeat (match goal with |- context [if ?c then _ else _] => destruct c end; try discriminate).
Qed.
(* Burn debits the token contract: the received amount was credited just before, so the balance suffices *)
Theorem burn_no_panic a s x : burn_validate s = VOk x -> s_amount s <= bal_get (a_bal a) (s_zts s) -> burn_receive a s <> MPanic.
Proof.
  intros H Hb. unfold burn_receive. rewrite H. destruct (tget _ _); [|discriminate].
  destruct (_ && _); [discriminate|]. unfold sub_balance. cbn [a_bal with_store].
  replace (s_amount s <=? bal_get (a_bal a) (s_zts s)) with true by (symmetry; lia). discriminate.
Qed.

(* ================================================================ method tables *)
Section Tables.
  Variable dc : dsend -> option Z.

  (* ---------------- plasma *)
  Definition plasma_lookup (ef : send -> env) (s : send) : lres pstore :=
    if bytes_eqb (sel_of (s_data s)) Sel_plasma_Fuse then LFound (fuse_receive (ef s))
    else if bytes_eqb (sel_of (s_data s)) Sel_plasma_CancelFuse then LFound (cancel_fuse_receive (ef s))
    else LNotFound.
  Definition J_plasma (a : cacct pstore) : Prop := tall (fun f => 0 <= f_amount f) (p_fusions (a_store a)).

  Lemma plasma_table_ok ef : table_ok pstore dc J_plasma (plasma_lookup ef).
  Proof.
    split.
    - intros a a' HJ Hs _. unfold J_plasma in *. rewrite Hs. exact HJ.
    - intros s. unfold plasma_lookup. repeat destruct (bytes_eqb _ _); discriminate.
    - intros s m a El HJ Hn Hs. assert (Hd : data_ok (s_data s)) by (split; apply Hs). unfold plasma_lookup in El.
      destruct (bytes_eqb _ Sel_plasma_Fuse); [inversion El; subst m|
        destruct (bytes_eqb _ Sel_plasma_CancelFuse); [inversion El; subst m|discriminate]].
      + unfold fuse_receive. pose proof (fuse_validate_no_panic (ef s) s Hd). destruct (fuse_validate (ef s) s); [discriminate|discriminate|contradiction].
      + unfold cancel_fuse_receive. pose proof (cancel_fuse_validate_no_panic s Hd). destruct (cancel_fuse_validate s); [|discriminate|contradiction].
        destruct (tget _ _); [|discriminate]. destruct (Z.ltb _ _); discriminate.
    - intros s m a a' ds El HJ Hn Hs Em. unfold plasma_lookup in El.
      pose proof (credited_nonneg pstore a s Hn Hs) as Hnc.
      destruct (bytes_eqb _ Sel_plasma_Fuse); [inversion El; subst m|
        destruct (bytes_eqb _ Sel_plasma_CancelFuse); [inversion El; subst m|discriminate]].
      + unfold fuse_receive in Em. destruct (fuse_validate (ef s) s) as [ben| |]; try discriminate.
        inversion Em; subst a' ds. clear Em.
        assert (HJ' : J_plasma (with_store (credited pstore a s)
                   {| p_fusions := tput (p_fusions (a_store (credited pstore a s))) (s_from s ++ s_hash s)
                        {| f_amount := u256 (s_amount s); f_exp := u64 (e_height (ef s) + c_FuseExpiration (ef s)); f_ben := ben |};
                      p_fused := tput (p_fused (a_store (credited pstore a s))) ben
                        (u256 (match tget (p_fused (a_store (credited pstore a s))) ben with Some v => v | None => 0 end + s_amount s)) |})).
        { unfold J_plasma. cbn [a_store with_store p_fusions]. apply tall_tput; [exact HJ | apply u256_nonneg]. }
        split; [|split; [|split]]; auto.
        * intros a'' Ea. inversion Ea; subst a''. exact HJ'.
      + unfold cancel_fuse_receive in Em. destruct (cancel_fuse_validate s) as [id| |]; try discriminate.
        rewrite credited_store in Em.
        destruct (tget (p_fusions (a_store a)) (s_from s ++ id)) as [ent|] eqn:Eg; [|discriminate].
        destruct (e_height (ef s) <? f_exp ent); [discriminate|].
        inversion Em; subst a' ds. clear Em.
        pose proof (HJ _ _ Eg) as Hamt. cbn beta in Hamt.
        assert (Hds : Forall ds_ok [{| d_to := s_from s; d_amount := f_amount ent; d_zts := ZtsQsr; d_data := [] |}]).
        { constructor; [|constructor]. split; cbn; [exact Hamt | intros _; exact zts_qsr_not_zero]. }
        split; [|split; [|split]]; auto.
        intros a'' Ea. unfold J_plasma.
        rewrite (apply_all_store pstore dc _ _ a'' (with_store_nonneg pstore _ _ Hnc) Hds Ea).
        cbn [a_store with_store p_fusions]. apply tall_tdel. exact HJ.
  Qed.

  (* ---------------- stake *)
  Definition stake_lookup (ef : send -> env) (s : send) : lres sstore :=
    if bytes_eqb (sel_of (s_data s)) Sel_stake_Stake then LFound (stake_receive (ef s))
    else if bytes_eqb (sel_of (s_data s)) Sel_stake_Cancel then LFound (cancel_stake_receive (ef s))
    else LNotFound.
  Definition J_stake (a : cacct sstore) : Prop := tall (fun k => 0 <= k_amount k) (a_store a).

  Lemma stake_table_ok ef : (forall s, env_ok (ef s)) -> table_ok sstore dc J_stake (stake_lookup ef).
  Proof.
    intros He. split.
    - intros a a' HJ Hs _. unfold J_stake in *. rewrite Hs. exact HJ.
    - intros s. unfold stake_lookup. repeat destruct (bytes_eqb _ _); discriminate.
    - intros s m a El HJ Hn Hs. assert (Hd : data_ok (s_data s)) by (split; apply Hs). unfold stake_lookup in El.
      destruct (bytes_eqb _ Sel_stake_Stake); [inversion El; subst m|
        destruct (bytes_eqb _ Sel_stake_Cancel); [inversion El; subst m|discriminate]].
      + unfold stake_receive. pose proof (stake_validate_no_panic (ef s) s (He s) Hd). destruct (stake_validate (ef s) s); [discriminate|discriminate|contradiction].
      + unfold cancel_stake_receive. pose proof (cancel_stake_validate_no_panic s Hd). destruct (cancel_stake_validate s); [|discriminate|contradiction].
        destruct (tget _ _); [|discriminate]. destruct (Z.ltb _ _); discriminate.
    - intros s m a a' ds El HJ Hn Hs Em. unfold stake_lookup in El.
      pose proof (credited_nonneg sstore a s Hn Hs) as Hnc.
      destruct (bytes_eqb _ Sel_stake_Stake); [inversion El; subst m|
        destruct (bytes_eqb _ Sel_stake_Cancel); [inversion El; subst m|discriminate]].
      + unfold stake_receive in Em. destruct (stake_validate (ef s) s) as [t| |]; try discriminate.
        inversion Em; subst a' ds. clear Em.
        split; [|split; [|split]]; auto.
        intros a'' Ea. inversion Ea; subst a''. unfold J_stake. cbn [a_store with_store].
        apply tall_tput; [exact HJ | apply u256_nonneg].
      + unfold cancel_stake_receive in Em. destruct (cancel_stake_validate s) as [id| |]; try discriminate.
        rewrite credited_store in Em.
        destruct (tget (a_store a) (s_from s ++ id)) as [ent|] eqn:Eg; [|discriminate].
        destruct (e_now (ef s) <? k_exp ent); [discriminate|].
        inversion Em; subst a' ds. clear Em.
        pose proof (HJ _ _ Eg) as Hamt. cbn beta in Hamt.
        assert (Hds : Forall ds_ok [{| d_to := s_from s; d_amount := k_amount ent; d_zts := ZtsZnn; d_data := [] |}]).
        { constructor; [|constructor]. split; cbn; [exact Hamt | intros _; exact zts_znn_not_zero]. }
        split; [|split; [|split]]; auto.
        intros a'' Ea. unfold J_stake.
        rewrite (apply_all_store sstore dc _ _ a'' (with_store_nonneg sstore _ _ Hnc) Hds Ea).
        cbn [a_store with_store]. apply tall_tput; [exact HJ | cbn; lia].
  Qed.

  (* ---------------- common part (QSR deposits, reward deposits, donations) of a contract at address [self] *)
  Variable self : bytes.
  Definition common_lookup (s : send) : lres cstore :=
    let sl := sel_of (s_data s) in
    if bytes_eqb sl Sel_common_DepositQsr then LFound deposit_qsr_receive
    else if bytes_eqb sl Sel_common_WithdrawQsr then LFound (withdraw_qsr_receive self)
    else if bytes_eqb sl Sel_common_CollectReward then LFound collect_receive
    else if bytes_eqb sl Sel_common_Donate then LFound donate_receive
    else LNotFound.
  Definition J_common (a : cacct cstore) : Prop := tall (fun v => 0 <= v) (q_dep (a_store a)).

  Lemma common_table_ok : table_ok cstore dc J_common common_lookup.
  Proof.
    split.
    - intros a a' HJ Hs _. unfold J_common in *. rewrite Hs. exact HJ.
    - intros s. unfold common_lookup. cbv zeta. repeat destruct (bytes_eqb _ _); discriminate.
    - intros s m a El HJ Hn Hs. assert (Hd : data_ok (s_data s)) by (split; apply Hs). unfold common_lookup in El. cbv zeta in El.
      repeat (match type of El with context [bytes_eqb ?x ?y] => destruct (bytes_eqb x y) end;
              [inversion El; subst m; clear El|]); try discriminate.
      + unfold deposit_qsr_receive. pose proof (deposit_qsr_validate_no_panic s). destruct (deposit_qsr_validate s); [discriminate|discriminate|contradiction].
      + unfold withdraw_qsr_receive. pose proof (withdraw_qsr_validate_no_panic s). destruct (withdraw_qsr_validate s); [|discriminate|contradiction]. destruct (Z.eqb _ 0); discriminate.
      + unfold collect_receive. pose proof (collect_validate_no_panic s). destruct (collect_validate s); [|discriminate|contradiction].
        destruct (tget _ _) as [[z q]|]; destruct (_ && _); discriminate.
      + unfold donate_receive. pose proof (donate_validate_no_panic s). destruct (donate_validate s); [discriminate|discriminate|contradiction].
    - intros s m a a' ds El HJ Hn Hs Em. unfold common_lookup in El. cbv zeta in El.
      pose proof (credited_nonneg cstore a s Hn Hs) as Hnc.
      repeat (match type of El with context [bytes_eqb ?x ?y] => destruct (bytes_eqb x y) end;
              [inversion El; subst m; clear El|]); try discriminate.
      + unfold deposit_qsr_receive in Em. destruct (deposit_qsr_validate s); try discriminate.
        inversion Em; subst a' ds. split; [|split; [|split]]; auto.
        intros a'' Ea. inversion Ea; subst a''. unfold J_common. cbn [a_store with_store q_dep].
        apply tall_tput; [exact HJ | apply u256_nonneg].
      + unfold withdraw_qsr_receive in Em. destruct (withdraw_qsr_validate s); try discriminate.
        rewrite credited_store in Em.
        destruct (tget (q_dep (a_store a)) (s_from s)) as [v|] eqn:Eg; cbn in Em; [|discriminate].
        destruct (v =? 0); [discriminate|]. inversion Em; subst a' ds. clear Em.
        pose proof (HJ _ _ Eg) as Hv. cbn beta in Hv.
        assert (Hds : Forall ds_ok [{| d_to := s_from s; d_amount := v; d_zts := ZtsQsr; d_data := [] |}]).
        { constructor; [|constructor]. split; cbn; [exact Hv | intros _; exact zts_qsr_not_zero]. }
        split; [|split; [|split]]; auto.
        intros a'' Ea. unfold J_common.
        rewrite (apply_all_store cstore dc _ _ a'' (with_store_nonneg cstore _ _ Hnc) Hds Ea).
        cbn [a_store with_store q_dep]. apply tall_tdel. exact HJ.
      + unfold collect_receive in Em. destruct (collect_validate s); try discriminate.
        rewrite credited_store in Em.
        destruct (match tget (r_dep (a_store a)) (s_from s) with Some v => v | None => (0, 0) end) as [znn qsr].
        destruct ((znn =? 0) && (qsr =? 0)); [discriminate|]. inversion Em; subst a' ds. clear Em.
        assert (Hds : Forall ds_ok ((if 0 <? znn then [mint_call true znn] else []) ++ (if 0 <? qsr then [mint_call false qsr] else []))).
        { apply Forall_app. split; [destruct (0 <? znn)|destruct (0 <? qsr)]; repeat constructor; cbn; lia. }
        split; [|split; [|split]]; auto.
        intros a'' Ea. unfold J_common.
        rewrite (apply_all_store cstore dc _ _ a'' (with_store_nonneg cstore _ _ Hnc) Hds Ea).
        cbn [a_store with_store q_dep]. exact HJ.
      + unfold donate_receive in Em. destruct (donate_validate s); try discriminate.
        inversion Em; subst a' ds. split; [|split; [|split]]; auto.
        intros a'' Ea. inversion Ea; subst a''. exact HJ.
  Qed.

  (* ---------------- token (Mint, Burn, UpdateToken; IssueToken is explored by the harness only) *)
  Definition token_lookup (s : send) : lres tstore :=
    let sl := sel_of (s_data s) in
    if bytes_eqb sl Sel_token_Mint then LFound mint_receive
    else if bytes_eqb sl Sel_token_Burn then LFound burn_receive
    else if bytes_eqb sl Sel_token_UpdateToken then LFound update_token_receive
    else LNotFound.
  (* no token is registered under the zero token standard *)
  Definition J_token (a : cacct tstore) : Prop := tget (a_store a) zero_zts = None.

  Lemma tget_some_not_zero (a : cacct tstore) z tk : J_token a -> tget (a_store a) z = Some tk -> z <> zero_zts.
  Proof. intros HJ E ->. unfold J_token in HJ. congruence. Qed.

  Lemma token_table_ok : table_ok tstore dc J_token token_lookup.
  Proof.
    split.
    - intros a a' HJ Hs _. unfold J_token in *. rewrite Hs. exact HJ.
    - intros s. unfold token_lookup. cbv zeta. repeat destruct (bytes_eqb _ _); discriminate.
    - intros s m a El HJ Hn Hs. assert (Hd : data_ok (s_data s)) by (split; apply Hs).
      unfold token_lookup in El. cbv zeta in El.
      repeat (match type of El with context [bytes_eqb ?x ?y] => destruct (bytes_eqb x y) end;
              [inversion El; subst m; clear El|]); try discriminate.
      + unfold mint_receive. pose proof (mint_validate_no_panic s Hd).
        destruct (mint_validate s) as [[[z amt] recv]| |]; [|discriminate|contradiction].
        destruct (tget _ _); [|discriminate]. ifs.
      + unfold burn_receive. pose proof (burn_validate_no_panic s).
        destruct (burn_validate s); [|discriminate|contradiction].
        destruct (tget _ _); [|discriminate]. destruct (_ && _); [discriminate|].
        unfold sub_balance. cbn [a_bal with_store].
        pose proof (credited_bal tstore a s Hn).
        replace (s_amount s <=? bal_get (a_bal (credited tstore a s)) (s_zts s)) with true by (symmetry; lia). discriminate.
      + unfold update_token_receive. pose proof (update_token_validate_no_panic s Hd).
        destruct (update_token_validate s) as [[[[z o] mi] bu]| |]; [|discriminate|contradiction].
        destruct (tget _ _); [|discriminate]. ifs.
    - intros s m a a' ds El HJ Hn Hs Em. unfold token_lookup in El. cbv zeta in El.
      pose proof (credited_nonneg tstore a s Hn Hs) as Hnc.
      repeat (match type of El with context [bytes_eqb ?x ?y] => destruct (bytes_eqb x y) end;
              [inversion El; subst m; clear El|]); try discriminate.
      + (* mint *)
        unfold mint_receive in Em. destruct (mint_validate s) as [[[z amt] recv]| |] eqn:Ev; try discriminate.
        rewrite credited_store in Em.
        destruct (tget (a_store a) z) as [tk|] eqn:Eg; [|discriminate].
        assert (Hamt : 0 < amt).
        { unfold mint_validate in Ev. destruct (unpack_args _ _ _); try discriminate. repeat (vcase Ev). inversion Ev; subst. lia. }
        destruct (negb (t_mintable tk)); [discriminate|].
        destruct (t_max tk - t_total tk <? amt); [discriminate|].
        destruct ((bytes_eqb z ZtsZnn || bytes_eqb z ZtsQsr) && negb (s_from_embedded s)); [discriminate|].
        destruct (negb (bytes_eqb z ZtsZnn || bytes_eqb z ZtsQsr) && negb (bytes_eqb (t_owner tk) (s_from s))); [discriminate|].
        inversion Em; subst a' ds. clear Em.
        pose proof (tget_some_not_zero a z tk HJ Eg) as Hz.
        assert (Hds : Forall ds_ok [{| d_to := recv; d_amount := amt; d_zts := z; d_data := if is_embedded recv then Sel_common_Donate else [] |}]).
        { constructor; [|constructor]. split; cbn; [lia | intros _; exact Hz]. }
        assert (Hn' : nonneg tstore (add_balance tstore (with_store (credited tstore a s) (tput (a_store a) z
                  {| t_owner := t_owner tk; t_name := t_name tk; t_symbol := t_symbol tk; t_domain := t_domain tk;
                     t_total := u256 (t_total tk + amt); t_max := t_max tk; t_decimals := t_decimals tk;
                     t_mintable := t_mintable tk; t_burnable := t_burnable tk; t_utility := t_utility tk |})) z amt)).
        { apply add_balance_nonneg; [apply with_store_nonneg; exact Hnc | lia]. }
        split; [|split; [|split]]; auto.
        intros a'' Ea. unfold J_token.
        rewrite (apply_all_store tstore dc _ _ a'' Hn' Hds Ea).
        cbn [a_store add_balance with_bal with_store]. rewrite tget_tput.
        rewrite bytes_eqb_neq by exact Hz. exact HJ.
      + (* burn *)
        unfold burn_receive in Em. destruct (burn_validate s); try discriminate.
        rewrite credited_store in Em.
        destruct (tget (a_store a) (s_zts s)) as [tk|] eqn:Eg; [|discriminate].
        destruct (_ && _); [discriminate|].
        unfold sub_balance in Em. cbn [a_bal with_store] in Em.
        pose proof (credited_bal tstore a s Hn) as Hb.
        replace (s_amount s <=? bal_get (a_bal (credited tstore a s)) (s_zts s)) with true in Em by (symmetry; lia).
        inversion Em; subst a' ds. clear Em.
        pose proof (tget_some_not_zero a _ tk HJ Eg) as Hz.
        split; [|split; [|split]].
        * reflexivity.
        * intros z. unfold with_bal, with_store. cbn [a_bal]. rewrite bal_get_set.
          destruct (bytes_eqb (s_zts s) z) eqn:Ez; [apply bytes_eqb_eq in Ez; subst z; apply Z.le_0_sub; exact Hb | apply Hnc].
        * constructor.
        * intros a'' Ea. inversion Ea; subst a''. unfold J_token. cbn [a_store with_bal with_store].
          rewrite tget_tput. rewrite bytes_eqb_neq by exact Hz. exact HJ.
      + (* update *)
        unfold update_token_receive in Em. destruct (update_token_validate s) as [[[[z o] mi] bu]| |]; try discriminate.
        rewrite credited_store in Em.
        destruct (tget (a_store a) z) as [tk|] eqn:Eg; [|discriminate].
        repeat (match type of Em with context [if ?c then _ else _] => destruct c end; try discriminate).
        all: inversion Em; subst a' ds; clear Em.
        all: pose proof (tget_some_not_zero a z tk HJ Eg) as Hz.
        all: split; [|split; [|split]]; auto.
        all: intros a'' Ea; inversion Ea; subst a''; unfold J_token; cbn [a_store with_store];
             rewrite tget_tput; rewrite bytes_eqb_neq by exact Hz; exact HJ.
  Qed.

  (* ---------------- htlc *)
  Variable H : Z -> bytes -> bytes.
  Definition htlc_lookup (ef : send -> env) (s : send) : lres hstore :=
    let sl := sel_of (s_data s) in
    if bytes_eqb sl Sel_htlc_Create then LFound (create_receive (ef s))
    else if bytes_eqb sl Sel_htlc_Reclaim then LFound (reclaim_receive (ef s))
    else if bytes_eqb sl Sel_htlc_Unlock then LFound (unlock_receive H (ef s))
    else if bytes_eqb sl Sel_htlc_DenyProxyUnlock then LFound (proxy_receive false)
    else if bytes_eqb sl Sel_htlc_AllowProxyUnlock then LFound (proxy_receive true)
    else LNotFound.
  Definition htlc_entry_ok (h : htlc) : Prop := 0 <= h_amount h /\ h_zts h <> zero_zts.
  Definition J_htlc (a : cacct hstore) : Prop := tall htlc_entry_ok (h_entries (a_store a)).

  Lemma htlc_table_ok ef : table_ok hstore dc J_htlc (htlc_lookup ef).
  Proof.
    split.
    - intros a a' HJ Hs _. unfold J_htlc in *. rewrite Hs. exact HJ.
    - intros s. unfold htlc_lookup. cbv zeta. repeat destruct (bytes_eqb _ _); discriminate.
    - intros s m a El HJ Hn Hs. assert (Hd : data_ok (s_data s)) by (split; apply Hs). unfold htlc_lookup in El. cbv zeta in El.
      repeat (match type of El with context [bytes_eqb ?x ?y] => destruct (bytes_eqb x y) end;
              [inversion El; subst m; clear El|]); try discriminate.
      + unfold create_receive. pose proof (create_validate_no_panic s Hd). destruct (create_validate s) as [[[[[hl ex] ty] km] lk]| |]; [|discriminate|contradiction].
        destruct (Z.leb _ _); discriminate.
      + unfold reclaim_receive. pose proof (reclaim_validate_no_panic s Hd). destruct (reclaim_validate s); [|discriminate|contradiction].
        destruct (tget _ _); [|discriminate]. destruct (negb _); [discriminate|]. destruct (Z.ltb _ _); discriminate.
      + unfold unlock_receive. pose proof (unlock_validate_no_panic s Hd). destruct (unlock_validate s) as [[id pre]| |]; [|discriminate|contradiction].
        destruct (tget _ _); [|discriminate].
        destruct (_ && _); [discriminate|]. destruct (Z.leb _ _); [discriminate|]. destruct (Z.ltb _ _); [discriminate|].
        destruct (negb _); discriminate.
      + unfold proxy_receive. pose proof (proxy_validate_no_panic Sel_htlc_DenyProxyUnlock s). destruct (proxy_validate _ s); [discriminate|discriminate|contradiction].
      + unfold proxy_receive. pose proof (proxy_validate_no_panic Sel_htlc_AllowProxyUnlock s). destruct (proxy_validate _ s); [discriminate|discriminate|contradiction].
    - intros s m a a' ds El HJ Hn Hs Em. unfold htlc_lookup in El. cbv zeta in El.
      pose proof (credited_nonneg hstore a s Hn Hs) as Hnc.
      repeat (match type of El with context [bytes_eqb ?x ?y] => destruct (bytes_eqb x y) end;
              [inversion El; subst m; clear El|]); try discriminate.
      + (* create *)
        unfold create_receive in Em. destruct (create_validate s) as [[[[[hl ex] ty] km] lk]| |] eqn:Ev; try discriminate.
        destruct (ex <=? e_now (ef s)); [discriminate|]. inversion Em; subst a' ds. clear Em.
        split; [|split; [|split]]; auto.
        intros a'' Ea. inversion Ea; subst a''. unfold J_htlc. cbn [a_store with_store h_entries].
        apply tall_tput; [exact HJ|]. split; cbn; [apply u256_nonneg|].
        (* the call carried a positive amount, so the verifier forced a token *)
        unfold create_validate in Ev.
        destruct (unpack_args _ _ _) as [vs| |]; try discriminate.
        repeat (vcase Ev). apply Hs. destruct Hs as (Hge & _). lia.
      + (* reclaim *)
        unfold reclaim_receive in Em. destruct (reclaim_validate s) as [id| |]; try discriminate.
        rewrite credited_store in Em.
        destruct (tget (h_entries (a_store a)) id) as [ent|] eqn:Eg; [|discriminate].
        destruct (negb _); [discriminate|]. destruct (Z.ltb _ _); [discriminate|].
        inversion Em; subst a' ds. clear Em.
        destruct (HJ _ _ Eg) as (Hamt & Hz).
        assert (Hds : Forall ds_ok [{| d_to := h_timelocked ent; d_amount := h_amount ent; d_zts := h_zts ent; d_data := [] |}]).
        { constructor; [|constructor]. split; cbn; auto. }
        split; [|split; [|split]]; auto.
        intros a'' Ea. unfold J_htlc.
        rewrite (apply_all_store hstore dc _ _ a'' (with_store_nonneg hstore _ _ Hnc) Hds Ea).
        cbn [a_store with_store h_entries]. apply tall_tdel. exact HJ.
      + (* unlock *)
        unfold unlock_receive in Em. destruct (unlock_validate s) as [[id pre]| |]; try discriminate.
        rewrite credited_store in Em.
        destruct (tget (h_entries (a_store a)) id) as [ent|] eqn:Eg; [|discriminate].
        destruct (_ && _); [discriminate|]. destruct (Z.leb _ _); [discriminate|]. destruct (Z.ltb _ _); [discriminate|].
        destruct (negb _); [discriminate|].
        inversion Em; subst a' ds. clear Em.
        destruct (HJ _ _ Eg) as (Hamt & Hz).
        assert (Hds : Forall ds_ok [{| d_to := h_hashlocked ent; d_amount := h_amount ent; d_zts := h_zts ent; d_data := [] |}]).
        { constructor; [|constructor]. split; cbn; auto. }
        split; [|split; [|split]]; auto.
        intros a'' Ea. unfold J_htlc.
        rewrite (apply_all_store hstore dc _ _ a'' (with_store_nonneg hstore _ _ Hnc) Hds Ea).
        cbn [a_store with_store h_entries]. apply tall_tdel. exact HJ.
      + unfold proxy_receive in Em. destruct (proxy_validate _ s); try discriminate.
        inversion Em; subst a' ds. split; [|split; [|split]]; auto.
        intros a'' Ea. inversion Ea; subst a''. exact HJ.
      + unfold proxy_receive in Em. destruct (proxy_validate _ s); try discriminate.
        inversion Em; subst a' ds. split; [|split; [|split]]; auto.
        intros a'' Ea. inversion Ea; subst a''. exact HJ.
  Qed.

End Tables.

(* ================================================================ the vm theorems instantiated *)
Section Instances.
  Variable dc : dsend -> option Z.

  Theorem plasma_completes ef a s : nonneg pstore a -> J_plasma a -> send_ok s -> dc (refund_of s) = None ->
    outcome_ok pstore J_plasma a s (generate_receive pstore dc (plasma_lookup ef) a s).
  Proof. intros. apply vm_completes; auto using plasma_table_ok. Qed.
  Theorem stake_completes ef a s : (forall s, env_ok (ef s)) -> nonneg sstore a -> J_stake a -> send_ok s -> dc (refund_of s) = None ->
    outcome_ok sstore J_stake a s (generate_receive sstore dc (stake_lookup ef) a s).
  Proof. intros. apply vm_completes; auto using stake_table_ok. Qed.
  Theorem common_completes self a s : nonneg cstore a -> J_common a -> send_ok s -> dc (refund_of s) = None ->
    outcome_ok cstore J_common a s (generate_receive cstore dc (common_lookup self) a s).
  Proof. intros. apply vm_completes; auto using common_table_ok. Qed.
  Theorem token_completes a s : nonneg tstore a -> J_token a -> send_ok s -> dc (refund_of s) = None ->
    outcome_ok tstore J_token a s (generate_receive tstore dc token_lookup a s).
  Proof. intros. apply vm_completes; auto. apply (token_table_ok dc). Qed.

  Variable H : Z -> bytes -> bytes.
  Theorem htlc_completes ef a s : nonneg hstore a -> J_htlc a -> send_ok s -> dc (refund_of s) = None ->
    outcome_ok hstore J_htlc a s (generate_receive hstore dc (htlc_lookup H ef) a s).
  Proof. intros. apply vm_completes; auto using htlc_table_ok. Qed.

  (* any queue of calls to the htlc contract (the one with the most methods) is worked off completely *)
  Theorem htlc_inbox_never_wedged ef q : Forall (fun s => send_ok s /\ dc (refund_of s) = None) q ->
    forall a, nonneg hstore a -> J_htlc a ->
    exists a', process_all hstore dc (htlc_lookup H ef) a q = Some a' /\ a_cursor a' = a_cursor a + Z.of_nat (length q) /\
               nonneg hstore a' /\ J_htlc a'.
  Proof. intros. apply inbox_never_wedged; auto using htlc_table_ok. Qed.
End Instances.
