(* Proofs about JsonText.v: every field's printed text parses back to the value (for every value of the field's
   range), what else the parsers accept (the "second text forms" of a value) and what they refuse. *)
From ZV Require Import Prelude PoWProofs Dec DecProofs JsonText.
Open Scope Z_scope.
Ltac Zify.zify_post_hook ::= Z.div_mod_to_equations.

(* ================================================================ decimal: amounts *)
Theorem amount_roundtrip z : parse_amount (print_amount z) = z.
Proof. apply parse_print_dec. Qed.

Lemma parse_digits_nondigit c : forall s acc, In c s -> is_digit c = false -> parse_digits acc s = None.
Proof.
  induction s as [|x s IH]; intros acc Hin Hc; [destruct Hin|].
  cbn [parse_digits]. destruct Hin as [->|Hin]; [rewrite Hc; reflexivity|].
  destruct (is_digit x); [apply IH; assumption | reflexivity].
Qed.
Lemma parse_digits_zeros k : forall s acc, parse_digits acc (repeat 48 k ++ s) = parse_digits (acc * 10 ^ Z.of_nat k) s.
Proof.
  induction k as [|k IH]; intros s acc.
  - cbn [repeat app]. f_equal. cbn. lia.
  - cbn [repeat app parse_digits]. replace (is_digit 48) with true by reflexivity. rewrite IH.
    f_equal. rewrite Nat2Z.inj_succ, Z.pow_succ_r by lia. lia.
Qed.
Lemma parse_unsigned_zeros k s : s <> [] -> parse_unsigned (repeat 48 k ++ s) = parse_unsigned s.
Proof.
  intros Hs. unfold parse_unsigned.
  destruct (repeat 48 k ++ s) eqn:E.
  - apply app_eq_nil in E. destruct E; contradiction.
  - rewrite <- E. rewrite parse_digits_zeros. cbn [Z.mul]. destruct s; [contradiction|reflexivity].
Qed.
Lemma print_nonneg z : 0 <= z -> print_dec z = dec_digits (dec_fuel z) z [].
Proof. intros Hz. unfold print_dec. replace (z <? 0) with false by lia. reflexivity. Qed.
Lemma print_nonempty z : 0 <= z -> dec_digits (dec_fuel z) z [] <> [].
Proof. intros _. unfold dec_fuel. apply dec_digits_nonempty. Qed.

(* texts that big.Int.String never prints but SetString takes: a plus sign, leading zeros, "-0" *)
Theorem amount_plus z : 0 <= z -> parse_amount (43 :: print_amount z) = z.
Proof.
  intros Hz. unfold parse_amount, print_amount, parse_dec, set_string10.
  replace (43 =? 45) with false by reflexivity. replace (43 =? 43) with true by reflexivity.
  rewrite print_nonneg by exact Hz. rewrite parse_unsigned_print by exact Hz. reflexivity.
Qed.
Theorem amount_leading_zeros k z : 0 <= z -> parse_amount (repeat 48 (S k) ++ print_amount z) = z.
Proof.
  intros Hz. unfold parse_amount, print_amount, parse_dec, set_string10.
  cbn [repeat app]. replace (48 =? 45) with false by reflexivity. replace (48 =? 43) with false by reflexivity.
  change (48 :: repeat 48 k ++ print_dec z) with (repeat 48 (S k) ++ print_dec z).
  rewrite print_nonneg by exact Hz. rewrite parse_unsigned_zeros by (apply print_nonempty; exact Hz).
  rewrite parse_unsigned_print by exact Hz. reflexivity.
Qed.
Theorem amount_negative_leading_zeros k z : 0 <= z -> parse_amount (45 :: repeat 48 k ++ print_amount z) = - z.
Proof.
  intros Hz. unfold parse_amount, print_amount, parse_dec, set_string10.
  replace (45 =? 45) with true by reflexivity.
  rewrite print_nonneg by exact Hz. rewrite parse_unsigned_zeros by (apply print_nonempty; exact Hz).
  rewrite parse_unsigned_print by exact Hz. reflexivity.
Qed.
(* what is not a number at all is read as 0: the empty text, a lone sign, any text with a character that is neither
   a digit nor a leading sign *)
Theorem amount_garbage_is_zero s : set_string10 s = None -> parse_amount s = 0.
Proof. intros H. unfold parse_amount, parse_dec. rewrite H. reflexivity. Qed.
Theorem amount_not_a_number s :
  s = [] \/ s = [45] \/ s = [43] \/ (exists c, In c (tl s) /\ is_digit c = false) \/
  (exists c r, s = c :: r /\ is_digit c = false /\ c <> 45 /\ c <> 43) ->
  set_string10 s = None.
Proof.
  intros [->|[->|[->|[(c & Hin & Hc)|(c & r & -> & Hc & H45 & H43)]]]]; try reflexivity.
  - destruct s as [|x r]; [destruct Hin|]. cbn [tl] in Hin. unfold set_string10.
    assert (Hr : parse_unsigned r = None).
    { unfold parse_unsigned. destruct r; [destruct Hin|]. apply parse_digits_nondigit with c; assumption. }
    assert (Hxr : parse_unsigned (x :: r) = None).
    { unfold parse_unsigned. cbn [parse_digits]. destruct (is_digit x); [|reflexivity].
      apply parse_digits_nondigit with c; assumption. }
    destruct (x =? 45); [rewrite Hr; reflexivity|]. destruct (x =? 43); assumption.
  - unfold set_string10. replace (c =? 45) with false by lia. replace (c =? 43) with false by lia.
    unfold parse_unsigned. cbn [parse_digits]. rewrite Hc. reflexivity.
Qed.

(* ================================================================ uint64 fields *)
Lemma dec_head_nonzero k : forall z acc, 0 < z < 2 ^ Z.of_nat k ->
  exists c r, dec_digits (S k) z acc = c :: r /\ 49 <= c <= 57.
Proof.
  induction k as [|k IH]; intros z acc Hz.
  - cbn in Hz. lia.
  - rewrite dec_digits_S. destruct (z <? 10) eqn:E.
    + exists (48 + z mod 10), acc. split; [reflexivity|lia].
    + rewrite Nat2Z.inj_succ, Z.pow_succ_r in Hz by lia. apply IH. lia.
Qed.
Lemma print_head z : 0 < z -> exists c r, print_dec z = c :: r /\ 49 <= c <= 57.
Proof.
  intros Hz. rewrite print_nonneg by lia. unfold dec_fuel. apply dec_head_nonzero.
  split; [lia|]. apply dec_fuel_enough. lia.
Qed.
Lemma parse_u64_lit_print z : 0 <= z < two64 -> parse_u64_lit (print_dec z) = Some z.
Proof.
  intros Hz. destruct (Z.eq_dec z 0) as [->|Hnz]; [reflexivity|].
  destruct (print_head z ltac:(lia)) as (c & r & E & Hc).
  pose proof (parse_unsigned_print z ltac:(lia)) as Hp. rewrite <- print_nonneg in Hp by lia.
  unfold parse_u64_lit. rewrite E in *. replace (c =? 48) with false by lia. cbn [andb].
  rewrite Hp. replace (z <? two64) with true by lia. reflexivity.
Qed.
Theorem u64_roundtrip z : 0 <= z < two64 -> parse_u64_field (print_u64 z) = Some z.
Proof.
  intros Hz. unfold parse_u64_field, print_u64.
  destruct (bytes_eqb (print_dec z) json_null) eqn:E; [|apply parse_u64_lit_print; exact Hz].
  apply bytes_eqb_eq in E. exfalso.
  destruct (Z.eq_dec z 0) as [->|Hnz]; [discriminate|].
  destruct (print_head z ltac:(lia)) as (c & r & E' & Hc). rewrite E' in E. unfold json_null in E. inversion E. lia.
Qed.
(* null leaves the field at 0: the only second text form of a uint64 value *)
Theorem u64_null : parse_u64_field json_null = Some 0.
Proof. reflexivity. Qed.
(* refused: a leading zero, a sign / fraction / exponent / any other character, 2^64 and above *)
Theorem u64_leading_zero c r : parse_u64_field (48 :: c :: r) = None.
Proof. reflexivity. Qed.
Theorem u64_nondigit s c : In c s -> is_digit c = false -> s <> json_null -> parse_u64_field s = None.
Proof.
  intros Hin Hc Hn. unfold parse_u64_field.
  destruct (bytes_eqb s json_null) eqn:E; [apply bytes_eqb_eq in E; contradiction|].
  unfold parse_u64_lit. destruct s as [|x r]; [reflexivity|].
  destruct ((x =? 48) && negb (is_nil r)); [reflexivity|].
  unfold parse_unsigned. rewrite (parse_digits_nondigit c) by assumption. reflexivity.
Qed.
Theorem u64_out_of_range z : two64 <= z -> parse_u64_field (print_u64 z) = None.
Proof.
  intros Hz. unfold parse_u64_field, print_u64.
  destruct (print_head z ltac:(unfold two64 in Hz; lia)) as (c & r & E & Hc).
  destruct (bytes_eqb (print_dec z) json_null) eqn:En.
  - apply bytes_eqb_eq in En. rewrite E in En. unfold json_null in En. inversion En. lia.
  - pose proof (parse_unsigned_print z ltac:(unfold two64 in Hz; lia)) as Hp.
    rewrite <- print_nonneg in Hp by (unfold two64 in Hz; lia).
    unfold parse_u64_lit. rewrite E in *. replace (c =? 48) with false by lia. cbn [andb].
    rewrite Hp. replace (z <? two64) with false by lia. reflexivity.
Qed.

(* ================================================================ hex: nonces and hashes *)
Theorem nonce_roundtrip n : Forall byte n -> length n = 8%nat ->
  parse_nonce_nom (print_nonce n) = Some n /\ parse_nonce_api (print_nonce n) = n.
Proof.
  intros Hb Hl. unfold parse_nonce_nom, parse_nonce_api, print_nonce.
  rewrite nonce_text_roundtrip by assumption. split; reflexivity.
Qed.
Theorem hash_roundtrip h : Forall byte h -> length h = 32%nat -> parse_hash (print_hash h) = Some h.
Proof. apply hash_text_roundtrip. Qed.
(* api.AccountBlock: a nonce text that nom refuses is read as the zero nonce *)
Theorem nonce_api_garbage_is_zero s : parse_nonce_nom s = None -> parse_nonce_api s = zero_nonce.
Proof. unfold parse_nonce_nom, parse_nonce_api. intros ->. reflexivity. Qed.
Theorem nonce_api_agrees s b : parse_nonce_nom s = Some b -> parse_nonce_api s = b.
Proof. unfold parse_nonce_nom, parse_nonce_api. intros ->. reflexivity. Qed.

(* letter case: the upper-case text of a value is accepted too, and that is all: every accepted text is the printed
   one up to the case of a..f *)
Lemma unhex_upper n : 0 <= n < 16 -> unhex (hex_upper (hexc n)) = Some n.
Proof.
  intros Hn. unfold hexc, hex_upper, unhex. destruct (n <? 10) eqn:E.
  - replace ((97 <=? 48 + n) && (48 + n <=? 102)) with false by lia.
    replace ((48 <=? 48 + n) && (48 + n <=? 57)) with true by lia. f_equal. lia.
  - replace ((97 <=? 87 + n) && (87 + n <=? 102)) with true by lia.
    replace ((48 <=? 87 + n - 32) && (87 + n - 32 <=? 57)) with false by lia.
    replace ((97 <=? 87 + n - 32) && (87 + n - 32 <=? 102)) with false by lia.
    replace ((65 <=? 87 + n - 32) && (87 + n - 32 <=? 70)) with true by lia. f_equal. lia.
Qed.
Theorem hex_upper_accepted b : Forall byte b -> hex_dec (map hex_upper (hex_enc b)) = Some b.
Proof.
  induction 1 as [|x b Hx _ IH]; [reflexivity|]. unfold byte in Hx.
  cbn [hex_enc map hex_dec]. rewrite !unhex_upper, IH by lia. f_equal. f_equal. lia.
Qed.
Lemma unhex_lower c v : unhex c = Some v -> 0 <= v < 16 /\ hex_lower c = hexc v.
Proof.
  unfold unhex, hex_lower, hexc.
  destruct ((48 <=? c) && (c <=? 57)) eqn:E1; [intros H; inversion H; subst; clear H|].
  { split; [lia|]. replace ((65 <=? c) && (c <=? 70)) with false by lia. replace (c - 48 <? 10) with true by lia. lia. }
  destruct ((97 <=? c) && (c <=? 102)) eqn:E2; [intros H; inversion H; subst; clear H|].
  { split; [lia|]. replace ((65 <=? c) && (c <=? 70)) with false by lia. replace (c - 87 <? 10) with false by lia. lia. }
  destruct ((65 <=? c) && (c <=? 70)) eqn:E3; [intros H; inversion H; subst; clear H|discriminate].
  split; [lia|]. replace (c - 55 <? 10) with false by lia. lia.
Qed.
Lemma hex_enc_cons x r : hex_enc (x :: r) = hexc (x / 16) :: hexc (x mod 16) :: hex_enc r.
Proof. reflexivity. Qed.
Lemma hex_dec_cons2 a c r : hex_dec (a :: c :: r) =
  match unhex a, unhex c, hex_dec r with Some x, Some y, Some t => Some ((16 * x + y) :: t) | _, _, _ => None end.
Proof. reflexivity. Qed.
Lemma hex_dec_canonical_n n : forall s b, (length s <= n)%nat -> hex_dec s = Some b ->
  map hex_lower s = hex_enc b /\ Forall byte b.
Proof.
  induction n as [|n IH]; intros s b Hl H.
  - destruct s; [|cbn in Hl; lia]. cbn in H. inversion H. split; [reflexivity|constructor].
  - destruct s as [|a [|c r]]; [cbn [hex_dec] in H | cbn [hex_dec] in H | rewrite hex_dec_cons2 in H].
    + inversion H. split; [reflexivity|constructor].
    + discriminate.
    + destruct (unhex a) as [x|] eqn:Ea; [|discriminate]. destruct (unhex c) as [y|] eqn:Ec; [|discriminate].
      destruct (hex_dec r) as [t|] eqn:Er; [|discriminate].
      assert (Hb : b = (16 * x + y) :: t) by congruence. clear H. subst b.
      destruct (unhex_lower _ _ Ea) as [Hx Hax]. destruct (unhex_lower _ _ Ec) as [Hy Hcy].
      destruct (IH r t ltac:(cbn [length] in Hl; lia) Er) as [Hr Ht].
      split.
      * rewrite hex_enc_cons. rewrite !map_cons. rewrite Hax, Hcy, Hr.
        assert (E1 : (16 * x + y) / 16 = x) by lia. assert (E2 : (16 * x + y) mod 16 = y) by lia.
        rewrite E1, E2. reflexivity.
      * constructor; [unfold byte; lia | exact Ht].
Qed.
Theorem hex_accepted_is_canonical_up_to_case s b : hex_dec s = Some b -> map hex_lower s = hex_enc b /\ Forall byte b.
Proof. apply hex_dec_canonical_n with (n := length s). lia. Qed.

(* ================================================================ bit regrouping (bech32.ConvertBits) *)
Lemma bits_be_length w x : length (bits_be w x) = w.
Proof. induction w as [|w IH]; cbn [bits_be length]; [reflexivity|rewrite IH; reflexivity]. Qed.
Lemma val_be_bounds l : 0 <= val_be l < 2 ^ Z.of_nat (length l).
Proof.
  induction l as [|b r IH]; [cbn; lia|]. cbn [val_be length]. rewrite Nat2Z.inj_succ, Z.pow_succ_r by lia.
  destruct b; lia.
Qed.
Lemma testbit_step x k : 0 <= k ->
  x mod 2 ^ (k + 1) = (if Z.testbit x k then 2 ^ k else 0) + x mod 2 ^ k.
Proof.
  intros Hk. rewrite Z.pow_add_r, Z.pow_1_r by lia.
  rewrite Z.rem_mul_r by lia.
  rewrite <- (Z.testbit_spec' x k Hk). destruct (Z.testbit x k); cbn [Z.b2z]; lia.
Qed.
Lemma val_bits w x : val_be (bits_be w x) = x mod 2 ^ Z.of_nat w.
Proof.
  induction w as [|w IH]; [cbn; rewrite Z.mod_1_r; reflexivity|].
  cbn [bits_be val_be]. rewrite bits_be_length, IH. rewrite Nat2Z.inj_succ, <- Z.add_1_r.
  rewrite testbit_step by lia. reflexivity.
Qed.
Lemma bits_be_mod w : forall x, bits_be w (x mod 2 ^ Z.of_nat w) = bits_be w x.
Proof.
  assert (H : forall k w x, (k <= w)%nat -> bits_be k (x mod 2 ^ Z.of_nat w) = bits_be k x).
  { induction k as [|k IH]; intros w0 x Hk; [reflexivity|]. cbn [bits_be].
    rewrite Z.mod_pow2_bits_low by lia. rewrite IH by lia. reflexivity. }
  intros x. apply H. lia.
Qed.
Lemma bits_val l : bits_be (length l) (val_be l) = l.
Proof.
  induction l as [|b r IH]; [reflexivity|]. cbn [length bits_be val_be].
  pose proof (val_be_bounds r) as Hb. set (n := Z.of_nat (length r)) in *.
  assert (Hbit : Z.testbit ((if b then 2 ^ n else 0) + val_be r) n = b).
  { apply Z.b2z_inj. rewrite Z.testbit_spec' by lia.
    destruct b; cbn [Z.b2z].
    - replace (2 ^ n + val_be r) with (1 * 2 ^ n + val_be r) by lia.
      rewrite Z.div_add_l by lia. rewrite Z.div_small by lia. reflexivity.
    - rewrite Z.add_0_l, Z.div_small by lia. reflexivity. }
  rewrite Hbit. f_equal.
  rewrite <- bits_be_mod. subst n.
  replace (((if b then 2 ^ Z.of_nat (length r) else 0) + val_be r) mod 2 ^ Z.of_nat (length r)) with (val_be r).
  - exact IH.
  - destruct b.
    + replace (2 ^ Z.of_nat (length r) + val_be r) with (val_be r + 1 * 2 ^ Z.of_nat (length r)) by lia.
      rewrite Z.mod_add by lia. rewrite Z.mod_small by lia. reflexivity.
    + rewrite Z.add_0_l, Z.mod_small by lia. reflexivity.
Qed.

(* chunks: cutting a concatenation of w-bit pieces gives the pieces back *)
Lemma pad_to_exact w l : length l = w -> pad_to w l = l.
Proof. intros H. unfold pad_to. rewrite H, Nat.sub_diag. cbn. apply app_nil_r. Qed.
Lemma firstn_exact {A} w (c r : list A) : length c = w -> firstn w (c ++ r) = c.
Proof. intros <-. rewrite firstn_app, Nat.sub_diag, firstn_all, firstn_O. apply app_nil_r. Qed.
Lemma skipn_exact {A} w (c r : list A) : length c = w -> skipn w (c ++ r) = r.
Proof. intros <-. rewrite skipn_app, Nat.sub_diag, skipn_all, skipn_O. reflexivity. Qed.
Lemma chunks_concat w : (0 < w)%nat -> forall ls fuel,
  Forall (fun c => length c = w) ls -> (length ls <= fuel)%nat -> chunks fuel w (concat ls) = ls.
Proof.
  intros Hw. induction ls as [|c ls IH]; intros fuel Hf Hl.
  - destruct fuel; reflexivity.
  - apply Forall_cons_iff in Hf. destruct Hf as [Hc Hf']. destruct fuel as [|fuel]; [cbn in Hl; lia|].
    cbn [concat chunks]. destruct (c ++ concat ls) eqn:E.
    + destruct c; [cbn in Hc; lia|discriminate].
    + rewrite <- E. rewrite (firstn_exact w c) by exact Hc. rewrite pad_to_exact by exact Hc.
      rewrite (skipn_exact w c) by exact Hc.
      rewrite IH; [reflexivity | exact Hf' | cbn in Hl; lia].
Qed.
Lemma exists_pieces w : forall k (l : list bool), length l = (k * w)%nat ->
  exists ls, l = concat ls /\ Forall (fun c => length c = w) ls /\ length ls = k.
Proof.
  induction k as [|k IH]; intros l Hl.
  - exists []. destruct l; [auto|discriminate].
  - destruct (IH (skipn w l)) as (ls & E & Hf & Hk).
    { rewrite skipn_length, Hl. cbn [Nat.mul]. lia. }
    exists (firstn w l :: ls). split; [|split].
    + cbn [concat]. rewrite <- E. symmetry. apply firstn_skipn.
    + constructor; [|exact Hf]. rewrite firstn_length, Hl. cbn [Nat.mul]. lia.
    + cbn [length]. lia.
Qed.
Lemma concat_bits_length w xs : length (concat (map (bits_be w) xs)) = (length xs * w)%nat.
Proof. induction xs as [|x xs IH]; [reflexivity|]. cbn [map concat length]. rewrite app_length, bits_be_length, IH. cbn [Nat.mul]. lia. Qed.

(* bytes -> 5-bit groups -> bytes is the identity when the bits divide evenly (20-byte addresses, 10-byte token
   standards: no padding is involved) *)
Lemma to5_pieces a k : (length a * 8 = k * 5)%nat ->
  exists ls, to5 a = map val_be ls /\ concat ls = concat (map (bits_be 8) a) /\
             Forall (fun c => length c = 5%nat) ls /\ length ls = k.
Proof.
  intros Hk. unfold to5, regroup. set (bits := concat (map (bits_be 8) a)).
  assert (Hlen : length bits = (k * 5)%nat) by (unfold bits; rewrite concat_bits_length; exact Hk).
  destruct (exists_pieces 5 k bits Hlen) as (ls & E & Hf & Hn).
  exists ls. split; [|split; [symmetry; exact E|split; assumption]].
  f_equal. rewrite Hlen, E. apply chunks_concat; [lia | exact Hf | lia].
Qed.
Theorem regroup_roundtrip (a : bytes) k : Forall byte a -> (length a * 8 = k * 5)%nat -> to8 (to5 a) = a.
Proof.
  intros Hb Hk. destruct (to5_pieces a k Hk) as (ls & E5 & Ec & Hf & Hn).
  rewrite E5. unfold to8, regroup.
  assert (Hback : concat (map (bits_be 5) (map val_be ls)) = concat (map (bits_be 8) a)).
  { rewrite <- Ec. clear E5 Ec Hn. induction Hf as [|c ls Hc _ IH]; [reflexivity|].
    cbn [map concat]. rewrite IH. f_equal. rewrite <- Hc. apply bits_val. }
  rewrite Hback. rewrite chunks_concat.
  - rewrite map_map. clear -Hb. induction Hb as [|x a Hx _ IH]; [reflexivity|]. cbn [map]. rewrite IH. f_equal.
    rewrite val_bits. unfold byte in Hx. change (2 ^ Z.of_nat 8) with 256. rewrite Z.mod_small by lia. reflexivity.
  - lia.
  - apply Forall_forall. intros c Hc. apply in_map_iff in Hc. destruct Hc as (x & <- & _). apply bits_be_length.
  - rewrite map_length. rewrite concat_bits_length. lia.
Qed.
Lemma to5_length a k : (length a * 8 = k * 5)%nat -> length (to5 a) = k.
Proof.
  intros Hk. destruct (to5_pieces a k Hk) as (ls & E5 & _ & _ & Hn). rewrite E5, map_length. exact Hn.
Qed.
Lemma to5_range a k : (length a * 8 = k * 5)%nat -> Forall (fun g => 0 <= g < 32) (to5 a).
Proof.
  intros Hk. destruct (to5_pieces a k Hk) as (ls & E5 & _ & Hf & _). rewrite E5.
  apply Forall_forall. intros g Hg. apply in_map_iff in Hg. destruct Hg as (c & <- & Hc).
  rewrite Forall_forall in Hf. pose proof (val_be_bounds c) as Hb. rewrite (Hf c Hc) in Hb. exact Hb.
Qed.

(* ================================================================ bech32 *)
Lemma enc5_props g : 0 <= g < 32 ->
  dec5 (enc5 g) = Some g /\ 33 <= enc5 g <= 126 /\ is_upper (enc5 g) = false /\ enc5 g <> 49.
Proof.
  intros Hg. remember (Z.to_nat g) as n eqn:En. assert (Hn : (n < 32)%nat) by lia.
  replace g with (Z.of_nat n) by lia. clear g Hg En.
  do 32 (destruct n as [|n]; [vm_compute; repeat split; congruence|]). lia.
Qed.
Lemma map_opt_dec5_enc5 l : Forall (fun g => 0 <= g < 32) l -> map_opt dec5 (map enc5 l) = Some l.
Proof.
  induction 1 as [|g l Hg _ IH]; [reflexivity|]. cbn [map map_opt].
  destruct (enc5_props g Hg) as (-> & _). rewrite IH. reflexivity.
Qed.
Lemma checksum_length c hrp data : length (checksum c hrp data) = 6%nat.
Proof. unfold checksum. rewrite map_length. reflexivity. Qed.
Lemma checksum_range c hrp data : Forall (fun g => 0 <= g < 32) (checksum c hrp data).
Proof.
  unfold checksum. apply Forall_forall. intros g Hg. apply in_map_iff in Hg. destruct Hg as (i & <- & _).
  change 31 with (Z.ones 5). rewrite Z.land_ones by lia. change (2 ^ 5) with 32. lia.
Qed.
Lemma last_index_none c : forall l i best, Forall (fun x => x <> c) l -> last_index c l i best = best.
Proof.
  induction l as [|x l IH]; intros i best Hf; [reflexivity|]. apply Forall_cons_iff in Hf. destruct Hf as [Hx Hf].
  cbn [last_index]. replace (x =? c) with false by lia. apply IH. exact Hf.
Qed.
Lemma last_index_sep c post : Forall (fun x => x <> c) post -> forall pre i best,
  last_index c (pre ++ c :: post) i best = i + Z.of_nat (length pre).
Proof.
  intros Hp. induction pre as [|x pre IH]; intros i best.
  - cbn [app last_index length]. rewrite Z.eqb_refl. rewrite last_index_none by exact Hp. lia.
  - cbn [app last_index length]. rewrite IH. lia.
Qed.

Theorem bech32_decode_encode hrp data :
  hrp <> [] -> Forall (fun c => 33 <= c <= 126 /\ is_upper c = false) hrp ->
  Forall (fun g => 0 <= g < 32) data -> (length hrp + 7 + length data <= 90)%nat ->
  bech32_decode (bech32_encode hrp data) = Some (hrp, data).
Proof.
  intros Hne Hh Hd Hlen.
  set (chk := checksum bech32_const hrp data).
  assert (Hcl : length chk = 6%nat) by apply checksum_length.
  assert (Hcr : Forall (fun g => 0 <= g < 32) chk) by apply checksum_range.
  set (body := map enc5 (data ++ chk)).
  assert (Hs : bech32_encode hrp data = hrp ++ 49 :: body).
  { unfold bech32_encode, body. rewrite map_app. reflexivity. }
  assert (Hbody : Forall (fun c => (33 <= c <= 126 /\ is_upper c = false) /\ c <> 49) body).
  { unfold body. apply Forall_forall. intros c Hc. apply in_map_iff in Hc. destruct Hc as (g & <- & Hg).
    assert (Hr : 0 <= g < 32).
    { apply in_app_or in Hg. destruct Hg as [Hg|Hg]; [rewrite Forall_forall in Hd; auto|rewrite Forall_forall in Hcr; auto]. }
    destruct (enc5_props g Hr) as (_ & H1 & H2 & H3). auto. }
  assert (Hbl : length body = (length data + 6)%nat) by (unfold body; rewrite map_length, app_length, Hcl; reflexivity).
  assert (Hall : Forall (fun c => 33 <= c <= 126 /\ is_upper c = false) (hrp ++ 49 :: body)).
  { apply Forall_app. split; [exact Hh|]. constructor; [split; [lia|reflexivity]|].
    eapply Forall_impl; [|exact Hbody]. cbn. intros c [H _]. exact H. }
  unfold bech32_decode. rewrite Hs.
  assert (Hn : Z.of_nat (length (hrp ++ 49 :: body)) = Z.of_nat (length hrp) + 7 + Z.of_nat (length data)).
  { rewrite app_length. cbn [length]. rewrite Hbl. lia. }
  assert (Hh1 : (1 <= length hrp)%nat) by (destruct hrp; [contradiction|cbn; lia]).
  rewrite Hn.
  replace ((Z.of_nat (length hrp) + 7 + Z.of_nat (length data) <? 8) || (90 <? Z.of_nat (length hrp) + 7 + Z.of_nat (length data))) with false by lia.
  assert (Hp : forallb (fun c => (33 <=? c) && (c <=? 126)) (hrp ++ 49 :: body) = true).
  { apply forallb_forall. intros c Hc. rewrite Forall_forall in Hall. destruct (Hall c Hc) as [H _]. lia. }
  rewrite Hp. cbn [negb].
  assert (Hu : existsb is_upper (hrp ++ 49 :: body) = false).
  { destruct (existsb is_upper (hrp ++ 49 :: body)) eqn:E; [|reflexivity].
    apply existsb_exists in E. destruct E as (c & Hc & Hup). rewrite Forall_forall in Hall.
    destruct (Hall c Hc) as [_ H]. congruence. }
  rewrite Hu, andb_false_r.
  assert (Hlow : map to_lower (hrp ++ 49 :: body) = hrp ++ 49 :: body).
  { clear -Hall. induction Hall as [|c l [_ Hc] _ IH]; [reflexivity|]. cbn [map]. rewrite IH. unfold to_lower. rewrite Hc. reflexivity. }
  rewrite Hlow.
  rewrite last_index_sep by (eapply Forall_impl; [|exact Hbody]; cbn; intros c [_ H]; exact H).
  rewrite Z.add_0_l.
  replace ((Z.of_nat (length hrp) <? 1) || (Z.of_nat (length hrp) + 7 + Z.of_nat (length data) <? Z.of_nat (length hrp) + 7)) with false by lia.
  rewrite Nat2Z.id.
  rewrite (firstn_exact (length hrp) hrp) by reflexivity.
  replace (hrp ++ 49 :: body) with ((hrp ++ [49]) ++ body) by (rewrite <- app_assoc; reflexivity).
  rewrite (skipn_exact (length hrp + 1) (hrp ++ [49])) by (rewrite app_length; reflexivity).
  unfold body. rewrite map_opt_dec5_enc5 by (apply Forall_app; split; assumption).
  rewrite app_length, Hcl. replace (length data + 6 - 6)%nat with (length data) by lia.
  rewrite (firstn_exact (length data) data) by reflexivity.
  rewrite (skipn_exact (length data) data) by reflexivity.
  fold chk. replace (bytes_eqb chk chk) with true by (symmetry; apply bytes_eqb_eq; reflexivity).
  reflexivity.
Qed.

Lemma parse_print_bech32 prefix size (a : bytes) k :
  prefix <> [] -> Forall (fun c => 33 <= c <= 126 /\ is_upper c = false) prefix ->
  Forall byte a -> length a = size -> (length a * 8 = k * 5)%nat -> (length prefix + 7 + k <= 90)%nat ->
  parse_bech32 prefix size (bech32_encode prefix (to5 a)) = Some a.
Proof.
  intros Hp Hpf Hb Hl Hk Hn. unfold parse_bech32.
  rewrite bech32_decode_encode; [| exact Hp | exact Hpf | apply to5_range with k; exact Hk | rewrite (to5_length a k Hk); exact Hn].
  replace (bytes_eqb prefix prefix) with true by (symmetry; apply bytes_eqb_eq; reflexivity).
  rewrite (regroup_roundtrip a k Hb Hk). rewrite Hl, Nat.eqb_refl. reflexivity.
Qed.
Theorem address_roundtrip a : Forall byte a -> length a = 20%nat -> parse_address (print_address a) = Some a.
Proof.
  intros Hb Hl. unfold parse_address, print_address. apply parse_print_bech32 with (k := 32%nat); try assumption.
  - discriminate.
  - repeat constructor; lia.
  - rewrite Hl. reflexivity.
  - cbn. lia.
Qed.
Theorem zts_roundtrip a : Forall byte a -> length a = 10%nat -> parse_zts (print_zts a) = Some a.
Proof.
  intros Hb Hl. unfold parse_zts, print_zts. apply parse_print_bech32 with (k := 16%nat); try assumption.
  - discriminate.
  - repeat constructor; lia.
  - rewrite Hl. reflexivity.
  - cbn. lia.
Qed.

(* texts that formatBech32 never prints but ParseAddress takes (for the zero address; the harness builds them for
   random addresses): all upper case, the bech32m checksum, and - for an address whose last five bits are zero - a
   payload one group shorter (ConvertBits pads the missing bits) *)
Definition zero_address : bytes := repeat 0 20.
Definition upper_case (c : Z) : Z := if is_lower c then c - 32 else c.
Theorem address_second_text_forms :
  let canon := print_address zero_address in
  let upper := map upper_case canon in
  let m := addr_prefix ++ [49] ++ map enc5 (to5 zero_address) ++ map enc5 (checksum bech32m_const addr_prefix (to5 zero_address)) in
  let g31 := firstn 31 (to5 zero_address) in
  let short := addr_prefix ++ [49] ++ map enc5 g31 ++ map enc5 (checksum bech32_const addr_prefix g31) in
  upper <> canon /\ parse_address upper = Some zero_address /\
  m <> canon /\ parse_address m = Some zero_address /\
  short <> canon /\ parse_address short = Some zero_address.
Proof. vm_compute. repeat split; congruence. Qed.
(* mixed case is refused *)
Theorem address_mixed_case_refused :
  parse_address (map upper_case (firstn 5 (print_address zero_address)) ++ skipn 5 (print_address zero_address)) = None.
Proof. vm_compute. reflexivity. Qed.

(* ================================================================ base64 ([]byte fields) *)
Lemma enc6_props v : 0 <= v < 64 ->
  dec6 (enc6 v) = Some v /\ enc6 v <> 61 /\ enc6 v <> 10 /\ enc6 v <> 13.
Proof.
  intros Hv. remember (Z.to_nat v) as n eqn:En. assert (Hn : (n < 64)%nat) by lia.
  replace v with (Z.of_nat n) by lia. clear v Hv En.
  do 64 (destruct n as [|n]; [vm_compute; repeat split; congruence|]). lia.
Qed.
Lemma b64_dec_q_4 a b c d r : b64_dec_q (a :: b :: c :: d :: r) =
  if is_nil r && (d =? 61) then
    if c =? 61 then match dec6 a, dec6 b with Some x, Some y => Some [x * 4 + y / 16] | _, _ => None end
    else match dec6 a, dec6 b, dec6 c with
         | Some x, Some y, Some z => Some [x * 4 + y / 16; (y mod 16) * 16 + z / 4]
         | _, _, _ => None
         end
  else match dec6 a, dec6 b, dec6 c, dec6 d, b64_dec_q r with
       | Some x, Some y, Some z, Some w, Some t =>
         Some ((x * 4 + y / 16) :: ((y mod 16) * 16 + z / 4) :: ((z mod 4) * 64 + w) :: t)
       | _, _, _, _, _ => None
       end.
Proof. reflexivity. Qed.
Lemma b64_enc_1 x : b64_enc [x] = [enc6 (x / 4); enc6 ((x mod 4) * 16); 61; 61].
Proof. reflexivity. Qed.
Lemma b64_enc_2 x y : b64_enc [x; y] = [enc6 (x / 4); enc6 ((x mod 4) * 16 + y / 16); enc6 ((y mod 16) * 4); 61].
Proof. reflexivity. Qed.
Lemma b64_enc_3 x y z r : b64_enc (x :: y :: z :: r) =
  enc6 (x / 4) :: enc6 ((x mod 4) * 16 + y / 16) :: enc6 ((y mod 16) * 4 + z / 64) :: enc6 (z mod 64) :: b64_enc r.
Proof. reflexivity. Qed.

Lemma b64_dec_enc_n n : forall b, (length b <= n)%nat -> Forall byte b -> b64_dec_q (b64_enc b) = Some b.
Proof.
  induction n as [|n IH]; intros b Hl Hb.
  - destruct b; [reflexivity|cbn in Hl; lia].
  - destruct b as [|x [|y [|z r]]].
    + reflexivity.
    + apply Forall_cons_iff in Hb. destruct Hb as [Hx _]. unfold byte in Hx.
      rewrite b64_enc_1, b64_dec_q_4. cbn [is_nil andb]. rewrite !Z.eqb_refl. cbn [andb].
      destruct (enc6_props (x / 4) ltac:(lia)) as (-> & _).
      destruct (enc6_props ((x mod 4) * 16) ltac:(lia)) as (-> & _).
      f_equal. f_equal. lia.
    + apply Forall_cons_iff in Hb. destruct Hb as [Hx Hb]. apply Forall_cons_iff in Hb. destruct Hb as [Hy _].
      unfold byte in Hx, Hy.
      rewrite b64_enc_2, b64_dec_q_4. cbn [is_nil andb]. rewrite Z.eqb_refl. cbn [andb].
      destruct (enc6_props (x / 4) ltac:(lia)) as (-> & _).
      destruct (enc6_props ((x mod 4) * 16 + y / 16) ltac:(lia)) as (-> & _).
      destruct (enc6_props ((y mod 16) * 4) ltac:(lia)) as (-> & Hne & _).
      replace (enc6 ((y mod 16) * 4) =? 61) with false by lia.
      f_equal. f_equal; [lia|]. f_equal. lia.
    + apply Forall_cons_iff in Hb. destruct Hb as [Hx Hb]. apply Forall_cons_iff in Hb. destruct Hb as [Hy Hb].
      apply Forall_cons_iff in Hb. destruct Hb as [Hz Hr]. unfold byte in Hx, Hy, Hz.
      rewrite b64_enc_3, b64_dec_q_4.
      destruct (enc6_props (x / 4) ltac:(lia)) as (-> & _).
      destruct (enc6_props ((x mod 4) * 16 + y / 16) ltac:(lia)) as (-> & _).
      destruct (enc6_props ((y mod 16) * 4 + z / 64) ltac:(lia)) as (-> & _).
      destruct (enc6_props (z mod 64) ltac:(lia)) as (-> & Hne & _).
      replace (enc6 (z mod 64) =? 61) with false by lia. rewrite andb_false_r.
      rewrite IH; [| cbn [length] in Hl; lia | exact Hr].
      f_equal. f_equal; [lia|]. f_equal; [lia|]. f_equal. lia.
Qed.
Lemma b64_enc_no_nl b : Forall byte b -> Forall (fun c => c <> 10 /\ c <> 13) (b64_enc b).
Proof.
  assert (H : forall n b, (length b <= n)%nat -> Forall byte b -> Forall (fun c => c <> 10 /\ c <> 13) (b64_enc b)).
  { induction n as [|n IH]; intros b0 Hl Hb.
    - destruct b0; [constructor|cbn in Hl; lia].
    - destruct b0 as [|x [|y [|z r]]]; [constructor| | |].
      + apply Forall_cons_iff in Hb. destruct Hb as [Hx _]. unfold byte in Hx. rewrite b64_enc_1.
        destruct (enc6_props (x / 4) ltac:(lia)) as (_ & _ & ? & ?).
        destruct (enc6_props ((x mod 4) * 16) ltac:(lia)) as (_ & _ & ? & ?).
        repeat constructor; lia.
      + apply Forall_cons_iff in Hb. destruct Hb as [Hx Hb]. apply Forall_cons_iff in Hb. destruct Hb as [Hy _].
        unfold byte in Hx, Hy. rewrite b64_enc_2.
        destruct (enc6_props (x / 4) ltac:(lia)) as (_ & _ & ? & ?).
        destruct (enc6_props ((x mod 4) * 16 + y / 16) ltac:(lia)) as (_ & _ & ? & ?).
        destruct (enc6_props ((y mod 16) * 4) ltac:(lia)) as (_ & _ & ? & ?).
        repeat constructor; lia.
      + apply Forall_cons_iff in Hb. destruct Hb as [Hx Hb]. apply Forall_cons_iff in Hb. destruct Hb as [Hy Hb].
        apply Forall_cons_iff in Hb. destruct Hb as [Hz Hr]. unfold byte in Hx, Hy, Hz. rewrite b64_enc_3.
        destruct (enc6_props (x / 4) ltac:(lia)) as (_ & _ & ? & ?).
        destruct (enc6_props ((x mod 4) * 16 + y / 16) ltac:(lia)) as (_ & _ & ? & ?).
        destruct (enc6_props ((y mod 16) * 4 + z / 64) ltac:(lia)) as (_ & _ & ? & ?).
        destruct (enc6_props (z mod 64) ltac:(lia)) as (_ & _ & ? & ?).
        repeat (constructor; [lia|]). apply IH; [cbn [length] in Hl; lia | exact Hr]. }
  intros Hb. apply H with (n := length b); [lia | exact Hb].
Qed.
Lemma strip_nl_id s : Forall (fun c => c <> 10 /\ c <> 13) s -> strip_nl s = s.
Proof.
  induction 1 as [|c s [H1 H2] _ IH]; [reflexivity|]. unfold strip_nl in *. cbn [filter].
  replace ((c =? 10) || (c =? 13)) with false by lia. cbn [negb]. rewrite IH. reflexivity.
Qed.
Theorem data_roundtrip b : Forall byte b -> parse_data (BJStr (print_data b)) = Some b.
Proof.
  intros Hb. unfold parse_data, print_data, b64_dec. rewrite strip_nl_id by (apply b64_enc_no_nl; exact Hb).
  apply b64_dec_enc_n with (n := length b); [lia | exact Hb].
Qed.
(* second text forms of a byte string: line breaks anywhere in the base64 text, the unused low bits of the last
   character, a JSON array of numbers, null for the empty string *)
Theorem data_line_breaks_ignored s1 s2 : b64_dec (s1 ++ 10 :: s2) = b64_dec (s1 ++ s2) /\ b64_dec (s1 ++ 13 :: s2) = b64_dec (s1 ++ s2).
Proof. unfold b64_dec, strip_nl. rewrite !filter_app. cbn [filter]. split; reflexivity. Qed.
Theorem data_unused_bits_ignored :
  b64_dec [81; 81; 61; 61] = Some [65] /\ b64_dec [81; 82; 61; 61] = Some [65] /\   (* "QQ==" and "QR==" *)
  b64_dec [81; 85; 73; 61] = Some [65; 66] /\ b64_dec [81; 85; 74; 61] = Some [65; 66].  (* "QUI=" and "QUJ=" *)
Proof. vm_compute. repeat split; reflexivity. Qed.
Theorem data_as_array b : Forall byte b -> parse_data (BJArr (map print_dec b)) = Some b.
Proof.
  intros Hb. unfold parse_data. induction Hb as [|x b Hx _ IH]; [reflexivity|]. unfold byte in Hx.
  cbn [map map_opt]. rewrite IH.
  destruct (bytes_eqb (print_dec x) json_null) eqn:E.
  - apply bytes_eqb_eq in E. exfalso. destruct (Z.eq_dec x 0) as [->|Hnz]; [discriminate|].
    destruct (print_head x ltac:(lia)) as (c & r & E' & Hc). rewrite E' in E. unfold json_null in E. inversion E. lia.
  - unfold parse_u8_lit. rewrite parse_u64_lit_print by (unfold two64; lia).
    replace (x <? 256) with true by lia. reflexivity.
Qed.
Theorem data_null_and_empty : parse_data BJNull = Some [] /\ parse_data (BJStr []) = Some [] /\ parse_data (BJArr []) = Some [].
Proof. repeat split; reflexivity. Qed.
(* refused: missing or excessive padding, characters outside the alphabet (also the URL-safe ones), text after the
   padding *)
Theorem data_refused :
  b64_dec [81; 81] = None /\ b64_dec [81; 81; 61] = None /\ b64_dec [81; 81; 61; 61; 61] = None /\
  b64_dec [81; 45; 95; 61] = None /\ b64_dec [81; 81; 61; 61; 81; 81; 61; 61] = None /\ b64_dec [81; 32; 81; 61; 61] = None.
Proof. vm_compute. repeat split; reflexivity. Qed.

(* ================================================================ uint64: the printed text is the ONLY number literal
   of a value (no second text form apart from null) *)
Lemma parse_digits_value : forall s acc, Forall (fun c => is_digit c = true) s ->
  exists v, parse_digits acc s = Some (acc * 10 ^ Z.of_nat (length s) + v) /\ 0 <= v < 10 ^ Z.of_nat (length s) /\
            parse_digits 0 s = Some v.
Proof.
  induction s as [|c r IH]; intros acc Hd.
  - exists 0. cbn. repeat split; try lia. f_equal. lia.
  - apply Forall_cons_iff in Hd. destruct Hd as [Hc Hr]. cbn [parse_digits length]. rewrite Hc.
    destruct (IH (acc * 10 + (c - 48)) Hr) as (v & E & Hv & E0a).
    destruct (IH (0 * 10 + (c - 48)) Hr) as (v' & E' & Hv' & E0).
    assert (v' = v) by congruence. subst v'.
    unfold is_digit in Hc. rewrite Nat2Z.inj_succ, Z.pow_succ_r by lia.
    exists ((c - 48) * 10 ^ Z.of_nat (length r) + v). repeat split; [rewrite E; f_equal; lia | nia | nia |].
    rewrite E'. f_equal; lia.
Qed.
Lemma digits_same_length_inj : forall s t, length s = length t ->
  Forall (fun c => is_digit c = true) s -> Forall (fun c => is_digit c = true) t ->
  parse_digits 0 s = parse_digits 0 t -> s = t.
Proof.
  induction s as [|c r IH]; intros [|d u] Hl Hs Ht E; try discriminate; [reflexivity|].
  apply Forall_cons_iff in Hs. destruct Hs as [Hc Hr]. apply Forall_cons_iff in Ht. destruct Ht as [Hd Hu].
  cbn [length] in Hl. injection Hl as Hl.
  cbn [parse_digits] in E. rewrite Hc, Hd in E.
  destruct (parse_digits_value r (0 * 10 + (c - 48)) Hr) as (v & Ev & Hv & Ev0).
  destruct (parse_digits_value u (0 * 10 + (d - 48)) Hu) as (w & Ew & Hw & Ew0).
  rewrite Hl in Ev, Hv. rewrite Ev, Ew in E. injection E as E.
  unfold is_digit in Hc, Hd.
  set (P := 10 ^ Z.of_nat (length u)) in *.
  assert (c = d /\ v = w) as [-> ->].
  { destruct (Z.lt_trichotomy c d) as [H|[H|H]]; [exfalso|split;[exact H|subst c; lia]|exfalso].
    - assert (P <= (d - c) * P) by nia. lia.
    - assert (P <= (c - d) * P) by nia. lia. }
  f_equal. apply IH; [exact Hl | exact Hr | exact Hu | congruence].
Qed.
Lemma canonical_lower_bound c r : 49 <= c <= 57 -> Forall (fun x => is_digit x = true) r ->
  exists v, parse_digits 0 (c :: r) = Some v /\ 10 ^ Z.of_nat (length r) <= v < 10 ^ Z.of_nat (S (length r)).
Proof.
  intros Hc Hr. cbn [parse_digits]. replace (is_digit c) with true by (unfold is_digit; lia).
  destruct (parse_digits_value r (0 * 10 + (c - 48)) Hr) as (v & Ev & Hv & _).
  rewrite Ev. eexists. split; [reflexivity|]. rewrite Nat2Z.inj_succ, Z.pow_succ_r by lia. nia.
Qed.
Lemma canonical_inj c r d u : 49 <= c <= 57 -> 49 <= d <= 57 ->
  Forall (fun x => is_digit x = true) r -> Forall (fun x => is_digit x = true) u ->
  parse_digits 0 (c :: r) = parse_digits 0 (d :: u) -> c :: r = d :: u.
Proof.
  intros Hc Hd Hr Hu E.
  destruct (canonical_lower_bound c r Hc Hr) as (v & Ev & Hv).
  destruct (canonical_lower_bound d u Hd Hu) as (w & Ew & Hw).
  assert (v = w) by congruence. subst w.
  assert (Hlen : length r = length u).
  { destruct (Nat.lt_trichotomy (length r) (length u)) as [H|[H|H]]; [exfalso|exact H|exfalso].
    - assert (10 ^ Z.of_nat (S (length r)) <= 10 ^ Z.of_nat (length u)) by (apply Z.pow_le_mono_r; lia). lia.
    - assert (10 ^ Z.of_nat (S (length u)) <= 10 ^ Z.of_nat (length r)) by (apply Z.pow_le_mono_r; lia). lia. }
  apply digits_same_length_inj; [cbn [length]; lia | | | exact E].
  - constructor; [unfold is_digit; lia | exact Hr].
  - constructor; [unfold is_digit; lia | exact Hu].
Qed.
Lemma parse_digits_all_digits : forall s acc v, parse_digits acc s = Some v -> Forall (fun c => is_digit c = true) s.
Proof.
  induction s as [|c r IH]; intros acc v H; [constructor|]. cbn [parse_digits] in H.
  destruct (is_digit c) eqn:Ec; [|discriminate]. constructor; [exact Ec | eapply IH; exact H].
Qed.
Theorem u64_text_unique s z : parse_u64_field s = Some z -> s = print_u64 z \/ (s = json_null /\ z = 0).
Proof.
  unfold parse_u64_field. destruct (bytes_eqb s json_null) eqn:En.
  - apply bytes_eqb_eq in En. intros H. inversion H. right. auto.
  - intros H. left. unfold parse_u64_lit in H. destruct s as [|c r]; [discriminate|].
    destruct ((c =? 48) && negb (is_nil r)) eqn:Ez; [discriminate|].
    destruct (parse_unsigned (c :: r)) as [v|] eqn:Ep; [|discriminate].
    destruct (v <? two64) eqn:Ev; [|discriminate]. inversion H; subst v; clear H.
    unfold parse_unsigned in Ep.
    pose proof (parse_digits_all_digits _ _ _ Ep) as Hall.
    apply Forall_cons_iff in Hall. destruct Hall as [Hc Hr].
    assert (Hz0 : 0 <= z).
    { destruct (parse_digits_value (c :: r) 0 ltac:(constructor; assumption)) as (v & E & Hv & _). rewrite Ep in E. inversion E. lia. }
    pose proof (parse_unsigned_print z Hz0) as Hp. rewrite <- print_nonneg in Hp by exact Hz0. unfold print_u64.
    destruct (Z.eq_dec z 0) as [->|Hnz].
    + (* value 0: the text is "0" *)
      destruct (c =? 48) eqn:E48.
      * cbn [andb] in Ez. destruct r; [|discriminate]. replace c with 48 by lia. reflexivity.
      * exfalso. unfold is_digit in Hc. destruct (canonical_lower_bound c r ltac:(lia) Hr) as (v & E & Hv).
        rewrite Ep in E. inversion E. subst v. assert (0 < 10 ^ Z.of_nat (length r)) by (apply Z.pow_pos_nonneg; lia). lia.
    + destruct (print_head z ltac:(lia)) as (d & u & Eprint & Hd).
      rewrite Eprint in *. unfold parse_unsigned in Hp.
      assert (Hu : Forall (fun x => is_digit x = true) u).
      { pose proof (parse_digits_all_digits _ _ _ Hp) as H. apply Forall_cons_iff in H. destruct H; assumption. }
      assert (Hc' : 49 <= c <= 57).
      { unfold is_digit in Hc. destruct (Z.eq_dec c 48) as [->|]; [|lia]. exfalso.
        cbn [andb Z.eqb] in Ez. destruct r; [|discriminate]. cbn in Ep. inversion Ep. lia. }
      apply canonical_inj; try assumption. congruence.
Qed.
