(* Model of the protobuf wire form of AccountBlockProto / MomentumProto (chain/nom/protobuf.proto,
   common/types/protobuf.proto) as google.golang.org/protobuf emits and reads it, together with
   the glue AccountBlock.Proto / DeProtoAccountBlock / Momentum.Proto / DeProtoMomentum
   (chain/nom/account_block.go, momentum.go, common/types/{hash,address,hash_height,account_header}.go).

   Wire rules modelled: base-128 varints (at most 10 bytes, the tenth at most 1; non-minimal forms are
   accepted by the reader), tag = number*8 + wire type, number in [1, 2^29-1], wire types 0/1/2/5;
   proto3 omission of zero scalars and empty bytes; message fields emitted whenever the pointer is set
   (Proto() sets all of them); fields are written in field-number order; the reader accepts any order,
   last scalar wins, repeated occurrences of a message field merge, a known number with another wire
   type is an unknown field and is skipped. Unknown GROUP fields (wire type 3) are not modelled: DUnsup. *)
From ZV Require Import Prelude Block.
Open Scope Z_scope.

Inductive dres (A : Type) := DOk (a : A) | DErr | DUnsup | DPanic.
Arguments DOk {A} a. Arguments DErr {A}. Arguments DUnsup {A}. Arguments DPanic {A}.
Definition dbind {A B} (r : dres A) (k : A -> dres B) : dres B :=
  match r with DOk a => k a | DErr => DErr | DUnsup => DUnsup | DPanic => DPanic end.

(* ---------------------------------------------------------------- varint *)
Fixpoint varint_fuel (n : nat) (x : Z) : bytes :=
  match n with
  | O => []
  | S k => if x <? 128 then [x] else (x mod 128 + 128) :: varint_fuel k (x / 128)
  end.
Definition varint (x : Z) : bytes := varint_fuel 10 x.

(* protowire.ConsumeVarint; n = number of bytes that may still be read *)
Fixpoint get_varint (n : nat) (bs : bytes) : option (Z * bytes) :=
  match n, bs with
  | O, _ => None
  | _, [] => None
  | S k, b :: r =>
    if b <? 128 then (if Nat.eqb k 0 && (1 <? b) then None else Some (b, r))
    else match get_varint k r with
         | Some (v, r') => Some ((b - 128) + 128 * v, r')
         | None => None
         end
  end.

(* ---------------------------------------------------------------- fields *)
Inductive wval := WVar (v : Z) | WLen (b : bytes) | W64 (b : bytes) | W32 (b : bytes).
Definition field := (Z * wval)%type.

Definition max_field_number : Z := 536870911.

Definition lenZ {A} (l : list A) : Z := Z.of_nat (length l).

Fixpoint parse_fields (fuel : nat) (bs : bytes) : dres (list field) :=
  match fuel with
  | O => DErr
  | S k =>
    match bs with
    | [] => DOk []
    | _ =>
      match get_varint 10 bs with
      | None => DErr
      | Some (tag, r) =>
        let num := tag / 8 in
        let wt := tag mod 8 in
        if (num <? 1) || (max_field_number <? num) then DErr else
        if wt =? 0 then
          match get_varint 10 r with
          | None => DErr
          | Some (v, r') => dbind (parse_fields k r') (fun fs => DOk ((num, WVar v) :: fs))
          end
        else if wt =? 2 then
          match get_varint 10 r with
          | None => DErr
          | Some (n, r') =>
            if lenZ r' <? n then DErr
            else dbind (parse_fields k (skipn (Z.to_nat n) r'))
                       (fun fs => DOk ((num, WLen (firstn (Z.to_nat n) r')) :: fs))
          end
        else if wt =? 1 then
          if lenZ r <? 8 then DErr
          else dbind (parse_fields k (skipn 8 r)) (fun fs => DOk ((num, W64 (firstn 8 r)) :: fs))
        else if wt =? 5 then
          if lenZ r <? 4 then DErr
          else dbind (parse_fields k (skipn 4 r)) (fun fs => DOk ((num, W32 (firstn 4 r)) :: fs))
        else if wt =? 3 then DUnsup
        else DErr
      end
    end
  end.
Definition parse (bs : bytes) : dres (list field) := parse_fields (S (length bs)) bs.

(* what the writer is asked to emit *)
Inductive efield := EVar (n v : Z) | EBytes (n : Z) (b : bytes) | EMsg (n : Z) (payload : bytes).
Definition enc_tag (n wt : Z) : bytes := varint (n * 8 + wt).
Definition enc_len (n : Z) (b : bytes) : bytes := enc_tag n 2 ++ varint (lenZ b) ++ b.
Definition ef_keep (e : efield) : bool :=
  match e with
  | EVar _ v => negb (v =? 0)
  | EBytes _ b => match b with [] => false | _ => true end
  | EMsg _ _ => true
  end.
Definition enc_efield (e : efield) : bytes :=
  if ef_keep e then
    match e with
    | EVar n v => enc_tag n 0 ++ varint v
    | EBytes n b => enc_len n b
    | EMsg n p => enc_len n p
    end
  else [].
Definition enc_efields (es : list efield) : bytes := concat (map enc_efield es).
Definition ef_field (e : efield) : field :=
  match e with EVar n v => (n, WVar v) | EBytes n b => (n, WLen b) | EMsg n p => (n, WLen p) end.

(* readers over a parsed field list *)
Fixpoint var_values (fs : list field) (n : Z) : list Z :=
  match fs with
  | [] => []
  | (m, WVar v) :: r => if m =? n then v :: var_values r n else var_values r n
  | _ :: r => var_values r n
  end.
Fixpoint len_values (fs : list field) (n : Z) : list bytes :=
  match fs with
  | [] => []
  | (m, WLen b) :: r => if m =? n then b :: len_values r n else len_values r n
  | _ :: r => len_values r n
  end.
Definition get_var (fs : list field) (n : Z) (d : Z) : Z := last (var_values fs n) d.
Definition get_bytes (fs : list field) (n : Z) (d : bytes) : bytes := last (len_values fs n) d.

(* ---------------------------------------------------------------- small messages *)
(* HashProto / AddressProto: one bytes field, number 1. A message value is its bytes. *)
Definition enc_bytes1 (b : bytes) : bytes := enc_efields [EBytes 1 b].
Definition merge_bytes1 (acc : bytes) (part : bytes) : dres bytes :=
  dbind (parse part) (fun fs => DOk (get_bytes fs 1 acc)).
(* a singular message field: None when absent, otherwise all occurrences merged in order *)
Fixpoint merge_parts {A} (merge : A -> bytes -> dres A) (acc : A) (parts : list bytes) : dres A :=
  match parts with
  | [] => DOk acc
  | p :: r => dbind (merge acc p) (fun a => merge_parts merge a r)
  end.
Definition dec_msg {A} (merge : A -> bytes -> dres A) (empty : A) (parts : list bytes) : dres (option A) :=
  match parts with
  | [] => DOk None
  | _ => dbind (merge_parts merge empty parts) (fun a => DOk (Some a))
  end.

(* HashHeightProto { HashProto hash = 1; uint64 height = 2 } *)
Definition HHP := (option bytes * Z)%type.
Definition enc_opt (n : Z) (m : option bytes) : list efield :=
  match m with None => [] | Some p => [EMsg n p] end.
Definition enc_hhp (h : HHP) : bytes :=
  enc_efields (enc_opt 1 (option_map enc_bytes1 (fst h)) ++ [EVar 2 (snd h)]).
Definition merge_opt_bytes1 (acc : option bytes) (parts : list bytes) : dres (option bytes) :=
  match parts with
  | [] => DOk acc
  | _ => dbind (merge_parts merge_bytes1 (match acc with Some b => b | None => [] end) parts)
               (fun b => DOk (Some b))
  end.
Definition merge_hhp (acc : HHP) (part : bytes) : dres HHP :=
  dbind (parse part) (fun fs =>
  dbind (merge_opt_bytes1 (fst acc) (len_values fs 1)) (fun h =>
  DOk (h, get_var fs 2 (snd acc)))).

(* AccountHeaderProto { AddressProto address = 1; HashHeightProto hashHeight = 2 } *)
Definition AHP := (option bytes * option HHP)%type.
Definition enc_ahp (h : AHP) : bytes :=
  enc_efields (enc_opt 1 (option_map enc_bytes1 (fst h)) ++ enc_opt 2 (option_map enc_hhp (snd h))).
Definition merge_opt_hhp (acc : option HHP) (parts : list bytes) : dres (option HHP) :=
  match parts with
  | [] => DOk acc
  | _ => dbind (merge_parts merge_hhp (match acc with Some h => h | None => (None, 0) end) parts)
               (fun h => DOk (Some h))
  end.
Definition merge_ahp (acc : AHP) (part : bytes) : dres AHP :=
  dbind (parse part) (fun fs =>
  dbind (merge_opt_bytes1 (fst acc) (len_values fs 1)) (fun a =>
  dbind (merge_opt_hhp (snd acc) (len_values fs 2)) (fun hh =>
  DOk (a, hh)))).

(* ---------------------------------------------------------------- AccountBlockProto *)
Record ABP := mkABP {
  p_version : Z; p_chainid : Z; p_blocktype : Z;
  p_hash : option bytes; p_prev : option bytes; p_height : Z;
  p_ma : option HHP; p_addr : option bytes; p_to : option bytes;
  p_amount : bytes; p_zts : bytes; p_from : option bytes;
  p_data : bytes; p_fused : Z; p_diff : Z; p_nonce : bytes; p_base : Z; p_total : Z;
  p_changes : option bytes; p_pk : bytes; p_sig : bytes
}.
Inductive ABPT := PNode (p : ABP) (ds : list ABPT).

Definition abp_head (p : ABP) : list efield :=
  [EVar 1 (p_version p); EVar 2 (p_chainid p); EVar 3 (p_blocktype p)] ++
  enc_opt 4 (option_map enc_bytes1 (p_hash p)) ++
  enc_opt 5 (option_map enc_bytes1 (p_prev p)) ++
  [EVar 6 (p_height p)] ++
  enc_opt 7 (option_map enc_hhp (p_ma p)) ++
  enc_opt 8 (option_map enc_bytes1 (p_addr p)) ++
  enc_opt 9 (option_map enc_bytes1 (p_to p)) ++
  [EBytes 10 (p_amount p); EBytes 11 (p_zts p)] ++
  enc_opt 12 (option_map enc_bytes1 (p_from p)).
Definition abp_tail (p : ABP) : list efield :=
  [EBytes 14 (p_data p); EVar 15 (p_fused p); EVar 17 (p_diff p); EBytes 18 (p_nonce p);
   EVar 19 (p_base p); EVar 20 (p_total p)] ++
  enc_opt 21 (option_map enc_bytes1 (p_changes p)) ++
  [EBytes 22 (p_pk p); EBytes 23 (p_sig p)].

Fixpoint enc_abpt (x : ABPT) : bytes :=
  match x with
  | PNode p ds => enc_efields (abp_head p ++ map (fun d => EMsg 13 (enc_abpt d)) ds ++ abp_tail p)
  end.

Fixpoint map_dres {A B} (f : A -> dres B) (l : list A) : dres (list B) :=
  match l with
  | [] => DOk []
  | x :: r => dbind (f x) (fun y => dbind (map_dres f r) (fun ys => DOk (y :: ys)))
  end.

Definition abp_of_fields (fs : list field) : dres ABP :=
  dbind (dec_msg merge_bytes1 [] (len_values fs 4)) (fun h =>
  dbind (dec_msg merge_bytes1 [] (len_values fs 5)) (fun pv =>
  dbind (dec_msg merge_hhp (None, 0) (len_values fs 7)) (fun ma =>
  dbind (dec_msg merge_bytes1 [] (len_values fs 8)) (fun ad =>
  dbind (dec_msg merge_bytes1 [] (len_values fs 9)) (fun to =>
  dbind (dec_msg merge_bytes1 [] (len_values fs 12)) (fun fr =>
  dbind (dec_msg merge_bytes1 [] (len_values fs 21)) (fun ch =>
  DOk (mkABP (get_var fs 1 0) (get_var fs 2 0) (get_var fs 3 0) h pv (get_var fs 6 0) ma ad to
             (get_bytes fs 10 []) (get_bytes fs 11 []) fr (get_bytes fs 14 [])
             (get_var fs 15 0) (get_var fs 17 0) (get_bytes fs 18 []) (get_var fs 19 0) (get_var fs 20 0)
             ch (get_bytes fs 22 []) (get_bytes fs 23 []))))))))).

(* proto.Unmarshal into a fresh AccountBlockProto; fuel bounds the nesting depth *)
Fixpoint dec_abpt (fuel : nat) (bs : bytes) : dres ABPT :=
  match fuel with
  | O => DErr
  | S k =>
    dbind (parse bs) (fun fs =>
    dbind (abp_of_fields fs) (fun p =>
    dbind (map_dres (dec_abpt k) (len_values fs 13)) (fun ds =>
    DOk (PNode p ds))))
  end.

(* AccountBlock.Proto *)
Definition proto_body (b : ABody) : ABP :=
  mkABP (ab_version b) (ab_chainid b) (ab_blocktype b) (Some (ab_hash b)) (Some (ab_prev b)) (ab_height b)
        (Some (Some (ab_ma_hash b), ab_ma_height b)) (Some (ab_addr b)) (Some (ab_to b))
        (big32 (ab_amount b)) (ab_zts b) (Some (ab_from b)) (ab_data b) (ab_fused b) (ab_diff b)
        (ab_nonce b) (ab_base b) (ab_total b) (Some (ab_changes b)) (ab_pk b) (ab_sig b).
Fixpoint proto_ab (x : AB) : ABPT :=
  match x with ABNode b ds => PNode (proto_body b) (map proto_ab ds) end.

(* DeProtoAccountBlock: nil sub-message or wrong size = Go panic *)
Definition need_len (n : nat) (o : option bytes) : dres bytes :=
  match o with
  | Some b => if Nat.eqb (length b) n then DOk b else DPanic
  | None => DPanic
  end.
Definition need_len' (n : nat) (b : bytes) : dres bytes := if Nat.eqb (length b) n then DOk b else DPanic.
Definition deproto_hh (o : option HHP) : dres (bytes * Z) :=
  match o with
  | Some (h, n) => dbind (need_len 32 h) (fun h' => DOk (h', n))
  | None => DPanic
  end.
Definition deproto_body (p : ABP) : dres ABody :=
  dbind (need_len 32 (p_hash p)) (fun h =>
  dbind (need_len 32 (p_prev p)) (fun pv =>
  dbind (deproto_hh (p_ma p)) (fun ma =>
  dbind (need_len 20 (p_addr p)) (fun ad =>
  dbind (need_len 20 (p_to p)) (fun to =>
  dbind (need_len' 10 (p_zts p)) (fun zts =>
  dbind (need_len 32 (p_from p)) (fun fr =>
  dbind (need_len' 8 (p_nonce p)) (fun nc =>
  dbind (need_len 32 (p_changes p)) (fun ch =>
  DOk (mkABody (p_version p) (p_chainid p) (p_blocktype p) h pv (p_height p) (fst ma) (snd ma) ad to
               (big_of_bytes (p_amount p)) zts fr (p_data p) (p_fused p) (p_diff p) nc
               (p_base p) (p_total p) ch (p_pk p) (p_sig p))))))))))).
Fixpoint deproto_ab (x : ABPT) : dres AB :=
  match x with
  | PNode p ds =>
    dbind (deproto_body p) (fun b =>
    dbind ((fix go (l : list ABPT) : dres (list AB) :=
              match l with
              | [] => DOk []
              | d :: r => dbind (deproto_ab d) (fun y => dbind (go r) (fun ys => DOk (y :: ys)))
              end) ds) (fun ds' =>
    DOk (ABNode b ds')))
  end.

(* AccountBlock.Serialize / DeserializeAccountBlock *)
Definition serialize_ab (x : AB) : bytes := enc_abpt (proto_ab x).
Definition deserialize_ab (bs : bytes) : dres AB := dbind (dec_abpt (S (length bs)) bs) deproto_ab.

(* ---------------------------------------------------------------- MomentumProto *)
Record MP := mkMP {
  q_version : Z; q_chainid : Z; q_hash : option bytes; q_prev : option bytes; q_height : Z;
  q_timestamp : Z; q_data : bytes; q_content : list AHP; q_changes : option bytes; q_pk : bytes; q_sig : bytes
}.
Definition enc_mp (q : MP) : bytes :=
  enc_efields ([EVar 1 (q_version q); EVar 2 (q_chainid q)] ++
               enc_opt 3 (option_map enc_bytes1 (q_hash q)) ++
               enc_opt 4 (option_map enc_bytes1 (q_prev q)) ++
               [EVar 5 (q_height q); EVar 6 (q_timestamp q); EBytes 7 (q_data q)] ++
               map (fun h => EMsg 8 (enc_ahp h)) (q_content q) ++
               enc_opt 9 (option_map enc_bytes1 (q_changes q)) ++
               [EBytes 10 (q_pk q); EBytes 11 (q_sig q)]).
Definition dec_mp (bs : bytes) : dres MP :=
  dbind (parse bs) (fun fs =>
  dbind (dec_msg merge_bytes1 [] (len_values fs 3)) (fun h =>
  dbind (dec_msg merge_bytes1 [] (len_values fs 4)) (fun pv =>
  dbind (map_dres (merge_ahp (None, None)) (len_values fs 8)) (fun ct =>
  dbind (dec_msg merge_bytes1 [] (len_values fs 9)) (fun ch =>
  DOk (mkMP (get_var fs 1 0) (get_var fs 2 0) h pv (get_var fs 5 0) (get_var fs 6 0) (get_bytes fs 7 [])
            ct ch (get_bytes fs 10 []) (get_bytes fs 11 []))))))).

Definition proto_aheader (h : AHeader) : AHP := (Some (ah_addr h), Some (Some (ah_hash h), ah_height h)).
Definition proto_mom (m : Mom) : MP :=
  mkMP (m_version m) (m_chainid m) (Some (m_hash m)) (Some (m_prev m)) (m_height m) (m_timestamp m) (m_data m)
       (map proto_aheader (m_content m)) (Some (m_changes m)) (m_pk m) (m_sig m).
Definition deproto_aheader (h : AHP) : dres AHeader :=
  dbind (need_len 20 (fst h)) (fun a =>
  dbind (deproto_hh (snd h)) (fun hh => DOk (mkAHeader a (fst hh) (snd hh)))).
Definition deproto_mom (q : MP) : dres Mom :=
  dbind (need_len 32 (q_hash q)) (fun h =>
  dbind (need_len 32 (q_prev q)) (fun pv =>
  dbind (map_dres deproto_aheader (q_content q)) (fun ct =>
  dbind (need_len 32 (q_changes q)) (fun ch =>
  DOk (mkMom (q_version q) (q_chainid q) h pv (q_height q) (q_timestamp q) (q_data q) ct ch (q_pk q) (q_sig q)))))).
Definition serialize_mom (m : Mom) : bytes := enc_mp (proto_mom m).
Definition deserialize_mom (bs : bytes) : dres Mom := dbind (dec_mp bs) deproto_mom.
