(* C18 — proofs about Paging.v. The GetRange theorems are about the go2coq translation Pure.GetRange. *)
From ZV Require Import Prelude GoSem Paging.
From ZV.gen Require Import Consts Pure.
Open Scope Z_scope.
Ltac Zify.zify_post_hook ::= Z.div_mod_to_equations.

Lemma two32_eq : 2 ^ 32 = two32. Proof. reflexivity. Qed.
Lemma two64_eq : 2 ^ 64 = two64. Proof. reflexivity. Qed.

(* ------------------------------------------------------------ GetRange, full uint32 range *)
Lemma getrange_exact index count n :
  in_u32 index -> in_u32 count -> in_u32 n ->
  GetRange index count n = (Z.min (index * count) n, Z.min (index * count + count) n).
Proof.
  unfold in_u32, two32. intros Hi Hc Hn. unfold GetRange.
  assert (Hp : 0 <= index * count < 4294967296 * 4294967296) by nia.
  rewrite (wrapU_small 64 index), (wrapU_small 64 count), (wrapU_small 64 n) by (rewrite two64_eq; unfold two64; lia).
  rewrite (wrapU_small 64 (index * count)) by (rewrite two64_eq; unfold two64; lia).
  destruct (n <=? index * count) eqn:E1.
  - f_equal; lia.
  - rewrite (wrapU_small 64 (index * count + count)) by (rewrite two64_eq; unfold two64; lia).
    destruct (n <=? index * count + count) eqn:E2.
    + rewrite (wrapU_small 32) by (rewrite two32_eq; unfold two32; lia). f_equal; lia.
    + rewrite !(wrapU_small 32) by (rewrite two32_eq; unfold two32; lia). f_equal; lia.
Qed.

Lemma getrange_ordered index count n s e :
  in_u32 index -> in_u32 count -> in_u32 n -> GetRange index count n = (s, e) ->
  0 <= s <= e /\ e <= n /\ e - s <= count.
Proof.
  intros Hi Hc Hn H. rewrite getrange_exact in H by assumption. inversion H; subst.
  unfold in_u32 in *. nia.
Qed.

(* ------------------------------------------------------------ slices *)
Lemma slice_length {A} (l : list A) s e : 0 <= s <= e -> e <= Z.of_nat (length l) -> Z.of_nat (length (slice l s e)) = e - s.
Proof.
  intros H1 H2. unfold slice. rewrite firstn_length, skipn_length. lia.
Qed.

Lemma firstn_add_nat {A} (l : list A) n m : firstn n l ++ firstn m (skipn n l) = firstn (n + m) l.
Proof.
  revert l. induction n as [|n IH]; intros [|x l]; cbn [firstn skipn app plus]; try reflexivity.
  - rewrite firstn_nil. reflexivity.
  - f_equal. apply IH.
Qed.

Lemma firstn_slice {A} (l : list A) a b : 0 <= a <= b ->
  firstn (Z.to_nat a) l ++ slice l a b = firstn (Z.to_nat b) l.
Proof.
  intros H. unfold slice. rewrite firstn_add_nat. f_equal. lia.
Qed.

Lemma slice_empty {A} (l : list A) s : slice l s s = [].
Proof. unfold slice. rewrite Z.sub_diag. reflexivity. Qed.

(* the pages of a list, as slices at the mathematically intended bounds *)
Definition ideal_page {A} (l : list A) (index size : Z) : list A :=
  slice l (Z.min (index * size) (Z.of_nat (length l))) (Z.min (index * size + size) (Z.of_nat (length l))).

Lemma concat_ideal_pages {A} (l : list A) size k : 0 < size ->
  concat (map (fun i => ideal_page l (Z.of_nat i) size) (seq 0 k)) = firstn (Z.to_nat (Z.min (Z.of_nat k * size) (Z.of_nat (length l)))) l.
Proof.
  intros Hs. induction k as [|k IH].
  - cbn [seq map concat]. replace (Z.to_nat (Z.min (Z.of_nat 0 * size) (Z.of_nat (length l)))) with 0%nat by lia. reflexivity.
  - rewrite seq_S, map_app, concat_app, IH. cbn [map concat plus]. rewrite app_nil_r.
    unfold ideal_page.
    replace (Z.of_nat (S k) * size) with (Z.of_nat k * size + size) by lia.
    apply firstn_slice. nia.
Qed.

Lemma page_is_ideal {A} (l : list A) index size :
  in_u32 index -> in_u32 size -> in_u32 (Z.of_nat (length l)) ->
  page_res l index size = Ok (ideal_page l index size).
Proof.
  intros Hi Hs Hn. unfold page_res.
  rewrite wrapU32_small by exact Hn.
  rewrite getrange_exact by assumption.
  unfold slice_res, ideal_page.
  replace ((0 <=? Z.min (index * size) (Z.of_nat (length l))) && (Z.min (index * size) (Z.of_nat (length l)) <=? Z.min (index * size + size) (Z.of_nat (length l))) && (Z.min (index * size + size) (Z.of_nat (length l)) <=? Z.of_nat (length l))) with true; [reflexivity|].
  unfold in_u32 in *. symmetry. rewrite !andb_true_iff, !Z.leb_le. nia.
Qed.

(* each element exactly once, in order: the first k pages concatenate to the list as soon as k*size covers it *)
Lemma pages_partition {A} (l : list A) size k :
  0 < size -> in_u32 size -> in_u32 (Z.of_nat (length l)) -> in_u32 (Z.of_nat k) ->
  Z.of_nat (length l) <= Z.of_nat k * size ->
  concat (map (fun i => page l (Z.of_nat i) size) (seq 0 k)) = l.
Proof.
  intros H0 Hs Hn Hk Hcov.
  rewrite (map_ext_in _ (fun i => ideal_page l (Z.of_nat i) size)).
  - rewrite concat_ideal_pages by exact H0.
    rewrite Z.min_r by lia. rewrite Nat2Z.id. apply firstn_all.
  - intros i Hin. apply in_seq in Hin. unfold page. rewrite page_is_ideal; auto.
    unfold in_u32 in *. lia.
Qed.

(* beyond the last page: empty, for every index a client can send *)
Lemma page_beyond_end_empty {A} (l : list A) index size :
  in_u32 index -> in_u32 size -> in_u32 (Z.of_nat (length l)) ->
  Z.of_nat (length l) <= index * size -> page l index size = [].
Proof.
  intros Hi Hs Hn Hb. unfold page. rewrite page_is_ideal by assumption. unfold ideal_page.
  unfold in_u32 in *.
  rewrite !Z.min_r by nia. apply slice_empty.
Qed.

Lemma page_bounded {A} (l : list A) index size :
  in_u32 index -> in_u32 size -> in_u32 (Z.of_nat (length l)) ->
  page_res l index size <> Panic /\ Z.of_nat (length (page l index size)) <= size.
Proof.
  intros Hi Hs Hn. unfold page. rewrite page_is_ideal by assumption. split; [discriminate|].
  unfold ideal_page. unfold in_u32 in *. rewrite slice_length by nia. nia.
Qed.

Lemma zseq_length a n : length (zseq a n) = n.
Proof. unfold zseq. rewrite map_length, seq_length. reflexivity. Qed.

Lemma paged_api_bounded limit n index size p :
  0 <= limit -> in_u32 index -> in_u32 size -> in_u32 n ->
  paged_api limit n index size = AList p ->
  Z.of_nat (length p) <= size /\ (0 < limit -> size <= limit) /\ paged_api limit n index size <> APanic.
Proof.
  intros Hl Hi Hs Hn H. unfold paged_api in *.
  destruct ((0 <? limit) && (limit <? size)) eqn:E; [discriminate|].
  assert (Hlen : in_u32 (Z.of_nat (length (zseq 0 (Z.to_nat n))))).
  { rewrite zseq_length. unfold in_u32 in *. lia. }
  pose proof (page_bounded (zseq 0 (Z.to_nat n)) index size Hi Hs Hlen) as [Hnp Hb].
  unfold page in Hb. destruct (page_res (zseq 0 (Z.to_nat n)) index size) eqn:Ep; [|congruence].
  inversion H; subst. split; [exact Hb|]. split; [lia|discriminate].
Qed.

(* ------------------------------------------------------------ finding F13: the 32-bit product *)
Lemma getrange_u32_wrap_refuted :
  exists index size n, in_u32 index /\ in_u32 size /\ in_u32 n /\ 0 < size <= RpcMaxPageSize /\
    n <= index * size /\ GetRange_u32 index size n = (0, n) /\ 0 < n.
Proof. exists 4194304, 1024, 7. vm_compute. repeat split; congruence. Qed.

Lemma getrange_u32_slice_panic_refuted :
  exists index size n, in_u32 index /\ in_u32 size /\ in_u32 n /\
    let '(s, e) := GetRange_u32 index size n in e < s.
Proof. exists 4294967295, 4294967295, 2. vm_compute. repeat split; congruence. Qed.

(* ------------------------------------------------------------ by height *)
Lemma u64_small x : 0 <= x < two64 -> u64 x = x.
Proof. intros. unfold u64. apply Z.mod_small. exact H. Qed.

(* heights of [lo, lo+n) that exist in a chain of height h *)
Definition window (h lo : Z) (n : nat) : list Z := filter (exists_at h) (zseq lo n).

Lemma zseq_S a n : zseq a (S n) = a :: zseq (a + 1) n.
Proof.
  unfold zseq. cbn [seq map]. f_equal; [lia|].
  rewrite <- seq_shift, map_map. apply map_ext. intros; lia.
Qed.

Lemma filter_zseq_none h lo n : h < lo -> filter (exists_at h) (zseq lo n) = [].
Proof.
  revert lo. induction n as [|n IH]; intros lo Hlo; [reflexivity|].
  rewrite zseq_S. cbn [filter]. unfold exists_at at 1.
  replace (lo <=? h) with false by lia. rewrite andb_false_r. apply IH. lia.
Qed.

(* the loop returns exactly the existing heights of [height+i, height+i+n), cut at 2^64 *)
Lemma more_loop_exact h height i n : 0 <= h < two64 -> 0 < height < two64 -> 0 <= i -> height + i <= two64 ->
  more_loop h height i n = window h (height + i) n.
Proof.
  intros Hh Hht. revert i. induction n as [|n IH]; intros i Hi Hb; [reflexivity|].
  cbn [more_loop]. unfold window. rewrite zseq_S. cbn [filter].
  destruct (Z.eq_dec (height + i) two64) as [Ew|Nw].
  - (* wrapped: stop; nothing exists at or above 2^64 *)
    replace (u64 (height + i)) with 0 by (rewrite Ew; reflexivity).
    replace (0 <? height) with true by lia.
    unfold exists_at at 1. replace (height + i <=? h) with false by lia. rewrite andb_false_r.
    symmetry. apply filter_zseq_none. lia.
  - rewrite u64_small by lia.
    replace (height + i <? height) with false by lia.
    rewrite IH by lia. unfold window.
    replace (height + (i + 1)) with (height + i + 1) by lia.
    destruct (exists_at h (height + i)); reflexivity.
Qed.

Lemma more_by_height_exact h height count :
  0 <= h < two64 -> 0 < height < two64 -> 0 <= count < two63 ->
  more_by_height h height count = window h height (Z.to_nat count).
Proof.
  intros Hh Hht Hc. unfold more_by_height.
  assert (to_int64 count = count) as ->.
  { unfold to_int64. unfold two63, two64 in *. rewrite Z.mod_small by lia. replace (count <? 9223372036854775808) with true by lia. reflexivity. }
  rewrite more_loop_exact by lia. f_equal. lia.
Qed.

(* before the fix the loop wrapped around and returned the start of the chain *)
Lemma more_loop_wrap_refuted :
  exists h height n, 0 < h /\ in_u64 height /\ h < height /\ more_loop_wrap h height 0 n <> [].
Proof. exists 14, 18446744073709551615, 3%nat. vm_compute. repeat split; congruence. Qed.

Lemma In_window h lo n x : In x (window h lo n) <-> (lo <= x < lo + Z.of_nat n /\ 1 <= x <= h).
Proof.
  unfold window. rewrite filter_In. unfold zseq. rewrite in_map_iff. unfold exists_at.
  split.
  - intros [[k [Hk Hin]] He]. apply in_seq in Hin. lia.
  - intros [H1 H2]. split; [|lia]. exists (Z.to_nat (x - lo)). split; [lia|]. apply in_seq. lia.
Qed.

Lemma window_length_le h lo n : (length (window h lo n) <= n)%nat.
Proof.
  unfold window. rewrite <- (zseq_length lo n) at 2. generalize (zseq lo n). intros l.
  induction l as [|x l IH]; [reflexivity|]. cbn [filter]. destruct (exists_at h x); cbn [length]; lia.
Qed.

(* an existing prefix: [lo, lo+n) inside [1,h] is returned completely and in ascending order *)
Lemma window_inside h lo n : 1 <= lo -> lo + Z.of_nat n <= h + 1 -> window h lo n = zseq lo n.
Proof.
  revert lo. induction n as [|n IH]; intros lo H1 H2; [reflexivity|].
  unfold window. rewrite zseq_S. cbn [filter]. unfold exists_at at 1.
  replace ((1 <=? lo) && (lo <=? h)) with true by lia.
  f_equal. apply IH; lia.
Qed.

Lemma acc_by_height_spec h height count e l c :
  0 <= h < two63 -> in_u64 height -> in_u64 count ->
  acc_by_height h height count = (e, l, c) ->
  (e = ErrHeightZero /\ height = 0) \/ (e = ErrCountTooBig /\ RpcMaxCountSize < count) \/
  (e = 0 /\ 0 < height /\ count <= RpcMaxCountSize /\ c = h /\ l = window h height (Z.to_nat count)).
Proof.
  unfold in_u64. intros Hh Hht Hc H. unfold acc_by_height in H.
  destruct (height =? 0) eqn:E1; [inversion H; left; split; [reflexivity|lia]|].
  destruct (RpcMaxCountSize <? count) eqn:E2; [inversion H; right; left; split; [reflexivity|lia]|].
  right; right. unfold RpcMaxCountSize in *.
  destruct (h =? 0) eqn:E3.
  - inversion H; subst. assert (h = 0) by lia. subst h. repeat split; try lia.
    unfold window. symmetry. apply filter_zseq_none. lia.
  - inversion H; subst. repeat split; try lia.
    apply more_by_height_exact; unfold two63, two64 in *; lia.
Qed.

(* ------------------------------------------------------------ momentum store range *)
Lemma mom_range_eq height higher count : mom_range height higher count = mom_range_hand height higher count.
Proof.
  unfold mom_range, GetMomentumsByHeight_range, mom_range_hand, wrapU, u64. change (2 ^ 64) with two64.
  destruct higher; [reflexivity|]. destruct (_ <=? count); reflexivity.
Qed.

Lemma mom_range_alloc_bounded height higher count :
  in_u64 height -> 0 <= count <= RpcMaxCountSize -> (higher = false -> height < two64 - 1) ->
  let '(from, to) := mom_range height higher count in u64 (to - from) <= count.
Proof.
  unfold in_u64, RpcMaxCountSize, two64. intros Hh Hc Hw. rewrite mom_range_eq. unfold mom_range_hand.
  destruct higher.
  - unfold u64, two64. lia.
  - specialize (Hw eq_refl). rewrite (u64_small (height + 1)) by (unfold two64; lia).
    destruct (height + 1 <=? count) eqn:E.
    + rewrite u64_small by (unfold two64; lia). lia.
    + rewrite (u64_small (height + 1 - count)) by (unfold two64; lia). rewrite u64_small by (unfold two64; lia). lia.
Qed.

Lemma mom_range_alloc_panic_refuted :
  exists H count, mom_store_range H (two64 - 1) false count = None.
Proof. exists 30, 3. vm_compute. reflexivity. Qed.

Lemma filter_nonzero_marks h l : Forall (fun x => 0 < x) l ->
  filter (fun x => negb (x =? 0)) (map (fun i => if exists_at h i then i else 0) l) = filter (exists_at h) l.
Proof.
  induction 1 as [|x l Hx Hl IH]; [reflexivity|].
  cbn [map filter]. destruct (exists_at h x) eqn:E.
  - replace (negb (x =? 0)) with true by lia. f_equal. exact IH.
  - cbn. exact IH.
Qed.

Lemma Forall_zseq_pos a n : 0 < a -> Forall (fun x => 0 < x) (zseq a n).
Proof.
  intros Ha. apply Forall_forall. intros x Hin. unfold zseq in Hin. apply in_map_iff in Hin.
  destruct Hin as [k [Hk _]]. lia.
Qed.

Lemma mom_by_height_spec H height count e l c :
  0 <= H < two63 -> in_u64 height -> in_u64 count ->
  mom_by_height H height count = (e, l, c) ->
  (e = ErrHeightZero /\ height = 0) \/ (e = ErrCountTooBig /\ RpcMaxCountSize < count) \/
  (e = 0 /\ 0 < height /\ count <= RpcMaxCountSize /\ c = H /\
   l = window H height (Z.to_nat (u64 (height + count) - height))).
Proof.
  unfold in_u64. intros HH Hht Hc Hr. unfold mom_by_height in Hr.
  destruct (height =? 0) eqn:E1; [inversion Hr; left; split; [reflexivity|lia]|].
  destruct (RpcMaxCountSize <? count) eqn:E2; [inversion Hr; right; left; split; [reflexivity|lia]|].
  right; right. unfold RpcMaxCountSize in *.
  unfold mom_store_range in Hr. rewrite mom_range_eq in Hr. unfold mom_range_hand in Hr.
  assert (Hcap : u64 (u64 (height + count) - height) = count).
  { unfold u64, two64 in *. lia. }
  rewrite Hcap in Hr. unfold alloc_limit in Hr.
  replace (2 ^ 40 <=? count) with false in Hr by lia.
  inversion Hr; subst. repeat split; try lia.
  rewrite filter_nonzero_marks by (apply Forall_zseq_pos; lia). reflexivity.
Qed.

(* when the range wraps (height+count >= 2^64) the reply is empty; otherwise it is the window of `count` heights *)
Lemma mom_window_cases H height count :
  0 <= H < two63 -> 0 < height < two64 -> 0 <= count <= RpcMaxCountSize ->
  window H height (Z.to_nat (u64 (height + count) - height)) = window H height (Z.to_nat count).
Proof.
  unfold RpcMaxCountSize. intros HH Hh Hc.
  destruct (Z_lt_le_dec (height + count) two64) as [Hlt|Hge].
  - rewrite u64_small by lia. f_equal. lia.
  - assert (u64 (height + count) - height <= 0) by (unfold u64, two64 in *; lia).
    replace (Z.to_nat (u64 (height + count) - height)) with 0%nat by lia.
    unfold window at 1. cbn. symmetry. unfold window. apply filter_zseq_none. unfold two63, two64 in *. lia.
Qed.

(* ------------------------------------------------------------ by page *)
Lemma wrapS64_id x : - two63 <= x < two63 -> wrapS 64 x = x.
Proof. apply wrapS64_small. Qed.

(* the window of page `index`: heights (h - (index+1)*size, h - index*size], clipped at 1; nothing once index*size >= h *)
Lemma page_window_exact h index size :
  0 <= h < two63 - 1 -> 0 <= index < two32 - 1 -> 0 <= size <= RpcMaxPageSize ->
  page_window h index size =
    if (h <=? index * size) || (size =? 0) then None
    else Some (Z.max 1 (h - (index + 1) * size + 1), h - index * size - Z.max 1 (h - (index + 1) * size + 1) + 1).
Proof.
  unfold RpcMaxPageSize, two63, two32. intros Hh Hi Hs. unfold page_window.
  rewrite (wrapU32_small (index + 1)) by (unfold two32; lia).
  assert (to_int64 h = h) as ->.
  { unfold to_int64, two64, two63. rewrite Z.mod_small by lia. replace (h <? 9223372036854775808) with true by lia. reflexivity. }
  assert (Hprod : 0 <= (index + 1) * size <= 4294967296 * 1024) by nia.
  rewrite (wrapS64_id ((index + 1) * size)) by (unfold two63; lia).
  rewrite (wrapS64_id (h - (index + 1) * size)) by (unfold two63; lia).
  rewrite (wrapS64_id (h - (index + 1) * size + 1)) by (unfold two63; lia).
  rewrite (wrapS64_id (1 - (h - (index + 1) * size + 1))) by (unfold two63; lia).
  destruct (0 <? 1 - (h - (index + 1) * size + 1)) eqn:E.
  - rewrite (wrapS64_id (size - (1 - (h - (index + 1) * size + 1)))) by (unfold two63; lia).
    destruct (size - (1 - (h - (index + 1) * size + 1)) <? 1) eqn:E2.
    + replace ((h <=? index * size) || (size =? 0)) with true by nia. reflexivity.
    + replace ((h <=? index * size) || (size =? 0)) with false by nia.
      rewrite !u64_small by (unfold two64; nia). f_equal. f_equal; nia.
  - destruct (size <? 1) eqn:E2.
    + replace ((h <=? index * size) || (size =? 0)) with true by nia. reflexivity.
    + replace ((h <=? index * size) || (size =? 0)) with false by nia.
      rewrite !u64_small by (unfold two64; nia). f_equal. f_equal; nia.
Qed.

(* the last index a client can send: pageIndex+1 wraps to 0, the window starts above the frontier: empty reply *)
Lemma page_window_top_index h size :
  0 < h < two63 - 1 -> 0 < size <= RpcMaxPageSize ->
  page_window h (two32 - 1) size = Some (h + 1, size).
Proof.
  unfold RpcMaxPageSize, two63, two32. intros Hh Hs. unfold page_window.
  replace (wrapU 32 (4294967296 - 1 + 1)) with 0 by reflexivity.
  assert (to_int64 h = h) as ->.
  { unfold to_int64, two64, two63. rewrite Z.mod_small by lia. replace (h <? 9223372036854775808) with true by lia. reflexivity. }
  rewrite Z.mul_0_l. replace (wrapS 64 0) with 0 by reflexivity. rewrite Z.sub_0_r.
  rewrite (wrapS64_id h) by (unfold two63; lia).
  rewrite (wrapS64_id (h + 1)) by (unfold two63; lia).
  rewrite (wrapS64_id (1 - (h + 1))) by (unfold two63; lia).
  replace (0 <? 1 - (h + 1)) with false by lia.
  replace (size <? 1) with false by lia.
  rewrite !u64_small by (unfold two64; lia). reflexivity.
Qed.

(* descending heights of page `index` *)
Definition desc_page (h index size : Z) : list Z :=
  rev (zseq (Z.max 1 (h - (index + 1) * size + 1)) (Z.to_nat (h - index * size - Z.max 1 (h - (index + 1) * size + 1) + 1))).

Lemma acc_by_page_exact h index size :
  0 < h < two63 - 1 -> 0 <= index < two32 -> 0 < size <= RpcMaxPageSize ->
  (index < two32 - 1 \/ h <= index * size) ->
  acc_by_page h index size = (0, (if h <=? index * size then [] else desc_page h index size), h).
Proof.
  intros Hh Hi Hs Hx. unfold acc_by_page.
  replace (RpcMaxPageSize <? size) with false by lia.
  replace (h =? 0) with false by lia.
  unfold by_page.
  destruct (Z.eq_dec index (two32 - 1)) as [Et|Nt].
  - subst index. rewrite page_window_top_index by assumption.
    unfold acc_by_height. unfold RpcMaxPageSize, RpcMaxCountSize, two63, two32 in *.
    replace (h + 1 =? 0) with false by lia. replace (1024 <? size) with false by lia.
    replace (h =? 0) with false by lia.
    rewrite more_by_height_exact by (unfold two63, two64; lia).
    unfold window. rewrite filter_zseq_none by lia. cbn [Z.eqb rev].
    replace (h <=? (4294967296 - 1) * size) with true by lia. reflexivity.
  - rewrite page_window_exact by (unfold RpcMaxPageSize in *; lia).
    replace (size =? 0) with false by lia. rewrite orb_false_r.
    destruct (h <=? index * size) eqn:E; [reflexivity|].
    unfold acc_by_height. unfold RpcMaxPageSize, RpcMaxCountSize, two63, two32 in *.
    set (s := Z.max 1 (h - (index + 1) * size + 1)).
    set (c := h - index * size - s + 1).
    assert (Hsc : 1 <= s /\ 1 <= c <= size /\ s + c = h - index * size + 1) by (subst s c; nia).
    replace (s =? 0) with false by lia. replace (1024 <? c) with false by lia.
    replace (h =? 0) with false by lia.
    rewrite more_by_height_exact by (unfold two63, two64; nia).
    rewrite window_inside by nia. cbn [Z.eqb]. reflexivity.
Qed.

Lemma mom_by_page_exact h index size :
  0 < h < two63 - 1 -> 0 <= index < two32 -> 0 < size <= RpcMaxPageSize ->
  (index < two32 - 1 \/ h <= index * size) ->
  mom_by_page h index size = (0, (if h <=? index * size then [] else desc_page h index size), h).
Proof.
  intros Hh Hi Hs Hx. unfold mom_by_page.
  replace (RpcMaxPageSize <? size) with false by lia.
  unfold by_page.
  destruct (Z.eq_dec index (two32 - 1)) as [Et|Nt].
  - subst index. rewrite page_window_top_index by assumption.
    destruct (mom_by_height h (h + 1) size) as [[e l] c] eqn:Em.
    apply mom_by_height_spec in Em; unfold in_u64, RpcMaxPageSize, RpcMaxCountSize, two63, two64, two32 in *; try lia.
    destruct Em as [[_ Hz]|[[_ Hz]|[He [_ [_ [Hc Hl]]]]]]; try lia.
    subst e c. rewrite mom_window_cases in Hl by (unfold RpcMaxCountSize, two63, two64; lia).
    unfold window in Hl. rewrite filter_zseq_none in Hl by lia. subst l. cbn [Z.eqb rev].
    replace (h <=? (4294967296 - 1) * size) with true by lia. reflexivity.
  - rewrite page_window_exact by (unfold RpcMaxPageSize in *; lia).
    replace (size =? 0) with false by lia. rewrite orb_false_r.
    destruct (h <=? index * size) eqn:E; [reflexivity|].
    unfold RpcMaxPageSize, two63, two32 in *.
    set (s := Z.max 1 (h - (index + 1) * size + 1)).
    set (c := h - index * size - s + 1).
    assert (Hsc : 1 <= s /\ 1 <= c <= size /\ s + c = h - index * size + 1) by (subst s c; nia).
    destruct (mom_by_height h s c) as [[e l] cnt] eqn:Em.
    apply mom_by_height_spec in Em; unfold in_u64, RpcMaxCountSize, two63, two64 in *; try nia.
    destruct Em as [[_ Hz]|[[_ Hz]|[He [_ [_ [Hc Hl]]]]]]; try lia.
    subst e cnt. rewrite mom_window_cases in Hl by (unfold RpcMaxCountSize, two63, two64; nia).
    rewrite window_inside in Hl by nia. subst l. cbn [Z.eqb]. reflexivity.
Qed.

(* the descending pages are the ideal pages of the descending list h..1 *)
Lemma zseq_app a n m : zseq a (n + m) = zseq a n ++ zseq (a + Z.of_nat n) m.
Proof.
  revert a. induction n as [|n IH]; intros a.
  - replace (a + Z.of_nat 0) with a by lia. reflexivity.
  - cbn [plus]. rewrite !zseq_S, IH. cbn [app]. do 3 f_equal. lia.
Qed.

Lemma rev_zseq_slice h a b : 0 <= a <= b -> b <= h ->
  slice (rev (zseq 1 (Z.to_nat h))) a b = rev (zseq (h - b + 1) (Z.to_nat (b - a))).
Proof.
  intros Hab Hb. unfold slice.
  set (na := Z.to_nat a). set (nm := Z.to_nat (b - a)). set (nr := Z.to_nat (h - b)).
  replace (Z.to_nat h) with (nr + (nm + na))%nat by lia.
  rewrite !zseq_app, !rev_app_distr, <- app_assoc.
  rewrite skipn_app, skipn_all2 by (rewrite rev_length, zseq_length; lia).
  rewrite rev_length, zseq_length, Nat.sub_diag. cbn [skipn app].
  rewrite firstn_app, rev_length, zseq_length, Nat.sub_diag. cbn [firstn]. rewrite app_nil_r.
  rewrite firstn_all2 by (rewrite rev_length, zseq_length; lia).
  do 2 f_equal. lia.
Qed.

Lemma desc_page_is_ideal h index size : 0 < h -> 0 <= index -> 0 < size -> index * size < h ->
  desc_page h index size = ideal_page (rev (zseq 1 (Z.to_nat h))) index size.
Proof.
  intros Hh Hi Hs Hlt. unfold ideal_page, desc_page. rewrite rev_length, zseq_length.
  rewrite Z2Nat.id by lia.
  rewrite rev_zseq_slice by nia.
  f_equal. f_equal; nia.
Qed.

Definition heights_of (r : rpc_out) : list Z := snd (fst r).

Lemma acc_pages_partition h size k :
  0 < h < two63 - 1 -> 0 < size <= RpcMaxPageSize -> Z.of_nat k < two32 -> h <= Z.of_nat k * size ->
  concat (map (fun i => heights_of (acc_by_page h (Z.of_nat i) size)) (seq 0 k)) = rev (zseq 1 (Z.to_nat h)).
Proof.
  intros Hh Hs Hk Hcov.
  rewrite (map_ext_in _ (fun i => ideal_page (rev (zseq 1 (Z.to_nat h))) (Z.of_nat i) size)).
  - rewrite concat_ideal_pages by lia. rewrite rev_length, zseq_length.
    rewrite Z.min_r by lia. rewrite Nat2Z.id.
    apply firstn_all2. rewrite rev_length, zseq_length. lia.
  - intros i Hin. apply in_seq in Hin.
    rewrite acc_by_page_exact by (unfold two32 in *; lia). unfold heights_of. cbn [fst snd].
    destruct (h <=? Z.of_nat i * size) eqn:E.
    + unfold ideal_page. rewrite rev_length, zseq_length. rewrite !Z.min_r by nia. symmetry. apply slice_empty.
    + apply desc_page_is_ideal; nia.
Qed.

Lemma mom_pages_partition h size k :
  0 < h < two63 - 1 -> 0 < size <= RpcMaxPageSize -> Z.of_nat k < two32 -> h <= Z.of_nat k * size ->
  concat (map (fun i => heights_of (mom_by_page h (Z.of_nat i) size)) (seq 0 k)) = rev (zseq 1 (Z.to_nat h)).
Proof.
  intros Hh Hs Hk Hcov.
  rewrite (map_ext_in _ (fun i => ideal_page (rev (zseq 1 (Z.to_nat h))) (Z.of_nat i) size)).
  - rewrite concat_ideal_pages by lia. rewrite rev_length, zseq_length.
    rewrite Z.min_r by lia. rewrite Nat2Z.id.
    apply firstn_all2. rewrite rev_length, zseq_length. lia.
  - intros i Hin. apply in_seq in Hin.
    rewrite mom_by_page_exact by (unfold two32 in *; lia). unfold heights_of. cbn [fst snd].
    destruct (h <=? Z.of_nat i * size) eqn:E.
    + unfold ideal_page. rewrite rev_length, zseq_length. rewrite !Z.min_r by nia. symmetry. apply slice_empty.
    + apply desc_page_is_ideal; nia.
Qed.

Lemma by_page_beyond_end h index size :
  0 < h < two63 - 1 -> 0 <= index < two32 -> 0 < size <= RpcMaxPageSize -> h <= index * size ->
  acc_by_page h index size = (0, [], h) /\ mom_by_page h index size = (0, [], h).
Proof.
  intros Hh Hi Hs Hb. rewrite acc_by_page_exact, mom_by_page_exact by (try assumption; right; exact Hb).
  replace (h <=? index * size) with true by lia. split; reflexivity.
Qed.

(* the one index the `_exact` lemmas leave out when the chain is longer than (2^32-1)*size: pageIndex+1 wraps to 0 in
   uint32, the window starts above the frontier and the reply is empty *)
Lemma by_page_top_index h size :
  0 < h < two63 - 1 -> 0 < size <= RpcMaxPageSize ->
  acc_by_page h (two32 - 1) size = (0, [], h) /\ mom_by_page h (two32 - 1) size = (0, [], h).
Proof.
  intros Hh Hs. split.
  - unfold acc_by_page.
    replace (RpcMaxPageSize <? size) with false by lia.
    replace (h =? 0) with false by lia.
    unfold by_page. rewrite page_window_top_index by assumption.
    unfold acc_by_height. unfold RpcMaxPageSize, RpcMaxCountSize, two63, two32 in *.
    replace (h + 1 =? 0) with false by lia. replace (1024 <? size) with false by lia.
    replace (h =? 0) with false by lia.
    rewrite more_by_height_exact by (unfold two63, two64; lia).
    unfold window. rewrite filter_zseq_none by lia. cbn [Z.eqb rev]. reflexivity.
  - unfold mom_by_page.
    replace (RpcMaxPageSize <? size) with false by lia.
    unfold by_page. rewrite page_window_top_index by assumption.
    destruct (mom_by_height h (h + 1) size) as [[e l] c] eqn:Em.
    apply mom_by_height_spec in Em; unfold in_u64, RpcMaxPageSize, RpcMaxCountSize, two63, two64, two32 in *; try lia.
    destruct Em as [[_ Hz]|[[_ Hz]|[He [_ [_ [Hc Hl]]]]]]; try lia.
    subst e c. rewrite mom_window_cases in Hl by (unfold RpcMaxCountSize, two63, two64; lia).
    unfold window in Hl. rewrite filter_zseq_none in Hl by lia. subst l. cbn [Z.eqb rev]. reflexivity.
Qed.

(* EVERY uint32 page index, every chain height: a by-page reply is never an error, reports the frontier height, holds at
   most `size` heights, and each of them is an existing height of exactly that page's interval *)
Lemma by_page_bounded h index size r :
  0 < h < two63 - 1 -> 0 <= index < two32 -> 0 < size <= RpcMaxPageSize ->
  r = acc_by_page h index size \/ r = mom_by_page h index size ->
  exists l, r = (0, l, h) /\ Z.of_nat (length l) <= size /\
            (forall x, In x l -> 1 <= x <= h /\ h - (index + 1) * size < x <= h - index * size).
Proof.
  intros Hh Hi Hs Hr.
  destruct (Z.eq_dec index (two32 - 1)) as [Et|Nt].
  - subst index. destruct (by_page_top_index h size Hh Hs) as [Ha Hm]. rewrite Ha, Hm in Hr.
    exists []. split; [destruct Hr; assumption|]. split; [cbn [length]; lia|]. intros x [].
  - assert (Hlt : index < two32 - 1 \/ h <= index * size) by (left; lia).
    assert (Ha := acc_by_page_exact h index size Hh Hi Hs Hlt).
    assert (Hm := mom_by_page_exact h index size Hh Hi Hs Hlt).
    exists (if h <=? index * size then [] else desc_page h index size).
    split; [destruct Hr as [Hr|Hr]; subst r; assumption|].
    destruct (h <=? index * size) eqn:E.
    + split; [cbn [length]; lia|]. intros x [].
    + unfold desc_page. unfold RpcMaxPageSize, two63, two32 in *.
      set (s := Z.max 1 (h - (index + 1) * size + 1)).
      set (c := h - index * size - s + 1).
      assert (Hsc : 1 <= s /\ 1 <= c <= size /\ s + c = h - index * size + 1 /\ h - (index + 1) * size < s) by (subst s c; nia).
      split; [rewrite rev_length, zseq_length; lia|].
      intros x Hx. rewrite <- in_rev in Hx. rewrite <- (window_inside h) in Hx by lia.
      apply In_window in Hx. lia.
Qed.

(* ... and that empty reply is WRONG once the chain is longer than (2^32-1)*size: the heights of that page's interval exist
   but are not returned (and no larger index can be sent). Needs 2^32 momentums (> 1300 years at 10 s): recorded, not reachable *)
Lemma by_page_top_index_incomplete_refuted :
  exists h size, 0 < h < two63 - 1 /\ 0 < size <= RpcMaxPageSize /\ 0 < h - (two32 - 1) * size /\
    acc_by_page h (two32 - 1) size = (0, [], h) /\ mom_by_page h (two32 - 1) size = (0, [], h).
Proof.
  exists (2 ^ 33), 1. assert (H1 : 0 < 2 ^ 33 < two63 - 1) by (unfold two63; lia).
  assert (H2 : 0 < 1 <= RpcMaxPageSize) by (unfold RpcMaxPageSize; lia).
  split; [exact H1|]. split; [exact H2|]. split; [unfold two32; lia|]. exact (by_page_top_index _ _ H1 H2).
Qed.

(* ------------------------------------------------------------ reward / history pagers *)
Lemma epoch_loop_exact e n : 0 <= Z.of_nat n <= two32 -> e < two63 ->
  epoch_loop e n = if e <? 0 then [] else rev (zseq (Z.max 0 (e - Z.of_nat n + 1)) (Z.to_nat (e - Z.max 0 (e - Z.of_nat n + 1) + 1))).
Proof.
  revert e. induction n as [|n IH]; intros e Hn He.
  - cbn [epoch_loop]. destruct (e <? 0) eqn:E; [reflexivity|].
    replace (Z.to_nat (e - Z.max 0 (e - Z.of_nat 0 + 1) + 1)) with 0%nat by lia. reflexivity.
  - cbn [epoch_loop]. destruct (e <? 0) eqn:E; [reflexivity|].
    rewrite wrapS64_id by (unfold two63 in *; lia).
    rewrite IH by (unfold two32, two63 in *; lia).
    destruct (e - 1 <? 0) eqn:E1.
    + assert (e = 0) by lia. subst e.
      replace (Z.max 0 (0 - Z.of_nat (S n) + 1)) with 0 by lia. reflexivity.
    + set (lo := Z.max 0 (e - Z.of_nat (S n) + 1)).
      replace (Z.max 0 (e - 1 - Z.of_nat n + 1)) with lo by (subst lo; lia).
      replace (Z.to_nat (e - lo + 1)) with (S (Z.to_nat (e - 1 - lo + 1))) by (subst lo; lia).
      unfold zseq at 2. rewrite seq_S, map_app, rev_app_distr. cbn [map rev app plus].
      f_equal. subst lo. lia.
Qed.

(* page `index` of the epochs last..0 (descending): epochs (last-(index+1)*size, last-index*size], clipped at 0 *)
Lemma epoch_page_exact last index size :
  -1 <= last < two63 / 2 -> in_u32 index -> 0 <= size <= RpcMaxPageSize ->
  epoch_page last index size =
    if last <? index * size then []
    else rev (zseq (Z.max 0 (last - index * size - size + 1)) (Z.to_nat (last - index * size - Z.max 0 (last - index * size - size + 1) + 1))).
Proof.
  unfold in_u32, RpcMaxPageSize, two32, two63. intros Hl Hi Hs. unfold epoch_page.
  assert (Hp : 0 <= index * size <= 4294967296 * 1024) by nia.
  rewrite (wrapS64_id (index * size)) by (unfold two63; lia).
  rewrite (wrapS64_id (last - index * size)) by (unfold two63; lia).
  rewrite epoch_loop_exact by (unfold two32, two63; lia).
  rewrite Z2Nat.id by lia.
  replace (last - index * size <? 0) with (last <? index * size) by lia.
  reflexivity.
Qed.

(* the reward / history pages partition the epochs last..0: each epoch exactly once, newest first, as soon as k*size covers them *)
Lemma epoch_pages_partition last size k :
  0 <= last < two63 / 2 -> 0 < size <= RpcMaxPageSize -> Z.of_nat k < two32 -> last + 1 <= Z.of_nat k * size ->
  concat (map (fun i => epoch_page last (Z.of_nat i) size) (seq 0 k)) = rev (zseq 0 (Z.to_nat (last + 1))).
Proof.
  intros Hl Hs Hk Hcov.
  set (h := last + 1).
  assert (Hh : 0 < h < two63 - 1) by (subst h; unfold two63 in *; lia).
  assert (Hshift : forall a n, map (fun x => x - 1) (zseq a n) = zseq (a - 1) n).
  { intros a n. unfold zseq. rewrite map_map. apply map_ext. intros; lia. }
  assert (Hmm : forall (f : nat -> list Z) l,
             map (fun i => map (fun x => x - 1) (f i)) l = map (map (fun x => x - 1)) (map f l))
    by (intros; rewrite map_map; reflexivity).
  rewrite (map_ext_in _ (fun i => map (fun x => x - 1) (heights_of (acc_by_page h (Z.of_nat i) size)))).
  - rewrite Hmm, <- concat_map, acc_pages_partition by (try assumption; subst h; lia).
    rewrite map_rev, Hshift. subst h. replace (1 - 1) with 0 by lia. reflexivity.
  - intros i Hin. apply in_seq in Hin.
    rewrite acc_by_page_exact by (try assumption; unfold two32 in *; lia). unfold heights_of. cbn [fst snd].
    rewrite epoch_page_exact by (unfold in_u32, two32 in *; lia).
    destruct (h <=? Z.of_nat i * size) eqn:E.
    + replace (last <? Z.of_nat i * size) with true by (subst h; lia). reflexivity.
    + replace (last <? Z.of_nat i * size) with false by (subst h; lia).
      unfold desc_page. rewrite map_rev, Hshift. f_equal. subst h. f_equal; lia.
Qed.

Lemma epoch_page_u32_wrap_refuted :
  exists last index size, 0 <= last /\ in_u32 index /\ 0 < size <= RpcMaxPageSize /\ last < index * size /\
    epoch_page_u32 last index size <> [].
Proof. exists 0, 4194304, 1024. vm_compute. repeat split; congruence. Qed.
