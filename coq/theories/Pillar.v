(* Model of vm/embedded/implementation/pillars.go: Register, RegisterLegacy, Revoke, UpdatePillar, Delegate,
   Undelegate, and common.go DepositQsr / WithdrawQsr on the pillar contract's storage.
   Not modelled functions that enter as observed verdicts: checkPillarNameStatic (length + regexp) as [name_ok],
   CheckSwapSignature + PubKeyToKeyIdHash of RegisterLegacy as [legacy_key] (None = signature rejected,
   Some h = accepted, h the key-id hash of the public key). *)
From ZV Require Import Prelude GoSem Abi VmReceive Emb LockEnv.
From ZV.gen Require Import Consts.
Open Scope Z_scope.

Section PillarC.
  Variable name_ok : bytes -> bool.
  Variable legacy_key : bytes -> bytes -> bytes -> option bytes.   (* sender, public key string, signature string *)

  Record pillar := { l_owner : bytes; l_amount : Z; l_reg : Z; l_revoke : Z;
                     l_producer : bytes; l_reward : bytes; l_pct_block : Z; l_pct_deleg : Z; l_type : Z }.
  (* pillars by name, QSR deposits by address, producing address -> pillar name, delegations backer -> name,
     legacy slots by key-id hash *)
  Record lstore := { l_pillars : tab pillar; l_dep : tab Z; l_producing : tab bytes; l_deleg : tab bytes; l_legacy : tab Z }.
  Notation acct := (cacct lstore).
  Notation send := VmReceive.send.

  Definition set_pillars (st : lstore) x := {| l_pillars := x; l_dep := l_dep st; l_producing := l_producing st; l_deleg := l_deleg st; l_legacy := l_legacy st |}.
  Definition set_dep (st : lstore) x := {| l_pillars := l_pillars st; l_dep := x; l_producing := l_producing st; l_deleg := l_deleg st; l_legacy := l_legacy st |}.
  Definition set_producing (st : lstore) x := {| l_pillars := l_pillars st; l_dep := l_dep st; l_producing := x; l_deleg := l_deleg st; l_legacy := l_legacy st |}.
  Definition set_deleg (st : lstore) x := {| l_pillars := l_pillars st; l_dep := l_dep st; l_producing := l_producing st; l_deleg := x; l_legacy := l_legacy st |}.
  Definition set_legacy (st : lstore) x := {| l_pillars := l_pillars st; l_dep := l_dep st; l_producing := l_producing st; l_deleg := l_deleg st; l_legacy := x |}.
  Definition upd_pillar (p : pillar) (amount revoke : Z) : pillar :=
    {| l_owner := l_owner p; l_amount := amount; l_reg := l_reg p; l_revoke := revoke; l_producer := l_producer p;
       l_reward := l_reward p; l_pct_block := l_pct_block p; l_pct_deleg := l_pct_deleg p; l_type := l_type p |}.

  (* ---- Revoke *)
  Definition pillar_revoke_validate (s : send) : vres bytes :=
    match unpack_args Sel_pillars_Revoke [TString] (s_data s) with
    | VOk [VBytes name] =>
      if negb (name_ok name) then VErr E_invalid_name else
      if negb (s_amount s =? 0) then VErr E_token_or_amount else VOk name
    | VOk _ => VPanic
    | VErr c => VErr c | VPanic => VPanic
    end.
  Definition pillar_revoke_receive (e : lenv) (a : acct) (s : send) : mres lstore :=
    match pillar_revoke_validate s with
    | VErr c => MErr c | VPanic => MPanic
    | VOk _ =>
      match pillar_revoke_validate s with
      | VOk name =>
        let st := a_store a in
        match tget (l_pillars st) name with
        | None => MErr E_nonexistent
        | Some p =>
          if negb (l_revoke p =? 0) then MErr E_not_active else
          if negb (bytes_eqb (l_owner p) (s_from s)) then MErr E_permission else
          match revoke_window (c_PillarLock e) (c_PillarRevoke e) (l_reg p) (l_now e) with
          | Panic => MPanic
          | Ok (false, _) => MErr E_revoke_not_due
          | Ok (true, _) =>
            MOk (with_store a (set_pillars st (tput (l_pillars st) name (upd_pillar p 0 (l_now e)))))
                [{| d_to := l_owner p; d_amount := c_PillarStake e; d_zts := ZtsZnn; d_data := [] |}]
          end
        end
      | _ => MPanic
      end
    end.

  (* ---- common.go DepositQsr / WithdrawQsr *)
  Definition pillar_deposit_receive (a : acct) (s : send) : mres lstore :=
    match deposit_qsr_validate s with
    | VErr c => MErr c | VPanic => MPanic
    | VOk _ =>
      let st := a_store a in
      let cur := match tget (l_dep st) (s_from s) with Some v => v | None => 0 end in
      MOk (with_store a (set_dep st (tput (l_dep st) (s_from s) (u256 (cur + s_amount s))))) []
    end.
  Definition pillar_withdraw_receive (a : acct) (s : send) : mres lstore :=
    match withdraw_qsr_validate s with
    | VErr c => MErr c | VPanic => MPanic
    | VOk _ =>
      let st := a_store a in
      let cur := match tget (l_dep st) (s_from s) with Some v => v | None => 0 end in
      if cur =? 0 then MErr E_nothing_to_withdraw else
      MOk (with_store a (set_dep st (tdel (l_dep st) (s_from s))))
          [{| d_to := s_from s; d_amount := cur; d_zts := ZtsQsr; d_data := [] |}]
    end.

  (* ---- Register / RegisterLegacy *)
  Record regparam := { r_name : bytes; r_producer : bytes; r_reward : bytes; r_pb : Z; r_pd : Z }.

  (* checkAndConsumeQsr *)
  Definition consume_qsr (st : lstore) (owner : bytes) (req : Z) : option lstore :=
    let dep := match tget (l_dep st) owner with Some v => v | None => 0 end in
    if dep <? req then None else
    let rest := dep - req in
    Some (set_dep st (if rest =? 0 then tdel (l_dep st) owner else tput (l_dep st) owner (u256 rest))).

  (* checkAvailableProducingAddress *)
  Definition producing_free (st : lstore) (producer name : bytes) : bool :=
    match tget (l_producing st) producer with None => true | Some n => bytes_eqb n name end.

  (* checkAndRegisterPillar *)
  Definition check_and_register (e : lenv) (st : lstore) (p : regparam) (owner : bytes) (ty : Z) : lstore + Z :=
    if negb (name_ok (r_name p)) then inr E_invalid_name else
    if (100 <? r_pb p) || (100 <? r_pd p) then inr E_forbidden else
    match tget (l_pillars st) (r_name p) with
    | Some _ => inr E_not_unique
    | None =>
      if negb (producing_free st (r_producer p) (r_name p)) then inr E_not_unique else
      let pl := {| l_owner := owner; l_amount := u256 (c_PillarStake e); l_reg := l_now e; l_revoke := 0;
                   l_producer := r_producer p; l_reward := r_reward p; l_pct_block := r_pb p; l_pct_deleg := r_pd p; l_type := ty |} in
      inl (set_producing (set_pillars st (tput (l_pillars st) (r_name p) pl)) (tput (l_producing st) (r_producer p) (r_name p)))
    end.

  Definition reg_static (e : lenv) (s : send) (p : regparam) : option Z :=
    if negb (name_ok (r_name p)) then Some E_invalid_name else
    if (100 <? r_pb p) || (100 <? r_pd p) then Some E_forbidden else None.

  Definition register_validate (e : lenv) (s : send) : vres regparam :=
    match unpack_args Sel_pillars_Register [TString; TAddress; TAddress; TUint 8; TUint 8] (s_data s) with
    | VOk [VBytes name; VBytes prod; VBytes rew; VInt pb; VInt pd] =>
      let p := {| r_name := name; r_producer := prod; r_reward := rew; r_pb := pb; r_pd := pd |} in
      match reg_static e s p with
      | Some c => VErr c
      | None => if negb (bytes_eqb (s_zts s) ZtsZnn) || negb (s_amount s =? c_PillarStake e) then VErr E_token_or_amount else VOk p
      end
    | VOk _ => VPanic
    | VErr c => VErr c | VPanic => VPanic
    end.

  (* GetQsrCostForNextPillar: base + increase * number of active pillars of the normal type *)
  Definition active_normal (st : lstore) : Z :=
    tcount (fun p : pillar => (l_revoke p =? 0) && (l_type p =? PillarTypeNormal)) (l_pillars st).
  Definition burn_qsr (amount : Z) : dsend :=
    {| d_to := AddrTokenContract; d_amount := amount; d_zts := ZtsQsr; d_data := Sel_token_Burn |}.

  Definition register_receive (e : lenv) (a : acct) (s : send) : mres lstore :=
    match register_validate e s with
    | VErr c => MErr c | VPanic => MPanic
    | VOk _ =>
      match register_validate e s with
      | VOk p =>
        let st := a_store a in
        let cost := c_PillarQsrIncr e * active_normal st + c_PillarQsrBase e in
        match check_and_register e st p (s_from s) PillarTypeNormal with
        | inr c => MErr c
        | inl st1 =>
          match consume_qsr st1 (s_from s) cost with
          | None => MErr E_not_enough_deposited_qsr
          | Some st2 => MOk (with_store a st2) [burn_qsr cost]
          end
        end
      | _ => MPanic
      end
    end.

  Definition legacy_validate (e : lenv) (s : send) : vres (regparam * bytes) :=
    match unpack_args Sel_pillars_RegisterLegacy [TString; TAddress; TAddress; TUint 8; TUint 8; TString; TString] (s_data s) with
    | VOk [VBytes name; VBytes prod; VBytes rew; VInt pb; VInt pd; VBytes pub; VBytes sig] =>
      let p := {| r_name := name; r_producer := prod; r_reward := rew; r_pb := pb; r_pd := pd |} in
      match reg_static e s p with
      | Some c => VErr c
      | None =>
        match legacy_key (s_from s) pub sig with
        | None => VErr E_invalid_signature
        | Some k => if negb (bytes_eqb (s_zts s) ZtsZnn) || negb (s_amount s =? c_PillarStake e) then VErr E_token_or_amount else VOk (p, k)
        end
      end
    | VOk _ => VPanic
    | VErr c => VErr c | VPanic => VPanic
    end.
  Definition legacy_receive (e : lenv) (a : acct) (s : send) : mres lstore :=
    match legacy_validate e s with
    | VErr c => MErr c | VPanic => MPanic
    | VOk _ =>
      match legacy_validate e s with
      | VOk (p, k) =>
        let st := a_store a in
        match tget (l_legacy st) k with
        | None => MErr E_not_enough_slots
        | Some cnt =>
          let cnt' := u8 (cnt - 1) in
          let st0 := set_legacy st (if cnt' =? 0 then tdel (l_legacy st) k else tput (l_legacy st) k cnt') in
          let cost := c_PillarQsrBase e in
          match check_and_register e st0 p (s_from s) PillarTypeLegacy with
          | inr c => MErr c
          | inl st1 =>
            match consume_qsr st1 (s_from s) cost with
            | None => MErr E_not_enough_deposited_qsr
            | Some st2 => MOk (with_store a st2) [burn_qsr cost]
            end
          end
        end
      | _ => MPanic
      end
    end.

  (* ---- UpdatePillar *)
  Definition update_pillar_validate (e : lenv) (s : send) : vres regparam :=
    match unpack_args Sel_pillars_UpdatePillar [TString; TAddress; TAddress; TUint 8; TUint 8] (s_data s) with
    | VOk [VBytes name; VBytes prod; VBytes rew; VInt pb; VInt pd] =>
      let p := {| r_name := name; r_producer := prod; r_reward := rew; r_pb := pb; r_pd := pd |} in
      match reg_static e s p with
      | Some c => VErr c
      | None => if negb (s_amount s =? 0) then VErr E_token_or_amount else VOk p
      end
    | VOk _ => VPanic
    | VErr c => VErr c | VPanic => VPanic
    end.
  Definition update_pillar_receive (e : lenv) (a : acct) (s : send) : mres lstore :=
    match update_pillar_validate e s with
    | VErr c => MErr c | VPanic => MPanic
    | VOk _ =>
      match update_pillar_validate e s with
      | VOk p =>
        let st := a_store a in
        match tget (l_pillars st) (r_name p) with
        | None => MErr E_nonexistent
        | Some pl =>
          if negb (bytes_eqb (l_owner pl) (s_from s)) then MErr E_permission else
          if negb (l_revoke pl =? 0) then MErr E_not_active else
          let changed := negb (bytes_eqb (r_producer p) (l_producer pl)) in
          if changed && negb (producing_free st (r_producer p) (r_name p)) then MErr E_not_unique else
          let st1 := if changed then set_producing st (tput (l_producing st) (r_producer p) (r_name p)) else st in
          let pl' := {| l_owner := l_owner pl; l_amount := l_amount pl; l_reg := l_reg pl; l_revoke := l_revoke pl;
                        l_producer := r_producer p; l_reward := r_reward p; l_pct_block := r_pb p; l_pct_deleg := r_pd p; l_type := l_type pl |} in
          MOk (with_store a (set_pillars st1 (tput (l_pillars st1) (r_name p) pl'))) []
        end
      | _ => MPanic
      end
    end.

  (* ---- Delegate / Undelegate *)
  Definition delegate_validate (s : send) : vres bytes :=
    match unpack_args Sel_pillars_Delegate [TString] (s_data s) with
    | VOk [VBytes name] =>
      if negb (name_ok name) then VErr E_invalid_name else
      if negb (s_amount s =? 0) then VErr E_token_or_amount else VOk name
    | VOk _ => VPanic
    | VErr c => VErr c | VPanic => VPanic
    end.
  Definition delegate_receive (a : acct) (s : send) : mres lstore :=
    match delegate_validate s with
    | VErr c => MErr c | VPanic => MPanic
    | VOk _ =>
      match delegate_validate s with
      | VOk name =>
        let st := a_store a in
        match tget (l_pillars st) name with
        | None => MErr E_nonexistent
        | Some pl =>
          if negb (l_revoke pl =? 0) then MErr E_not_active else
          MOk (with_store a (set_deleg st (tput (l_deleg st) (s_from s) name))) []
        end
      | _ => MPanic
      end
    end.
  Definition undelegate_validate (s : send) : vres unit :=
    match unpack_empty Sel_pillars_Undelegate (s_data s) with
    | VOk _ => if negb (s_amount s =? 0) then VErr E_token_or_amount else VOk tt
    | VErr c => VErr c | VPanic => VPanic
    end.
  Definition undelegate_receive (a : acct) (s : send) : mres lstore :=
    match undelegate_validate s with
    | VErr c => MErr c | VPanic => MPanic
    | VOk _ =>
      let st := a_store a in
      match tget (l_deleg st) (s_from s) with
      | None => MErr E_nonexistent
      | Some _ => MOk (with_store a (set_deleg st (tdel (l_deleg st) (s_from s)))) []
      end
    end.
End PillarC.
