(* Proofs about the momentum acceptance model (C05). *)
From ZV Require Import Prelude GoSem Election MomentumVerif.
From ZV.gen Require Import Consts.
Open Scope Z_scope.
Ltac Zify.zify_post_hook ::= Z.div_mod_to_equations.

Lemma find_mom_some chain : forall h n par, find_mom chain h n = Some par ->
  In par chain /\ m_hash par = h /\ m_height par = n.
Proof.
  induction chain as [|x r IH]; cbn; intros h n par H; [discriminate|].
  destruct ((m_hash x =? h) && (m_height x =? n)) eqn:E.
  - inversion H; subst. apply andb_true_iff in E. destruct E as [E1 E2].
    apply Z.eqb_eq in E1, E2. auto.
  - destruct (IH _ _ _ H) as (I & A & B). auto.
Qed.

Lemma frontier_of_in chain : forall f, frontier_of chain = Some f -> In f chain.
Proof.
  unfold frontier_of. induction chain as [|x r IH]; cbn; intros f H; [discriminate|].
  destruct r as [|y r'].
  - cbn in H. inversion H. auto.
  - right. apply IH. exact H.
Qed.

Lemma nodup_height_eq (chain : list msum) a b :
  NoDup (map m_height chain) -> In a chain -> In b chain -> m_height a = m_height b -> a = b.
Proof.
  induction chain as [|x r IH]; cbn; intros ND Ia Ib E; [contradiction|].
  inversion ND as [|? ? Hn ND']; subst.
  destruct Ia as [->|Ia], Ib as [->|Ib]; auto.
  - exfalso. apply Hn. rewrite E. apply in_map, Ib.
  - exfalso. apply Hn. rewrite <- E. apply in_map, Ia.
Qed.

Ltac brk H :=
  match type of H with
  | context [if ?b then _ else _] => destruct b eqn:?; try discriminate H
  end.

Section AcceptSound.
  Variable perm : Z -> nat -> list nat.
  Variables nc rc : nat.
  Variables bt genesis : Z.
  Variable delegs_at : Z -> list deleg.

  Lemma raw_verify_ok cx m : raw_verify cx m = VOk ->
    exists par, find_mom (cx_chain cx) (mo_prev m) (u64 (mo_height m - 1)) = Some par /\
      mo_chain m = cx_chain_id cx /\ mo_version m = 1 /\
      time_sec (mo_ts m) <= time_sec (cx_now cx) + 10 /\ m_ts par < mo_ts m /\
      mo_data_len m = 0 /\ content_check cx m = VOk.
  Proof.
    unfold raw_verify. intros H.
    brk H. brk H.
    destruct (find_mom (cx_chain cx) (mo_prev m) (u64 (mo_height m - 1))) as [par|] eqn:F; [|discriminate].
    repeat brk H.
    exists par. split; [reflexivity|].
    repeat match goal with
           | E : negb _ = false |- _ => apply negb_false_iff in E
           | E : (_ =? _) = true |- _ => apply Z.eqb_eq in E
           | E : (_ <? _) = false |- _ => apply Z.ltb_ge in E
           | E : (_ <=? _) = false |- _ => apply Z.leb_gt in E
           end.
    repeat split; try assumption; try lia.
  Qed.

  Lemma tx_verify_ok cx m ch : tx_verify perm nc rc bt genesis delegs_at cx m ch = VOk ->
    ch = mo_changes m /\ cx_hash cx = mo_hash m /\ mo_pk_len m = 32 /\ cx_sig_ok cx = true /\
    momentum_producer perm nc rc bt genesis delegs_at (cx_chain cx) (mo_ts m) = PFound (mo_producer m).
  Proof.
    unfold tx_verify. intros H. repeat brk H.
    destruct (momentum_producer perm nc rc bt genesis delegs_at (cx_chain cx) (mo_ts m)) as [a| | | | |] eqn:P;
      try discriminate.
    brk H.
    repeat match goal with
           | E : negb _ = false |- _ => apply negb_false_iff in E
           | E : (_ =? _) = true |- _ => apply Z.eqb_eq in E
           end.
    subst a. repeat split; auto.
  Qed.

  (* ACCEPTED (applied without error AND written to the chain) implies every clause of the statement *)
  Theorem accepted_sound cx m :
    NoDup (map m_height (cx_chain cx)) ->
    accepted perm nc rc bt genesis delegs_at cx m = true ->
    exists f,
      frontier_of (cx_chain cx) = Some f /\
      mo_prev m = m_hash f /\ u64 (mo_height m - 1) = m_height f /\
      m_ts f < mo_ts m /\
      time_sec (mo_ts m) <= time_sec (cx_now cx) + 10 /\
      mo_hash m = cx_hash cx /\
      cx_exec cx = XOk (mo_changes m) /\
      cx_sig_ok cx = true /\ mo_pk_len m = 32 /\
      momentum_producer perm nc rc bt genesis delegs_at (cx_chain cx) (mo_ts m) = PFound (mo_producer m) /\
      mo_chain m = cx_chain_id cx /\ mo_version m = 1 /\ mo_data_len m = 0 /\
      content_check cx m = VOk.
  Proof.
    intros ND. unfold accepted, apply_momentum, extends_frontier.
    destruct (raw_verify cx m) eqn:RV; try discriminate.
    destruct (cx_exec cx) as [ch| |] eqn:EX; try discriminate.
    destruct (tx_verify perm nc rc bt genesis delegs_at cx m ch) eqn:TV; try discriminate.
    destruct (frontier_of (cx_chain cx)) as [f|] eqn:FR; [|discriminate].
    intros H. apply andb_true_iff in H. destruct H as [H1 H2]. apply Z.eqb_eq in H1, H2.
    destruct (raw_verify_ok _ _ RV) as (par & F & C1 & C2 & C3 & C4 & C5 & C6).
    destruct (tx_verify_ok _ _ _ TV) as (T1 & T2 & T3 & T4 & T5).
    destruct (find_mom_some _ _ _ _ F) as (Ip & Hp & Np).
    assert (par = f).
    { eapply nodup_height_eq; eauto; [apply frontier_of_in; exact FR|congruence]. }
    subst par. exists f. subst ch. repeat split; auto.
  Qed.

  (* the converse direction for the producer clause: a momentum of any other signer is never accepted *)
  Theorem wrong_producer_rejected cx m a :
    momentum_producer perm nc rc bt genesis delegs_at (cx_chain cx) (mo_ts m) = PFound a ->
    a <> mo_producer m -> accepted perm nc rc bt genesis delegs_at cx m = false.
  Proof.
    intros P N. destruct (accepted perm nc rc bt genesis delegs_at cx m) eqn:A; [|reflexivity]. exfalso.
    unfold accepted, apply_momentum in A.
    destruct (raw_verify cx m); try discriminate.
    destruct (cx_exec cx) as [ch| |]; try discriminate.
    destruct (tx_verify perm nc rc bt genesis delegs_at cx m ch) eqn:TV; try discriminate.
    destruct (tx_verify_ok _ _ _ TV) as (_ & _ & _ & _ & T5). congruence.
  Qed.
End AcceptSound.

(* ---- the content / prefetch clause spelled out: a candidate that passes content() was presented with as many distinct
        account blocks (by identifier) as its content has headers, and every header names one of them *)
Lemma content_scan_named pre acct : forall hs heads, content_scan pre acct heads hs = VOk ->
  Forall (fun h => exists b, lookup_pb pre (h_hash h) (h_height h) = Some b) hs.
Proof.
  induction hs as [|h r IH]; intros heads H; [constructor|].
  cbn [content_scan] in H.
  destruct (lookup_pb pre (h_hash h) (h_height h)) as [b|] eqn:L; [|discriminate].
  constructor; [exists b; exact L|].
  destruct (pb_batched b); [eapply IH; exact H|].
  match type of H with (if ?c then _ else _) = _ => destruct c end; [eapply IH; exact H|discriminate].
Qed.

Theorem content_exact cx m : content_check cx m = VOk ->
  Z.of_nat (length (mo_content m)) <= MaxAccountBlocksInMomentum /\
  distinct_ids (cx_prefetched cx) [] = Z.of_nat (length (mo_content m)) /\
  Forall (fun h => exists b, lookup_pb (cx_prefetched cx) (h_hash h) (h_height h) = Some b) (mo_content m) /\
  content_scan (cx_prefetched cx) (cx_acct cx) [] (mo_content m) = VOk.
Proof.
  unfold content_check.
  destruct (MaxAccountBlocksInMomentum <? Z.of_nat (length (mo_content m))) eqn:E1; [discriminate|].
  destruct (negb (distinct_ids (cx_prefetched cx) [] =? Z.of_nat (length (mo_content m)))) eqn:E2; [discriminate|].
  intros H. apply Z.ltb_ge in E1. apply negb_false_iff in E2. apply Z.eqb_eq in E2.
  repeat split; auto. eapply content_scan_named; exact H.
Qed.
