(* C16 — the side-chain decision of the InsertChain model (Sync.insert_chain: link to one of our momentums, 30-momentum
   rollback window, strictly longer) IS the code: the statement `if head.Previous() != ourFrontier.Identifier() { … }` of
   chainBridge.InsertChain (protocol/chain_bridge.go), translated from /repo's source by go2coq on every run as a
   fragment (gen/PureSync.v: InsertChain_sidechain; result (-1, nil) = the statement falls through to the insertion).
   Inputs of the translation: head / tail of the unknown part of the batch, our frontier, the momentum we have at
   head.Height-1 (GetMomentumByHeight) and the result of RollbackTo; (hash, height) identifiers as numbers under any
   injective encoding. *)
From ZV Require Import Prelude GoSem Sync.
From ZV.gen Require Import Consts Pure PureSync.
Open Scope Z_scope.

Definition sc_code (e : Z) : option ic_err :=
  if e =? Err_new_can_t_link_momentums_to_insert__First_momentum_P then Some ELink
  else if e =? Err_new_can_t_rollback_to__v__Too_far__Frontier_is__v__W then Some ETooFar
  else if e =? Err_new_won_t_insert_side_chain_which_is_not_longer then Some ENotLonger
  else None.

(* what the model decides at that statement: None = go on (extension, or side chain after the rollback) *)
Definition side_decision (c : list smom) (fr head tail : smom) : option ic_err :=
  if prev_is head fr then None
  else match by_height c (u64 (s_height head - 1)) with
       | None => Some ELink
       | Some target =>
         if negb (prev_is head target) then Some ELink
         else if 30 <? u64 (s_height fr - s_height target) then Some ETooFar
         else if s_height tail <=? s_height fr then Some ENotLonger
         else None
       end.

Section Enc.
  Variable enc : Z -> Z -> Z.
  Hypothesis enc_inj : forall a b a' b', enc a b = enc a' b' -> a = a' /\ b = b'.

  Lemma enc_eqb16 a b a' b' : (enc a b =? enc a' b') = ((a =? a') && (b =? b')).
  Proof.
    destruct (enc a b =? enc a' b') eqn:E.
    - apply Z.eqb_eq in E. apply enc_inj in E. destruct E; subst. rewrite !Z.eqb_refl. reflexivity.
    - symmetry. apply andb_false_iff. apply Z.eqb_neq in E.
      destruct (a =? a') eqn:Ea; [|left; reflexivity]. right. apply Z.eqb_neq. apply Z.eqb_eq in Ea. subst. intros ->. apply E. reflexivity.
  Qed.

  Definition prev_id (d : smom) : Z := enc (s_prev d) (u64 (s_height d - 1)).
  Definition ident (m : smom) : Z := enc (s_hash m) (s_height m).

  Lemma prev_is_enc d m : (prev_id d =? ident m) = prev_is d m.
  Proof. unfold prev_id, ident, prev_is. apply enc_eqb16. Qed.

  (* the store read succeeds; RollbackTo succeeds (its failure is an error of its own, reported at index 0) *)
  Theorem side_chain_is_source c fr head tail start :
    let target := by_height c (u64 (s_height head - 1)) in
    InsertChain_sidechain start (prev_id head) (ident fr) 0
      (match target with Some _ => true | None => false end)
      (match target with Some t => ident t | None => 0 end)
      (s_height fr) (match target with Some t => s_height t | None => 0 end) (s_height tail) 0
    = match side_decision c fr head tail with
      | None => (-1, 0)
      | Some ELink => (start, Err_new_can_t_link_momentums_to_insert__First_momentum_P)
      | Some ETooFar => (start, Err_new_can_t_rollback_to__v__Too_far__Frontier_is__v__W)
      | Some _ => (start, Err_new_won_t_insert_side_chain_which_is_not_longer)
      end.
  Proof.
    cbv zeta. unfold InsertChain_sidechain, side_decision. rewrite prev_is_enc.
    destruct (prev_is head fr); cbn [negb]; [reflexivity|].
    change (0 =? 0) with true. cbn [negb].
    destruct (by_height c (u64 (s_height head - 1))) as [t|]; cbn [negb]; [|reflexivity].
    rewrite Z.eqb_sym, prev_is_enc.
    destruct (prev_is head t); cbn [negb]; [|reflexivity].
    unfold u64, wrapU. change (2 ^ 64) with two64.
    destruct (30 <? (s_height fr - s_height t) mod two64); [reflexivity|].
    destruct (s_height tail <=? s_height fr); reflexivity.
  Qed.

  Lemma sc_code_sound e : sc_code e = Some ELink \/ sc_code e = Some ETooFar \/ sc_code e = Some ENotLonger \/ sc_code e = None.
  Proof. unfold sc_code. repeat match goal with |- context [if ?x then _ else _] => destruct x end; auto. Qed.
End Enc.

(* insert_chain (fixed code) takes exactly this decision after the known prefix is skipped *)
Theorem insert_chain_uses_side_decision bvalid mvalid clears c pool ds start head rest fr :
  ds <> [] ->
  skip_known c ds 0 = (start, head :: rest) ->
  frontier c = Some fr ->
  let tail := last (head :: rest) head in
  insert_chain bvalid mvalid true clears c pool ds =
  match side_decision c fr (d_mom head) (d_mom tail) with
  | Some e => (ICErr start e, (c, pool))
  | None =>
    if prev_is (d_mom head) fr then apply_all bvalid mvalid c pool (head :: rest) start
    else match by_height c (u64 (s_height (d_mom head) - 1)) with
         | Some target => apply_all bvalid mvalid (rollback_to c (s_height target)) (if clears then [] else pool) (head :: rest) start
         | None => (ICErr start ELink, (c, pool))
         end
  end.
Proof.
  intros Hne Hsk Hfr tail. unfold insert_chain, side_decision.
  destruct ds as [|d ds']; [congruence|].
  rewrite Hsk, Hfr. fold tail.
  destruct (prev_is (d_mom head) fr); [reflexivity|].
  destruct (by_height c (u64 (s_height (d_mom head) - 1))) as [t|]; [|reflexivity].
  destruct (prev_is (d_mom head) t); cbn [negb]; [|reflexivity].
  destruct (30 <? u64 (s_height fr - s_height t)); [reflexivity|].
  destruct (s_height (d_mom tail) <=? s_height fr); reflexivity.
Qed.
