(* Executable entry points compared with the implementation by ./check C01.
   c01_seg : (state before, ops of one momentum or of the pool)  |->  state after   (trace inclusion + projection equality)
   c01_step: (enforced, local state, one candidate block)        |->  verdict class and local state after *)
From ZV Require Import Prelude Ledger LedgerEmb.
Open Scope Z_scope.

(* forget what the property does not talk about: received sends, their markers, zero balances; restart the cursors *)
Definition gc (s : state) : state :=
  let live h := negb (rcvd_any h (rcv s)) in
  mkState (filter (fun e => negb (snd e =? 0)) (bal s)) (toks s)
          (filter (fun sd => live (s_hash sd)) (sends s)) []
          (filter (fun p => live (snd p)) (conf s)) [].

(* every op must be accepted by the model (the implementation accepted it) *)
Fixpoint run_checked (enf : bool) (s : state) (ops : list op) : option state :=
  match ops with
  | [] => Some s
  | o :: r => match step enf s o with
              | (s', ROk _) => run_checked enf s' r
              | (_, RErr _) => None
              end
  end.

Definition tok_eqb (a b : token) : bool :=
  (t_total a =? t_total b) && (t_max a =? t_max b) && (t_owner a =? t_owner b) &&
  Bool.eqb (t_mintable a) (t_mintable b) && Bool.eqb (t_burnable a) (t_burnable b).
Definition send_eqb (a b : send) : bool :=
  (s_hash a =? s_hash b) && (s_from a =? s_from b) && (s_to a =? s_to b) && (s_zts a =? s_zts b) && (s_amt a =? s_amt b).

Definition bal_sub (m1 m2 : list ((addr * zts) * Z)) : bool := forallb (fun e => get_bal (fst e) m2 =? snd e) m1.
Definition toks_sub (m1 m2 : list (zts * token)) : bool :=
  forallb (fun e => match get_tok (fst e) m2 with Some t => tok_eqb t (snd e) | None => false end) m1.
Definition sends_sub (l1 l2 : list send) : bool :=
  forallb (fun sd => match find_send (s_hash sd) l2 with Some x => send_eqb x sd | None => false end) l1.
Definition pairs_eqb : list (Z * Z) -> list (Z * Z) -> bool := list_eqb key_eqb.

(* equality of projected states: same balances (absent = 0), same token table, same in-flight set,
   same per-contract order of the unreceived confirmed sends *)
Definition state_eqb (a b : state) : bool :=
  bal_sub (bal a) (bal b) && bal_sub (bal b) (bal a) &&
  toks_sub (toks a) (toks b) && toks_sub (toks b) (toks a) &&
  sends_sub (sends a) (sends b) && sends_sub (sends b) (sends a) &&
  (length (sends a) =? length (sends b))%nat &&
  pairs_eqb (conf a) (conf b).

(* the same over the ops of the tie, where the receives of the concrete common / plasma / stake methods carry the
   send data and the storage entry instead of the observed descendants (theories/LedgerEmb.v) *)
Fixpoint run_checked_x (enf : bool) (s : state) (xs : list xop) : option state :=
  match xs with
  | [] => Some s
  | x :: r => match step_x enf s x with
              | (s', ROk _) => run_checked_x enf s' r
              | (_, RErr _) => None
              end
  end.
Definition c01_seg_run (i : state * list xop) : option state :=
  match run_checked_x true (fst i) (snd i) with Some s => Some (gc s) | None => None end.
Definition c01_seg_eqb (a b : option state) : bool := option_eqb state_eqb a b.

Definition res_code (r : res) : Z := match r with ROk true => 0 | ROk false => 100 | RErr e => e end.
Definition c01_step_run (i : bool * state * op) : Z * state :=
  let '(enf, s, o) := i in
  let '(s', r) := step enf s o in (res_code r, gc s').
Definition c01_step_eqb (a b : Z * state) : bool := (fst a =? fst b) && state_eqb (snd a) (snd b).
