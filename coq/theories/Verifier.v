(* The acceptance decision for one account block (executable model, no proofs).  Mirrors, in this order,
     vm/supervisor.go          ApplyBlock / applyBlock (incl. the recover() -> ErrVmRunPanic)
     verifier/account_block.go getContext, accountBlockVerifier.all(): version, chainIdentifier, blockType, amounts, pow,
                               previous, momentumAcknowledged, fromHash, sequencer
     vm/vm.go                  enoughPlasma (coq/theories/Plasma.v), applySend (embedded lookup + ValidateSendBlock as a flag,
                               enoughFunds, SubBalance), applyReceive, the regenerate-and-compare of contract receives
     verifier/account_block.go accountBlockTransactionVerifier.all(): hash, signature, producer, descendantBlocks
   ctx is the finite projection of the stores the verifier and the VM read for THIS block; hashes / addresses / token
   standards are opaque ids with 0 = the zero value; SHA3 (ComputeHash), ed25519 verification, the address of a public
   key, the PoW check and the regenerated contract receive are inputs (fed with the real results by the harness). *)
From ZV Require Import Prelude Ledger Plasma.
From ZV.gen Require Import Consts.
Open Scope Z_scope.

(* block types (chain/nom/account_block.go) *)
Notation T_GENESIS := (1).
Notation T_USER_SEND := (2).
Notation T_USER_RECEIVE := (3).
Notation T_CONTRACT_SEND := (4).
Notation T_CONTRACT_RECEIVE := (5).
Definition is_send_t (t : Z) : bool := (t =? T_USER_SEND) || (t =? T_CONTRACT_SEND).
Definition is_recv_t (t : Z) : bool := (t =? T_USER_RECEIVE) || (t =? T_CONTRACT_RECEIVE) || (t =? T_GENESIS).

(* a descendant block: the fields accountBlockVerifier.all() looks at *)
Record dblk := mkD {
  d_hash : Z; d_computed : Z;                                   (* its Hash field, ComputeHash() of its content *)
  d_version : Z; d_chain : Z; d_type : Z; d_emb : bool;         (* is its Address embedded *)
  d_height : Z; d_prev : Z; d_ma_hash : Z; d_ma_height : Z;
  d_amount : option Z; d_zts : Z; d_to : Z; d_from : Z; d_difficulty : Z
}.

Record vblk := mkV {
  v_version : Z; v_chain : Z; v_type : Z;
  v_hash : Z;                    (* the Hash field *)
  v_computed : Z;                (* ComputeHash() of the content *)
  v_prev : Z; v_height : Z;      (* PreviousHash, Height *)
  v_ma_hash : Z; v_ma_height : Z;
  v_addr : Z;                    (* id; embedded iff Ledger.is_emb *)
  v_to : Z;
  v_amount : option Z;           (* None = nil *big.Int *)
  v_zts : Z;
  v_from : Z;
  v_descs : list dblk;
  v_fused : Z; v_difficulty : Z;
  v_pow_ok : bool;               (* pow.CheckPoWNonce *)
  v_changes : Z;                 (* ChangesHash *)
  v_pk_len : Z; v_sig_len : Z;
  v_sig_ok : bool;               (* wallet.VerifySignature(pk, hash, sig) without error *)
  v_pk_addr : Z                  (* types.PubKeyToAddress(pk) *)
}.

Record vctx := mkC {
  c_chain_id : Z;                         (* momentumStore.ChainIdentifier() *)
  c_ma_known : bool;                      (* chain.GetMomentumStore(MomentumAcknowledged) != nil *)
  c_acct_store : bool;                    (* chain.GetAccountStore(address, block.Previous()) != nil *)
  c_global_frontier : option Z;           (* height of the account's frontier in the frontier momentum store; None = no block *)
  c_prev_known_global : bool;             (* that store's ByHash(PreviousHash) != nil *)
  c_frontier : option (Z * Z);            (* accountStore.Frontier().Identifier() = (hash, height); None = nil *)
  c_prev_ma_height : option Z;            (* accountStore.ByHeight(previous.Height).MomentumAcknowledged.Height; None = nil block *)
  c_from_to : option Z;                   (* momentumStore.GetAccountBlockByHash(FromBlockHash).ToAddress; None = not found *)
  c_from_is_send : bool;                  (* that block .IsSendBlock(); fromHash() does NOT look at it (observation only) *)
  c_from_conf : Z;                        (* momentumStore.GetBlockConfirmationHeight(FromBlockHash) *)
  c_received : bool;                      (* accountStore.IsReceived(FromBlockHash) *)
  c_next : option Z;                      (* accountStore.SequencerFront(mailbox): hash id of the header; None = nil *)
  c_frontier_height : Z;                  (* frontierStore.Identifier().Height *)
  c_enf_height : Z;                       (* verifier.ReceiverMismatchEnforcementHeight *)
  c_fused_amount : Z; c_committed : Z; c_uncommitted : Z;   (* plasma: beneficial QSR, chain plasma committed / uncommitted *)
  c_baseplasma : option Z;                      (* GetBasePlasmaForAccountBlock; None = error (DealWithErr panics) *)
  c_method_ok : bool;                     (* send to an embedded address: lookup + ValidateSendBlock pass *)
  c_balance : Z;                          (* context.GetBalance(TokenStandard) *)
  c_regen : option (Z * Z)                (* contract receive: generateEmbeddedReceive -> (hash, changes hash); None = error *)
}.

(* ---- verdict codes, one per sentinel of verifier/errors.go (+ vm) *)
Notation V_OK := (0).
Notation V_VersionMissing := (1).            Notation V_VersionInvalid := (2).
Notation V_ChainIdMissing := (3).            Notation V_ChainIdMismatch := (4).
Notation V_TypeInvalidExternal := (5).       Notation V_TypeMissing := (6).
Notation V_TypeMustNotBeGenesis := (7).      Notation V_TypeUnsupported := (8).
Notation V_TypeMustBeContract := (9).        Notation V_TypeMustBeUser := (10).
Notation V_HeightMissing := (11).            Notation V_PrevHeightExists := (12).
Notation V_PrevHasCementedOnTop := (13).     Notation V_PrevHashMissing := (14).
Notation V_PrevHashMustBeZero := (15).       Notation V_AmountNegative := (16).
Notation V_AmountTooBig := (17).             Notation V_AmountMustBeZero := (18).
Notation V_ZtsMissing := (19).               Notation V_ZtsMustBeZero := (20).
Notation V_ToAddressMustBeZero := (21).      Notation V_HashMissing := (22).
Notation V_HashInvalid := (23).              Notation V_PublicKeyWrongAddress := (24).
Notation V_PublicKeyMissing := (25).         Notation V_PublicKeyMustBeZero := (26).
Notation V_SignatureInvalid := (27).         Notation V_SignatureMissing := (28).
Notation V_SignatureMustBeZero := (29).      Notation V_PoWInvalid := (30).
Notation V_DescendantMustBeZero := (31).     Notation V_DescendantVerify := (32).
Notation V_PreviousMissing := (33).          Notation V_MAGap := (34).
Notation V_MAMustBeTheSame := (35).          Notation V_MAInvalidForAutoGenerated := (36).
Notation V_MAMissing := (37).                Notation V_MAMustNotBeZero := (38).
Notation V_FromBlockHashMissing := (39).     Notation V_FromBlockHashMustBeZero := (40).
Notation V_FromBlockMissing := (41).         Notation V_FromBlockAlreadyReceived := (42).
Notation V_FromBlockReceiverMismatch := (43).
Notation V_SequencerNothing := (44).         Notation V_SequencerNotNext := (45).
Notation V_Internal := (46).
Notation V_NotEnoughPlasma := (50).          Notation V_PlasmaLimit := (51).
Notation V_NotEnoughTotalPlasma := (52).     Notation V_InsufficientBalance := (53).
Notation V_MethodRefused := (54).            Notation V_Panic := (55).
Notation V_RegenMismatch := (56).            Notation V_CantApplyContractSend := (57).

(* the first failing check decides *)
Fixpoint first_err (l : list Z) : Z :=
  match l with [] => 0 | c :: r => if c =? 0 then first_err r else c end.

Definition bit_len_le_255 (v : Z) : bool := Z.abs v <? 2 ^ 255.

(* ---- accountBlockVerifier.all() on the fields it reads; shared by the block and its descendants.
   emb: the Address is embedded.  The store-dependent parts are passed as already computed codes. *)
Definition ck_version (ver : Z) : Z :=
  if ver =? 0 then V_VersionMissing else if negb (ver =? 1) then V_VersionInvalid else 0.
Definition ck_chain (cid expected : Z) : Z :=
  if cid =? 0 then V_ChainIdMissing else if negb (cid =? expected) then V_ChainIdMismatch else 0.
Definition ck_type (t : Z) (emb : bool) : Z :=
  if t =? 0 then V_TypeMissing
  else if t =? T_GENESIS then V_TypeMustNotBeGenesis
  else if negb (is_send_t t || is_recv_t t) then V_TypeUnsupported
  else if emb then (if (t =? T_CONTRACT_RECEIVE) || (t =? T_CONTRACT_SEND) then 0 else V_TypeMustBeContract)
  else (if (t =? T_USER_RECEIVE) || (t =? T_USER_SEND) then 0 else V_TypeMustBeUser).
Definition ck_amounts (t : Z) (amount : option Z) (zts to from : Z) : Z :=
  if is_send_t t then
    match amount with
    | None => V_Panic                                   (* nil.Sign() *)
    | Some v =>
      if v <? 0 then V_AmountNegative
      else if negb (bit_len_le_255 v) then V_AmountTooBig
      else if (0 <? v) && (zts =? 0) then V_ZtsMissing
      else if negb (from =? 0) then V_FromBlockHashMustBeZero
      else 0
    end
  else
    if match amount with Some v => negb (v =? 0) | None => false end then V_AmountMustBeZero
    else if negb (zts =? 0) then V_ZtsMustBeZero
    else if negb (to =? 0) then V_ToAddressMustBeZero
    else if from =? 0 then V_FromBlockHashMissing
    else 0.
Definition ck_pow (difficulty : Z) (emb pow_ok : bool) : Z :=
  if negb (difficulty =? 0) then (if emb then V_PoWInvalid else if negb pow_ok then V_PoWInvalid else 0) else 0.
Definition ck_heights (height prev : Z) : Z :=
  if height =? 0 then V_HeightMissing
  else if (height =? 1) && negb (prev =? 0) then V_PrevHashMustBeZero
  else if negb (height =? 1) && (prev =? 0) then V_PrevHashMissing
  else 0.

(* Previous(): taken from the first descendant when there is one *)
Definition eff_prev (b : vblk) : Z * Z :=
  match v_descs b with
  | d :: _ => (d_prev d, d_height d - 1)
  | [] => (v_prev b, v_height b - 1)
  end.

Definition is_contract_receive (b : vblk) : bool := is_recv_t (v_type b) && is_emb (v_addr b).

(* getContext *)
Definition ck_context (c : vctx) (b : vblk) : Z :=
  let e := ck_heights (v_height b) (v_prev b) in
  if negb (e =? 0) then e
  else if (v_ma_hash b =? 0) && (v_ma_height b =? 0) then V_MAMustNotBeZero
  else if negb (c_ma_known c) then V_MAMissing
  else if negb (c_acct_store c) then
    match c_global_frontier c with
    | None => V_Panic                                     (* globalFrontier == nil, .Height *)
    | Some gh => if v_height b - 1 <? gh then (if c_prev_known_global c then V_PrevHasCementedOnTop else V_PrevHeightExists)
                 else V_PreviousMissing
    end
  else 0.

Definition ck_previous (c : vctx) (b : vblk) : Z :=
  let e := ck_heights (v_height b) (v_prev b) in
  if negb (e =? 0) then e
  else if v_height b =? 1 then 0
  else if is_emb (v_addr b) then 0
  else match c_frontier c with
       | None => V_Internal
       | Some (fh, fhe) =>
         let '(ph, phe) := eff_prev b in
         if (fh =? ph) && (fhe =? phe) then 0 else V_PreviousMissing
       end.

Definition ck_ma (c : vctx) (b : vblk) : Z :=
  if is_send_t (v_type b) && is_emb (v_addr b) then 0                      (* batched: checked by the parent *)
  else if is_contract_receive b then
    if existsb (fun d => negb ((d_ma_hash d =? v_ma_hash b) && (d_ma_height d =? v_ma_height b))) (v_descs b) then V_MAMustBeTheSame
    else if negb (c_from_conf c =? v_ma_height b) then V_MAInvalidForAutoGenerated
    else 0
  else
    let '(ph, phe) := eff_prev b in
    if (ph =? 0) && (phe =? 0) then 0
    else match c_prev_ma_height c with
         | None => V_Panic                                                  (* previousBlock == nil *)
         | Some pm => if v_ma_height b <? pm then V_MAGap else 0
         end.

Definition ck_from (c : vctx) (b : vblk) : Z :=
  if is_send_t (v_type b) then 0
  else match c_from_to c with
       | None => V_FromBlockMissing
       | Some to =>
         if negb (to =? v_addr b) && (c_enf_height c <=? c_frontier_height c) then V_FromBlockReceiverMismatch
         else if c_received c then V_FromBlockAlreadyReceived
         else 0
       end.

Definition ck_sequencer (c : vctx) (b : vblk) : Z :=
  if is_emb (v_addr b) && is_recv_t (v_type b) then
    match c_next c with
    | None => V_SequencerNothing
    | Some h => if h =? v_from b then 0 else V_SequencerNotNext
    end
  else 0.

(* verifier.AccountBlock *)
Definition verify_block (c : vctx) (b : vblk) : Z :=
  first_err [ (if v_type b =? T_CONTRACT_SEND then V_TypeInvalidExternal else 0);
              ck_context c b;
              ck_version (v_version b);
              ck_chain (v_chain b) (c_chain_id c);
              ck_type (v_type b) (is_emb (v_addr b));
              ck_amounts (v_type b) (v_amount b) (v_zts b) (v_to b) (v_from b);
              ck_pow (v_difficulty b) (is_emb (v_addr b)) (v_pow_ok b);
              ck_previous c b;
              ck_ma c b;
              ck_from c b;
              ck_sequencer c b ].

(* vm.applyBlock *)
Definition ck_plasma (c : vctx) (b : vblk) : Z :=
  if is_emb (v_addr b) then 0
  else match c_baseplasma c with
       | None =>
         (* the errors of enoughPlasma that come before the base-plasma lookup, then the panic *)
         match available (c_fused_amount c) (c_committed c) (c_uncommitted c) with
         | None => V_Panic
         | Some av =>
           if av <? v_fused b then V_NotEnoughPlasma
           else if MaxPlasmaForAccountBlock <? u64 (difficulty_to_plasma (v_difficulty b) + v_fused b) then V_PlasmaLimit
           else V_Panic
         end
       | Some base =>
         match enough_plasma (c_fused_amount c) (c_committed c) (c_uncommitted c) base (v_fused b) (v_difficulty b) with
         | POk _ _ _ => 0
         | PErr k => if k =? 1 then V_NotEnoughPlasma else if k =? 2 then V_PlasmaLimit else V_NotEnoughTotalPlasma
         | PPanic => V_Panic
         end
       end.

Definition ck_vm (c : vctx) (b : vblk) : Z :=
  if is_send_t (v_type b) then
    if is_emb (v_to b) && negb (c_method_ok c) then V_MethodRefused
    else match v_amount b with
         | None => V_Panic
         | Some v => if v_zts b =? 0 then (if v <=? c_balance c then 0 else V_Panic)       (* enoughFunds = true; SubBalance *)
                     else if c_balance c <? v then V_InsufficientBalance else 0
         end
  else if v_type b =? T_USER_RECEIVE then 0
  else (* contract receive *)
    match c_regen c with
    | None => V_RegenMismatch
    | Some (gh, gc) => if negb (gc =? v_changes b) then V_RegenMismatch
                       else if negb (gh =? v_hash b) then V_RegenMismatch else 0
    end.

(* accountBlockTransactionVerifier.all() *)
Definition ck_hash (b : vblk) : Z :=
  if v_hash b =? 0 then V_HashMissing else if negb (v_computed b =? v_hash b) then V_HashInvalid else 0.
Definition ck_signature (b : vblk) : Z :=
  if is_emb (v_addr b) then
    (if negb (v_pk_len b =? 0) then V_PublicKeyMustBeZero else if negb (v_sig_len b =? 0) then V_SignatureMustBeZero else 0)
  else if v_sig_len b =? 0 then V_SignatureMissing
  else if v_pk_len b =? 0 then V_PublicKeyMissing
  else if negb (v_sig_ok b) then V_SignatureInvalid
  else 0.
Definition ck_producer (b : vblk) : Z :=
  if is_emb (v_addr b) then 0 else if negb (v_pk_addr b =? v_addr b) then V_PublicKeyWrongAddress else 0.

(* all() on a descendant (frontierStore is nil there; only send-type descendants get that far without reading it) *)
Definition verify_desc (dh : bool) (c : vctx) (b : vblk) (d : dblk) : Z :=
  first_err [ (* the parent's hash covers only the Hash FIELDS of its descendants: each must match its own content
                 (dh = false is the code before fix 3d79e01, kept for the record) *)
              (if dh && negb (d_computed d =? d_hash d) then V_HashInvalid else 0);
              ck_version (d_version d);
              ck_chain (d_chain d) (c_chain_id c);
              ck_type (d_type d) (d_emb d);
              ck_amounts (d_type d) (d_amount d) (d_zts d) (d_to d) (d_from d);
              ck_pow (d_difficulty d) (d_emb d) false;
              ck_heights (d_height d) (d_prev d);
              (* previous(): start blocks and contracts stop here; momentumAcknowledged(): batched blocks stop *)
              (if is_send_t (d_type d) && d_emb d then 0 else V_Internal) ].
Definition ck_descendants (dh : bool) (c : vctx) (b : vblk) : Z :=
  if negb (is_contract_receive b) && negb (match v_descs b with [] => true | _ => false end) then V_DescendantMustBeZero
  else if forallb (fun d => verify_desc dh c b d =? 0) (v_descs b) then 0 else V_DescendantVerify.

(* Supervisor.ApplyBlock: the whole decision *)
Definition apply_block_gen (dh : bool) (c : vctx) (b : vblk) : Z :=
  first_err [ (if v_type b =? T_CONTRACT_SEND then V_CantApplyContractSend else 0);
              verify_block c b;
              ck_plasma c b;
              ck_vm c b;
              ck_context c b;
              ck_hash b;
              ck_signature b;
              ck_producer b;
              ck_descendants dh c b ].
Definition apply_block : vctx -> vblk -> Z := apply_block_gen true.

Definition accept (c : vctx) (b : vblk) : bool := apply_block c b =? 0.
