(* Executable entry points compared with the implementation by ./check C16. *)
From ZV Require Import Prelude GoSem Sync.
Open Scope Z_scope.

Definition smom_t := (Z * Z * Z)%type.                     (* hash, previous hash, height *)
Definition pblk_t := (Z * Z * Z)%type.                     (* account block: identifier, account, account height *)
Definition blk_t := (Z * Z * Z * bool)%type.               (* ..., verifies at its place in order (generator) *)
Definition to_blk (t : pblk_t) : blk := let '(i, a, h) := t in mkB i a h.
Definition blk_of (t : blk_t) : blk := let '(i, a, h, _) := t in mkB i a h.
(* ..., everything Supervisor.ApplyMomentum checks apart from "the pool holds a patch for every header of the content" passes
   once its blocks are accepted (generator), its account blocks in order (no contract sends: the loop skips them), the
   headers its content lists (all of them) *)
Definition dmom_t := (Z * Z * Z * bool * list blk_t * list pblk_t)%type.
Definition to_smom (t : smom_t) : smom := let '(h, p, n) := t in mkS h p n.
Definition strip (t : dmom_t) : dmom := let '(h, p, n, _, bs, hs) := t in mkD (mkS h p n) (map blk_of bs) (map to_blk hs).
Definition blocks_of (t : dmom_t) : list blk_t := let '(_, _, _, _, bs, _) := t in bs.

Fixpoint mflag_of (ds : list dmom_t) (d : smom) : bool :=
  match ds with
  | [] => false
  | t :: r => if smom_eqb (d_mom (strip t)) d then (let '(_, _, _, ok, _, _) := t in ok) else mflag_of r d
  end.
Fixpoint bflag_in (bs : list blk_t) (b : blk) : option bool :=
  match bs with
  | [] => None
  | t :: r => if blk_eqb (blk_of t) b then Some (snd t) else bflag_in r b
  end.
Fixpoint bflag_of (ds : list dmom_t) (b : blk) : bool :=
  match ds with
  | [] => false
  | t :: r => match bflag_in (blocks_of t) b with Some ok => ok | None => bflag_of r b end
  end.
(* the block is confirmed by a delivered momentum that is on the chain (ApplyBlock refuses it then) *)
Definition mflag (t : dmom_t) : bool := let '(_, _, _, ok, _, _) := t in ok.
Definition committed (ds : list dmom_t) (chain : list smom) (b : blk) : bool :=
  existsb (fun t => mflag t (* delivered as produced: its blocks are the ones the momentum on the chain confirms *)
                    && existsb (fun x => blk_eqb (blk_of x) b) (blocks_of t) && existsb (smom_eqb (d_mom (strip t))) chain) ds.

(* a block can be delivered with more than one momentum (a surplus copy with an earlier one): its flag is that of its place in
   the delivered momentum the loop is at, i.e. the one sitting on the frontier (else: of its first occurrence) *)
Fixpoint bflag_at (ds : list dmom_t) (f : smom) (b : blk) : option bool :=
  match ds with
  | [] => None
  | t :: r => if prev_is (d_mom (strip t)) f
              then match bflag_in (blocks_of t) b with Some ok => Some ok | None => bflag_at r f b end
              else bflag_at r f b
  end.
(* the verification oracles as observed: the generator's flags *)
Definition tie_bvalid (ds : list dmom_t) (chain : list smom) (_ : list blk) (b : blk) : bool :=
  (match frontier chain with
   | Some f => match bflag_at ds f b with Some ok => ok | None => bflag_of ds b end
   | None => bflag_of ds b
   end) && negb (committed ds chain b).
(* the momentum: the pool part is the model's own (apply_momentum, the code: guard = false), the rest is the flag *)
Definition tie_mvalid (ds : list dmom_t) : list smom -> list blk -> dmom -> bool :=
  apply_momentum false (fun _ d => mflag_of ds (d_mom d)).

Fixpoint prefixb (a b : list smom) : bool :=
  match a, b with
  | [], _ => true
  | x :: a', y :: b' => smom_eqb x y && prefixb a' b'
  | _ :: _, [] => false
  end.
Definition subsetb (a b : list Z) : bool := forallb (fun x => existsb (Z.eqb x) b) a.

(* own chain (suffix) and pooled blocks BEFORE any other writer, the batches another writer of the node inserted while the
   observed call was waiting for the insert lock (a second InsertChain; the own pillar = a valid one-momentum extension
   whose blocks are pooled), the observed batch *)
Definition ic_in := (list smom_t * list pblk_t * list (list dmom_t) * list dmom_t)%type.
(* class, index, frontier hash, frontier height; when own momentums were abandoned: the blocks that were in the
   pool when the lock was taken and still are after the call (the model: none survives the rollback itself, DeleteMomentum) *)
Definition ic_out := (Z * Z * Z * Z * list Z)%type.
Definition tie_step (st : nstate) (ds : list dmom_t) : ic_res * nstate :=
  insert_chain (tie_bvalid ds) (tie_mvalid ds) true true (fst st) (snd st) (map strip ds).
Definition tie_writer (inter : list (list dmom_t)) (st : nstate) : nstate :=
  fold_left (fun s b => snd (tie_step s b)) inter st.
Definition insert_chain_run (i : ic_in) : ic_out :=
  let '(local, pool, inter, ds) := i in
  let '((c, pool), (r, (c', p'))) :=
    insert_chain_locked (tie_bvalid ds) (tie_mvalid ds) true true (tie_writer inter)
                        (map to_smom local, map to_blk pool) (map strip ds) in
  let '(cls, idx) := match r with ICOk => (0, 0) | ICErr k _ => (1, k) | ICPanic => (3, 0) end in
  let surv := if prefixb c c' then [] else map b_id (filter (fun b => pooled b pool) p') in
  match frontier c' with
  | Some f => (cls, idx, s_hash f, s_height f, surv)
  | None => (cls, idx, 0, 0, surv)
  end.
Definition insert_chain_eqb (a b : ic_out) : bool :=
  let '(a1, a2, a3, a4, a5) := a in let '(b1, b2, b3, b4, b5) := b in
  (a1 =? b1) && (a2 =? b2) && (a3 =? b3) && (a4 =? b4) && subsetb a5 b5 && subsetb b5 a5.
