(* Executable entry points compared with the implementation by ./check C16. *)
From ZV Require Import Prelude GoSem Sync.
Open Scope Z_scope.

Definition smom_t := (Z * Z * Z)%type.                     (* hash, previous hash, height *)
Definition dmom_t := (Z * Z * Z * bool * bool)%type.       (* ..., verifies in order (generator), carries account blocks *)
Definition to_smom (t : smom_t) : smom := let '(h, p, n) := t in mkS h p n.
Definition strip (t : dmom_t) : smom := let '(h, p, n, _, _) := t in mkS h p n.

Fixpoint flags_of (ds : list dmom_t) (d : smom) : bool * bool :=
  match ds with
  | [] => (false, false)
  | t :: r => if smom_eqb (strip t) d then (let '(_, _, _, ok, hb) := t in (ok, hb)) else flags_of r d
  end.
(* the verification oracle as observed: the generator's flag; a momentum that is already on the chain and carries
   account blocks fails (its blocks are confirmed, ApplyBlock refuses them), one without blocks verifies again *)
Definition tie_valid (ds : list dmom_t) (chain : list smom) (d : smom) : bool :=
  let '(ok, hb) := flags_of ds d in ok && negb (hb && existsb (smom_eqb d) chain).

Definition ic_in := (list smom_t * list dmom_t)%type.
Definition ic_out := (Z * Z * Z * Z)%type.                 (* class, index, frontier hash, frontier height *)
Definition insert_chain_run (i : ic_in) : ic_out :=
  let '(local, ds) := i in
  let '(r, c') := insert_chain (tie_valid ds) true (map to_smom local) (map strip ds) in
  let '(cls, idx) := match r with ICOk => (0, 0) | ICErr k _ => (1, k) | ICPanic => (3, 0) end in
  match frontier c' with
  | Some f => (cls, idx, s_hash f, s_height f)
  | None => (cls, idx, 0, 0)
  end.
Definition insert_chain_eqb (a b : ic_out) : bool :=
  let '(a1, a2, a3, a4) := a in let '(b1, b2, b3, b4) := b in
  (a1 =? b1) && (a2 =? b2) && (a3 =? b3) && (a4 =? b4).
