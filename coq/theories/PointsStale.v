(* C11 "the credited amounts are a function of the chain alone": why compoundPoints.GetPoint (consensus/points.go) must
   not store the point of a tick that is still RUNNING.

   The stored point is reused when its EndHash is the hash of the tick's end block on the current chain. That test
   rejects a stored point as soon as the tick gets another momentum - but a point computed while the frontier momentum M
   stands in front of empty slots up to the end of the epoch has EndHash = M, M stays the end block of the finished
   epoch, and the point lacks the election periods that had not started when it was computed (their expected momentums,
   their weights; the weights are averaged over fewer periods). [get_epoch_g] is Points.get_epoch with the
   `if compound.IsFinished(tick)` in front of StorePointByHeight as a parameter:
     - with the guard it IS Points.get_epoch (get_epoch_g_guarded), a question about a running epoch never adds an entry
       to the epoch cache (running_epoch_query_stores_nothing), and all reachable nodes agree (C11_statistics_identical_on_all_nodes);
     - without it, a node that was asked for the running epoch at M answers differently from a node that was not asked,
       for the same chain, once the epoch has finished (unguarded_store_goes_stale: witness history). *)
From ZV Require Import Prelude GoSem Points PointsProofs.
Open Scope Z_scope.

Section Guard.
  Variables (gts dur mult : Z).
  Variable election : list mom -> Z -> option elect.

  Definition get_epoch_g (guard : bool) (pc ec : cache) (c : list mom) (e : Z) : pres * cache * cache :=
    if negb (has_started gts c (edur dur mult) e) then (PNone, pc, ec) else
    match end_block gts c (edur dur mult) e with
    | None => (PErr, pc, ec)
    | Some eb =>
        let regen (ec' : cache) :=
          match gen_epoch gts dur mult election pc c e eb with
          | (PSome p, pc') => (PSome p, pc', if negb guard || is_finished gts c (edur dur mult) e then c_put ec' e p else ec')
          | (r, pc') => (r, pc', ec')
          end in
        match c_get ec e with
        | Some p => if p_end p =? m_hash eb then (PSome p, pc, ec) else regen (c_del ec e)
        | None => regen ec
        end
    end.

  Lemma get_epoch_g_guarded pc ec c e : get_epoch_g true pc ec c e = get_epoch gts dur mult election pc ec c e.
  Proof. reflexivity. Qed.

  (* the code as it is: asking about an epoch that is still running leaves no new entry in the epoch cache (an entry
     of an abandoned branch may be dropped) *)
  Lemma running_epoch_query_stores_nothing pc ec c e :
    is_finished gts c (edur dur mult) e = false ->
    forall e' p, c_get (snd (get_epoch gts dur mult election pc ec c e)) e' = Some p -> c_get ec e' = Some p.
  Proof.
    intros Hrun e' p. unfold get_epoch.
    destruct (negb (has_started gts c (edur dur mult) e)); [cbn [snd]; auto|].
    destruct (end_block gts c (edur dur mult) e) as [eb|]; [|cbn [snd]; auto].
    rewrite Hrun.
    assert (Hdel : c_get (c_del ec e) e' = Some p -> c_get ec e' = Some p).
    { rewrite c_get_del. destruct (e =? e'); [discriminate|auto]. }
    destruct (c_get ec e) as [p0|].
    - destruct (p_end p0 =? m_hash eb); [cbn [snd]; auto|].
      destruct (gen_epoch gts dur mult election pc c e eb) as [[|p1| |] pc']; cbn [snd]; exact Hdel.
    - destruct (gen_epoch gts dur mult election pc c e eb) as [[|p1| |] pc']; cbn [snd]; auto.
  Qed.
End Guard.

(* witness: 10 s election periods, 2 periods per epoch, one producer slot per period. The chain is genesis (time 0), M
   at time 5 (period 0 of epoch 0), then nothing until the first momentum of epoch 1 at time 20. Asked for epoch 0 while
   M is the frontier, the node computes the point from period 0 alone (1 expected momentum); stored, it is served again
   after the epoch has finished, when a node that was not asked counts both periods (2 expected momentums). *)
Definition w_election (_ : list mom) (_ : Z) : option elect := Some (mkE [(7, 1)] [(1, 100)]).
Definition w_chain : list mom := [mkMom 100 0 0 0; mkMom 101 100 5 7].
Definition w_next : mom := mkMom 102 101 20 7.

Lemma unguarded_store_goes_stale :
  exists gts dur mult election c m e,
    let c' := c ++ [m] in
    is_finished gts c (edur dur mult) e = false /\ is_finished gts c' (edur dur mult) e = true /\
    (let '(_, pc1, ec1) := get_epoch_g gts dur mult election false [] [] c e in
     fst (fst (get_epoch_g gts dur mult election false pc1 ec1 c' e)) <> fresh_epoch gts dur mult election c' e) /\
    (let '(_, pc1, ec1) := get_epoch gts dur mult election [] [] c e in
     fst (fst (get_epoch gts dur mult election pc1 ec1 c' e)) = fresh_epoch gts dur mult election c' e).
Proof.
  exists 0, 10, 2, w_election, w_chain, w_next, 0. cbv zeta.
  split; [vm_compute; reflexivity|]. split; [vm_compute; reflexivity|]. split.
  - vm_compute. intros H. inversion H.
  - vm_compute. reflexivity.
Qed.
