(* Model of vm/plasma.go (DifficultyToPlasma, FussedAmountToPlasma, AvailablePlasma) and
   vm/vm.go enoughPlasma, chain/account/plasma.go AddChainPlasma, plus the verifier's pow() step.
   Constants come from gen/Consts.v (dumped from /repo on every run). *)
From ZV Require Import Prelude.
From ZV.gen Require Import Consts Pure.
Open Scope Z_scope.

(* Tier A: both functions are the go2coq translations of vm/plasma.go, regenerated on every run *)
Definition difficulty_to_plasma (d : Z) : Z := DifficultyToPlasma d.

(* amount is a big.Int (nil is passed as 0 by the callers' stores) *)
Definition fused_to_plasma (amt : Z) : Z := FussedAmountToPlasma amt.

(* AvailablePlasma: None = the error that enoughPlasma turns into a panic (DealWithErr) *)
Definition available (fused_amt committed uncommitted : Z) : option Z :=
  let a := fused_to_plasma fused_amt + committed - uncommitted in
  if a <? 0 then None
  else Some (if MaxFussedAmountForAccountBig <? a then MaxFussedAmountForAccount else big_uint64 a).

Inductive pres :=
| POk (total base newchain : Z)
| PErr (code : Z)       (* 1 not enough plasma, 2 limit reached, 3 not enough total, 4 pow invalid *)
| PPanic.

Definition enough_plasma (fused_amt committed uncommitted base f d : Z) : pres :=
  match available fused_amt committed uncommitted with
  | None => PPanic
  | Some av =>
    if av <? f then PErr 1 else
    let total := u64 (difficulty_to_plasma d + f) in
    if MaxPlasmaForAccountBlock <? total then PErr 2 else
    if total <? base then PErr 3 else
    POk total base (uncommitted + to_int64 f)
  end.

(* verifier.pow() followed by vm.enoughPlasma, for a user block *)
Definition plasma_check (fused_amt committed uncommitted base f d : Z) (pow_valid : bool) : pres :=
  if negb (d =? 0) && negb pow_valid then PErr 4
  else enough_plasma fused_amt committed uncommitted base f d.

(* a sequence of candidate blocks on one account between two momentums (fused amount and the
   confirmed chain plasma do not change); rejected candidates leave the pool unchanged *)
Record cand := { c_base : Z; c_f : Z; c_d : Z; c_pow : bool }.
Fixpoint pool_run (fused_amt committed uncommitted : Z) (cs : list cand) : Z * list cand :=
  match cs with
  | [] => (uncommitted, [])
  | c :: r =>
    match plasma_check fused_amt committed uncommitted (c_base c) (c_f c) (c_d c) (c_pow c) with
    | POk _ _ nc => let '(u, acc) := pool_run fused_amt committed nc r in (u, c :: acc)
    | _ => pool_run fused_amt committed uncommitted r
    end
  end.

(* the same run, observed step by step: per candidate the verdict (0 accepted, 1..4 the error, 9 panic) and the
   chain plasma of the account's unconfirmed store after it (what the harness reads from the real store) *)
Fixpoint pool_trace (fused_amt committed uncommitted : Z) (cs : list cand) : list (Z * Z) :=
  match cs with
  | [] => []
  | c :: r =>
    match plasma_check fused_amt committed uncommitted (c_base c) (c_f c) (c_d c) (c_pow c) with
    | POk _ _ nc => (0, nc) :: pool_trace fused_amt committed nc r
    | PErr e => (e, uncommitted) :: pool_trace fused_amt committed uncommitted r
    | PPanic => (9, uncommitted) :: pool_trace fused_amt committed uncommitted r
    end
  end.

(* ---- base cost of a user block: vm.GetBasePlasmaForAccountBlock. The cost of every embedded method of EVERY method
   table (origin, accelerator, bridge-and-liquidity, htlc) is dumped from the real tables on every run
   (Consts.MethodPlasmaKeys / MethodPlasmaVals; key = (table index + 1) ‖ contract address ‖ selector as one
   big-endian number: the same method may cost differently under different sporks). [found]: did
   embedded.GetEmbeddedMethod find the method under the spork regime of the acknowledged momentum; which table that
   regime selects is part of [key] (both observed inputs). *)
Fixpoint assoc_z (k : Z) (ks vs : list Z) : option Z :=
  match ks, vs with
  | k' :: ks', v :: vs' => if k =? k' then Some v else assoc_z k ks' vs'
  | _, _ => None
  end.
Definition method_plasma (key : Z) : option Z := assoc_z key MethodPlasmaKeys MethodPlasmaVals.

Inductive bres := BOk (base : Z) | BErr.   (* BErr: the error that enoughPlasma turns into a panic (block refused) *)
Definition base_plasma (is_receive to_contract found : bool) (key datalen : Z) : bres :=
  if is_receive then BOk AccountBlockBasePlasma
  else if to_contract then
    (if found then match method_plasma key with Some p => BOk p | None => BErr end else BErr)
  else if MaxDataLength <? datalen then BErr
  else BOk (u64 (datalen * ABByteDataPlasma + AccountBlockBasePlasma)).
