(* C15 — proofs about the model of the encryption handshake (EncHs.v). *)
From ZV Require Import Prelude GoSem BaseMsg BaseMsgProofs EncHs.
From ZV.gen Require Import Consts.
Open Scope Z_scope.
Ltac Zify.zify_post_hook ::= Z.div_mod_to_equations.

(* the plaintext of a message of the length the node reads has room for every field the code slices out of it *)
Lemma recv_slices :
  slice_ok (EncAuthMsgLen - EciesOverhead) (AuthMsgLen - HsShaLen - 1) (AuthMsgLen - 1)
  && slice_ok (EncAuthMsgLen - EciesOverhead) (HsSigLen + HsShaLen) (HsSigLen + HsShaLen + HsPubLen)
  && slice_ok (EncAuthMsgLen - EciesOverhead) 0 HsSigLen = true.
Proof. vm_compute. reflexivity. Qed.
Lemma init_slices :
  slice_ok (EncAuthRespLen - EciesOverhead) HsPubLen (HsPubLen + HsShaLen)
  && slice_ok (EncAuthRespLen - EciesOverhead) 0 HsPubLen = true.
Proof. vm_compute. reflexivity. Qed.
(* the fields fill the plaintext exactly *)
Lemma auth_layout : HsSigLen + HsShaLen + HsPubLen + HsShaLen + 1 = AuthMsgLen /\ AuthMsgLen + EciesOverhead = EncAuthMsgLen /\
  HsPubLen + HsShaLen + 1 = AuthRespLen /\ AuthRespLen + EciesOverhead = EncAuthRespLen.
Proof. vm_compute. repeat split; reflexivity. Qed.

Lemma recv_enc_cases got d k s :
  recv_enc got d k s = if (got <? EncAuthMsgLen) || negb d || negb k || negb s then EncRefused else EncOk.
Proof.
  unfold recv_enc, recv_enc_gen. cbv zeta. rewrite recv_slices. cbn [negb].
  destruct (got <? EncAuthMsgLen); [reflexivity|]. destruct d, k, s; reflexivity.
Qed.
Lemma init_enc_cases got d e :
  init_enc got d e = if (got <? EncAuthRespLen) || negb d || negb e then EncRefused else EncOk.
Proof.
  unfold init_enc, init_enc_gen. cbv zeta. rewrite init_slices. cbn [negb].
  destruct (got <? EncAuthRespLen); [reflexivity|]. destruct d, e; reflexivity.
Qed.

Lemma recv_enc_no_panic got d k s : recv_enc got d k s <> EncPanic.
Proof. rewrite recv_enc_cases. destruct ((got <? EncAuthMsgLen) || negb d || negb k || negb s); discriminate. Qed.
Lemma init_enc_no_panic got d e : init_enc got d e <> EncPanic.
Proof. rewrite init_enc_cases. destruct ((got <? EncAuthRespLen) || negb d || negb e); discriminate. Qed.

Lemma recv_enc_ok_iff got d k s : recv_enc got d k s = EncOk <-> EncAuthMsgLen <= got /\ d = true /\ k = true /\ s = true.
Proof.
  rewrite recv_enc_cases. destruct (got <? EncAuthMsgLen) eqn:E; cbn [orb].
  - split; [discriminate|lia].
  - destruct d, k, s; cbn [negb orb]; split; try discriminate; try (intros _; repeat split; lia); try reflexivity;
      intros (_ & H1 & H2 & H3); discriminate.
Qed.
Lemma init_enc_ok_iff got d e : init_enc got d e = EncOk <-> EncAuthRespLen <= got /\ d = true /\ e = true.
Proof.
  rewrite init_enc_cases. destruct (got <? EncAuthRespLen) eqn:E; cbn [orb].
  - split; [discriminate|lia].
  - destruct d, e; cbn [negb orb]; split; try discriminate; try (intros _; repeat split; lia); try reflexivity;
      intros (_ & H1 & H2); discriminate.
Qed.

Definition hello_good (size code : Z) (dec : bool) (v : Z) (z im : bool) : Prop :=
  size <= BaseProtocolMaxMsgSize /\ code = HandshakeMsg /\ dec = true /\ v = BaseProtocolVersion /\ z = false /\ im = true.

Lemma after_enc_no_panic m size code p dec v z im : after_enc m size code p dec v z im <> CPanic.
Proof.
  unfold after_enc. destruct m; cbn [negb]; [|discriminate].
  pose proof (base_msg_no_panic true 0 size code p dec v z im true) as (_ & _ & _ & H).
  destruct (setup_conn true size code p dec v z im true); [discriminate|discriminate|congruence].
Qed.
Lemma after_enc_peer_iff m size code p dec v z im :
  after_enc m size code p dec v z im = CPeer <-> m = true /\ hello_good size code dec v z im.
Proof.
  unfold after_enc, hello_good. destruct m; cbn [negb].
  - pose proof (setup_added_iff true size code p dec v z im true) as [H1 H2].
    destruct (setup_conn true size code p dec v z im true) eqn:E.
    + split; [intros _; split; [reflexivity|]; specialize (H1 eq_refl); tauto|reflexivity].
    + split; [discriminate|]. intros [_ Hc]. assert (Hx : SRefused sent = SAdded) by (apply H2; tauto). discriminate.
    + split; [discriminate|]. intros [_ Hc]. assert (Hx : SPanic = SAdded) by (apply H2; tauto). discriminate.
  - split; [discriminate|intros [Hm _]; discriminate].
Qed.

(* ---- no input reaches a panic *)
Lemma enc_handshake_no_panic got d k s m size code p dec v z im :
  recv_enc got d k s <> EncPanic /\ init_enc got d k <> EncPanic /\
  listen_conn got d k s m size code p dec v z im <> CPanic /\ dial_conn got d k m size code p dec v z im <> CPanic.
Proof.
  split; [apply recv_enc_no_panic|]. split; [apply init_enc_no_panic|]. split.
  - unfold listen_conn, listen_conn_gen. fold recv_enc. pose proof (recv_enc_no_panic got d k s).
    destruct (recv_enc got d k s); [discriminate|apply after_enc_no_panic|congruence].
  - unfold dial_conn, dial_conn_gen. fold init_enc. pose proof (init_enc_no_panic got d k).
    destruct (init_enc got d k); [discriminate|apply after_enc_no_panic|congruence].
Qed.

(* ---- a connection becomes a peer only if every step was passed *)
Lemma listen_peer_iff got d k s m size code p dec v z im :
  listen_conn got d k s m size code p dec v z im = CPeer <->
  EncAuthMsgLen <= got /\ d = true /\ k = true /\ s = true /\ m = true /\ hello_good size code dec v z im.
Proof.
  unfold listen_conn, listen_conn_gen. fold recv_enc. pose proof (recv_enc_ok_iff got d k s) as [H1 H2].
  pose proof (after_enc_peer_iff m size code p dec v z im) as [A1 A2].
  destruct (recv_enc got d k s) eqn:E.
  - split; [discriminate|]. intros (a & b & c & e & _). assert (Hx : EncRefused = EncOk) by (apply H2; tauto). discriminate.
  - specialize (H1 eq_refl). split; [intros H; specialize (A1 H); tauto|intros H; apply A2; tauto].
  - split; [discriminate|]. intros (a & b & c & e & _). assert (Hx : EncPanic = EncOk) by (apply H2; tauto). discriminate.
Qed.
Lemma dial_peer_iff got d e m size code p dec v z im :
  dial_conn got d e m size code p dec v z im = CPeer <->
  EncAuthRespLen <= got /\ d = true /\ e = true /\ m = true /\ hello_good size code dec v z im.
Proof.
  unfold dial_conn, dial_conn_gen. fold init_enc. pose proof (init_enc_ok_iff got d e) as [H1 H2].
  pose proof (after_enc_peer_iff m size code p dec v z im) as [A1 A2].
  destruct (init_enc got d e) eqn:E.
  - split; [discriminate|]. intros (a & b & c & _). assert (Hx : EncRefused = EncOk) by (apply H2; tauto). discriminate.
  - specialize (H1 eq_refl). split; [intros H; specialize (A1 H); tauto|intros H; apply A2; tauto].
  - split; [discriminate|]. intros (a & b & c & _). assert (Hx : EncPanic = EncOk) by (apply H2; tauto). discriminate.
Qed.

(* a refusal in the encryption handshake is final: nothing the remote side sends afterwards makes it a peer, and the
   node writes its response only to a remote side whose message passed every check *)
Lemma refused_never_peer got d k s m size code p dec v z im :
  recv_enc got d k s = EncRefused -> listen_conn got d k s m size code p dec v z im = CRefusedEnc.
Proof. intros H. unfold listen_conn, listen_conn_gen. fold recv_enc. rewrite H. reflexivity. Qed.
Lemma dial_refused_never_peer got d e m size code p dec v z im :
  init_enc got d e = EncRefused -> dial_conn got d e m size code p dec v z im = CRefusedEnc.
Proof. intros H. unfold dial_conn, dial_conn_gen. fold init_enc. rewrite H. reflexivity. Qed.

(* ---- records: a key field that is not verified reaches the scalar multiplication with nil coordinates *)
Lemma recv_unchecked_key_panics got s : EncAuthMsgLen <= got -> recv_enc_gen false got true false s = EncPanic.
Proof.
  intros H. unfold recv_enc_gen. cbv zeta. rewrite recv_slices. cbn [negb].
  destruct (got <? EncAuthMsgLen) eqn:E; [lia|reflexivity].
Qed.
Lemma init_unchecked_key_panics got : EncAuthRespLen <= got -> init_enc_gen false got true false = EncPanic.
Proof.
  intros H. unfold init_enc_gen. cbv zeta. rewrite init_slices. cbn [negb].
  destruct (got <? EncAuthRespLen) eqn:E; [lia|reflexivity].
Qed.
