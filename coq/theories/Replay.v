(* Model for C02 (replay determinism).
   (1) common/db: the change set ("patch") a block or momentum commits to is the iteration of the in-memory overlay
       in key order (memdb.changesInternal + enableDelete.Changes): a function of the FINAL overlay, not of the
       order of the writes.
   (2) a receiving node as a fold of delivery events over a deterministic execution:
         Gossip b        protocol/chain_bridge.go AddAccountBlocks: a block whose identifier is already pooled is
                         skipped, otherwise it is verified and pooled
         Deliver batch   InsertChain on the producer's chain (no forks here, see Sync.v): known momentums are skipped,
                         the rest applied in order; for every account block "GetPatch != nil => already applied":
                         the POOLED copy is used, not the delivered one
         Restart         the store persists, the account pool (memory) is lost
       A block has a covered identity (its hash) and bytes outside the hash (for user blocks: ChangesHash; F10).
       The store keeps the full bytes; the momentum commits to a hash of the patch, which contains those bytes.
   Definitions only; proofs in ReplayProofs.v. *)
From ZV Require Import Prelude GoSem Election.
Open Scope Z_scope.

(* ------------------------------------------------------------------ (1) patches *)
Inductive wop := WPut (k v : bytes) | WDel (k : bytes).
Definition wkey (o : wop) : bytes := match o with WPut k _ => k | WDel k => k end.
Definition wval (o : wop) : option bytes := match o with WPut _ v => Some v | WDel _ => None end.

(* the overlay: association list kept strictly sorted by key (bytewise order), one entry per key *)
Fixpoint ov_write (k : bytes) (v : option bytes) (ov : list (bytes * option bytes)) : list (bytes * option bytes) :=
  match ov with
  | [] => [(k, v)]
  | (k0, v0) :: r =>
      match bytes_cmp k k0 with
      | Lt => (k, v) :: ov
      | Eq => (k, v) :: r
      | Gt => (k0, v0) :: ov_write k v r
      end
  end.
Fixpoint ov_get (ov : list (bytes * option bytes)) (k : bytes) : option (option bytes) :=
  match ov with
  | [] => None
  | (k0, v0) :: r => if bytes_eqb k0 k then Some v0 else ov_get r k
  end.
(* Changes(): Put / Delete per key, in key order *)
Definition changes (ops : list wop) : list (bytes * option bytes) :=
  fold_left (fun ov o => ov_write (wkey o) (wval o) ov) ops [].
(* what a key holds after the writes: None = never written, Some None = deleted, Some (Some v) = v *)
Fixpoint last_write (ops : list wop) (k : bytes) : option (option bytes) :=
  match ops with
  | [] => None
  | o :: r => match last_write r k with
              | Some x => Some x
              | None => if bytes_eqb (wkey o) k then Some (wval o) else None
              end
  end.

(* ------------------------------------------------------------------ (2) a receiving node *)
Record ablock := mkAB { ab_id : Z; ab_unc : Z }.          (* hash (covered fields); bytes outside the hash *)
Record mblock := mkMB { mb_blocks : list ablock; mb_changes : Z }.   (* content; committed changes hash *)
Definition ablock_eqb (a b : ablock) : bool := (ab_id a =? ab_id b) && (ab_unc a =? ab_unc b).

Inductive event :=
| Gossip (b : ablock)
| Deliver (lo : nat) (batch : list mblock)       (* batch = momentums lo, lo+1, ... of the producer's chain *)
| Restart.

Section Node.
  Variable state : Type.
  Variable exec : state -> list ablock -> state.           (* execute + store the given bytes *)
  Variable patch_hash : state -> list ablock -> Z.         (* hash of the state changes of that execution *)

  Record node := mkN { n_store : state; n_height : nat; n_pool : list ablock }.

  Fixpoint pool_get (pool : list ablock) (id : Z) : option ablock :=
    match pool with [] => None | b :: r => if ab_id b =? id then Some b else pool_get r id end.
  (* AddAccountBlocks *)
  Definition gossip (n : node) (b : ablock) : node :=
    match pool_get (n_pool n) (ab_id b) with
    | Some _ => n
    | None => mkN (n_store n) (n_height n) (b :: n_pool n)
    end.
  (* the copies InsertChain executes: pooled if present, else the delivered one *)
  Definition effective (pool : list ablock) (bs : list ablock) : list ablock :=
    map (fun b => match pool_get pool (ab_id b) with Some p => p | None => b end) bs.
  (* ApplyMomentum: execute, compare the changes hash, commit *)
  Definition apply_m (n : node) (m : mblock) : option node :=
    let bs := effective (n_pool n) (mb_blocks m) in
    if patch_hash (n_store n) bs =? mb_changes m
    then Some (mkN (exec (n_store n) bs) (S (n_height n)) (n_pool n))
    else None.
  (* InsertChain on a batch starting at height lo: skip known, refuse a gap, apply in order, stop at the first
     failure; result = index of the failing momentum *)
  Fixpoint apply_batch (n : node) (batch : list mblock) (idx : nat) : node * option nat :=
    match batch with
    | [] => (n, None)
    | m :: r => match apply_m n m with
                | Some n' => apply_batch n' r (S idx)
                | None => (n, Some idx)
                end
    end.
  Definition deliver (n : node) (lo : nat) (batch : list mblock) : node * option nat :=
    if (n_height n <? lo)%nat then (n, match batch with [] => None | _ => Some 0%nat end)   (* cannot link *)
    else let k := (n_height n - lo)%nat in apply_batch n (skipn k batch) k.
  Definition step (n : node) (e : event) : node * option nat :=
    match e with
    | Gossip b => (gossip n b, None)
    | Deliver lo batch => deliver n lo batch
    | Restart => (mkN (n_store n) (n_height n) [], None)
    end.
  Fixpoint run (n : node) (es : list event) : node * list (option nat) :=
    match es with
    | [] => (n, [])
    | e :: r => let '(n1, o) := step n e in let '(n2, os) := run n1 r in (n2, o :: os)
    end.

  (* the producer: executes its own blocks and commits to the hash of the changes *)
  Fixpoint canon (s : state) (ch : list mblock) (k : nat) : state :=
    match k, ch with
    | S k', m :: r => canon (exec s (mb_blocks m)) r k'
    | _, _ => s
    end.
  Fixpoint produced (s : state) (ch : list mblock) : Prop :=
    match ch with
    | [] => True
    | m :: r => mb_changes m = patch_hash s (mb_blocks m) /\ produced (exec s (mb_blocks m)) r
    end.
  Definition chain_blocks (ch : list mblock) : list ablock := flat_map mb_blocks ch.
End Node.

(* a concrete instance for witnesses and for the correspondence check: the store is the list of stored block
   bytes; the patch hash is an injective-enough encoding of the executed copies *)
Definition c_state := list (Z * Z).
Definition c_exec (s : c_state) (bs : list ablock) : c_state := s ++ map (fun b => (ab_id b, ab_unc b)) bs.
Definition c_patch_hash (_ : c_state) (bs : list ablock) : Z :=
  fold_left (fun acc b => (acc * 1000003 + ab_id b * 7 + ab_unc b + 1) mod 2305843009213693951) bs 17.
