(* Executable entry points compared with the implementation by ./check C10 (in addition to those of TieC09). *)
From ZV Require Import Prelude GoSem Abi VmReceive Emb Locks TieC09.
From ZV.gen Require Import Consts.
Open Scope Z_scope.

Definition emb_in2 (S : Type) := (Z * lenv * bytes * S * bals * send * list bytes * list (Z * bytes * bytes))%type.

Definition emb_sentinel_run (i : emb_in2 nstore) : emb_out nstore :=
  let '(id, e, self, st, b, s, donate, _) := i in
  run_emb (if id =? 1 then sentinel_register_receive e else if id =? 2 then sentinel_revoke_receive e
           else if id =? 3 then sentinel_deposit_receive else sentinel_withdraw_receive) donate st b s.
Definition sentinel_eqb (x y : sentinel) : bool :=
  (n_reg x =? n_reg y) && (n_revoke x =? n_revoke y) && (n_znn x =? n_znn y) && (n_qsr x =? n_qsr y).
Definition nstore_eqb (x y : nstore) : bool := tab_eqb sentinel_eqb (n_ent x) (n_ent y) && tab_eqb Z.eqb (n_dep x) (n_dep y).
Definition emb_sentinel_eqb := emb_out_eqb nstore_eqb.

(* observed verdicts, in the last input slot: (1|0, name, []) = checkPillarNameStatic of the name carried by the call;
   (2, public key ++ signature, key-id hash) = CheckSwapSignature accepted, with PubKeyToKeyIdHash of the key *)
Definition name_ok_of (tbl : list (Z * bytes * bytes)) (name : bytes) : bool :=
  match find (fun '(k, n, _) => negb (k =? 2) && bytes_eqb n name) tbl with Some (ok, _, _) => ok =? 1 | None => false end.
Definition legacy_key_of (tbl : list (Z * bytes * bytes)) (from pub sig : bytes) : option bytes :=
  match find (fun '(k, n, _) => (k =? 2) && bytes_eqb n (pub ++ sig)) tbl with Some (_, _, h) => Some h | None => None end.
Definition emb_pillar_run (i : emb_in2 lstore) : emb_out lstore :=
  let '(id, e, self, st, b, s, donate, obs) := i in
  let nk := name_ok_of obs in
  run_emb (if id =? 1 then pillar_revoke_receive nk e
           else if id =? 2 then pillar_deposit_receive else if id =? 3 then pillar_withdraw_receive
           else if id =? 4 then register_receive nk e else if id =? 5 then legacy_receive nk (legacy_key_of obs) e
           else if id =? 6 then update_pillar_receive nk e else if id =? 7 then delegate_receive nk
           else undelegate_receive) (* the burn of the consumed QSR is a call to the token contract *)
          donate st b s.
Definition pillar_eqb (x y : pillar) : bool :=
  bytes_eqb (l_owner x) (l_owner y) && (l_amount x =? l_amount y) && (l_reg x =? l_reg y) && (l_revoke x =? l_revoke y) &&
  bytes_eqb (l_producer x) (l_producer y) && bytes_eqb (l_reward x) (l_reward y) && (l_pct_block x =? l_pct_block y) &&
  (l_pct_deleg x =? l_pct_deleg y) && (l_type x =? l_type y).
Definition lstore_eqb (x y : lstore) : bool :=
  tab_eqb pillar_eqb (l_pillars x) (l_pillars y) && tab_eqb Z.eqb (l_dep x) (l_dep y) && tab_eqb bytes_eqb (l_producing x) (l_producing y) &&
  tab_eqb bytes_eqb (l_deleg x) (l_deleg y) && tab_eqb Z.eqb (l_legacy x) (l_legacy y).
Definition emb_pillar_eqb := emb_out_eqb lstore_eqb.
