(* Executable entry points compared with the implementation by ./check C10 (in addition to those of TieC09). *)
From ZV Require Import Prelude GoSem Abi VmReceive Emb Locks TieC09.
From ZV.gen Require Import Consts.
Open Scope Z_scope.

Definition emb_in2 (S : Type) := (Z * lenv * bytes * S * bals * send * list bytes * list (Z * bytes * bytes))%type.

Definition emb_sentinel_run (i : emb_in2 nstore) : emb_out nstore :=
  let '(id, e, self, st, b, s, donate, _) := i in
  run_emb (if id =? 1 then sentinel_register_receive e else if id =? 2 then sentinel_revoke_receive e
           else if id =? 3 then sentinel_deposit_receive else sentinel_withdraw_receive) donate st b s.
Definition sentinel_eqb (x y : sentinel) : bool :=
  (n_reg x =? n_reg y) && (n_revoke x =? n_revoke y) && (n_znn x =? n_znn y) && (n_qsr x =? n_qsr y).
Definition nstore_eqb (x y : nstore) : bool := tab_eqb sentinel_eqb (n_ent x) (n_ent y) && tab_eqb Z.eqb (n_dep x) (n_dep y).
Definition emb_sentinel_eqb := emb_out_eqb nstore_eqb.

(* observed verdicts, in the last input slot: (1|0, name, []) = checkPillarNameStatic of the name carried by the call;
   (2, public key ++ signature, key-id hash) = CheckSwapSignature accepted, with PubKeyToKeyIdHash of the key *)
Definition name_ok_of (tbl : list (Z * bytes * bytes)) (name : bytes) : bool :=
  match find (fun '(k, n, _) => negb (k =? 2) && bytes_eqb n name) tbl with Some (ok, _, _) => ok =? 1 | None => false end.
Definition legacy_key_of (tbl : list (Z * bytes * bytes)) (from pub sig : bytes) : option bytes :=
  match find (fun '(k, n, _) => (k =? 2) && bytes_eqb n (pub ++ sig)) tbl with Some (_, _, h) => Some h | None => None end.
Definition emb_pillar_run (i : emb_in2 lstore) : emb_out lstore :=
  let '(id, e, self, st, b, s, donate, obs) := i in
  let nk := name_ok_of obs in
  run_emb (if id =? 1 then pillar_revoke_receive nk e
           else if id =? 2 then pillar_deposit_receive else if id =? 3 then pillar_withdraw_receive
           else if id =? 4 then register_receive nk e else if id =? 5 then legacy_receive nk (legacy_key_of obs) e
           else if id =? 6 then update_pillar_receive nk e else if id =? 7 then delegate_receive nk
           else undelegate_receive) (* the burn of the consumed QSR is a call to the token contract *)
          donate st b s.
Definition pillar_eqb (x y : pillar) : bool :=
  bytes_eqb (l_owner x) (l_owner y) && (l_amount x =? l_amount y) && (l_reg x =? l_reg y) && (l_revoke x =? l_revoke y) &&
  bytes_eqb (l_producer x) (l_producer y) && bytes_eqb (l_reward x) (l_reward y) && (l_pct_block x =? l_pct_block y) &&
  (l_pct_deleg x =? l_pct_deleg y) && (l_type x =? l_type y).
Definition lstore_eqb (x y : lstore) : bool :=
  tab_eqb pillar_eqb (l_pillars x) (l_pillars y) && tab_eqb Z.eqb (l_dep x) (l_dep y) && tab_eqb bytes_eqb (l_producing x) (l_producing y) &&
  tab_eqb bytes_eqb (l_deleg x) (l_deleg y) && tab_eqb Z.eqb (l_legacy x) (l_legacy y).
Definition emb_pillar_eqb := emb_out_eqb lstore_eqb.

(* ---------------------------------------------------------------- liquidity stakes and bridge unwrap requests *)
From ZV Require Import Liquidity Bridge.

(* descendants compared WITH their call data *)
Definition dprojd (d : dsend) : bytes * Z * bytes * bytes := (d_to d, d_amount d, d_zts d, d_data d).
Definition dprojd_eqb (a b : bytes * Z * bytes * bytes) : bool :=
  let '(t1, a1, z1, x1) := a in let '(t2, a2, z2, x2) := b in bytes_eqb t1 t2 && (a1 =? a2) && bytes_eqb z1 z2 && bytes_eqb x1 x2.
Definition emb_outd (S : Type) := (Z * list (bytes * Z * bytes * bytes) * S * bals)%type.
Definition run_embd {S} (dc : dsend -> option Z) (m : method S) (st : S) (b : bals) (s : send) : emb_outd S :=
  let proj a' := map (fun kv => (fst kv, bal_get (a_bal a') (fst kv))) b in
  match generate_receive S dc (fun _ => LFound m) {| a_bal := b; a_store := st; a_cursor := 0 |} s with
  | RApplied a' ds => (0, map dprojd ds, a_store a', proj a')
  | RRefunded a' ds c => (c, map dprojd ds, a_store a', proj a')
  | RInternal _ => (-1, [], st, b)
  | RPanic => (-2, [], st, b)
  end.
Definition emb_outd_eqb {S} (seqb : S -> S -> bool) (a b : emb_outd S) : bool :=
  let '(c1, d1, s1, b1) := a in let '(c2, d2, s2, b2) := b in
  (c1 =? c2) && list_eqb dprojd_eqb d1 d2 && seqb s1 s2 && bals_eqb b1 b2.

(* observed values in the last input slot: (1, token standard, its string); (2, spork address, []);
   (3, [], []) = the accelerator spork is enforced; (100 + c, [], []) = verdict c of the TSS signature check (0 = valid) *)
Definition zstr_of (tbl : list (Z * bytes * bytes)) (z : bytes) : bytes :=
  match find (fun '(k, zb, _) => (k =? 1) && bytes_eqb zb z) tbl with Some (_, _, str) => str | None => [] end.
Definition spork_of (tbl : list (Z * bytes * bytes)) : bytes :=
  match find (fun '(k, _, _) => k =? 2) tbl with Some (_, a, _) => a | None => [] end.
Definition accel_of (tbl : list (Z * bytes * bytes)) : bool := existsb (fun '(k, _, _) => k =? 3) tbl.
Definition sigcheck_of (tbl : list (Z * bytes * bytes)) : Z :=
  match find (fun '(k, _, _) => 100 <=? k) tbl with Some (k, _, _) => k - 100 | None => 99 end.

(* applySend's check of a descendant of the liquidity contract: Donate to a contract that has the method needs a positive
   amount, Burn at the token contract too; a user destination always passes *)
Definition dest_check_liq (donate : list bytes) (d : dsend) : option Z :=
  if is_embedded (d_to d) then
    if bytes_eqb (d_to d) AddrTokenContract && bytes_eqb (d_data d) Sel_token_Burn then (if 0 <? d_amount d then None else Some E_token_or_amount)
    else if existsb (bytes_eqb (d_to d)) donate && bytes_eqb (d_data d) Sel_common_Donate then (if d_amount d =? 0 then Some E_token_or_amount else None)
    else Some 101
  else None.
Definition emb_liquidity_run (i : emb_in qstore) : emb_outd qstore :=
  let '(id, e, self, st, b, s, donate, obs) := i in
  run_embd (dest_check_liq donate)
           (if id =? 1 then liquidity_stake_receive (zstr_of obs) e else if id =? 2 then cancel_liquidity_receive e
            else if id =? 3 then unlock_liquidity_receive e else if id =? 4 then set_halted_receive
            else if id =? 5 then fund_receive (spork_of obs) (accel_of obs) else burn_znn_receive (spork_of obs) (accel_of obs))
           st b s.
Definition lstake_eqb (x y : lstake) : bool :=
  (ls_amount x =? ls_amount y) && bytes_eqb (ls_zts x) (ls_zts y) && (ls_weighted x =? ls_weighted y) && (ls_start x =? ls_start y) &&
  (ls_revoke x =? ls_revoke y) && (ls_exp x =? ls_exp y).
Definition ltuple_eqb (x y : ltuple) : bool :=
  bytes_eqb (lt_zts x) (lt_zts y) && (lt_znn_pct x =? lt_znn_pct y) && (lt_qsr_pct x =? lt_qsr_pct y) && (lt_min x =? lt_min y).
Definition qstore_eqb (x y : qstore) : bool :=
  bytes_eqb (lq_admin x) (lq_admin y) && Bool.eqb (lq_halted x) (lq_halted y) && (lq_znn_reward x =? lq_znn_reward y) &&
  (lq_qsr_reward x =? lq_qsr_reward y) && list_eqb ltuple_eqb (lq_tuples x) (lq_tuples y) && tab_eqb lstake_eqb (lq_entries x) (lq_entries y).
Definition emb_liquidity_eqb := emb_outd_eqb qstore_eqb.

(* a descendant of the bridge: the Mint call to the token contract validates (amount in the data > 0, block amount 0); a
   transfer to an embedded address has no method to receive it *)
Definition dest_check_bridge (d : dsend) : option Z :=
  if is_embedded (d_to d) then
    if bytes_eqb (d_to d) AddrTokenContract && bytes_eqb (firstn 4 (d_data d)) Sel_token_Mint && (d_amount d =? 0) then None else Some 101
  else None.
Definition emb_bridge_run (i : emb_in bstore) : emb_outd bstore :=
  let '(id, e, self, st, b, s, donate, obs) := i in
  run_embd dest_check_bridge
           (if id =? 1 then unwrap_receive (zstr_of obs) (fun _ => sigcheck_of obs) e else if id =? 2 then redeem_receive e else revoke_receive)
           st b s.
Definition unwrap_eqb (x y : unwrap) : bool :=
  (u_reg x =? u_reg y) && (u_class x =? u_class y) && (u_chain x =? u_chain y) && bytes_eqb (u_to x) (u_to y) &&
  bytes_eqb (u_tokaddr x) (u_tokaddr y) && bytes_eqb (u_zts x) (u_zts y) && (u_amount x =? u_amount y) && bytes_eqb (u_sig x) (u_sig y) &&
  (u_redeemed x =? u_redeemed y) && (u_revoked x =? u_revoked y).
Definition tpair_eqb (x y : tpair) : bool :=
  bytes_eqb (tp_zts x) (tp_zts y) && bytes_eqb (tp_addr x) (tp_addr y) && Bool.eqb (tp_bridgeable x) (tp_bridgeable y) &&
  Bool.eqb (tp_redeemable x) (tp_redeemable y) && Bool.eqb (tp_owned x) (tp_owned y) && (tp_min x =? tp_min y) && (tp_fee x =? tp_fee y) &&
  (tp_delay x =? tp_delay y).
Definition network_eqb (x y : network) : bool := bytes_eqb (nw_name x) (nw_name y) && list_eqb tpair_eqb (nw_pairs x) (nw_pairs y).
Definition bstore_eqb (x y : bstore) : bool :=
  bytes_eqb (b_admin x) (b_admin y) && Bool.eqb (b_tss_set x) (b_tss_set y) && Bool.eqb (b_halted x) (b_halted y) &&
  (b_unhalted_at x =? b_unhalted_at y) && (b_unhalt_dur x =? b_unhalt_dur y) && (b_guardians x =? b_guardians y) &&
  Bool.eqb (b_orch_ok x) (b_orch_ok y) && tab_eqb network_eqb (b_networks x) (b_networks y) && tab_eqb unwrap_eqb (b_unwraps x) (b_unwraps y).
Definition emb_bridge_eqb := emb_outd_eqb bstore_eqb.
