(* Executable entry points compared with the implementation by ./check C10 (in addition to those of TieC09). *)
From ZV Require Import Prelude GoSem Abi VmReceive Emb Locks TieC09.
From ZV.gen Require Import Consts.
Open Scope Z_scope.

Definition emb_in2 (S : Type) := (Z * lenv * bytes * S * bals * send * list bytes * list (Z * bytes * bytes))%type.

Definition emb_sentinel_run (i : emb_in2 nstore) : emb_out nstore :=
  let '(id, e, self, st, b, s, donate, _) := i in
  run_emb (if id =? 1 then sentinel_register_receive e else if id =? 2 then sentinel_revoke_receive e
           else if id =? 3 then sentinel_deposit_receive else sentinel_withdraw_receive) donate st b s.
Definition sentinel_eqb (x y : sentinel) : bool :=
  (n_reg x =? n_reg y) && (n_revoke x =? n_revoke y) && (n_znn x =? n_znn y) && (n_qsr x =? n_qsr y).
Definition nstore_eqb (x y : nstore) : bool := tab_eqb sentinel_eqb (n_ent x) (n_ent y) && tab_eqb Z.eqb (n_dep x) (n_dep y).
Definition emb_sentinel_eqb := emb_out_eqb nstore_eqb.

(* verdict of checkPillarNameStatic, observed for the name carried by the call: (1|0, name, []) *)
Definition name_ok_of (tbl : list (Z * bytes * bytes)) (name : bytes) : bool :=
  match find (fun '(_, n, _) => bytes_eqb n name) tbl with Some (ok, _, _) => ok =? 1 | None => false end.
Definition emb_pillar_run (i : emb_in2 lstore) : emb_out lstore :=
  let '(id, e, self, st, b, s, donate, names) := i in
  run_emb (if id =? 1 then pillar_revoke_receive (name_ok_of names) e
           else if id =? 2 then pillar_deposit_receive else pillar_withdraw_receive) donate st b s.
Definition pillar_eqb (x y : pillar) : bool :=
  bytes_eqb (l_owner x) (l_owner y) && (l_amount x =? l_amount y) && (l_reg x =? l_reg y) && (l_revoke x =? l_revoke y).
Definition lstore_eqb (x y : lstore) : bool := tab_eqb pillar_eqb (l_pillars x) (l_pillars y) && tab_eqb Z.eqb (l_dep x) (l_dep y).
Definition emb_pillar_eqb := emb_out_eqb lstore_eqb.
