(* Executable entry points compared with the implementation by ./check C11. *)
From ZV Require Import Prelude GoSem Rewards.
From ZV.gen Require Import Consts Pure.
Open Scope Z_scope.

Definition zz_eqb11 (a b : Z * Z) : bool := (fst a =? fst b) && (snd a =? snd b).
Definition zzl_eqb : list (Z * Z) -> list (Z * Z) -> bool := list_eqb zz_eqb11.
Definition zl_eqb : list Z -> list Z -> bool := list_eqb Z.eqb.

(* sum per address, sorted by address: the canonical form of RewardDepositHistory entries of one epoch *)
Fixpoint agg_insert (a v : Z) (l : list (Z * Z)) : list (Z * Z) :=
  match l with
  | [] => [(a, v)]
  | (b, w) :: r => if a <? b then (a, v) :: l else if a =? b then (b, w + v) :: r else (b, w) :: agg_insert a v r
  end.
Definition aggregate (cs : list (Z * Z)) : list (Z * Z) :=
  fold_left (fun acc c => agg_insert (fst c) (snd c) acc) cs [].

(* ---- weight functions (translated by go2coq) *)
Definition w_stake_run (i : Z * Z * Z * Z * Z) : Z :=
  let '(s, e, st, rv, wa) := i in getWeightedStake s e st rv wa.
Definition w_liqstake_run (i : Z * Z * Z * Z * Z) : Z :=
  let '(s, e, st, rv, wa) := i in getWeightedLiquidityStake s e st rv wa.
Definition w_sentinel_run (i : Z * Z * Z * Z) : Z :=
  let '(s, e, rg, rv) := i in getWeightedSentinel s e rg rv.
Definition unres11 {A} (d : A) (r : res A) : A := match r with Ok a => a | Panic => d end.
Definition w_stake_amount_run (i : Z * Z) : Z := unres11 (-1) (getWeightedStakeAmount (fst i) (snd i)).
Definition w_liq_amount_run (i : Z * Z) : Z := unres11 (-1) (getWeightedLiquidityStakeAmount (fst i) (snd i)).

(* ---- computePillarRewardForEpoch *)
Definition mk_stats (epoch tw : Z) (ps : list (Z * Z * Z * Z)) : estats :=
  mkEstats epoch tw (map (fun q => let '(n, p, e, w) := q in mkPstat n p e w) ps).
Definition pillar_one_in := (Z * Z * list (Z * Z * Z * Z) * Z)%type.
Definition pillar_one_run (i : pillar_one_in) : Z * Z * Z :=
  let '(epoch, tw, ps, name) := i in
  let st := mk_stats epoch tw ps in
  match find (fun p => ps_name p =? name) (es_pillars st) with
  | None => (-2, -2, -2)
  | Some p => match pillar_reward st p with
              | Ok r => (pr_deleg r, pr_block r, pr_total r)
              | Panic => (-1, -1, -1)
              end
  end.
Definition zzz_eqb (a b : Z * Z * Z) : bool :=
  let '(x1, y1, z1) := a in let '(x2, y2, z2) := b in (x1 =? x2) && (y1 =? y2) && (z1 =? z2).

(* ---- computeDetailedPillarReward: status (0 done, 1 error, 2 panic) and the aggregated credits *)
Definition pillar_epoch_in :=
  (Z * Z * list (Z * Z * Z * Z) * list (Z * Z * Z * Z) * list (Z * list (Z * Z)))%type.
Definition pillar_epoch_run (i : pillar_epoch_in) : Z * list (Z * Z) :=
  let '(epoch, tw, ps, infos, ds) := i in
  let st := mk_stats epoch tw ps in
  let infos' := map (fun q => let '(n, gb, gd, a) := q in mkPinfo n gb gd a) infos in
  let ds' := map (fun q => mkPdetail (fst q) (snd q)) ds in
  match detailed_pillar_reward st infos' ds' with
  | Done cs => (0, aggregate cs)
  | Failed => (1, [])
  | Crash => (2, [])
  end.
Definition status_credits_eqb (a b : Z * list (Z * Z)) : bool := (fst a =? fst b) && zzl_eqb (snd a) (snd b).

(* ---- computeStakeRewardsForEpoch: status, aggregated qsr credits, number of entries left *)
Definition stake_epoch_in := (Z * Z * Z * list (Z * Z * Z * Z))%type.
Definition stake_epoch_run (i : stake_epoch_in) : Z * list (Z * Z) * Z :=
  let '(epoch, s, e, l) := i in
  let l' := map (fun q => let '(st, rv, wa, a) := q in mkSentry st rv wa a) l in
  match stake_rewards epoch s e l' with
  | Ok (cs, rem) => (0, aggregate cs, Z.of_nat (length rem))
  | Panic => (2, [], 0)
  end.
Definition stake_epoch_eqb (a b : Z * list (Z * Z) * Z) : bool :=
  let '(s1, c1, n1) := a in let '(s2, c2, n2) := b in (s1 =? s2) && zzl_eqb c1 c2 && (n1 =? n2).

(* ---- computeSentinelRewardsForEpoch: status, aggregated znn credits, aggregated qsr credits *)
Definition sentinel_epoch_in := (Z * Z * Z * list (Z * Z * Z))%type.
Definition sentinel_epoch_run (i : sentinel_epoch_in) : Z * list (Z * Z) * list (Z * Z) :=
  let '(epoch, s, e, l) := i in
  let l' := map (fun q => let '(rg, rv, a) := q in mkSent rg rv a) l in
  match sentinel_rewards epoch s e l' with
  | Ok cs => (0, aggregate (map (fun c => (fst c, fst (snd c))) cs), aggregate (map (fun c => (fst c, snd (snd c))) cs))
  | Panic => (2, [], [])
  end.
Definition sentinel_epoch_eqb (a b : Z * list (Z * Z) * list (Z * Z)) : bool :=
  let '(s1, c1, d1) := a in let '(s2, c2, d2) := b in (s1 =? s2) && zzl_eqb c1 c2 && zzl_eqb d1 d2.

(* ---- epoch cursor: variant 0 = pillar/stake/sentinel loop, 1 = liquidity loop, 2 = liquidity-stake step *)
Definition cursor_fuel : nat := 3000.
Definition cursor_run (i : Z * Z * Z * Z * Z) : list Z * Z :=
  let '(variant, g, dur, now, last) := i in
  if variant =? 0 then match update_loop cursor_fuel g dur now last with Some r => r | None => ([-7], -7) end
  else if variant =? 1 then match liquidity_loop cursor_fuel g dur now last 0 with Some r => r | None => ([-7], -7) end
  else liquidity_stake_step g dur now last.
Definition cursor_eqb (a b : list Z * Z) : bool := zl_eqb (fst a) (fst b) && (snd a =? snd b).

(* ---- updateLiquidityRewards with what it issues: status (0 done, 2 panic), (epoch, (znn, qsr)) per issued epoch in the
   order of the Mint blocks, stored LastEpoch *)
Definition zpp_eqb (a b : Z * (Z * Z)) : bool := (fst a =? fst b) && zz_eqb11 (snd a) (snd b).
Definition liq_update_run (i : Z * Z * Z * Z) : Z * list (Z * (Z * Z)) * Z :=
  let '(g, dur, now, last) := i in
  match liquidity_issue cursor_fuel g dur now last 0 with
  | Some (Done (ms, l')) => (0, ms, l')
  | Some _ => (2, [], last)
  | None => (-7, [], -7)
  end.
Definition liq_update_eqb (a b : Z * list (Z * (Z * Z)) * Z) : bool :=
  let '(s1, m1, l1) := a in let '(s2, m2, l2) := b in (s1 =? s2) && list_eqb zpp_eqb m1 m2 && (l1 =? l2).

(* ---- CollectReward on a deposit (znn, qsr): status (0 minted, 1 nothing to withdraw), mints, deposit left *)
Definition collect_run (d : Z * Z) : Z * list (Z * Z) * (Z * Z) :=
  match collect [(7, d)] 7 with
  | (Some ms, ds') => (0, ms, dep_get 7 ds')
  | (None, ds') => (1, [], dep_get 7 ds')
  end.
Definition collect_eqb (a b : Z * list (Z * Z) * (Z * Z)) : bool :=
  let '(s1, m1, d1) := a in let '(s2, m2, d2) := b in (s1 =? s2) && zzl_eqb m1 m2 && zz_eqb11 d1 d2.

(* ---- addReward / CollectReward histories on one contract: final deposits of addresses 0..n-1 and total minted per address/token *)
Definition rop_of (q : Z * Z * Z * Z) : rop := let '(k, a, z, qq) := q in if k =? 0 then Credit a z qq else Collect a.
Definition rops_run (i : Z * list (Z * Z * Z * Z)) : list (Z * Z) * list (Z * Z) :=
  let '(n, ops) := i in
  let '(ds, minted) := run_rops (map rop_of ops) [] [] in
  let addrs := map Z.of_nat (seq 0 (Z.to_nat n)) in
  (map (fun a => dep_get a ds) addrs, map (fun a => (minted_of 0 a minted, minted_of 1 a minted)) addrs).
Definition rops_eqb (a b : list (Z * Z) * list (Z * Z)) : bool := zzl_eqb (fst a) (fst b) && zzl_eqb (snd a) (snd b).

(* ---- computeLiquidityStakeRewardsForEpoch: status (0 done, 1 ErrInvalidRewards, 2 panic), aggregated znn / qsr credits,
   burned (znn, qsr), minted to the contract (znn, qsr), number of entries left *)
Definition liq_stake_in := (Z * Z * Z * bool * (Z * Z * Z * Z) * list (Z * Z * Z) * list (Z * Z * Z * Z * Z))%type.
Definition liq_stake_out := (Z * list (Z * Z) * list (Z * Z) * (Z * Z) * (Z * Z) * Z)%type.
Definition liq_stake_run (i : liq_stake_in) : liq_stake_out :=
  let '(epoch, s, e, halted, bals, ts, l) := i in
  let '(bz, bq, xz, xq) := bals in
  let ts' := map (fun q => let '(t, zp, qp) := q in mkLtuple t zp qp) ts in
  let l' := map (fun q => let '(t, st, rv, wa, a) := q in mkLentry t st rv wa a) l in
  match liq_stake_rewards epoch s e halted bz bq xz xq ts' l' with
  | Ok (Done r) => (0, aggregate (map (fun c => (fst c, fst (snd c))) (lq_credits r)),
                       aggregate (map (fun c => (fst c, snd (snd c))) (lq_credits r)),
                       lq_burn r, lq_mint r, Z.of_nat (length (lq_left r)))
  | Ok Failed => (1, [], [], (0, 0), (0, 0), 0)
  | _ => (2, [], [], (0, 0), (0, 0), 0)
  end.
Definition liq_stake_eqb (a b : liq_stake_out) : bool :=
  let '(s1, c1, d1, b1, m1, n1) := a in let '(s2, c2, d2, b2, m2, n2) := b in
  (s1 =? s2) && zzl_eqb c1 c2 && zzl_eqb d1 d2 && zz_eqb11 b1 b2 && zz_eqb11 m1 m2 && (n1 =? n2).
