From ZV Require Import Prelude GoSem Plasma.
From ZV.gen Require Import Consts Pure PureVerifCommon PurePlasma.
Open Scope Z_scope.
Ltac Zify.zify_post_hook ::= Z.div_mod_to_equations.

Ltac unfold_consts := unfold MaxDifficultyForAccountBlock, MaxPoWPlasmaForAccountBlock, PoWDifficultyPerPlasma,
  MaxFussedAmountForAccountBig, MaxFusionPlasmaForAccount, CostPerFusionUnit, PlasmaPerFusionUnit,
  MaxFussedAmountForAccount, MaxPlasmaForAccountBlock, two64, two63 in *.

(* characterisation of the translated functions in terms of the dumped constants *)
Lemma d2p_spec d : 0 <= d < two64 ->
  difficulty_to_plasma d =
  if d =? 0 then 0 else if MaxDifficultyForAccountBlock <? d then MaxPoWPlasmaForAccountBlock
  else d / PoWDifficultyPerPlasma.
Proof.
  intros Hd. unfold difficulty_to_plasma, DifficultyToPlasma. unfold_consts.
  destruct (d =? 0) eqn:E0; [reflexivity|].
  destruct (141750000 <? d) eqn:E1; [reflexivity|].
  rewrite Z.quot_div_nonneg by lia. apply wrapU64_small. unfold two64. lia.
Qed.

Lemma f2p_spec a : 0 <= a ->
  fused_to_plasma a =
  if a <=? 0 then 0 else if MaxFussedAmountForAccountBig <=? a then MaxFusionPlasmaForAccount
  else (a / CostPerFusionUnit) * PlasmaPerFusionUnit.
Proof.
  intros Ha. unfold fused_to_plasma, FussedAmountToPlasma, zcmp. unfold_consts.
  destruct (a =? 0) eqn:E0.
  { assert (a = 0) by lia. subst. reflexivity. }
  destruct (Z.sgn a <=? 0) eqn:E1; [lia|]. cbn [orb].
  destruct (a <=? 0) eqn:E2; [lia|].
  destruct (a <? 500000000000) eqn:E3.
  - destruct (500000000000 <=? a) eqn:E4; [lia|].
    change (0 <=? -1) with false. cbv iota.
    unfold big_uint64. rewrite Z.abs_eq by lia. rewrite (Z.mod_small a) by (unfold two64; lia).
    rewrite Z.quot_div_nonneg by lia.
    rewrite (wrapU64_small (a / 100000000)) by (unfold two64; lia).
    apply wrapU64_small. unfold two64. lia.
  - destruct (500000000000 <=? a) eqn:E4; [|lia].
    destruct (a =? 500000000000); reflexivity.
Qed.

Lemma d2p_bound d : 0 <= d < two64 -> 0 <= difficulty_to_plasma d <= MaxPoWPlasmaForAccountBlock.
Proof.
  intros Hd. rewrite d2p_spec by auto.
  destruct (d =? 0) eqn:E0; [unfold_consts; lia|].
  destruct (MaxDifficultyForAccountBlock <? d) eqn:E1; unfold_consts; lia.
Qed.

Lemma d2p_monotone d1 d2 : 0 <= d1 <= d2 -> d2 < two64 -> difficulty_to_plasma d1 <= difficulty_to_plasma d2.
Proof.
  intros H H2. rewrite !d2p_spec by lia.
  destruct (d1 =? 0) eqn:A; destruct (d2 =? 0) eqn:B;
  destruct (MaxDifficultyForAccountBlock <? d1) eqn:C; destruct (MaxDifficultyForAccountBlock <? d2) eqn:D;
  unfold_consts; lia.
Qed.

Lemma d2p_bounded_monotone d1 d2 : 0 <= d1 <= d2 -> d2 < two64 ->
  0 <= difficulty_to_plasma d1 <= difficulty_to_plasma d2 /\ difficulty_to_plasma d2 <= MaxPoWPlasmaForAccountBlock.
Proof.
  intros H H2. pose proof (d2p_bound d1 ltac:(lia)). pose proof (d2p_bound d2 ltac:(lia)).
  pose proof (d2p_monotone d1 d2 H H2). lia.
Qed.

Lemma f2p_nonpos a : a <= 0 -> fused_to_plasma a = 0.
Proof.
  intros Ha. unfold fused_to_plasma, FussedAmountToPlasma.
  destruct (a =? 0) eqn:E0; [reflexivity|].
  destruct (Z.sgn a <=? 0) eqn:E1; [reflexivity|lia].
Qed.

Lemma f2p_bound a : 0 <= fused_to_plasma a <= MaxFusionPlasmaForAccount.
Proof.
  destruct (Z.le_gt_cases a 0) as [Hn|Hp]; [rewrite f2p_nonpos by auto; unfold_consts; lia|].
  rewrite f2p_spec by lia.
  destruct (a <=? 0) eqn:E0; [unfold_consts; lia|].
  destruct (MaxFussedAmountForAccountBig <=? a) eqn:E1; unfold_consts; lia.
Qed.

(* exact value of the fused plasma below the cap: whole fusion units only *)
Lemma f2p_exact a : 0 < a < MaxFussedAmountForAccountBig ->
  fused_to_plasma a = (a / CostPerFusionUnit) * PlasmaPerFusionUnit.
Proof.
  intros Ha. rewrite f2p_spec by lia.
  destruct (a <=? 0) eqn:E0; [lia|].
  destruct (MaxFussedAmountForAccountBig <=? a) eqn:E1; [lia|]. reflexivity.
Qed.

Lemma available_spec fa c u av :
  available fa c u = Some av -> 0 <= c <= u -> av = fused_to_plasma fa - (u - c).
Proof.
  unfold available. intros H Hcu. pose proof (f2p_bound fa) as B.
  destruct (fused_to_plasma fa + c - u <? 0) eqn:E; [discriminate|].
  destruct (MaxFussedAmountForAccountBig <? fused_to_plasma fa + c - u) eqn:E2.
  - unfold_consts. lia.
  - inversion H; subst. unfold big_uint64. rewrite Z.abs_eq by lia.
    rewrite Z.mod_small; unfold_consts; lia.
Qed.

Lemma enough_plasma_sound fa c u base f d total b nc :
  enough_plasma fa c u base f d = POk total b nc ->
  0 <= c <= u -> 0 <= f < two64 -> 0 <= d < two64 ->
  b = base /\ base <= total <= MaxPlasmaForAccountBlock /\
  total = f + difficulty_to_plasma d /\
  (u - c) + f <= fused_to_plasma fa /\
  nc = u + f.
Proof.
  unfold enough_plasma. intros H Hcu Hf Hd.
  destruct (available fa c u) as [av|] eqn:EA; [|discriminate].
  apply available_spec in EA; auto.
  destruct (av <? f) eqn:E1; [discriminate|].
  destruct (MaxPlasmaForAccountBlock <? u64 (difficulty_to_plasma d + f)) eqn:E2; [discriminate|].
  destruct (u64 (difficulty_to_plasma d + f) <? base) eqn:E3; [discriminate|].
  inversion H; subst; clear H.
  pose proof (f2p_bound fa) as B. pose proof (d2p_bound d ltac:(lia)) as D.
  assert (Hs : u64 (difficulty_to_plasma d + f) = difficulty_to_plasma d + f).
  { unfold u64. apply Z.mod_small. unfold_consts. lia. }
  rewrite Hs in *.
  assert (to_int64 f = f).
  { unfold to_int64. rewrite Z.mod_small by lia. unfold_consts.
    destruct (f <? 9223372036854775808) eqn:E; lia. }
  repeat split; try lia.
Qed.

Lemma enough_plasma_no_panic fa c u base f d :
  0 <= c <= u -> u - c <= fused_to_plasma fa -> enough_plasma fa c u base f d <> PPanic.
Proof.
  intros Hcu Hinv. unfold enough_plasma, available.
  destruct (fused_to_plasma fa + c - u <? 0) eqn:E; [lia|].
  cbv zeta.
  repeat match goal with |- context [if ?x then _ else _] => destruct x end; discriminate.
Qed.

Lemma plasma_check_sound fa c u base f d pv total b nc :
  plasma_check fa c u base f d pv = POk total b nc ->
  0 <= c <= u -> 0 <= f < two64 -> 0 <= d < two64 ->
  (d <> 0 -> pv = true) /\
  b = base /\ base <= total <= MaxPlasmaForAccountBlock /\
  total = f + difficulty_to_plasma d /\
  (u - c) + f <= fused_to_plasma fa /\
  nc = u + f.
Proof.
  unfold plasma_check. intros H Hcu Hf Hd.
  destruct (negb (d =? 0) && negb pv) eqn:E; [discriminate|].
  split.
  - intros Hd0. destruct pv; auto. destruct (d =? 0) eqn:E0; [lia|]. discriminate.
  - eapply enough_plasma_sound; eauto.
Qed.

(* Pool accounting: whatever candidates arrive, the plasma committed to the account's
   unconfirmed blocks never exceeds what the fused QSR provides. *)
Definition sum_f (l : list cand) : Z := fold_right (fun c acc => c_f c + acc) 0 l.

Lemma pool_accounting fa c cs : forall u u' acc,
  pool_run fa c u cs = (u', acc) ->
  0 <= c <= u -> u - c <= fused_to_plasma fa ->
  Forall (fun k => 0 <= c_f k < two64 /\ 0 <= c_d k < two64) cs ->
  u' = u + sum_f acc /\ u' - c <= fused_to_plasma fa /\ c <= u'.
Proof.
  induction cs as [|k r IH]; intros u u' acc H Hcu Hinv Hall; cbn [pool_run] in H.
  - inversion H; subst. cbn. lia.
  - inversion Hall as [|? ? [Hf Hd] Hr]; subst.
    destruct (plasma_check fa c u (c_base k) (c_f k) (c_d k) (c_pow k)) as [t b nc| |] eqn:E.
    + destruct (pool_run fa c nc r) as [u2 acc2] eqn:E2. inversion H; subst.
      apply plasma_check_sound in E; auto. destruct E as (_ & _ & _ & _ & Hfz & ->).
      apply IH in E2; auto; try lia. cbn [sum_f fold_right]. fold (sum_f acc2). lia.
    + apply IH in H; auto.
    + apply IH in H; auto.
Qed.

(* the step-by-step view of the same run (pool_trace: what the harness observes in the real store after every
   candidate): its last chain plasma is the run's, and after EVERY step the plasma booked for the account's unconfirmed
   blocks is within what the fused QSR provides *)
Lemma last_cons_default {A} (l : list A) : forall (a d : A), last (a :: l) d = last l a.
Proof.
  induction l as [|b l IH]; intros a d; [reflexivity|].
  change (last (a :: b :: l) d) with (last (b :: l) d). rewrite (IH b d), (IH b a). reflexivity.
Qed.

Lemma pool_trace_final fa c cs : forall u,
  last (map snd (pool_trace fa c u cs)) u = fst (pool_run fa c u cs).
Proof.
  induction cs as [|k r IH]; intros u; cbn [pool_trace pool_run]; [reflexivity|].
  destruct (plasma_check fa c u (c_base k) (c_f k) (c_d k) (c_pow k)) as [t b nc| |] eqn:E;
    cbn [map snd]; rewrite last_cons_default.
  - rewrite IH. destruct (pool_run fa c nc r) as [u2 acc2]. reflexivity.
  - apply IH.
  - apply IH.
Qed.

Lemma pool_trace_length fa c cs : forall u, length (pool_trace fa c u cs) = length cs.
Proof.
  induction cs as [|k r IH]; intros u; cbn [pool_trace]; [reflexivity|].
  destruct (plasma_check fa c u (c_base k) (c_f k) (c_d k) (c_pow k)); cbn [length]; rewrite IH; reflexivity.
Qed.

Lemma pool_trace_bounded fa c cs : forall u,
  0 <= c <= u -> u - c <= fused_to_plasma fa ->
  Forall (fun k => 0 <= c_f k < two64 /\ 0 <= c_d k < two64) cs ->
  Forall (fun p => c <= snd p /\ snd p - c <= fused_to_plasma fa) (pool_trace fa c u cs).
Proof.
  induction cs as [|k r IH]; intros u Hcu Hinv Hall; cbn [pool_trace]; [constructor|].
  inversion Hall as [|? ? [Hf Hd] Hr]; subst.
  destruct (plasma_check fa c u (c_base k) (c_f k) (c_d k) (c_pow k)) as [t b nc| |] eqn:E.
  - apply plasma_check_sound in E; auto. destruct E as (_ & _ & _ & _ & Hfz & ->).
    constructor; [cbn [snd]; lia|]. apply IH; auto; lia.
  - constructor; [cbn [snd]; lia|]. apply IH; auto.
  - constructor; [cbn [snd]; lia|]. apply IH; auto.
Qed.

Lemma pool_trace_is_pool_run fa c cs u :
  length (pool_trace fa c u cs) = length cs /\
  last (map snd (pool_trace fa c u cs)) u = fst (pool_run fa c u cs).
Proof. split; [apply pool_trace_length | apply pool_trace_final]. Qed.

(* one accepted step books exactly the block's fused plasma; a refused one books nothing *)
Lemma pool_trace_step fa c u k r :
  0 <= c <= u -> 0 <= c_f k < two64 -> 0 <= c_d k < two64 ->
  exists code u1, pool_trace fa c u (k :: r) = (code, u1) :: pool_trace fa c u1 r /\
    ((code = 0 /\ u1 = u + c_f k /\ (u - c) + c_f k <= fused_to_plasma fa) \/ (code <> 0 /\ u1 = u)).
Proof.
  intros Hcu Hf Hd. cbn [pool_trace].
  destruct (plasma_check fa c u (c_base k) (c_f k) (c_d k) (c_pow k)) as [t b nc|e|] eqn:E.
  - apply plasma_check_sound in E; auto. destruct E as (_ & _ & _ & _ & Hfz & ->).
    exists 0, (u + c_f k). split; [reflexivity|]. left. repeat split; lia.
  - exists e, u. split; [reflexivity|]. right. split; [|reflexivity].
    unfold plasma_check, enough_plasma in E.
    destruct (negb (c_d k =? 0) && negb (c_pow k)); [inversion E; lia|].
    destruct (available fa c u); [|discriminate].
    repeat match type of E with (if ?x then _ else _) = _ => destruct x end; inversion E; lia.
  - exists 9, u. split; [reflexivity|]. right. split; [lia|reflexivity].
Qed.

(* base cost: what a plain transfer pays per byte, and the range of the embedded method costs *)
Lemma base_plasma_transfer len b :
  0 <= len -> base_plasma false false false 0 len = BOk b ->
  len <= MaxDataLength /\ b = AccountBlockBasePlasma + ABByteDataPlasma * len.
Proof.
  unfold base_plasma. intros Hl H. destruct (MaxDataLength <? len) eqn:E; [discriminate|].
  inversion H. split; [lia|]. unfold u64. rewrite Z.mod_small; [lia|].
  unfold MaxDataLength, ABByteDataPlasma, AccountBlockBasePlasma, two64 in *. lia.
Qed.

Lemma method_costs_bounded :
  forallb (fun p => (EmbeddedSimplePlasma <=? p) && (p <=? MaxPlasmaForAccountBlock)) MethodPlasmaVals = true.
Proof. vm_compute. reflexivity. Qed.

Lemma assoc_z_in k ks vs v : assoc_z k ks vs = Some v -> In v vs.
Proof.
  revert vs; induction ks as [|k' ks IH]; intros [|v' vs] H; cbn [assoc_z] in H; try discriminate.
  destruct (k =? k'); [inversion H; left; reflexivity | right; apply IH; exact H].
Qed.

Lemma base_plasma_method key len b :
  base_plasma false true true key len = BOk b -> EmbeddedSimplePlasma <= b <= MaxPlasmaForAccountBlock.
Proof.
  unfold base_plasma, method_plasma. destruct (assoc_z key MethodPlasmaKeys MethodPlasmaVals) as [p|] eqn:E; [|discriminate].
  intros H; inversion H; subst. apply assoc_z_in in E.
  pose proof method_costs_bounded as Hb. rewrite forallb_forall in Hb. specialize (Hb _ E).
  apply andb_true_iff in Hb as [H1 H2]. lia.
Qed.

(* a contract call never costs less than the account-block base, under whichever method table it is priced *)
Lemma base_plasma_method_at_least_base key len b :
  base_plasma false true true key len = BOk b -> AccountBlockBasePlasma <= b.
Proof.
  intros H. apply base_plasma_method in H. unfold EmbeddedSimplePlasma, AccountBlockBasePlasma in *. lia.
Qed.

(* every user block that has a base cost at all costs at least the account-block base *)
Lemma base_plasma_at_least_account_block_base r c f key len b :
  0 <= len -> base_plasma r c f key len = BOk b -> AccountBlockBasePlasma <= b.
Proof.
  intros Hl H. destruct r; [unfold base_plasma in H; inversion H; lia|].
  destruct c.
  - destruct f; [apply (base_plasma_method_at_least_base key len); exact H|unfold base_plasma in H; discriminate].
  - unfold base_plasma in H. destruct (MaxDataLength <? len) eqn:E; [discriminate|]. inversion H.
    unfold u64. rewrite Z.mod_small; unfold MaxDataLength, ABByteDataPlasma, AccountBlockBasePlasma, two64 in *; lia.
Qed.

(* ---- the hand-written decision functions ARE the code: AvailablePlasma (vm/plasma.go) and enoughPlasma (vm/vm.go) as
   translated by go2coq on every run (gen/Pure.v). The store reads (GetChainPlasma of the confirmed and of the
   unconfirmed account store, GetStakeBeneficialAmount), GetBasePlasmaForAccountBlock, IsEmbeddedAddress and the
   result of AddChainPlasma are inputs of the translations (oracles). *)
Lemma available_is_source fa c u :
  AvailablePlasma c 0 fa 0 u 0 =
  match available fa c u with
  | None => (0, Err_new_got_negative_available_plasma)
  | Some v => (v, 0)
  end.
Proof.
  unfold AvailablePlasma, available, fused_to_plasma. cbv zeta. change (0 =? 0) with true. cbn [negb].
  pose proof (f2p_bound fa) as B. unfold fused_to_plasma in B.
  rewrite (wrapS64_small (FussedAmountToPlasma fa)) by (unfold_consts; lia).
  set (a := FussedAmountToPlasma fa + c - u).
  destruct (a <? 0) eqn:E.
  - assert (Z.sgn a = -1) as -> by lia. reflexivity.
  - assert (Z.sgn a =? -1 = false) as -> by lia.
    unfold zcmp. unfold_consts.
    destruct (500000000000 <? a) eqn:E2.
    + assert (a <? 500000000000 = false) as -> by lia. assert (a =? 500000000000 = false) as -> by lia. reflexivity.
    + destruct (a <? 500000000000) eqn:E3; [reflexivity|].
      assert (a =? 500000000000 = true) as -> by lia. reflexivity.
Qed.

Lemma available_errors_propagate c e1 fa e2 u e3 :
  e1 <> 0 \/ e2 <> 0 \/ e3 <> 0 ->
  exists e, e <> 0 /\ AvailablePlasma c e1 fa e2 u e3 = (0, e).
Proof.
  intros H. unfold AvailablePlasma. cbv zeta.
  destruct (e1 =? 0) eqn:E1; cbn [negb]; [|exists e1; split; [lia|reflexivity]].
  destruct (e2 =? 0) eqn:E2; cbn [negb]; [|exists e2; split; [lia|reflexivity]].
  destruct (e3 =? 0) eqn:E3; cbn [negb]; [|exists e3; split; [lia|reflexivity]].
  lia.
Qed.

Lemma enough_plasma_is_source fa c u base f d tp bp addres :
  let av := AvailablePlasma c 0 fa 0 u 0 in
  let total := u64 (difficulty_to_plasma d + f) in
  enoughPlasma tp bp false (fst av) (snd av) f d base 0 addres =
  match enough_plasma fa c u base f d with
  | PPanic => Panic
  | PErr 1 => Ok (Err_constants_ErrNotEnoughPlasma, tp, bp, None)
  | PErr 2 => Ok (Err_constants_ErrBlockPlasmaLimitReached, total, bp, None)
  | PErr _ => Ok (Err_constants_ErrNotEnoughTotalPlasma, total, base, None)
  | POk t b _ => Ok (addres, t, b, Some f)
  end.
Proof.
  cbv zeta. rewrite available_is_source. unfold enough_plasma, enoughPlasma.
  destruct (available fa c u) as [av|]; cbn [fst snd].
  - change (0 =? 0) with true. cbn [guard]. cbv zeta.
    destruct (av <? f) eqn:E1; [reflexivity|].
    unfold difficulty_to_plasma, u64, wrapU. change (2 ^ 64) with two64. unfold_consts.
    destruct (10500000 <? (DifficultyToPlasma d + f) mod 18446744073709551616) eqn:E2; [reflexivity|].
    destruct ((DifficultyToPlasma d + f) mod 18446744073709551616 <? base) eqn:E3; reflexivity.
  - reflexivity.
Qed.

(* what is written into the account's chain-plasma counter: the amount handed to AddChainPlasma by enoughPlasma (the last
   component above: the block's FusedPlasma, nothing on the refusing paths) added by accountStore.AddChainPlasma
   (chain/account/plasma.go, the statement plasma.Add(plasma, big.NewInt(int64(add))) translated from source) *)
Lemma to_int64_is_wrapS x : to_int64 x = wrapS 64 x.
Proof.
  unfold to_int64, wrapS. change (2 ^ (64 - 1)) with two63. change (2 ^ 64) with two64. cbv zeta.
  unfold two63, two64.
  destruct (x mod 18446744073709551616 <? 9223372036854775808) eqn:E; lia.
Qed.

Lemma enough_plasma_books_source fa c u base f d t b nc :
  enough_plasma fa c u base f d = POk t b nc -> nc = AddChainPlasma_sum f u.
Proof.
  unfold enough_plasma. intros H.
  destruct (available fa c u) as [av|]; [|discriminate].
  repeat match type of H with (if ?x then _ else _) = _ => destruct x end; try discriminate.
  inversion H; subst. unfold AddChainPlasma_sum. rewrite to_int64_is_wrapS. reflexivity.
Qed.

(* a block of an embedded address is not charged: nothing is read, nothing is written *)
Lemma enough_plasma_embedded tp bp av ae f d base be addres :
  enoughPlasma tp bp true av ae f d base be addres = Ok (0, tp, bp, None).
Proof. reflexivity. Qed.

Lemma source_accept_sound fa c u base f d tp bp total b booked :
  0 <= c <= u -> 0 <= f < two64 -> 0 <= d < two64 ->
  let av := AvailablePlasma c 0 fa 0 u 0 in
  enoughPlasma tp bp false (fst av) (snd av) f d base 0 0 = Ok (0, total, b, booked) ->
  b = base /\ base <= total <= MaxPlasmaForAccountBlock /\ total = f + difficulty_to_plasma d /\
  (u - c) + f <= fused_to_plasma fa /\
  booked = Some f /\ AddChainPlasma_sum f u = u + f.
Proof.
  intros Hcu Hf Hd av. subst av. rewrite enough_plasma_is_source.
  destruct (enough_plasma fa c u base f d) as [t b' nc|code|] eqn:E.
  - intros H. inversion H; subst. pose proof (enough_plasma_books_source _ _ _ _ _ _ _ _ _ E) as Hb.
    destruct (enough_plasma_sound _ _ _ _ _ _ _ _ _ E Hcu Hf Hd) as (A & B & C & D & Hn).
    repeat split; lia.
  - unfold Err_constants_ErrNotEnoughPlasma, Err_constants_ErrBlockPlasmaLimitReached, Err_constants_ErrNotEnoughTotalPlasma.
    repeat (match goal with |- context [match ?x with _ => _ end] => destruct x end); discriminate.
  - discriminate.
Qed.

(* nothing is booked on a refusing path: the amount handed to AddChainPlasma exists only together with the nil result *)
Lemma source_refusal_books_nothing fa c u base f d tp bp e total b booked :
  let av := AvailablePlasma c 0 fa 0 u 0 in
  enoughPlasma tp bp false (fst av) (snd av) f d base 0 0 = Ok (e, total, b, booked) ->
  e <> 0 -> booked = None.
Proof.
  intros av. subst av. rewrite enough_plasma_is_source.
  destruct (enough_plasma fa c u base f d) as [t b' nc|code|] eqn:E.
  - intros H He. inversion H; subst. lia.
  - intros H He.
    repeat (match type of H with context [match ?x with _ => _ end] => destruct x end); inversion H; reflexivity.
  - discriminate.
Qed.

(* ---- the base cost of the model IS the code: vm.GetBasePlasmaForAccountBlock translated whole (gen/PurePlasma.v).
   Inputs of the translation: types.IsEmbeddedAddress(block.Address), block.BlockType (IsReceiveBlock is translated too), the error of
   embedded.GetEmbeddedMethod, len(block.Data), the two results of method.GetPlasma. [key] / [p]: the method found and
   its cost in the dumped method tables (Consts.MethodPlasmaKeys / Vals). *)
Lemma base_plasma_is_source bt gm dl key p :
  0 <= dl -> (gm = 0 -> method_plasma key = Some p) ->
  match base_plasma (ab_IsReceiveBlock bt) (negb (gm =? Err_constants_ErrNotContractAddress)) (gm =? 0) key dl with
  | BOk b => GetBasePlasmaForAccountBlock false bt gm dl p 0 = (b, 0)
  | BErr => snd (GetBasePlasmaForAccountBlock false bt gm dl p 0) <> 0
  end.
Proof.
  intros Hdl Hm. unfold base_plasma, GetBasePlasmaForAccountBlock. cbv zeta.
  destruct (ab_IsReceiveBlock bt); [reflexivity|].
  destruct (Z.eqb_spec gm Err_constants_ErrNotContractAddress) as [Hn|Hn]; cbn [negb].
  - unfold MaxDataLength, ABByteDataPlasma, AccountBlockBasePlasma.
    destruct (16384 <? dl) eqn:El; [cbn; unfold Err_verifier_ErrABDataTooBig; lia|].
    assert (Hl : dl <= 16384) by lia.
    rewrite (wrapS64_small (dl * 68)) by (unfold_consts; lia).
    rewrite (wrapS64_small (dl * 68 + 21000)) by (unfold_consts; lia).
    unfold u64, wrapU. change (2 ^ 64) with two64. reflexivity.
  - destruct (Z.eqb_spec gm 0) as [H0|H0]; cbn [negb].
    + rewrite (Hm H0). reflexivity.
    + cbn [snd]. exact H0.
Qed.

Lemma base_plasma_embedded_is_free bt gm dl p e :
  GetBasePlasmaForAccountBlock true bt gm dl p e = (0, 0).
Proof. reflexivity. Qed.

(* a user block never costs less than the base: every successful answer for a block that is not a contract call *)
Lemma base_plasma_at_least_base bt dl p e b :
  0 <= dl -> GetBasePlasmaForAccountBlock false bt Err_constants_ErrNotContractAddress dl p e = (b, 0) ->
  AccountBlockBasePlasma <= b /\ (ab_IsReceiveBlock bt = false -> b = AccountBlockBasePlasma + ABByteDataPlasma * dl /\ dl <= MaxDataLength).
Proof.
  intros Hdl. unfold GetBasePlasmaForAccountBlock, AccountBlockBasePlasma, ABByteDataPlasma, MaxDataLength. cbv zeta.
  destruct (ab_IsReceiveBlock bt); [intros H; inversion H; split; [lia|discriminate]|].
  rewrite Z.eqb_refl.
  destruct (16384 <? dl) eqn:El; [unfold Err_verifier_ErrABDataTooBig; intros H; inversion H|].
  assert (Hl : dl <= 16384) by lia.
  rewrite (wrapS64_small (dl * 68)) by (unfold_consts; lia).
  rewrite (wrapS64_small (dl * 68 + 21000)) by (unfold_consts; lia).
  unfold wrapU. intros H. inversion H. rewrite Z.mod_small by lia. split; [lia|intros _; split; lia].
Qed.
