(* Shared prelude: machine integers with explicit wrap, byte strings, case-comparison helpers. *)
From Coq Require Export List ZArith Lia Bool.
From Coq Require Export ZifyBool ZifyNat ZifyN.
Export ListNotations.
Open Scope Z_scope.

Ltac Zify.zify_post_hook ::= Z.div_mod_to_equations.

Definition two8  : Z := 256.
Definition two32 : Z := 4294967296.
Definition two63 : Z := 9223372036854775808.
Definition two64 : Z := 18446744073709551616.

(* Go uint64 / uint32 / int64 conversions, written out. *)
Definition u64 (x : Z) : Z := x mod two64.
Definition u32 (x : Z) : Z := x mod two32.
Definition u8  (x : Z) : Z := x mod two8.
(* int64(v) for v a uint64 value: two's complement reinterpretation *)
Definition to_int64 (x : Z) : Z := let y := x mod two64 in if y <? two63 then y else y - two64.
(* big.Int.Uint64(): low 64 bits of |x| *)
Definition big_uint64 (x : Z) : Z := (Z.abs x) mod two64.

Definition in_u64 (x : Z) : Prop := 0 <= x < two64.
Definition in_u32 (x : Z) : Prop := 0 <= x < two32.

(* little-endian bytes of a uint64, exactly 8 of them *)
Fixpoint le_bytes (n : nat) (x : Z) : list Z :=
  match n with O => [] | S k => (x mod 256) :: le_bytes k (x / 256) end.
Fixpoint le_value (l : list Z) : Z :=
  match l with [] => 0 | b :: r => b + 256 * le_value r end.

(* big-endian *)
Definition be_bytes (n : nat) (x : Z) : list Z := rev (le_bytes n x).
Definition be_value (l : list Z) : Z := le_value (rev l).

(* ---- correspondence helper: indices of cases whose model output differs from the observed one *)
Section Mismatch.
  Context {I O : Type} (run : I -> O) (eqb : O -> O -> bool).
  Fixpoint mismatches_from (i : Z) (cs : list (I * O)) : list Z :=
    match cs with
    | [] => []
    | (x, o) :: r => if eqb (run x) o then mismatches_from (i + 1) r else i :: mismatches_from (i + 1) r
    end.
  Definition mismatches := mismatches_from 0.
End Mismatch.

Fixpoint list_eqb {A} (eqb : A -> A -> bool) (a b : list A) : bool :=
  match a, b with
  | [], [] => true
  | x :: a', y :: b' => eqb x y && list_eqb eqb a' b'
  | _, _ => false
  end.
Definition option_eqb {A} (eqb : A -> A -> bool) (a b : option A) : bool :=
  match a, b with Some x, Some y => eqb x y | None, None => true | _, _ => false end.
Definition pair_eqb {A B} (ea : A -> A -> bool) (eb : B -> B -> bool) (a b : A * B) : bool :=
  ea (fst a) (fst b) && eb (snd a) (snd b).
Definition bytes := list Z.
Definition bytes_eqb : bytes -> bytes -> bool := list_eqb Z.eqb.

Lemma list_eqb_spec {A} (eqb : A -> A -> bool) :
  (forall x y, eqb x y = true <-> x = y) -> forall a b, list_eqb eqb a b = true <-> a = b.
Proof.
  intros H a; induction a as [|x a IH]; intros [|y b]; cbn; try (split; congruence).
  rewrite andb_true_iff, H, IH. split; [intros [-> ->]; reflexivity | intros E; inversion E; auto].
Qed.
Lemma bytes_eqb_eq a b : bytes_eqb a b = true <-> a = b.
Proof. apply list_eqb_spec. intros; apply Z.eqb_eq. Qed.
