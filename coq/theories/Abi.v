(* Model of the ABI decoder of go-zenon: vm/abi/unpack.go (toGoType, forEachUnpack, lengthPrefixPointsTo,
   readInteger, readBool, readFixedBytes, getFullElemSize), vm/abi/argument.go (UnpackValues, getArraySize)
   and vm/abi/abi.go (UnpackMethod, UnpackEmptyMethod).

   Every Go slice expression / index is an explicit [slice]/[slice_from] whose failure is the outcome [UPanic];
   Go `int` arithmetic is written with the int64 wrap ([iadd]/[imul]); big.Int arithmetic is unbounded Z.
   The reflection stage after UnpackValues (argument.go unpackTuple/unpackAtomic/set) only depends on the static
   Go struct of each method and is not modelled (it is exercised by the harness on every method). *)
From ZV Require Import Prelude GoSem.
Open Scope Z_scope.

Inductive ty :=
| TUint (bits : Z)            (* uint8/16/32/64 machine integers, any other size (uint256) a big.Int *)
| TInt (bits : Z)             (* int8/16/32/64; any other size decoded as an unsigned big.Int, as the Go code does *)
| TBool | TString | TBytes | TAddress | TZts | THash
| TFixed (n : Z)              (* bytesN *)
| TSlice (e : ty)             (* T[]  *)
| TArray (n : Z) (e : ty).    (* T[n] *)

Inductive val :=
| VInt (z : Z) | VBool (b : bool)
| VBytes (l : bytes)          (* string, bytes, bytesN, address (20), tokenStandard (10), hash (32) *)
| VList (l : list val).

Inductive ures (A : Type) := UOk (a : A) | UErr (code : Z) | UPanic.
Arguments UOk {A} a.
Arguments UErr {A} code.
Arguments UPanic {A}.
Definition ubind {A B} (r : ures A) (k : A -> ures B) : ures B :=
  match r with UOk a => k a | UErr c => UErr c | UPanic => UPanic end.

(* error codes (only ok / error / panic is compared with the implementation) *)
Definition E_insufficient := 1.       (* errInsufficientLength *)
Definition E_slice_offset := 2.       (* errBigSliceOffsetOverflow *)
Definition E_offset_overflow := 3.    (* errBigOffsetOverflow *)
Definition E_length_overflow := 4.    (* errBigLengthOverflow *)
Definition E_insufficient_big := 5.   (* errInsufficientBigLength *)
Definition E_negative_size := 6.      (* errNegativeInputSize *)
Definition E_array_overflow := 7.     (* errArrayOffsetOverflow *)
Definition E_bad_bool := 8.
Definition E_hash_len := 9.
Definition E_empty_input := 10.
Definition E_no_method := 11.
Definition E_input_too_long := 12.

(* Go int (64 bit) arithmetic *)
Definition iadd (a b : Z) : Z := wrapS 64 (a + b).
Definition isub (a b : Z) : Z := wrapS 64 (a - b).
Definition imul (a b : Z) : Z := wrapS 64 (a * b).

Definition len (l : bytes) : Z := Z.of_nat (length l).
Definition is_byte (b : Z) : Prop := 0 <= b < 256.

(* l[lo:hi] — panics unless 0 <= lo <= hi <= len(l) (the model uses len where Go allows cap: it panics at least
   as often as the implementation) *)
Definition slice (l : bytes) (lo hi : Z) : option bytes :=
  if (0 <=? lo) && (lo <=? hi) && (hi <=? len l)
  then Some (firstn (Z.to_nat (hi - lo)) (skipn (Z.to_nat lo) l)) else None.
(* l[lo:] *)
Definition slice_from (l : bytes) (lo : Z) : option bytes := slice l lo (len l).

Definition WordSize := 32.

Definition requires_prefix (t : ty) : bool :=
  match t with TString | TBytes | TSlice _ => true | _ => false end.

(* int(x.Uint64()) for a big.Int x *)
Definition big_to_int (x : Z) : Z := to_int64 (big_uint64 x).

(* unpack.go lengthPrefixPointsTo *)
Definition length_prefix_points_to (index : Z) (output : bytes) : ures (Z * Z) :=
  match slice output index (iadd index WordSize) with
  | None => UPanic
  | Some w =>
    let bigOffsetEnd := be_value w + 32 in
    let outputLength := len output in
    if outputLength <? bigOffsetEnd then UErr E_slice_offset else
    if 63 <? bitlen bigOffsetEnd then UErr E_offset_overflow else
    let offsetEnd := big_to_int bigOffsetEnd in
    match slice output (isub offsetEnd WordSize) offsetEnd with
    | None => UPanic
    | Some lw =>
      let lengthBig := be_value lw in
      let totalSize := bigOffsetEnd + lengthBig in
      if 63 <? bitlen totalSize then UErr E_length_overflow else
      if outputLength <? totalSize then UErr E_insufficient_big else
      UOk (big_to_int bigOffsetEnd, big_to_int lengthBig)
    end
  end.

(* two's complement reinterpretation at n bits *)
Definition signed (n : Z) (x : Z) : Z := wrapS n x.

(* unpack.go readInteger: b is the 32-byte word; b[len(b)-k:] *)
Definition read_integer (unsigned : bool) (bits : Z) (w : bytes) : ures val :=
  let k := if bits =? 8 then 1 else if bits =? 16 then 2 else if bits =? 32 then 4 else if bits =? 64 then 8 else 0 in
  if k =? 0 then UOk (VInt (be_value w))                 (* default: new(big.Int).SetBytes(b) *)
  else match slice_from w (isub (len w) k) with
       | None => UPanic
       | Some s => UOk (VInt (if unsigned then be_value s else signed bits (be_value s)))
       end.

(* unpack.go readBool *)
Definition read_bool (w : bytes) : ures val :=
  match slice w 0 31 with
  | None => UPanic
  | Some hd =>
    if negb (forallb (fun b => b =? 0) hd) then UErr E_bad_bool else
    match nth_error w 31 with
    | None => UPanic
    | Some b => if b =? 0 then UOk (VBool false) else if b =? 1 then UOk (VBool true) else UErr E_bad_bool
    end
  end.

(* unpack.go getFullElemSize *)
Fixpoint full_elem_size (e : ty) : Z :=
  match e with TArray n e' => imul n (full_elem_size e') | _ => WordSize end.
(* argument.go getArraySize (for an array type) *)
Fixpoint array_words (t : ty) : Z :=
  match t with TArray n e => imul n (array_words e) | _ => 1 end.

(* unpack.go forEachUnpack; [f i output] is toGoType(i, *t.Elem, output) *)
Fixpoint each_loop (f : Z -> bytes -> ures val) (elemSize : Z) (output : bytes) (n : nat) (i : Z) : ures (list val) :=
  match n with
  | O => UOk []
  | S k => ubind (f i output) (fun v =>
           ubind (each_loop f elemSize output k (iadd i elemSize)) (fun vs => UOk (v :: vs)))
  end.
Definition for_each (f : Z -> bytes -> ures val) (elemSize : Z) (output : bytes) (start size : Z) : ures val :=
  if size <? 0 then UErr E_negative_size else
  if len output <? iadd start (imul WordSize size) then UErr E_array_overflow else
  ubind (each_loop f elemSize output (Z.to_nat size) start) (fun vs => UOk (VList vs)).

(* unpack.go toGoType *)
Fixpoint to_go (t : ty) (index : Z) (output : bytes) {struct t} : ures val :=
  if len output <? iadd index WordSize then UErr E_insufficient else
  match t with
  | TSlice e =>
    ubind (length_prefix_points_to index output) (fun bl =>
      match slice_from output (fst bl) with
      | None => UPanic
      | Some sub => for_each (to_go e) WordSize sub 0 (snd bl)
      end)
  | TArray n e =>
    match slice output index (iadd index WordSize) with   (* returnOutput is sliced for arrays as well *)
    | None => UPanic
    | Some _ => for_each (to_go e) (full_elem_size e) output index n
    end
  | TString | TBytes =>
    ubind (length_prefix_points_to index output) (fun bl =>
      match slice output (fst bl) (iadd (fst bl) (snd bl)) with
      | None => UPanic
      | Some s => UOk (VBytes s)
      end)
  | _ =>
    match slice output index (iadd index WordSize) with
    | None => UPanic
    | Some w =>
      match t with
      | TUint bits => read_integer true bits w
      | TInt bits => read_integer false bits w
      | TBool => read_bool w
      | TAddress => match slice w 12 32 with None => UPanic | Some s => UOk (VBytes s) end
      | TZts => match slice w 22 32 with None => UPanic | Some s => UOk (VBytes s) end
      | THash => match slice w 0 32 with
                 | None => UPanic
                 | Some s => if len s =? 32 then UOk (VBytes s) else UErr E_hash_len
                 end
      | TFixed n => match slice w 0 n with None => UPanic | Some s => UOk (VBytes s) end
      | _ => UErr 0
      end
    end
  end.

(* argument.go UnpackValues: [slot] is index+virtualArgs *)
Fixpoint unpack_from (tys : list ty) (slot : Z) (data : bytes) : ures (list val) :=
  match tys with
  | [] => UOk []
  | t :: r =>
    ubind (to_go t (imul slot WordSize) data) (fun v =>
    let slot' := match t with TArray _ _ => iadd slot (isub (array_words t) 1) | _ => slot end in
    ubind (unpack_from r (iadd slot' 1) data) (fun vs => UOk (v :: vs)))
  end.
Definition unpack_values (tys : list ty) (data : bytes) : ures (list val) := unpack_from tys 0 data.

(* the decoder for one type: a single-argument list *)
Definition unpack (t : ty) (data : bytes) : ures val :=
  ubind (unpack_values [t] data) (fun vs => match vs with [v] => UOk v | _ => UErr 0 end).

(* abi.go UnpackMethod for the method with selector [sel] and input types [tys] *)
Definition unpack_method (sel : bytes) (tys : list ty) (input : bytes) : ures (list val) :=
  if len input <=? 4 then UErr E_empty_input else
  match slice input 0 4 with
  | None => UPanic
  | Some s =>
    if bytes_eqb s sel then
      match slice_from input 4 with None => UPanic | Some d => unpack_values tys d end
    else UErr E_no_method
  end.

(* abi.go UnpackEmptyMethod *)
Definition unpack_empty_method (sel : bytes) (input : bytes) : ures unit :=
  if len input <? 4 then UErr E_empty_input else
  if 4 <? len input then UErr E_input_too_long else
  match slice input 0 4 with
  | None => UPanic
  | Some s => if bytes_eqb s sel then UOk tt else UErr E_no_method
  end.

(* types as NewType can build them: array sizes positive, bytesN with N <= 32, and the static size of an array
   (number of words incl. nested arrays) small enough that Go's int arithmetic on it cannot wrap *)
Fixpoint words (t : ty) : Z := match t with TArray n e => n * words e | _ => 1 end.
Definition MaxWords : Z := 1048576.
Fixpoint wf_ty (t : ty) : Prop :=
  match t with
  | TArray n e => 0 < n /\ wf_ty e /\ words t <= MaxWords
  | TSlice e => wf_ty e
  | TFixed n => 0 < n <= 32
  | _ => True
  end.
Definition MaxData : Z := 1099511627776.   (* 2^40: no Go byte slice in this program is longer *)
