(* Executable model of the versioned store of /repo/common/db:
   enable_delete.go (value encoding: [] = not present, 0 :: v = present v), merged.go (first layer that has
   the key wins), memdb.go / patch.go (ordered Put/Delete patches, ApplyPatch, ApplyWithoutOverride,
   RollbackPatch), store.go (frontier keys), versioned_db.go (ldbManager: Get with the overlay cache, Add, Pop,
   GetPatch; after the fix: commits), and the DB views handed out by the manager (Get/Has/Put/Delete/
   NewIterator/Snapshot/Changes).
   Not modelled: the key prefix 0x55 of the frontier sub-database (a bijection on keys), LRU capacity (eviction is
   the explicit operation OEvict), goleveldb itself (a finite map with snapshots). *)
From ZV Require Import Prelude.
From stdpp Require Import gmap sorting.
From ZV Require Import Prelude.
Open Scope Z_scope.

Notation key := (list Z) (only parsing).
Notation value := (list Z) (only parsing).
Notation enc := (list Z) (only parsing).
Notation raw := (gmap key enc).

Inductive pop := PPut (k : key) (v : value) | PDel (k : key).
Notation patch := (list pop) (only parsing).
Definition pkey (o : pop) : key := match o with PPut k _ => k | PDel k => k end.

(* enableDeleteDB.Get / Has *)
Definition dec (e : option enc) : option value :=
  match e with Some (_ :: v) => Some v | _ => None end.
Definition enc_op (o : pop) : enc := match o with PPut _ v => 0 :: v | PDel _ => [] end.
Definition dec_op (o : pop) : option value := match o with PPut _ v => Some v | PDel _ => None end.

(* ApplyPatch through enableDelete: Put k v stores 0::v, Delete k stores the empty value *)
Definition raw_apply1 (m : raw) (o : pop) : raw := <[pkey o := enc_op o]> m.
Definition raw_apply (m : raw) (p : patch) : raw := foldl raw_apply1 m p.

(* ApplyWithoutOverride (patchApplierWO): only keys the overlay does not have yet *)
Definition wo_apply1 (ov : raw) (o : pop) : raw :=
  match ov !! pkey o with Some _ => ov | None => raw_apply1 ov o end.
Definition wo_apply (ov : raw) (p : patch) : raw := foldl wo_apply1 ov p.

(* RollbackPatch: for every entry of the patch, in order, the value the key has in [get] *)
Definition rollback_patch (get : key -> option value) (p : patch) : patch :=
  map (fun o => match get (pkey o) with Some v => PPut (pkey o) v | None => PDel (pkey o) end) p.

(* ---- identifiers and the frontier keys of store.go *)
Notation ident := (list Z * Z)%type (only parsing).           (* hash, height *)
Definition zero_hash : list Z := repeat 0 32%nat.
Definition zero_id : ident := (zero_hash, 0).
Definition k_frontier : key := [0].
Definition k_hash (h : list Z) : key := 1 :: h.
Definition k_height (n : Z) : key := 2 :: be_bytes 8 n.
(* the harness compares the value under k_frontier as (height, hash); see canonVal in harness/cmd/c07 *)
Definition ser_id (i : ident) : value := be_bytes 8 (snd i) ++ fst i.
Definition parse_id (v : value) : ident := (skipn 8 v, be_value (firstn 8 v)).
Definition frontier_ops (i : ident) (data : value) : patch :=
  [PPut k_frontier (ser_id i); PPut (k_hash (fst i)) (be_bytes 8 (snd i)); PPut (k_height (snd i)) data].

Definition frontier_id (F : raw) : ident :=
  match dec (F !! k_frontier) with Some v => parse_id v | None => zero_id end.
Definition id_by_hash (F : raw) (h : list Z) : option ident :=
  match dec (F !! k_hash h) with Some v => Some (h, be_value v) | None => None end.

(* ---- manager *)
Record mgr := Mgr {
  m_front : raw;                      (* leveldb, frontier sub-database, encoded values *)
  m_redo : gmap Z patch;              (* patchByte ++ height *)
  m_undo : gmap Z patch;              (* rollbackByte ++ height *)
  m_cache : gmap ident (ident * raw)  (* l1/l2 cache: identifier -> (frontier when filled, overlay) *)
}.
Definition mgr_init : mgr := Mgr ∅ ∅ ∅ ∅.

(* the loop of ldbManager.Get: undo patches of heights h+1 .. h+cnt, without override *)
Fixpoint ov_loop (undo : gmap Z patch) (h : Z) (cnt : nat) (ov : raw) : option raw :=
  match cnt with
  | O => Some ov
  | S c => match undo !! (h + 1) with
           | None => None                 (* nil patch: the Go code would dereference nil *)
           | Some u => ov_loop undo (h + 1) c (wo_apply ov u)
           end
  end.

Inductive get_res :=
| GNil                                   (* manager returns nil *)
| GPanic
| GView (ov base : raw) (m' : mgr).      (* view = overlay over a snapshot of the frontier; manager with updated cache *)

Definition ident_eqb (a b : ident) : bool := bool_decide (a = b).

Definition mgr_get (m : mgr) (i : ident) : get_res :=
  let F := m_front m in
  let fid := frontier_id F in
  if ident_eqb i zero_id then GView ∅ ∅ m
  else if ident_eqb i fid then GView ∅ F m
  else match id_by_hash F (fst i) with
       | None => GNil
       | Some ti =>
         if negb (ident_eqb ti i) then GNil else
         let '(to, ov0) := match m_cache m !! i with
                           | Some (cf, ov) => (snd cf, ov)
                           | None => (snd i, ∅)
                           end in
         match ov_loop (m_undo m) to (Z.to_nat (snd fid - to)) ov0 with
         | None => GPanic
         | Some ov => GView ov F (Mgr F (m_redo m) (m_undo m) (<[i := (fid, ov)]> (m_cache m)))
         end
       end.

Inductive step_res (A : Type) := ROk (a : A) (ok : bool) | RPanic.
Arguments ROk {A}. Arguments RPanic {A}.

(* ldbManager.Add for a single-commit transaction (prev, cid, data, patch) *)
Definition mgr_add (m : mgr) (prev cid : ident) (data : value) (p : patch) : step_res mgr :=
  match mgr_get m prev with
  | GNil => ROk m false                                  (* "can't find prev" *)
  | GPanic => RPanic
  | GView ov base m1 =>
    let full := p ++ frontier_ops cid data in
    let undo := rollback_patch (fun k => dec ((ov ∪ base) !! k)) full in
    if ident_eqb prev (frontier_id (m_front m1)) then
      ROk (Mgr (raw_apply (m_front m1) full)
               (<[snd cid := full]> (m_redo m1))
               (<[snd cid := undo]> (m_undo m1))
               (m_cache m1)) true
    else ROk m1 true                                      (* refused, silently *)
  end.

Definition mgr_pop (m : mgr) : step_res mgr :=
  let fid := frontier_id (m_front m) in
  match m_undo m !! snd fid with
  | None => RPanic
  | Some u => ROk (Mgr (raw_apply (m_front m) u) (delete (snd fid) (m_redo m)) (delete (snd fid) (m_undo m)) ∅) true
  end.

Definition mgr_get_patch (m : mgr) (i : ident) : option patch := m_redo m !! snd i.
Definition mgr_evict (m : mgr) : mgr := Mgr (m_front m) (m_redo m) (m_undo m) ∅.

(* subDB: the part of a map under a key prefix, with the prefix removed from the keys *)
Fixpoint has_prefix (p k : list Z) : bool :=
  match p, k with
  | [], _ => true
  | x :: p', y :: k' => (x =? y) && has_prefix p' k'
  | _ :: _, [] => false
  end.
Definition strip (pre k : list Z) : option (list Z) :=
  if has_prefix pre k then Some (drop (length pre) k) else None.
Definition sub_map {A} (pre : list Z) (m : gmap (list Z) A) : gmap (list Z) A :=
  list_to_map (omap (fun kv => (fun k' => (k', snd kv)) <$> strip pre (fst kv)) (map_to_list m)).
Definition prefix_op (pre : list Z) (o : pop) : pop :=
  match o with PPut k v => PPut (pre ++ k) v | PDel k => PDel (pre ++ k) end.

(* ---- views. A view is numbered at creation; a snapshot reads through its parent (live). *)
Inductive vnode :=
| VRoot (local ov base : raw)
| VSnap (local : raw) (parent : Z)
| VSub (pre : list Z) (parent : Z).     (* DB.Subset(prefix): a window onto the parent, writes go to the parent *)
Notation vtable := (gmap Z vnode).

(* the encoded content of a view: its own writes over what lies below *)
Fixpoint vmap (fuel : nat) (vs : vtable) (id : Z) : raw :=
  match fuel with
  | O => ∅
  | S f => match vs !! id with
           | None => ∅
           | Some (VRoot local ov base) => local ∪ (ov ∪ base)
           | Some (VSnap local parent) => local ∪ vmap f vs parent
           | Some (VSub pre parent) => sub_map pre (vmap f vs parent)
           end
  end.
Definition vfuel (vs : vtable) : nat := S (size vs).

Definition vget (vs : vtable) (id : Z) (k : key) : option value := dec (vmap (vfuel vs) vs id !! k).
Definition vlocal (n : vnode) : raw := match n with VRoot l _ _ => l | VSnap l _ => l | VSub _ _ => ∅ end.
Definition vset_local (n : vnode) (l : raw) : vnode :=
  match n with VRoot _ ov b => VRoot l ov b | VSnap _ p => VSnap l p | VSub pre p => VSub pre p end.
(* a write through a subset lands, with the prefix added, in the view the subset was taken from *)
Fixpoint vwrite_f (fuel : nat) (vs : vtable) (id : Z) (o : pop) : vtable :=
  match fuel with
  | O => vs
  | S f => match vs !! id with
           | Some (VSub pre p) => vwrite_f f vs p (prefix_op pre o)
           | Some n => <[id := vset_local n (raw_apply1 (vlocal n) o)]> vs
           | None => vs
           end
  end.
Definition vwrite (vs : vtable) (id : Z) (o : pop) : vtable := vwrite_f (vfuel vs) vs id o.
(* the view's own writes, as Changes() reports them (changesInternal through subDB strips the prefix) *)
Fixpoint vwrites (fuel : nat) (vs : vtable) (id : Z) : raw :=
  match fuel with
  | O => ∅
  | S f => match vs !! id with
           | Some (VSub pre p) => sub_map pre (vwrites f vs p)
           | Some n => vlocal n
           | None => ∅
           end
  end.

(* lexicographic order of byte strings (goleveldb's default comparer) *)
Fixpoint lex_leb (a b : list Z) : bool :=
  match a, b with
  | [], _ => true
  | _ :: _, [] => false
  | x :: a', y :: b' => if x <? y then true else if y <? x then false else lex_leb a' b'
  end.
Definition kv_le (a b : key * value) : Prop := lex_leb (fst a) (fst b) = true.
Global Instance kv_le_dec a b : Decision (kv_le a b).
Proof. unfold kv_le. apply _. Defined.

(* decoded content: what Get/Has/iteration (skipping nil values) expose of an encoded map *)
Definition dec_enc (e : enc) : option value := match e with _ :: v => Some v | [] => None end.
Definition omap_dec (m : raw) : gmap key value := omap dec_enc m.

(* ordered prefix scan, as a caller that skips nil values sees it *)
Definition ascan (Sm : gmap key value) (p : key) : list (key * value) :=
  merge_sort kv_le (List.filter (fun kv => has_prefix p (fst kv)) (map_to_list Sm)).
Definition scan_of (m : raw) (p : key) : list (key * value) := ascan (omap_dec m) p.
Definition vscan (vs : vtable) (id : Z) (p : key) : list (key * value) := scan_of (vmap (vfuel vs) vs id) p.

(* Changes(): the view's own writes, in key order, decoded (enableDeletePatch) *)
Definition kvo_le (a b : key * option value) : Prop := lex_leb (fst a) (fst b) = true.
Global Instance kvo_le_dec a b : Decision (kvo_le a b).
Proof. unfold kvo_le. apply _. Defined.
Definition achanges (la : gmap key (option value)) : patch :=
  map (fun kv => match snd kv with None => PDel (fst kv) | Some v => PPut (fst kv) v end)
      (merge_sort kvo_le (map_to_list la)).
Definition changes_of (local : raw) : patch := achanges (dec_enc <$> local).

(* ---- the machine driven by the harness *)
Inductive op :=
| OAdd (prev cid : ident) (data : value) (p : patch)
| OPop
| OGet (v : Z) (i : ident)
| OVGet (v : Z) (k : key)
| OVHas (v : Z) (k : key)
| OVScan (v : Z) (p : key)
| OVPut (v : Z) (k : key) (x : value)
| OVDel (v : Z) (k : key)
| OVSnap (v nv : Z)
| OVChanges (v : Z)
| OVSub (v nv : Z) (pre : list Z)
| OVApply (v : Z) (p : list pop)
| OEvict
| OGetPatch (i : ident).

Inductive ans :=
| ABool (b : bool)
| AKind (k : Z)
| AOpt (o : option value)
| AScan (l : list (key * value))
| APatch (p : patch)
| AOptPatch (o : option patch)
| AUnit
| APanicked.

Record state := St { s_mgr : mgr; s_views : vtable }.
Definition st_init : state := St mgr_init ∅.

Definition step (s : state) (o : op) : state * ans :=
  let m := s_mgr s in
  let vs := s_views s in
  match o with
  | OAdd prev cid data p =>
    match mgr_add m prev cid data p with
    | ROk m' ok => (St m' vs, ABool ok)
    | RPanic => (s, APanicked)
    end
  | OPop => match mgr_pop m with ROk m' ok => (St m' vs, ABool ok) | RPanic => (s, APanicked) end
  | OGet v i =>
    match mgr_get m i with
    | GNil => (St m (delete v vs), AKind 0)
    | GPanic => (s, APanicked)
    | GView ov base m' => (St m' (<[v := VRoot ∅ ov base]> vs), AKind 1)
    end
  | OVGet v k => (s, AOpt (vget vs v k))
  | OVHas v k => (s, ABool (match vget vs v k with Some _ => true | None => false end))
  | OVScan v p => (s, AScan (vscan vs v p))
  | OVPut v k x => (St m (vwrite vs v (PPut k x)), AUnit)
  | OVDel v k => (St m (vwrite vs v (PDel k)), AUnit)
  | OVSnap v nv => (St m (<[nv := VSnap ∅ v]> vs), AUnit)
  | OVChanges v => (s, APatch (changes_of (vwrites (vfuel vs) vs v)))
  | OVSub v nv pre => (St m (<[nv := VSub pre v]> vs), AUnit)
  | OVApply v p => (St m (foldl (fun vs o => vwrite vs v o) vs p), AUnit)
  | OEvict => (St (mgr_evict m) vs, AUnit)
  | OGetPatch i => (s, AOptPatch (mgr_get_patch m i))
  end.

Fixpoint run (s : state) (ops : list op) : list ans :=
  match ops with
  | [] => []
  | o :: r => let '(s', a) := step s o in a :: run s' r
  end.
