(* C10 — the hand model of the release methods IS the source. Emb.v's cancel_stake_receive (the model the backing theorems
   over all queues are about, tied to the real node by differential evaluation) against stake.CancelStakeMethod.ReceiveBlock
   as translated from /repo by go2coq on every run (gen/PureRelease.v): with the translation's inputs instantiated by what
   the model reads — the verdict of ValidateSendBlock, the entry found under (sender ++ id) with its RevokeTime / Amount /
   ExpirationTime, the frontier time; the entry's StakeAddress is the sender, as Stake stores it under that key — the
   source pays exactly where the model pays, refuses with the model's verdict, and writes the model's entry. *)
From ZV Require Import Prelude GoSem Abi VmReceive VmReceiveProofs Emb EmbProofs.
From ZV.gen Require Import Consts Pure PureRelease.
Open Scope Z_scope.

Section StakeSource.
  Variable num : bytes -> Z.      (* addresses as numbers *)

  Theorem cancel_stake_is_source (e : env) (a : cacct sstore) (s : send) :
    match cancel_stake_validate s with
    | VErr c =>
        cancel_stake_receive e a s = MErr c /\
        (c <> 0 -> forall rt amt u g f exp now sv own,
           CancelStake_receive rt amt c u g f exp now sv own = Ok (nil, c, rt, amt, None))
    | VPanic => cancel_stake_receive e a s = MPanic
    | VOk id =>
        match tget (a_store a) (s_from s ++ id) with
        | None =>
            cancel_stake_receive e a s = MErr E_nonexistent /\
            forall rt amt f exp now sv own,
              CancelStake_receive rt amt 0 0 Err_constants_ErrDataNonExistent f exp now sv own =
              Ok (nil, Err_constants_ErrDataNonExistent, rt, amt, None)
        | Some ent =>
            let src := CancelStake_receive (k_revoke ent) (k_amount ent) 0 0 0 0 (k_exp ent) (e_now e) 0 (num (s_from s)) in
            if e_now e <? k_exp ent then
              cancel_stake_receive e a s = MErr E_revoke_not_due /\
              src = Ok (nil, Err_constants_RevokeNotDue, k_revoke ent, k_amount ent, None)
            else
              exists a',
                cancel_stake_receive e a s =
                  MOk a' [{| d_to := s_from s; d_amount := k_amount ent; d_zts := ZtsZnn; d_data := [] |}] /\
                src = Ok ([(num (s_from s), k_amount ent, ZnnTokenStandard)], 0, e_now e, 0, Some 1) /\
                (exists ent', tget (a_store a') (s_from s ++ id) = Some ent' /\
                   k_amount ent' = 0 /\ k_revoke ent' = e_now e /\ k_exp ent' = k_exp ent)
        end
    end.
  Proof.
    unfold cancel_stake_receive.
    destruct (cancel_stake_validate s) as [id|c|].
    - destruct (tget (a_store a) (s_from s ++ id)) as [ent|].
      + cbv zeta. unfold CancelStake_receive. cbv zeta. change (0 =? 0) with true. cbn [negb guard].
        assert (Hne : (0 =? Err_constants_ErrDataNonExistent) = false) by reflexivity. rewrite Hne.
        destruct (e_now e <? k_exp ent) eqn:Ed.
        * split; reflexivity.
        * eexists. split; [reflexivity|]. split; [reflexivity|].
          eexists. split; [cbn [a_store with_store]; rewrite tget_tput, bytes_eqb_refl; reflexivity|].
          cbn. repeat split; reflexivity.
      + split; [reflexivity|]. intros rt amt f exp now sv own.
        unfold CancelStake_receive. cbv zeta. change (0 =? 0) with true. cbn [negb guard].
        rewrite Z.eqb_refl. reflexivity.
    - split; [reflexivity|]. intros Hc rt amt u g f exp now sv own.
      unfold CancelStake_receive. cbv zeta.
      assert ((c =? 0) = false) as -> by lia. reflexivity.
    - reflexivity.
  Qed.
End StakeSource.
