(* C10 — the hand model of the release methods IS the source. Emb.v's cancel_stake_receive (the model the backing theorems
   over all queues are about, tied to the real node by differential evaluation) against stake.CancelStakeMethod.ReceiveBlock
   as translated from /repo by go2coq on every run (gen/PureRelease.v): with the translation's inputs instantiated by what
   the model reads — the verdict of ValidateSendBlock, the entry found under (sender ++ id) with its RevokeTime / Amount /
   ExpirationTime, the frontier time; the entry's StakeAddress is the sender, as Stake stores it under that key — the
   source pays exactly where the model pays, refuses with the model's verdict, and writes the model's entry. *)
From ZV Require Import Prelude GoSem Abi VmReceive VmReceiveProofs Emb EmbProofs.
From ZV.gen Require Import Consts Pure PureRelease.
Open Scope Z_scope.

Section StakeSource.
  Variable num : bytes -> Z.      (* addresses as numbers *)

  Theorem cancel_stake_is_source (e : env) (a : cacct sstore) (s : send) :
    match cancel_stake_validate s with
    | VErr c =>
        cancel_stake_receive e a s = MErr c /\
        (c <> 0 -> forall rt amt u g f exp now sv own,
           CancelStake_receive rt amt c u g f exp now sv own = Ok (nil, c, rt, amt, None))
    | VPanic => cancel_stake_receive e a s = MPanic
    | VOk id =>
        match tget (a_store a) (s_from s ++ id) with
        | None =>
            cancel_stake_receive e a s = MErr E_nonexistent /\
            forall rt amt f exp now sv own,
              CancelStake_receive rt amt 0 0 Err_constants_ErrDataNonExistent f exp now sv own =
              Ok (nil, Err_constants_ErrDataNonExistent, rt, amt, None)
        | Some ent =>
            let src := CancelStake_receive (k_revoke ent) (k_amount ent) 0 0 0 0 (k_exp ent) (e_now e) 0 (num (s_from s)) in
            if e_now e <? k_exp ent then
              cancel_stake_receive e a s = MErr E_revoke_not_due /\
              src = Ok (nil, Err_constants_RevokeNotDue, k_revoke ent, k_amount ent, None)
            else
              exists a',
                cancel_stake_receive e a s =
                  MOk a' [{| d_to := s_from s; d_amount := k_amount ent; d_zts := ZtsZnn; d_data := [] |}] /\
                src = Ok ([(num (s_from s), k_amount ent, ZnnTokenStandard)], 0, e_now e, 0, Some 1) /\
                (exists ent', tget (a_store a') (s_from s ++ id) = Some ent' /\
                   k_amount ent' = 0 /\ k_revoke ent' = e_now e /\ k_exp ent' = k_exp ent)
        end
    end.
  Proof.
    unfold cancel_stake_receive.
    destruct (cancel_stake_validate s) as [id|c|].
    - destruct (tget (a_store a) (s_from s ++ id)) as [ent|].
      + cbv zeta. unfold CancelStake_receive. cbv zeta. change (0 =? 0) with true. cbn [negb guard].
        assert (Hne : (0 =? Err_constants_ErrDataNonExistent) = false) by reflexivity. rewrite Hne.
        destruct (e_now e <? k_exp ent) eqn:Ed.
        * split; reflexivity.
        * eexists. split; [reflexivity|]. split; [reflexivity|].
          eexists. split; [cbn [a_store with_store]; rewrite tget_tput, bytes_eqb_refl; reflexivity|].
          cbn. repeat split; reflexivity.
      + split; [reflexivity|]. intros rt amt f exp now sv own.
        unfold CancelStake_receive. cbv zeta. change (0 =? 0) with true. cbn [negb guard].
        rewrite Z.eqb_refl. reflexivity.
    - split; [reflexivity|]. intros Hc rt amt u g f exp now sv own.
      unfold CancelStake_receive. cbv zeta.
      assert ((c =? 0) = false) as -> by lia. reflexivity.
    - reflexivity.
  Qed.
End StakeSource.

(* WithdrawQsr (common.go): the deposit found under the sender (absent = 0, as GetQsrDeposit answers), paid out whole to
   the sender and the entry deleted; nothing to withdraw = refusal. DepositQsr: the model adds the received amount. *)
Section QsrSource.
  Variable num : bytes -> Z.

  Theorem withdraw_qsr_is_source (self : bytes) (a : cacct cstore) (s : send) :
    let cur := match tget (q_dep (a_store a)) (s_from s) with Some v => v | None => 0 end in
    match withdraw_qsr_validate s with
    | VErr c =>
        withdraw_qsr_receive self a s = MErr c /\
        (c <> 0 -> forall g q d own, WithdrawQsr_receive c g q d own = Ok (nil, c, None))
    | VPanic => withdraw_qsr_receive self a s = MPanic
    | VOk _ =>
        let src := WithdrawQsr_receive 0 0 cur 0 (num (s_from s)) in
        if cur =? 0 then
          withdraw_qsr_receive self a s = MErr E_nothing_to_withdraw /\
          src = Ok (nil, Err_constants_ErrNothingToWithdraw, None)
        else
          exists a',
            withdraw_qsr_receive self a s = MOk a' [{| d_to := s_from s; d_amount := cur; d_zts := ZtsQsr; d_data := [] |}] /\
            src = Ok ([(num (s_from s), cur, QsrTokenStandard)], 0, Some 1) /\
            tget (q_dep (a_store a')) (s_from s) = None
    end.
  Proof.
    cbv zeta. unfold withdraw_qsr_receive.
    destruct (withdraw_qsr_validate s) as [u|c|].
    - cbv zeta.
      set (cur := match tget (q_dep (a_store a)) (s_from s) with Some v => v | None => 0 end).
      unfold WithdrawQsr_receive. cbv zeta. change (0 =? 0) with true. cbn [negb guard].
      destruct (Z.eqb_spec cur 0) as [H0|H0].
      + rewrite H0. split; reflexivity.
      + assert ((Z.sgn cur =? 0) = false) as -> by lia.
        eexists. split; [reflexivity|]. split; [reflexivity|].
        cbn [a_store with_store q_dep]. rewrite tget_tdel, bytes_eqb_refl. reflexivity.
    - split; [reflexivity|]. intros Hc g q d own. unfold WithdrawQsr_receive. cbv zeta.
      assert ((c =? 0) = false) as -> by lia. reflexivity.
    - reflexivity.
  Qed.

  Theorem deposit_qsr_is_source (a : cacct cstore) (s : send) :
    let cur := match tget (q_dep (a_store a)) (s_from s) with Some v => v | None => 0 end in
    match deposit_qsr_validate s with
    | VErr c =>
        deposit_qsr_receive a s = MErr c /\
        (c <> 0 -> forall q g amt sv, DepositQsr_receive q c g amt sv = Ok (nil, c, q, None))
    | VPanic => deposit_qsr_receive a s = MPanic
    | VOk _ =>
        exists a',
          deposit_qsr_receive a s = MOk a' [] /\
          DepositQsr_receive cur 0 0 (s_amount s) 0 = Ok (nil, 0, cur + s_amount s, Some 1) /\
          tget (q_dep (a_store a')) (s_from s) = Some (u256 (cur + s_amount s))
    end.
  Proof.
    cbv zeta. unfold deposit_qsr_receive.
    destruct (deposit_qsr_validate s) as [u|c|].
    - cbv zeta. eexists. split; [reflexivity|]. split; [reflexivity|].
      cbn [a_store with_store q_dep]. rewrite tget_tput, bytes_eqb_refl. reflexivity.
    - split; [reflexivity|]. intros Hc q g amt sv. unfold DepositQsr_receive. cbv zeta.
      assert ((c =? 0) = false) as -> by lia. reflexivity.
    - reflexivity.
  Qed.
End QsrSource.
