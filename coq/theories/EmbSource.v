(* C10 — the hand model of the release methods IS the source. Emb.v's cancel_stake_receive (the model the backing theorems
   over all queues are about, tied to the real node by differential evaluation) against stake.CancelStakeMethod.ReceiveBlock
   as translated from /repo by go2coq on every run (gen/PureRelease.v): with the translation's inputs instantiated by what
   the model reads — the verdict of ValidateSendBlock, the entry found under (sender ++ id) with its RevokeTime / Amount /
   ExpirationTime, the frontier time; the entry's StakeAddress is the sender, as Stake stores it under that key — the
   source pays exactly where the model pays, refuses with the model's verdict, and writes the model's entry. *)
From ZV Require Import Prelude GoSem Abi VmReceive VmReceiveProofs Emb EmbProofs.
From ZV.gen Require Import Consts Pure PureRelease.
Open Scope Z_scope.

Section StakeSource.
  Variable num : bytes -> Z.      (* addresses as numbers *)

  Theorem cancel_stake_is_source (e : env) (a : cacct sstore) (s : send) :
    match cancel_stake_validate s with
    | VErr c =>
        cancel_stake_receive e a s = MErr c /\
        (c <> 0 -> forall rt amt u g f exp now sv own,
           CancelStake_receive rt amt c u g f exp now sv own = Ok (nil, c, rt, amt, None))
    | VPanic => cancel_stake_receive e a s = MPanic
    | VOk id =>
        match tget (a_store a) (s_from s ++ id) with
        | None =>
            cancel_stake_receive e a s = MErr E_nonexistent /\
            forall rt amt f exp now sv own,
              CancelStake_receive rt amt 0 0 Err_constants_ErrDataNonExistent f exp now sv own =
              Ok (nil, Err_constants_ErrDataNonExistent, rt, amt, None)
        | Some ent =>
            let src := CancelStake_receive (k_revoke ent) (k_amount ent) 0 0 0 0 (k_exp ent) (e_now e) 0 (num (s_from s)) in
            if e_now e <? k_exp ent then
              cancel_stake_receive e a s = MErr E_revoke_not_due /\
              src = Ok (nil, Err_constants_RevokeNotDue, k_revoke ent, k_amount ent, None)
            else
              exists a',
                cancel_stake_receive e a s =
                  MOk a' [{| d_to := s_from s; d_amount := k_amount ent; d_zts := ZtsZnn; d_data := [] |}] /\
                src = Ok ([(num (s_from s), k_amount ent, ZnnTokenStandard)], 0, e_now e, 0, Some 1) /\
                (exists ent', tget (a_store a') (s_from s ++ id) = Some ent' /\
                   k_amount ent' = 0 /\ k_revoke ent' = e_now e /\ k_exp ent' = k_exp ent)
        end
    end.
  Proof.
    unfold cancel_stake_receive.
    destruct (cancel_stake_validate s) as [id|c|].
    - destruct (tget (a_store a) (s_from s ++ id)) as [ent|].
      + cbv zeta. unfold CancelStake_receive. cbv zeta. change (0 =? 0) with true. cbn [negb guard].
        assert (Hne : (0 =? Err_constants_ErrDataNonExistent) = false) by reflexivity. rewrite Hne.
        destruct (e_now e <? k_exp ent) eqn:Ed.
        * split; reflexivity.
        * eexists. split; [reflexivity|]. split; [reflexivity|].
          eexists. split; [cbn [a_store with_store]; rewrite tget_tput, bytes_eqb_refl; reflexivity|].
          cbn. repeat split; reflexivity.
      + split; [reflexivity|]. intros rt amt f exp now sv own.
        unfold CancelStake_receive. cbv zeta. change (0 =? 0) with true. cbn [negb guard].
        rewrite Z.eqb_refl. reflexivity.
    - split; [reflexivity|]. intros Hc rt amt u g f exp now sv own.
      unfold CancelStake_receive. cbv zeta.
      assert ((c =? 0) = false) as -> by lia. reflexivity.
    - reflexivity.
  Qed.
End StakeSource.

(* WithdrawQsr (common.go): the deposit found under the sender (absent = 0, as GetQsrDeposit answers), paid out whole to
   the sender and the entry deleted; nothing to withdraw = refusal. DepositQsr: the model adds the received amount. *)
Section QsrSource.
  Variable num : bytes -> Z.

  Theorem withdraw_qsr_is_source (self : bytes) (a : cacct cstore) (s : send) :
    let cur := match tget (q_dep (a_store a)) (s_from s) with Some v => v | None => 0 end in
    match withdraw_qsr_validate s with
    | VErr c =>
        withdraw_qsr_receive self a s = MErr c /\
        (c <> 0 -> forall g q d own, WithdrawQsr_receive c g q d own = Ok (nil, c, None))
    | VPanic => withdraw_qsr_receive self a s = MPanic
    | VOk _ =>
        let src := WithdrawQsr_receive 0 0 cur 0 (num (s_from s)) in
        if cur =? 0 then
          withdraw_qsr_receive self a s = MErr E_nothing_to_withdraw /\
          src = Ok (nil, Err_constants_ErrNothingToWithdraw, None)
        else
          exists a',
            withdraw_qsr_receive self a s = MOk a' [{| d_to := s_from s; d_amount := cur; d_zts := ZtsQsr; d_data := [] |}] /\
            src = Ok ([(num (s_from s), cur, QsrTokenStandard)], 0, Some 1) /\
            tget (q_dep (a_store a')) (s_from s) = None
    end.
  Proof.
    cbv zeta. unfold withdraw_qsr_receive.
    destruct (withdraw_qsr_validate s) as [u|c|].
    - cbv zeta.
      set (cur := match tget (q_dep (a_store a)) (s_from s) with Some v => v | None => 0 end).
      unfold WithdrawQsr_receive. cbv zeta. change (0 =? 0) with true. cbn [negb guard].
      destruct (Z.eqb_spec cur 0) as [H0|H0].
      + rewrite H0. split; reflexivity.
      + assert ((Z.sgn cur =? 0) = false) as -> by lia.
        eexists. split; [reflexivity|]. split; [reflexivity|].
        cbn [a_store with_store q_dep]. rewrite tget_tdel, bytes_eqb_refl. reflexivity.
    - split; [reflexivity|]. intros Hc g q d own. unfold WithdrawQsr_receive. cbv zeta.
      assert ((c =? 0) = false) as -> by lia. reflexivity.
    - reflexivity.
  Qed.

  Theorem deposit_qsr_is_source (a : cacct cstore) (s : send) :
    let cur := match tget (q_dep (a_store a)) (s_from s) with Some v => v | None => 0 end in
    match deposit_qsr_validate s with
    | VErr c =>
        deposit_qsr_receive a s = MErr c /\
        (c <> 0 -> forall q g amt sv, DepositQsr_receive q c g amt sv = Ok (nil, c, q, None))
    | VPanic => deposit_qsr_receive a s = MPanic
    | VOk _ =>
        exists a',
          deposit_qsr_receive a s = MOk a' [] /\
          DepositQsr_receive cur 0 0 (s_amount s) 0 = Ok (nil, 0, cur + s_amount s, Some 1) /\
          tget (q_dep (a_store a')) (s_from s) = Some (u256 (cur + s_amount s))
    end.
  Proof.
    cbv zeta. unfold deposit_qsr_receive.
    destruct (deposit_qsr_validate s) as [u|c|].
    - cbv zeta. eexists. split; [reflexivity|]. split; [reflexivity|].
      cbn [a_store with_store q_dep]. rewrite tget_tput, bytes_eqb_refl. reflexivity.
    - split; [reflexivity|]. intros Hc q g amt sv. unfold DepositQsr_receive. cbv zeta.
      assert ((c =? 0) = false) as -> by lia. reflexivity.
    - reflexivity.
  Qed.
End QsrSource.

(* plasma.CancelFuse: the fusion entry under (sender ++ id), the fused amount of its beneficiary (absent = 0) *)
Section PlasmaSource.
  Variable num : bytes -> Z.

  Theorem cancel_fuse_is_source (e : env) (a : cacct pstore) (s : send) :
    match cancel_fuse_validate s with
    | VErr c =>
        cancel_fuse_receive e a s = MErr c /\
        (c <> 0 -> forall fa u f g exph h ge amt d1 d2 own sv,
           CancelFuse_receive fa c u f g exph h ge amt d1 d2 own sv = Ok (nil, c, fa, None, None, None))
    | VPanic => cancel_fuse_receive e a s = MPanic
    | VOk id =>
        match tget (p_fusions (a_store a)) (s_from s ++ id) with
        | None =>
            cancel_fuse_receive e a s = MErr E_nonexistent /\
            forall fa exph h ge amt d1 d2 own sv,
              CancelFuse_receive fa 0 0 0 Err_constants_ErrDataNonExistent exph h ge amt d1 d2 own sv =
              Ok (nil, Err_constants_ErrDataNonExistent, fa, None, None, None)
        | Some ent =>
            let fused := match tget (p_fused (a_store a)) (f_ben ent) with Some v => v | None => 0 end in
            let src := CancelFuse_receive fused 0 0 0 0 (f_exp ent) (e_height e) 0 (f_amount ent) 0 0 (num (s_from s)) 0 in
            if e_height e <? f_exp ent then
              cancel_fuse_receive e a s = MErr E_revoke_not_due /\
              src = Ok (nil, Err_constants_RevokeNotDue, fused, None, None, None)
            else
              exists a',
                cancel_fuse_receive e a s =
                  MOk a' [{| d_to := s_from s; d_amount := f_amount ent; d_zts := ZtsQsr; d_data := [] |}] /\
                src = Ok ([(num (s_from s), f_amount ent, QsrTokenStandard)], 0, fused - f_amount ent, Some 1,
                          (if fused - f_amount ent =? 0 then Some 1 else None),
                          (if fused - f_amount ent =? 0 then None else Some 1)) /\
                tget (p_fusions (a_store a')) (s_from s ++ id) = None /\
                tget (p_fused (a_store a')) (f_ben ent) =
                  (if fused - f_amount ent =? 0 then None else Some (u256 (fused - f_amount ent)))
        end
    end.
  Proof.
    unfold cancel_fuse_receive.
    destruct (cancel_fuse_validate s) as [id|c|].
    - cbv zeta. destruct (tget (p_fusions (a_store a)) (s_from s ++ id)) as [ent|].
      + set (fused := match tget (p_fused (a_store a)) (f_ben ent) with Some v => v | None => 0 end).
        unfold CancelFuse_receive. cbv zeta. change (0 =? 0) with true. cbn [negb guard].
        assert (Hne : (0 =? Err_constants_ErrDataNonExistent) = false) by reflexivity. rewrite Hne.
        destruct (e_height e <? f_exp ent) eqn:Ed.
        * split; reflexivity.
        * destruct (Z.eqb_spec (fused - f_amount ent) 0) as [H0|H0].
          -- assert ((Z.sgn (fused - f_amount ent) =? 0) = true) as -> by lia.
             eexists. split; [reflexivity|]. split; [reflexivity|].
             cbn [a_store with_store p_fusions p_fused]. rewrite !tget_tdel, !bytes_eqb_refl. split; reflexivity.
          -- assert ((Z.sgn (fused - f_amount ent) =? 0) = false) as -> by lia.
             eexists. split; [reflexivity|]. split; [reflexivity|].
             cbn [a_store with_store p_fusions p_fused]. rewrite tget_tdel, tget_tput, !bytes_eqb_refl. split; reflexivity.
      + split; [reflexivity|]. intros fa exph h ge amt d1 d2 own sv.
        unfold CancelFuse_receive. cbv zeta. change (0 =? 0) with true. cbn [negb guard].
        rewrite Z.eqb_refl. reflexivity.
    - split; [reflexivity|]. intros Hc fa u f g exph h ge amt d1 d2 own sv.
      unfold CancelFuse_receive. cbv zeta.
      assert ((c =? 0) = false) as -> by lia. reflexivity.
    - reflexivity.
  Qed.
End PlasmaSource.

(* htlc.Reclaim / htlc.Unlock. [num]: an injective encoding of addresses as numbers (the translation compares addresses as
   numbers); the oracle input "hashed preimage equals the hash lock" is the model's comparison under the hash function H;
   the entry's KeyMaxSize is a uint8. *)
Section HtlcSource.
  Variable H : Z -> bytes -> bytes.
  Variable num : bytes -> Z.
  Hypothesis num_inj : forall x y, num x = num y -> x = y.

  Lemma num_eqb x y : (num x =? num y) = bytes_eqb x y.
  Proof.
    destruct (bytes_eqb x y) eqn:E.
    - apply bytes_eqb_eq in E. subst. apply Z.eqb_refl.
    - apply Z.eqb_neq. intros Hn. apply num_inj in Hn. subst. rewrite bytes_eqb_refl in E. discriminate.
  Qed.

  Theorem reclaim_htlc_is_source (e : env) (a : cacct hstore) (s : send) :
    match reclaim_validate s with
    | VErr c =>
        reclaim_receive e a s = MErr c /\
        (c <> 0 -> forall u g tl sender f now exp d amt zts,
           ReclaimHtlc_receive c u g tl sender f now exp d amt zts = Ok (nil, c, None))
    | VPanic => reclaim_receive e a s = MPanic
    | VOk id =>
        match tget (h_entries (a_store a)) id with
        | None =>
            reclaim_receive e a s = MErr E_nonexistent /\
            forall tl sender f now exp d amt zts,
              ReclaimHtlc_receive 0 0 Err_constants_ErrDataNonExistent tl sender f now exp d amt zts =
              Ok (nil, Err_constants_ErrDataNonExistent, None)
        | Some ent =>
            let src := ReclaimHtlc_receive 0 0 0 (num (h_timelocked ent)) (num (s_from s)) 0 (e_now e) (h_exp ent) 0
                         (h_amount ent) (num (h_zts ent)) in
            match reclaim_receive e a s with
            | MOk a' ds =>
                ds = [{| d_to := h_timelocked ent; d_amount := h_amount ent; d_zts := h_zts ent; d_data := [] |}] /\
                src = Ok ([(num (h_timelocked ent), h_amount ent, num (h_zts ent))], 0, Some 1) /\
                tget (h_entries (a_store a')) id = None
            | MErr c =>
                (c = E_permission /\ src = Ok (nil, Err_constants_ErrPermissionDenied, None)) \/
                (c = E_reclaim_not_due /\ src = Ok (nil, Err_constants_ReclaimNotDue, None))
            | MPanic => False
            end
        end
    end.
  Proof.
    unfold reclaim_receive.
    destruct (reclaim_validate s) as [id|c|].
    - cbv zeta. destruct (tget (h_entries (a_store a)) id) as [ent|].
      + unfold ReclaimHtlc_receive. cbv zeta. change (0 =? 0) with true. cbn [negb guard].
        assert (Hne : (0 =? Err_constants_ErrDataNonExistent) = false) by reflexivity. rewrite Hne.
        rewrite num_eqb.
        destruct (bytes_eqb (h_timelocked ent) (s_from s)); cbn [negb].
        * destruct (e_now e <? h_exp ent).
          -- right. split; reflexivity.
          -- split; [reflexivity|]. split; [reflexivity|].
             cbn [a_store with_store h_entries]. rewrite tget_tdel, bytes_eqb_refl. reflexivity.
        * left. split; reflexivity.
      + split; [reflexivity|]. intros tl sender f now exp d amt zts.
        unfold ReclaimHtlc_receive. cbv zeta. change (0 =? 0) with true. cbn [negb guard].
        rewrite Z.eqb_refl. reflexivity.
    - split; [reflexivity|]. intros Hc u g tl sender f now exp d amt zts.
      unfold ReclaimHtlc_receive. cbv zeta. assert ((c =? 0) = false) as -> by lia. reflexivity.
    - reflexivity.
  Qed.

  Theorem unlock_htlc_is_source (e : env) (a : cacct hstore) (s : send) :
    match unlock_validate s with
    | VErr c =>
        unlock_receive H e a s = MErr c /\
        (c <> 0 -> forall u g proxy pe sender hl f now exp plen kmax ht heq d amt zts,
           UnlockHtlc_receive c u g proxy pe sender hl f now exp plen kmax ht heq d amt zts = Ok (nil, c, None))
    | VPanic => unlock_receive H e a s = MPanic
    | VOk (id, pre) =>
        match tget (h_entries (a_store a)) id with
        | None =>
            unlock_receive H e a s = MErr E_nonexistent /\
            forall proxy pe sender hl f now exp plen kmax ht heq d amt zts,
              UnlockHtlc_receive 0 0 Err_constants_ErrDataNonExistent proxy pe sender hl f now exp plen kmax ht heq d amt zts =
              Ok (nil, Err_constants_ErrDataNonExistent, None)
        | Some ent =>
            0 <= h_keymax ent < 256 ->
            let src := UnlockHtlc_receive 0 0 0 (proxy_allowed (a_store a) (h_hashlocked ent)) 0 (num (s_from s))
                         (num (h_hashlocked ent)) 0 (e_now e) (h_exp ent) (len pre) (h_keymax ent) (h_type ent)
                         (bytes_eqb (H (h_type ent) pre) (h_lock ent)) 0 (h_amount ent) (num (h_zts ent)) in
            match unlock_receive H e a s with
            | MOk a' ds =>
                ds = [{| d_to := h_hashlocked ent; d_amount := h_amount ent; d_zts := h_zts ent; d_data := [] |}] /\
                src = Ok ([(num (h_hashlocked ent), h_amount ent, num (h_zts ent))], 0, Some 1) /\
                tget (h_entries (a_store a')) id = None
            | MErr c =>
                (c = E_permission /\ src = Ok (nil, Err_constants_ErrPermissionDenied, None)) \/
                (c = E_expired /\ src = Ok (nil, Err_constants_ErrExpired, None)) \/
                (c = E_preimage /\ src = Ok (nil, Err_constants_ErrInvalidPreimage, None))
            | MPanic => False
            end
        end
    end.
  Proof.
    unfold unlock_receive.
    destruct (unlock_validate s) as [[id pre]|c|].
    - cbv zeta. destruct (tget (h_entries (a_store a)) id) as [ent|].
      + intros Hk. unfold UnlockHtlc_receive. cbv zeta. change (0 =? 0) with true. cbn [negb guard].
        assert (Hne : (0 =? Err_constants_ErrDataNonExistent) = false) by reflexivity. rewrite Hne.
        rewrite num_eqb.
        rewrite (wrapS64_small (h_keymax ent)) by (unfold two63; lia).
        destruct (negb (proxy_allowed (a_store a) (h_hashlocked ent)) && negb (bytes_eqb (s_from s) (h_hashlocked ent))).
        * left. split; reflexivity.
        * destruct (h_exp ent <=? e_now e).
          -- right. left. split; reflexivity.
          -- destruct (h_keymax ent <? len pre).
             ++ right. right. split; reflexivity.
             ++ destruct (bytes_eqb (H (h_type ent) pre) (h_lock ent)); cbn [negb].
                ** split; [reflexivity|]. split.
                   --- destruct (h_type ent =? 0); [reflexivity|]. destruct (h_type ent =? 1); reflexivity.
                   --- cbn [a_store with_store h_entries]. rewrite tget_tdel, bytes_eqb_refl. reflexivity.
                ** right. right. split; [reflexivity|].
                   destruct (h_type ent =? 0); [reflexivity|]. destruct (h_type ent =? 1); reflexivity.
      + split; [reflexivity|]. intros proxy pe sender hl f now exp plen kmax ht heq d amt zts.
        unfold UnlockHtlc_receive. cbv zeta. change (0 =? 0) with true. cbn [negb guard].
        rewrite Z.eqb_refl. reflexivity.
    - split; [reflexivity|]. intros Hc u g proxy pe sender hl f now exp plen kmax ht heq d amt zts.
      unfold UnlockHtlc_receive. cbv zeta. assert ((c =? 0) = false) as -> by lia. reflexivity.
    - reflexivity.
  Qed.
End HtlcSource.
