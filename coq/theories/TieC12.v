(* Executable entry points compared with the implementation by ./check C12. *)
From ZV Require Import Prelude PoW Plasma.
Open Scope Z_scope.

(* in: (difficulty, 8-byte digest prefix); out: (target bytes, verdict) *)
Definition pow_check_run (i : Z * bytes) : bytes * bool := (target (fst i), check (fst i) (snd i)).
Definition pow_check_eqb (a b : bytes * bool) : bool := bytes_eqb (fst a) (fst b) && Bool.eqb (snd a) (snd b).

Definition plasma_in := (Z * Z * Z * Z * Z * Z * bool)%type.
Definition plasma_out := (Z * Z * Z)%type.
Definition plasma_check_run (i : plasma_in) : plasma_out :=
  let '(fa, c, u, base, f, d, pv) := i in
  match plasma_check fa c u base f d pv with
  | POk t b _ => (0, t, b)
  | PErr k => (k, 0, 0)
  | PPanic => (9, 0, 0)
  end.
Definition plasma_check_eqb (a b : plasma_out) : bool :=
  let '(x1, y1, z1) := a in let '(x2, y2, z2) := b in (x1 =? x2) && (y1 =? y2) && (z1 =? z2).

(* in: (is_receive, to_contract, found, key, data length); out: base plasma, -1 for the error case *)
Definition base_plasma_run (i : bool * bool * bool * Z * Z) : Z :=
  let '(r, c, f, k, l) := i in match base_plasma r c f k l with BOk b => b | BErr => -1 end.

(* a sequence of candidates of one account between two momentums.
   in: (fused QSR, committed chain plasma, uncommitted chain plasma before the first candidate,
        candidates (base cost computed by the harness, fused plasma, difficulty, PoW valid));
   out: per candidate (verdict, chain plasma read from the account's unconfirmed store after it) *)
Definition pool_in := (Z * Z * Z * list (Z * Z * Z * bool))%type.
Definition pool_trace_run (i : pool_in) : list (Z * Z) :=
  let '(fa, c, u, cs) := i in
  pool_trace fa c u (map (fun k => let '(b, f, d, pv) := k in {| c_base := b; c_f := f; c_d := d; c_pow := pv |}) cs).
Fixpoint pool_trace_eqb (a b : list (Z * Z)) : bool :=
  match a, b with
  | [], [] => true
  | (x1, y1) :: a', (x2, y2) :: b' => (x1 =? x2) && (y1 =? y2) && pool_trace_eqb a' b'
  | _, _ => false
  end.
