From ZV Require Import Prelude GoSem Abi Block BlockProofs BlockAccept BlockAcceptProofs AbiCanon.
Open Scope Z_scope.

Lemma set_data_same b : set_data b (ab_data b) = b.
Proof. destruct b; reflexivity. Qed.

Lemma set_data_wf x d : ab_wf x -> ab_wf (ABNode (set_data (body x) d) (desc x)).
Proof. intros []. destruct x as [b ds]. constructor; cbn in *; assumption. Qed.

Section CallAccept.
  Variable H : bytes -> bytes.
  Hypothesis H_len : forall x, length (H x) = 32%nat.
  Variable sel : bytes.
  Variable tys : list ty.
  Variable static_ok : bytes -> bool.

  (* An accepted call is stored exactly as it was delivered, and its call data is the canonical packing of the
     arguments it decodes to. "The hash pins content" is assumed for the two pre-images and the two data strings
     that occur. *)
  Theorem call_data_canonical (x s : AB) :
    ab_wf x ->
    accept_call H sel tys static_ok x = Some s ->
    (H (ab_preimage H x) = H (ab_preimage H s) -> ab_preimage H x = ab_preimage H s) ->
    (H (ab_data (body x)) = H (ab_data (body s)) -> ab_data (body x) = ab_data (body s)) ->
    s = x /\ is_canonical sel tys (ab_data (body s)).
  Proof.
    intros Hwf Hacc Hpre Hdata.
    unfold accept_call, accept_call_gen in Hacc.
    destruct (hash_ok H x) eqn:Eh; cbn [negb] in Hacc; [|discriminate].
    destruct (repack sel tys (ab_data (body x))) as [d'|] eqn:Er; [|discriminate].
    destruct (static_ok (ab_data (body x))); cbn [negb] in Hacc; [|discriminate].
    destruct (hash_ok H (ABNode (set_data (body x) d') (desc x))) eqn:Eh'; [|discriminate].
    injection Hacc as <-.
    apply hash_ok_eq in Eh. apply hash_ok_eq in Eh'.
    assert (Ehash : ab_hash (body (ABNode (set_data (body x) d') (desc x))) = ab_hash (body x)) by reflexivity.
    rewrite Ehash, Eh in Eh'.
    specialize (Hpre Eh').
    assert (Hcov : ab_covered x = ab_covered (ABNode (set_data (body x) d') (desc x))).
    { apply (ab_preimage_injective H H_len); auto.
      all: try (apply set_data_wf; exact Hwf).
      all: try (intros _; destruct x; reflexivity). }
    assert (Ed : ab_data (body x) = d').
    { apply (f_equal cv_data) in Hcov. exact Hcov. }
    subst d'. split.
    - rewrite set_data_same. destruct x; reflexivity.
    - unfold is_canonical. cbn [body]. rewrite set_data_same. exact Er.
  Qed.

  (* the other direction of the mechanism: if ValidateSendBlock returns before re-packing for some input, a
     non-canonical encoding of that input is accepted and stored as it is *)
  Theorem skipped_repack_refuted (x : AB) (d' : bytes) :
    hash_ok H x = true ->
    repack sel tys (ab_data (body x)) = Some d' -> d' <> ab_data (body x) ->
    static_ok (ab_data (body x)) = true ->
    accept_call_gen H sel tys static_ok (fun _ => true) x = Some x /\ ~ is_canonical sel tys (ab_data (body x)).
  Proof.
    intros Eh Er Hne Hs. split.
    - unfold accept_call_gen. rewrite Eh, Er, Hs. cbn [negb]. rewrite set_data_same.
      replace (ABNode (body x) (desc x)) with x by (destruct x; reflexivity). rewrite Eh. reflexivity.
    - unfold is_canonical. rewrite Er. intros E. injection E as E. contradiction.
  Qed.
End CallAccept.

(* non-vacuity: liquidity.SetTokenTuple(string[],uint32[],uint32[],uint256[]) with four empty lists.
   The canonical packing has four offsets and four length words; the encoding whose four offsets point at one
   shared zero word decodes to the same values and is not canonical. *)
Definition ex_tys : list ty := [TSlice TString; TSlice (TUint 32); TSlice (TUint 32); TSlice (TUint 256)].
Definition ex_shared : bytes := word256 128 ++ word256 128 ++ word256 128 ++ word256 128 ++ word256 0.
Example canonical_example :
  canonical_of ex_tys ex_shared =
  Some (word256 128 ++ word256 160 ++ word256 192 ++ word256 224 ++ word256 0 ++ word256 0 ++ word256 0 ++ word256 0).
Proof. vm_compute. reflexivity. Qed.
Example noncanonical_example : canonical_of ex_tys ex_shared <> Some ex_shared.
Proof. vm_compute. discriminate. Qed.
Example canonical_fixpoint_example :
  forall c, canonical_of ex_tys ex_shared = Some c -> canonical_of ex_tys c = Some c.
Proof. intros c E. vm_compute in E. injection E as <-. vm_compute. reflexivity. Qed.
