From ZV Require Import Prelude GoSem Abi Block BlockProofs BlockAccept BlockAcceptProofs AbiCanon.
Open Scope Z_scope.

Lemma set_data_same b : set_data b (ab_data b) = b.
Proof. destruct b; reflexivity. Qed.

Lemma set_data_wf x d : ab_wf x -> ab_wf (ABNode (set_data (body x) d) (desc x)).
Proof. intros []. destruct x as [b ds]. constructor; cbn in *; assumption. Qed.

Section CallAccept.
  Variable H : bytes -> bytes.
  Hypothesis H_len : forall x, length (H x) = 32%nat.
  Variable sel : bytes.
  Variable tys : list ty.
  Variable static_ok : bytes -> bool.

  (* An accepted call is stored exactly as it was delivered, and its call data is the canonical packing of the
     arguments it decodes to. "The hash pins content" is assumed for the two pre-images and the two data strings
     that occur. *)
  Theorem call_data_canonical (x s : AB) :
    ab_wf x ->
    accept_call H sel tys static_ok x = Some s ->
    (H (ab_preimage H x) = H (ab_preimage H s) -> ab_preimage H x = ab_preimage H s) ->
    (H (ab_data (body x)) = H (ab_data (body s)) -> ab_data (body x) = ab_data (body s)) ->
    s = x /\ is_canonical sel tys (ab_data (body s)).
  Proof.
    intros Hwf Hacc Hpre Hdata.
    unfold accept_call, accept_call_gen in Hacc.
    destruct (hash_ok H x) eqn:Eh; cbn [negb] in Hacc; [|discriminate].
    destruct (repack sel tys (ab_data (body x))) as [d'|] eqn:Er; [|discriminate].
    destruct (static_ok (ab_data (body x))); cbn [negb] in Hacc; [|discriminate].
    destruct (hash_ok H (ABNode (set_data (body x) d') (desc x))) eqn:Eh'; [|discriminate].
    injection Hacc as <-.
    apply hash_ok_eq in Eh. apply hash_ok_eq in Eh'.
    assert (Ehash : ab_hash (body (ABNode (set_data (body x) d') (desc x))) = ab_hash (body x)) by reflexivity.
    rewrite Ehash, Eh in Eh'.
    specialize (Hpre Eh').
    assert (Hcov : ab_covered x = ab_covered (ABNode (set_data (body x) d') (desc x))).
    { apply (ab_preimage_injective H H_len); auto.
      all: try (apply set_data_wf; exact Hwf).
      all: try (intros _; destruct x; reflexivity). }
    assert (Ed : ab_data (body x) = d').
    { apply (f_equal cv_data) in Hcov. exact Hcov. }
    subst d'. split.
    - rewrite set_data_same. destruct x; reflexivity.
    - unfold is_canonical. cbn [body]. rewrite set_data_same. exact Er.
  Qed.

  (* the other direction of the mechanism: if ValidateSendBlock returns before re-packing for some input, a
     non-canonical encoding of that input is accepted and stored as it is *)
  Theorem skipped_repack_refuted (x : AB) (d' : bytes) :
    hash_ok H x = true ->
    repack sel tys (ab_data (body x)) = Some d' -> d' <> ab_data (body x) ->
    static_ok (ab_data (body x)) = true ->
    accept_call_gen H sel tys static_ok (fun _ => true) x = Some x /\ ~ is_canonical sel tys (ab_data (body x)).
  Proof.
    intros Eh Er Hne Hs. split.
    - unfold accept_call_gen. rewrite Eh, Er, Hs. cbn [negb]. rewrite set_data_same.
      replace (ABNode (body x) (desc x)) with x by (destruct x; reflexivity). rewrite Eh. reflexivity.
    - unfold is_canonical. rewrite Er. intros E. injection E as E. contradiction.
  Qed.
End CallAccept.

(* ---- padding of dynamic values *)
Lemma pad_len_range c : 0 <= pad_len c < 32.
Proof. unfold pad_len. apply Z.mod_pos_bound. lia. Qed.

Lemma pad_len_fills c : (len c + pad_len c) mod 32 = 0.
Proof.
  unfold pad_len.
  assert (Hc : 0 <= len c mod 32 < 32) by (apply Z.mod_pos_bound; lia).
  destruct (Z.eq_dec (len c mod 32) 0) as [E|E].
  - rewrite E. replace (32 - 0) with 32 by lia. rewrite Z.mod_same by lia. rewrite Z.add_0_r. exact E.
  - rewrite (Z.mod_small (32 - len c mod 32)) by lia.
    rewrite (Z.div_mod (len c) 32) at 1 by lia.
    replace (32 * (len c / 32) + len c mod 32 + (32 - len c mod 32)) with ((len c / 32 + 1) * 32) by lia.
    apply Z.mod_mul. lia.
Qed.

(* the packer writes exactly one tail for a content: length word, content, zeros *)
Lemma pack_dyn_shape t c : t = TString \/ t = TBytes -> pack_val t (VBytes c) = Some (dyn_tail c).
Proof. intros [-> | ->]; reflexivity. Qed.

Lemma pack_val_dyn_inv t v p : t = TString \/ t = TBytes -> pack_val t v = Some p -> exists c, v = VBytes c /\ p = dyn_tail c.
Proof.
  intros [-> | ->] E; cbn in E; destruct v; try discriminate; injection E as <-; eexists; split; reflexivity.
Qed.

Lemma pack_items_padded tys : forall vs items, pack_items tys vs = Some items ->
  forall i t v it, nth_error tys i = Some t -> nth_error vs i = Some v -> nth_error items i = Some it -> padded_item t v it.
Proof.
  induction tys as [|t0 tr IH]; intros vs items E i t v it Ht Hv Hi.
  - destruct i; discriminate.
  - destruct vs as [|v0 vr]; [discriminate|]. cbn [pack_items] in E.
    destruct (pack_val t0 v0) as [p|] eqn:Ep; [|discriminate].
    destruct (pack_items tr vr) as [ps|] eqn:Eps; [|discriminate].
    injection E as <-.
    destruct i as [|i].
    + cbn in Ht, Hv, Hi. injection Ht as <-. injection Hv as <-. injection Hi as <-.
      unfold padded_item.
      destruct t0; try exact I.
      * destruct (pack_val_dyn_inv TString v0 p (or_introl eq_refl) Ep) as [c [-> ->]]. exists c. split; reflexivity.
      * destruct (pack_val_dyn_inv TBytes v0 p (or_intror eq_refl) Ep) as [c [-> ->]]. exists c. split; reflexivity.
    + cbn in Ht, Hv, Hi. exact (IH vr ps Eps i t v it Ht Hv Hi).
Qed.

(* the tails stand behind the head words, one after the other in the order of the arguments *)
Lemma layout_go_tails items : forall off, snd (layout_go items off) = tails_of items.
Proof.
  induction items as [|[[|] p] r IH]; intros off; cbn [layout_go tails_of snd]; [reflexivity| |].
  - rewrite IH. reflexivity.
  - apply IH.
Qed.
Lemma layout_tails items : exists heads, layout items = heads ++ tails_of items.
Proof. unfold layout. eexists. rewrite layout_go_tails. reflexivity. Qed.

(* canonical call data ARE the packing of the values they decode to: selector, head words, then the tails, and the
   tail of every string / bytes argument is its length word, its content and zeros up to the next word boundary *)
Theorem canonical_dyn_padding_zero sel tys input :
  tys <> [] -> is_canonical sel tys input ->
  exists vs items heads,
    unpack_method sel tys input = UOk vs /\ pack_items tys vs = Some items /\
    input = sel ++ heads ++ tails_of items /\
    forall i t v it, nth_error tys i = Some t -> nth_error vs i = Some v -> nth_error items i = Some it -> padded_item t v it.
Proof.
  intros Hne Hc. unfold is_canonical, repack in Hc.
  destruct tys as [|t0 tr]; [contradiction|].
  destruct (unpack_method sel (t0 :: tr) input) as [vs| |] eqn:Eu; try discriminate.
  unfold pack_values in Hc.
  destruct (pack_items (t0 :: tr) vs) as [items|] eqn:Ei; cbn [option_map] in Hc; [|discriminate].
  injection Hc as Hin.
  destruct (layout_tails items) as [heads Hl].
  exists vs, items, heads. repeat split.
  - exact Ei.
  - rewrite <- Hl. symmetry. exact Hin.
  - exact (pack_items_padded (t0 :: tr) vs items Ei).
Qed.

(* ... and so for the stored call data of every accepted call *)
Theorem accepted_call_padding_zero (H : bytes -> bytes) (H_len : forall x, length (H x) = 32%nat)
  sel tys static_ok (x s : AB) :
  tys <> [] -> ab_wf x ->
  accept_call H sel tys static_ok x = Some s ->
  (H (ab_preimage H x) = H (ab_preimage H s) -> ab_preimage H x = ab_preimage H s) ->
  (H (ab_data (body x)) = H (ab_data (body s)) -> ab_data (body x) = ab_data (body s)) ->
  exists vs items heads,
    unpack_method sel tys (ab_data (body s)) = UOk vs /\ pack_items tys vs = Some items /\
    ab_data (body s) = sel ++ heads ++ tails_of items /\
    forall i t v it, nth_error tys i = Some t -> nth_error vs i = Some v -> nth_error items i = Some it -> padded_item t v it.
Proof.
  intros Hne Hwf Hacc Hpre Hdata.
  destruct (call_data_canonical H H_len sel tys static_ok x s Hwf Hacc Hpre Hdata) as [_ Hc].
  exact (canonical_dyn_padding_zero sel tys _ Hne Hc).
Qed.

(* the same for the call shape of htlc.Unlock(hash id, bytes preimage), all bytes written out *)
Local Opaque word256 lpad32 rpad.
Theorem canonical_unlock_shape sel input :
  is_canonical sel [THash; TBytes] input ->
  exists id pre, input = sel ++ lpad32 id ++ word256 64 ++ word256 (len pre) ++ pre ++ repeat 0 (Z.to_nat (pad_len pre)).
Proof.
  intros Hc. unfold is_canonical, repack in Hc.
  destruct (unpack_method sel [THash; TBytes] input) as [vs| |]; try discriminate.
  unfold pack_values in Hc.
  destruct vs as [|v0 [|v1 [|v2 vr]]].
  1: discriminate.
  1: { cbn [pack_items pack_val option_map] in Hc. destruct v0; discriminate. }
  2: { cbn [pack_items pack_val option_map] in Hc. destruct v0; try discriminate. destruct v1; discriminate. }
  cbn [pack_items pack_val option_map requires_prefix] in Hc.
  destruct v0 as [| |id|]; try discriminate. destruct v1 as [| |pre|]; try discriminate.
  cbn [option_map] in Hc. injection Hc as Hin.
  exists id, pre. rewrite <- Hin. unfold layout. cbn [length layout_go fst snd].
  replace (32 * Z.of_nat 2) with 64 by reflexivity.
  Local Transparent rpad. unfold rpad, pad_len. rewrite !app_nil_r, <- !app_assoc. reflexivity.
Qed.
Local Transparent word256 lpad32.

(* a padding-reproducing packer: its tail has the same length as the canonical one, differs from it exactly when
   the bytes it is given are not zeros, and is decoded to the same content (nothing reads the padding: see the
   example in Props/C13.v) *)
Lemma dyn_tail_with_zero c : dyn_tail_with (fun _ => []) c = dyn_tail c.
Proof.
  unfold dyn_tail_with, dyn_tail. cbn [app]. do 2 f_equal.
  pose proof (pad_len_range c) as Hr.
  replace 32%nat with (Z.to_nat (pad_len c) + (32 - Z.to_nat (pad_len c)))%nat by lia.
  rewrite repeat_app, firstn_app, repeat_length, Nat.sub_diag. cbn [firstn]. rewrite app_nil_r.
  rewrite firstn_all2 by (rewrite repeat_length; lia). reflexivity.
Qed.

(* non-vacuity: liquidity.SetTokenTuple(string[],uint32[],uint32[],uint256[]) with four empty lists.
   The canonical packing has four offsets and four length words; the encoding whose four offsets point at one
   shared zero word decodes to the same values and is not canonical. *)
Definition ex_tys : list ty := [TSlice TString; TSlice (TUint 32); TSlice (TUint 32); TSlice (TUint 256)].
Definition ex_shared : bytes := word256 128 ++ word256 128 ++ word256 128 ++ word256 128 ++ word256 0.
Example canonical_example :
  canonical_of ex_tys ex_shared =
  Some (word256 128 ++ word256 160 ++ word256 192 ++ word256 224 ++ word256 0 ++ word256 0 ++ word256 0 ++ word256 0).
Proof. vm_compute. reflexivity. Qed.
Example noncanonical_example : canonical_of ex_tys ex_shared <> Some ex_shared.
Proof. vm_compute. discriminate. Qed.
Example canonical_fixpoint_example :
  forall c, canonical_of ex_tys ex_shared = Some c -> canonical_of ex_tys c = Some c.
Proof. intros c E. vm_compute in E. injection E as <-. vm_compute. reflexivity. Qed.
