(* The LOCKING calls: success => the lock is one the rules allow, and the entry records the call.
   - Stake / LiquidityStake: the period is a whole number of StakeTimeUnitSec between StakeTimeMinSec and
     StakeTimeMaxSec, for EVERY int64 argument (negative, zero, huge: the argument is an ABI int64 and the model
     computes now + t with wrap-around); hence the expiration of a fresh entry lies at least StakeTimeMinSec after
     its start, and with the cancel guards: a stake is never paid out before its minimum lock.
   - htlc.Create: hash type SHA3-256 or SHA-256 with a hash lock of that digest size (32 bytes), not yet expired,
     a positive deposit; the entry is the call.  With the unlock guard: an htlc is released only on a preimage
     whose digest under a SUPPORTED function equals a 32-byte lock. *)
From ZV Require Import Prelude GoSem Abi AbiProofs VmReceive VmReceiveProofs Emb EmbProofs Locks LocksProofs Liquidity LiquidityProofs.
From ZV.gen Require Import Consts.
Open Scope Z_scope.
Ltac Zify.zify_post_hook ::= Z.div_mod_to_equations.

Ltac bools :=
  repeat match goal with
  | H : (_ || _)%bool = false |- _ => apply orb_false_iff in H; destruct H
  | H : (_ && _)%bool = false |- _ => apply andb_false_iff in H
  | H : negb _ = false |- _ => apply negb_false_iff in H
  | H : negb _ = true |- _ => apply negb_true_iff in H
  | H : (_ <? _) = false |- _ => apply Z.ltb_ge in H
  | H : (_ <? _) = true |- _ => apply Z.ltb_lt in H
  | H : (_ <=? _) = false |- _ => apply Z.leb_gt in H
  | H : (_ <=? _) = true |- _ => apply Z.leb_le in H
  | H : (_ =? _) = true |- _ => apply Z.eqb_eq in H
  | H : (_ =? _) = false |- _ => apply Z.eqb_neq in H
  | H : bytes_eqb _ _ = true |- _ => apply bytes_eqb_eq in H
  end.

(* ---------------------------------------------------------------- stake *)
Lemma stake_period_rule e s t : stake_validate e s = VOk t ->
  c_StakeTimeMin e <= t <= c_StakeTimeMax e /\ c_StakeTimeUnit e <> 0 /\ Z.rem t (c_StakeTimeUnit e) = 0 /\
  c_StakeMinAmount e <= s_amount s /\ s_zts s = ZtsZnn.
Proof.
  unfold stake_validate. intros Ev.
  destruct (unpack_args _ _ _) as [vs| |]; try discriminate.
  repeat (vcase Ev). inversion Ev; subst. bools. repeat split; auto; lia.
Qed.

Theorem stake_guard e (a a' : cacct sstore) s ds :
  stake_receive e a s = MOk a' ds ->
  exists t ent, stake_validate e s = VOk t /\ ds = [] /\ a_bal a' = a_bal a /\
    tget (a_store a') (s_from s ++ s_hash s) = Some ent /\
    k_amount ent = u256 (s_amount s) /\ k_start ent = e_now e /\ k_revoke ent = 0 /\ k_exp ent = wrapS 64 (e_now e + t).
Proof.
  unfold stake_receive. destruct (stake_validate e s) as [t| |] eqn:Ev; try discriminate.
  intros H; inv_ok H. eexists t, _. cbn [a_store with_store a_bal]. rewrite tget_tput, bytes_eqb_refl.
  repeat split; auto.
Qed.

(* a fresh stake expires between the shortest and the longest lock after its start (frontier times and constants in
   the int64 range, as on every chain) *)
Theorem stake_minimum_lock e (a a' : cacct sstore) s ds :
  stake_receive e a s = MOk a' ds -> - two63 <= e_now e -> e_now e + c_StakeTimeMax e < two63 -> 0 <= c_StakeTimeMin e ->
  exists ent, tget (a_store a') (s_from s ++ s_hash s) = Some ent /\ k_start ent = e_now e /\
    k_start ent + c_StakeTimeMin e <= k_exp ent <= k_start ent + c_StakeTimeMax e.
Proof.
  intros H Hn Hm H0. destruct (stake_guard e a a' s ds H) as (t & ent & Ev & _ & _ & Hg & _ & Hs & _ & Hx).
  destruct (stake_period_rule e s t Ev) as (Ht & _).
  exists ent. rewrite Hx, Hs, wrapS64_small by lia. repeat split; auto; lia.
Qed.

(* stake, then cancel of that entry (untouched in between): the payout comes no earlier than StakeTimeMinSec after the start *)
Theorem stake_never_released_before_minimum_lock e e' (a a' b b' : cacct sstore) s s2 ds ds2 id ent :
  stake_receive e a s = MOk a' ds -> - two63 <= e_now e -> e_now e + c_StakeTimeMax e < two63 -> 0 <= c_StakeTimeMin e ->
  tget (a_store a') (s_from s ++ s_hash s) = Some ent ->
  cancel_stake_validate s2 = VOk id -> tget (a_store b) (s_from s2 ++ id) = Some ent ->
  cancel_stake_receive e' b s2 = MOk b' ds2 ->
  e_now e + c_StakeTimeMin e <= e_now e'.
Proof.
  intros H Hn Hm H0 Hg Hv Hg2 Hc.
  destruct (stake_minimum_lock e a a' s ds H Hn Hm H0) as (ent0 & Hg0 & Hs & Hlo & _).
  rewrite Hg in Hg0. inversion Hg0; subst ent0.
  destruct (cancel_stake_guard e' b b' s2 ds2 Hc) as (id' & ent' & Hv' & Hg' & Hx & _).
  rewrite Hv in Hv'. inversion Hv'; subst id'. rewrite Hg2 in Hg'. inversion Hg'; subst ent'. lia.
Qed.

(* ---------------------------------------------------------------- liquidity stake *)
Lemma liquidity_period_rule e s t : liquidity_stake_validate e s = VOk t ->
  c_StakeTimeMin e <= t <= c_StakeTimeMax e /\ c_StakeTimeUnit e <> 0 /\ Z.rem t (c_StakeTimeUnit e) = 0.
Proof.
  unfold liquidity_stake_validate. intros Ev.
  destruct (unpack_args _ _ _) as [vs| |]; try discriminate.
  repeat (vcase Ev). inversion Ev; subst. bools. repeat split; auto; lia.
Qed.

Theorem liquidity_stake_minimum_lock zstr e (a a' : cacct qstore) s ds :
  liquidity_stake_receive zstr e a s = MOk a' ds -> - two63 <= e_now e -> e_now e + c_StakeTimeMax e < two63 -> 0 <= c_StakeTimeMin e ->
  exists ent, tget (lq_entries (a_store a')) (s_from s ++ s_hash s) = Some ent /\ ls_start ent = e_now e /\
    ls_start ent + c_StakeTimeMin e <= ls_exp ent <= ls_start ent + c_StakeTimeMax e.
Proof.
  intros H Hn Hm H0.
  destruct (liquidity_stake_guard zstr e a a' s ds H) as (t & ent & Ev & _ & _ & _ & Hg & _ & _ & Hs & _ & Hx).
  destruct (liquidity_period_rule e s t Ev) as (Ht & _).
  exists ent. rewrite Hx, Hs, wrapS64_small by lia. repeat split; auto; lia.
Qed.

(* liquidity stake, then cancel of that entry (untouched in between - in particular not unlocked by the administrator):
   the payout comes no earlier than StakeTimeMinSec after the start *)
Theorem liquidity_stake_never_released_before_minimum_lock zstr e e' (a a' b b' : cacct qstore) s s2 ds ds2 id ent :
  liquidity_stake_receive zstr e a s = MOk a' ds -> - two63 <= e_now e -> e_now e + c_StakeTimeMax e < two63 -> 0 <= c_StakeTimeMin e ->
  tget (lq_entries (a_store a')) (s_from s ++ s_hash s) = Some ent ->
  cancel_liquidity_validate s2 = VOk id -> tget (lq_entries (a_store b)) (s_from s2 ++ id) = Some ent ->
  cancel_liquidity_receive e' b s2 = MOk b' ds2 ->
  e_now e + c_StakeTimeMin e <= e_now e'.
Proof.
  intros H Hn Hm H0 Hg Hv Hg2 Hc.
  destruct (liquidity_stake_minimum_lock zstr e a a' s ds H Hn Hm H0) as (ent0 & Hg0 & Hs & Hlo & _).
  rewrite Hg in Hg0. inversion Hg0; subst ent0.
  destruct (cancel_liquidity_guard e' b b' s2 ds2 Hc) as (id' & ent' & Hv' & Hg' & Hx & _).
  rewrite Hv in Hv'. inversion Hv'; subst id'. rewrite Hg2 in Hg'. inversion Hg'; subst ent'. lia.
Qed.

(* ---------------------------------------------------------------- htlc *)
Lemma create_rule s hl exp ty kmax lock : create_validate s = VOk (hl, exp, ty, kmax, lock) ->
  (ty = HashTypeSHA3 \/ ty = HashTypeSHA256) /\ len lock = 32 /\ s_amount s <> 0.
Proof.
  unfold create_validate. intros Ev.
  destruct (unpack_args _ _ _) as [vs| |]; try discriminate.
  repeat (vcase Ev). inversion Ev; subst. bools.
  assert (Hd : HashDigestSizeSHA3 = 32 /\ HashDigestSizeSHA256 = 32) by (split; reflexivity).
  destruct Hd as (D3 & D2).
  repeat split; auto.
  - match goal with H : _ \/ _ |- _ => destruct H as [H|H]; bools; auto end.
  - match goal with H : len _ = (if ?c then _ else _) |- _ => destruct c; lia end.
Qed.

Section HtlcCreate.
  Theorem create_guard e (a a' : cacct hstore) s ds :
    create_receive e a s = MOk a' ds ->
    exists hl exp ty kmax lock ent, create_validate s = VOk (hl, exp, ty, kmax, lock) /\
      (ty = HashTypeSHA3 \/ ty = HashTypeSHA256) /\ len lock = 32 /\ e_now e < exp /\ s_amount s <> 0 /\
      ds = [] /\ a_bal a' = a_bal a /\
      tget (h_entries (a_store a')) (s_hash s) = Some ent /\
      h_timelocked ent = s_from s /\ h_hashlocked ent = hl /\ h_zts ent = s_zts s /\ h_amount ent = u256 (s_amount s) /\
      h_exp ent = exp /\ h_type ent = ty /\ h_keymax ent = kmax /\ h_lock ent = lock.
  Proof.
    unfold create_receive. destruct (create_validate s) as [[[[[hl ex] ty] km] lk]| |] eqn:Ev; try discriminate.
    destruct (ex <=? e_now e) eqn:Ex; [discriminate|]. intros H; inv_ok H.
    destruct (create_rule s hl ex ty km lk Ev) as (Hty & Hl & Ha).
    eexists hl, ex, ty, km, lk, _. cbn [a_store with_store a_bal h_entries]. rewrite tget_tput, bytes_eqb_refl.
    apply Z.leb_gt in Ex. repeat split; auto.
  Qed.

  (* an entry made by Create is opened only by a preimage whose digest under SHA3-256 / SHA-256 - whichever the entry
     names - is its 32-byte lock *)
  Variable H : Z -> bytes -> bytes.
  Theorem created_htlc_needs_supported_preimage e e' (a a' b b' : cacct hstore) s s2 ds ds2 id pre ent :
    create_receive e a s = MOk a' ds -> tget (h_entries (a_store a')) (s_hash s) = Some ent ->
    unlock_validate s2 = VOk (id, pre) -> tget (h_entries (a_store b)) id = Some ent ->
    unlock_receive H e' b s2 = MOk b' ds2 ->
    (h_type ent = HashTypeSHA3 \/ h_type ent = HashTypeSHA256) /\ len (h_lock ent) = 32 /\ H (h_type ent) pre = h_lock ent /\
    e_now e' < h_exp ent /\ ds2 = [{| d_to := h_hashlocked ent; d_amount := h_amount ent; d_zts := h_zts ent; d_data := [] |}].
  Proof.
    intros Hc Hg Hv Hg2 Hu.
    destruct (create_guard e a a' s ds Hc) as (hl & ex & ty & km & lk & ent0 & _ & Hty & Hl & _ & _ & _ & _ & Hg0 & _ & _ & _ & _ & _ & Et & _ & El).
    rewrite Hg in Hg0. inversion Hg0; subst ent0.
    destruct (unlock_guard H e' b b' s2 ds2 Hu) as (id' & pre' & ent' & Hv' & Hg' & Hh & Hx & _ & _ & Hds & _).
    rewrite Hv in Hv'. inversion Hv'; subst id' pre'. rewrite Hg2 in Hg'. inversion Hg'; subst ent'.
    rewrite Et, El. repeat split; auto. rewrite <- Et, <- El. exact Hh.
  Qed.
End HtlcCreate.
