(* Proofs about Wallet.v. The cryptographic functions are Section variables; the only facts assumed about
   them are the functional laws stated as Section hypotheses. *)
From ZV Require Import Prelude PoWProofs Dec DecProofs Wallet.
Open Scope Z_scope.
Ltac Zify.zify_post_hook ::= Z.div_mod_to_equations.

Lemma bytes_eqb_refl' a : bytes_eqb a a = true.
Proof. apply bytes_eqb_eq. reflexivity. Qed.

(* ---------------------------------------------------------------- hex text, key file write / read *)
Theorem hexutil_roundtrip b : Forall byte b -> hexutil_dec (hexutil_enc b) = Some b.
Proof. intros Hb. unfold hexutil_enc, hexutil_dec. cbn [Z.eqb Pos.eqb orb]. apply hex_roundtrip. exact Hb. Qed.

Definition kf_wf (k : KeyFile) : Prop :=
  kf_version k = store_version /\ kf_cipher_name k = aes_mode /\ kf_kdf k = argon_name /\
  Forall byte (kf_cipher k) /\ Forall byte (kf_nonce k) /\ Forall byte (kf_salt k).

Theorem read_write k : kf_wf k -> read_kf (write_kf k) = WOk k.
Proof.
  intros (Hv & Hc & Hk & Bc & Bn & Bs). unfold read_kf, write_kf.
  cbn [t_base t_cipher_name t_kdf t_cipher t_nonce t_salt t_version t_timestamp].
  rewrite !hexutil_roundtrip by assumption. rewrite Hv, Hc, Hk, Z.eqb_refl, !bytes_eqb_refl'. cbn [negb].
  destruct k; cbn in *; subst; reflexivity.
Qed.

(* ReadKeyFile accepts only version 1, "aes-256-gcm", "argon2.IDKey" *)
Theorem read_checks t k : read_kf t = WOk k ->
  t_version t = store_version /\ t_cipher_name t = aes_mode /\ t_kdf t = argon_name /\
  kf_version k = store_version /\ kf_cipher_name k = aes_mode /\ kf_kdf k = argon_name.
Proof.
  unfold read_kf.
  destruct (hexutil_dec (t_cipher t)); [|discriminate]. destruct (hexutil_dec (t_nonce t)); [|discriminate].
  destruct (hexutil_dec (t_salt t)); [|discriminate].
  destruct (t_version t =? store_version) eqn:Ev; cbn [negb]; [|discriminate].
  destruct (bytes_eqb (t_cipher_name t) aes_mode) eqn:Ec; cbn [negb]; [|discriminate].
  destruct (bytes_eqb (t_kdf t) argon_name) eqn:Ek; cbn [negb]; [|discriminate].
  intros E. injection E as <-. apply Z.eqb_eq in Ev. apply bytes_eqb_eq in Ec, Ek. cbn. auto 10.
Qed.
Theorem read_refuses t :
  (t_version t <> store_version -> forall k, read_kf t <> WOk k) /\
  (t_cipher_name t <> aes_mode -> forall k, read_kf t <> WOk k) /\
  (t_kdf t <> argon_name -> forall k, read_kf t <> WOk k).
Proof.
  repeat split; intros Hn k E; apply read_checks in E; tauto.
Qed.

(* ---------------------------------------------------------------- hardened children only *)
Theorem child_index_spec n : 0 <= n < two32 ->
  (hardened (child_index n) = true <-> n < first_hardened) /\
  (n < first_hardened -> child_index n = n + first_hardened).
Proof.
  intros Hn. unfold hardened, child_index, u32, first_hardened, two32 in *. split.
  - split; intros H; [apply Z.leb_le in H | apply Z.leb_le]; lia.
  - intros H. lia.
Qed.

Lemma take_digits_app d r : Forall (fun c => is_digit c = true) d ->
  match r with [] => True | c :: _ => is_digit c = false end ->
  take_digits (d ++ r) = (d, r).
Proof.
  induction 1 as [|c d Hc _ IH]; intros Hr; cbn [app take_digits].
  - destruct r as [|c r]; cbn [take_digits]; [reflexivity|]. rewrite Hr. reflexivity.
  - rewrite Hc, IH by exact Hr. reflexivity.
Qed.

Lemma print_dec_digits i : 0 <= i ->
  Forall (fun c => is_digit c = true) (print_dec i) /\ print_dec i <> [] /\ parse_digits 0 (print_dec i) = Some i.
Proof.
  intros Hi. unfold print_dec. replace (i <? 0) with false by lia. repeat split.
  - apply dec_digits_all; [lia|constructor].
  - unfold dec_fuel. apply dec_digits_nonempty.
  - pose proof (parse_unsigned_print i Hi) as Hp. unfold parse_unsigned in Hp.
    destruct (dec_digits (dec_fuel i) i []) eqn:E; [discriminate|exact Hp].
Qed.

Lemma path_segments_more k s l : path_segments k s = Some l -> path_segments (S k) s = Some l.
Proof.
  revert s l; induction k as [|k IH]; intros s l; [discriminate|].
  intros E. change (path_segments (S (S k)) s) with
    (match s with
     | [] => Some []
     | c :: r => if c =? 47 then let '(d, t) := take_digits r in
                   match d, t with
                   | _ :: _, q :: t' => if q =? 39 then option_map (cons d) (path_segments (S k) t') else None
                   | _, _ => None
                   end else None
     end).
  cbn [path_segments] in E. destruct s as [|c r]; [exact E|].
  destruct (c =? 47); [|exact E]. destruct (take_digits r) as [d t]. destruct d; [exact E|]. destruct t as [|q t']; [exact E|].
  destruct (q =? 39); [|exact E]. destruct (path_segments k t') eqn:Ep; [|discriminate]. rewrite (IH _ _ Ep). exact E.
Qed.
Lemma path_segments_ge k k' s l : (k <= k')%nat -> path_segments k s = Some l -> path_segments k' s = Some l.
Proof. induction 1; auto. intros E. apply path_segments_more. auto. Qed.

(* one segment: "/" digits "'" *)
Lemma path_segments_step k d t l : Forall (fun c => is_digit c = true) d -> d <> [] ->
  path_segments k t = Some l -> path_segments (S k) (47 :: d ++ 39 :: t) = Some (d :: l).
Proof.
  intros Hd Hne E. cbn [path_segments Z.eqb Pos.eqb]. rewrite take_digits_app by (auto; reflexivity).
  destruct d; [contradiction|]. cbn [Z.eqb Pos.eqb]. rewrite E. reflexivity.
Qed.

Definition digits44 : bytes := [52; 52].
Definition digits73404 : bytes := [55; 51; 52; 48; 52].

(* DeriveWithIndex formats a path that parses back to the three numbers *)
Theorem parse_format_path i : 0 <= i < two32 -> parse_path (format_path i) = Some [44; 73404; i].
Proof.
  intros Hi. destruct (print_dec_digits i ltac:(lia)) as (Hd & Hne & Hp).
  unfold parse_path, path_regex, format_path, path_prefix. cbn [app].
  set (r := 47 :: 52 :: 52 :: 39 :: 47 :: 55 :: 51 :: 52 :: 48 :: 52 :: 39 :: 47 :: print_dec i ++ [39]).
  assert (Es : path_segments (S (length r)) r = Some [digits44; digits73404; print_dec i]).
  { apply (path_segments_ge 4); [subst r; cbn [length]; lia|].
    subst r. change (47 :: 52 :: 52 :: 39 :: 47 :: 55 :: 51 :: 52 :: 48 :: 52 :: 39 :: 47 :: print_dec i ++ [39])
      with (47 :: digits44 ++ 39 :: (47 :: digits73404 ++ 39 :: (47 :: print_dec i ++ 39 :: []))).
    apply path_segments_step; [repeat constructor | discriminate |].
    apply path_segments_step; [repeat constructor | discriminate |].
    apply path_segments_step; [exact Hd | exact Hne | reflexivity]. }
  rewrite Es. cbn [map_opt]. unfold parse_uint32 at 3. rewrite Hp.
  replace (i <? two32) with true by lia. reflexivity.
Qed.

(* the path alone decides between invalid / non-hardened / derivable *)
Theorem derive_index_class i : 0 <= i < two32 ->
  derive_class (format_path i) = if i <? first_hardened then DOk_ else DNoPublic.
Proof.
  intros Hi. unfold derive_class. rewrite parse_format_path by exact Hi. cbn [forallb].
  assert (H44 : hardened (child_index 44) = true) by reflexivity.
  assert (H73 : hardened (child_index 73404) = true) by reflexivity.
  rewrite H44, H73. cbn [andb]. rewrite andb_true_r.
  destruct (child_index_spec i Hi) as [Hh _].
  destruct (i <? first_hardened) eqn:E.
  - replace (hardened (child_index i)) with true; [reflexivity|]. symmetry. apply Hh. lia.
  - destruct (hardened (child_index i)) eqn:E2; [|reflexivity].
    assert (i < first_hardened) by (apply Hh; reflexivity). lia.
Qed.

Section CryptoProofs.
  Variable kdf : bytes -> bytes -> bytes.
  Variable seal : bytes -> bytes -> bytes -> bytes -> bytes.
  Variable open : bytes -> bytes -> bytes -> bytes -> option bytes.
  Variable mnemonic : bytes -> option bytes.
  Variable seed_of : bytes -> bytes.
  Variable hmac512 : bytes -> bytes -> bytes.
  Variable ed_pub : bytes -> bytes.
  Variable sha3 : bytes -> bytes.
  (* AES-GCM correctness, and: ciphertexts are byte strings *)
  Hypothesis open_seal : forall k n ad m, open k n ad (seal k n ad m) = Some m.
  Hypothesis seal_bytes : forall k n ad m, Forall byte (seal k n ad m).

  Notation derive_for_path := (derive_for_path hmac512 ed_pub sha3).
  Notation derive_for_index := (derive_for_index hmac512 ed_pub sha3).
  Notation derive_chain := (derive_chain hmac512).
  Notation keystore_from_entropy := (keystore_from_entropy mnemonic seed_of hmac512 ed_pub sha3).
  Notation encrypt := (encrypt kdf seal).
  Notation decrypt := (decrypt kdf open mnemonic seed_of hmac512 ed_pub sha3).

  Lemma keystore_entropy e ks : keystore_from_entropy e = WOk ks -> ks_entropy ks = e.
  Proof.
    unfold Wallet.keystore_from_entropy. destruct (mnemonic e); [|discriminate].
    destruct (derive_for_index _ 0); cbn [wbind]; [|discriminate]. intros E. injection E as <-. reflexivity.
  Qed.

  (* Encrypt -> Write -> ReadKeyFile -> Decrypt with the same password gives exactly the key store *)
  Theorem roundtrip pw salt nonce now e ks :
    keystore_from_entropy e = WOk ks -> Forall byte salt -> Forall byte nonce ->
    read_kf (write_kf (encrypt pw salt nonce now ks)) = WOk (encrypt pw salt nonce now ks) /\
    decrypt pw (encrypt pw salt nonce now ks) = WOk ks /\
    ks_entropy ks = e.
  Proof.
    intros Hks Hs Hn. pose proof (keystore_entropy e ks Hks) as He. repeat split.
    - apply read_write. unfold kf_wf, Wallet.encrypt. cbn. auto 10.
    - unfold Wallet.decrypt, Wallet.encrypt. cbn [kf_salt kf_nonce kf_cipher]. rewrite open_seal, He. exact Hks.
    - exact He.
  Qed.

  (* what a successful decryption certifies: the AEAD accepted the key derived from THIS password and the
     stored salt, the stored nonce, the fixed additional data and the stored ciphertext *)
  Theorem decrypt_certifies pw k ks : decrypt pw k = WOk ks ->
    exists e, open (kdf pw (kf_salt k)) (kf_nonce k) gcm_aad (kf_cipher k) = Some e /\
              keystore_from_entropy e = WOk ks /\ ks_entropy ks = e.
  Proof.
    unfold Wallet.decrypt. destruct (open _ _ _ _) as [e|]; [|discriminate]. intros E.
    exists e. repeat split; auto. apply keystore_entropy. exact E.
  Qed.
  Theorem decrypt_refused pw k :
    open (kdf pw (kf_salt k)) (kf_nonce k) gcm_aad (kf_cipher k) = None -> decrypt pw k = WErr EWrongPassword.
  Proof. unfold Wallet.decrypt. intros ->. reflexivity. Qed.

  (* derivation: a chain over the segment numbers exists iff every number is below 2^31 *)
  Lemma derive_chain_ok ns : forall k, Forall (fun n => 0 <= n < two32) ns ->
    (exists k', derive_chain k ns = WOk k') <-> forallb (fun n => hardened (child_index n)) ns = true.
  Proof.
    induction ns as [|n ns IH]; intros k Hn; cbn [Wallet.derive_chain forallb].
    - split; eauto.
    - inversion Hn; subst. unfold derive_child. destruct (hardened (child_index n)) eqn:E; cbn [wbind andb].
      + apply IH. auto.
      + split; [intros [k' Hk]; discriminate | discriminate].
  Qed.
  Lemma derive_chain_err ns : forall k e, derive_chain k ns = WErr e -> e = ENoPublicDerivation.
  Proof.
    induction ns as [|n ns IH]; intros k e; cbn [Wallet.derive_chain]; [discriminate|].
    unfold derive_child. destruct (hardened (child_index n)); cbn [wbind]; [apply IH|]. intros E. injection E as <-. reflexivity.
  Qed.

  Theorem derive_class_sound path seed :
    match derive_class path with
    | DInvalid => derive_for_path path seed = WErr EInvalidPath
    | DNoPublic => derive_for_path path seed = WErr ENoPublicDerivation
    | DOk_ => exists kp, derive_for_path path seed = WOk kp
    end.
  Proof.
    unfold derive_class, Wallet.derive_for_path. destruct (parse_path path) as [ns|] eqn:Ep; [|reflexivity].
    assert (Hr : Forall (fun n => 0 <= n < two32) ns).
    { clear - Ep. unfold parse_path in Ep. destruct (path_regex path) as [segs|]; [|discriminate].
      revert ns Ep. induction segs as [|d segs IH]; intros ns; cbn [map_opt].
      - intros E. injection E as <-. constructor.
      - destruct (parse_uint32 d) as [v|] eqn:Ev; [|discriminate]. destruct (map_opt parse_uint32 segs); [|discriminate].
        intros E. injection E as <-. constructor; [|apply IH; reflexivity].
        unfold parse_uint32 in Ev. destruct (parse_digits 0 d) as [w|] eqn:Ew; [|discriminate].
        destruct (w <? two32) eqn:El; [|discriminate]. injection Ev as <-.
        split; [|lia]. clear - Ew. assert (G : forall s a, 0 <= a -> forall w, parse_digits a s = Some w -> 0 <= w).
        { induction s as [|c s IHs]; intros a Ha w0; cbn [parse_digits]; [intros [= <-]; exact Ha|].
          destruct (is_digit c) eqn:Ed; [|discriminate]. apply IHs. unfold is_digit in Ed. lia. }
        eapply G; [|exact Ew]. lia. }
    destruct (forallb _ ns) eqn:Ef.
    - apply (derive_chain_ok ns (master_key hmac512 seed) Hr) in Ef as [k' Hk]. rewrite Hk. cbn [wbind]. eauto.
    - destruct (derive_chain (master_key hmac512 seed) ns) as [k'|e] eqn:Ed.
      + assert (forallb (fun n => hardened (child_index n)) ns = true)
          by (apply (derive_chain_ok ns (master_key hmac512 seed) Hr); eauto). congruence.
      + cbn [wbind]. f_equal. eapply derive_chain_err; eauto.
  Qed.

  (* DeriveWithIndex / DeriveForIndexPath: succeeds iff the index is below 2^31 *)
  Theorem hardened_only seed i : 0 <= i < two32 ->
    ((exists kp, derive_for_index seed i = WOk kp) <-> i < first_hardened) /\
    (first_hardened <= i -> derive_for_index seed i = WErr ENoPublicDerivation).
  Proof.
    clear open_seal seal_bytes.
    intros Hi. pose proof (derive_class_sound (format_path i) seed) as Hc. rewrite derive_index_class in Hc by exact Hi.
    unfold Wallet.derive_for_index. destruct (i <? first_hardened) eqn:E.
    - split; [split; [intros _; lia | intros _; exact Hc] | intros; lia].
    - split; [split; [intros [kp Hk]; congruence | intros; lia] | intros _; exact Hc].
  Qed.

  (* everything in a key store is a function of the entropy; the base address is the index-0 address *)
  Theorem keystore_is_function e ks : keystore_from_entropy e = WOk ks ->
    exists m kp, mnemonic e = Some m /\ derive_for_index (seed_of m) 0 = WOk kp /\
                 ks = mkKS e (seed_of m) m (kp_addr kp).
  Proof.
    unfold Wallet.keystore_from_entropy. destruct (mnemonic e) as [m|]; [|discriminate].
    destruct (derive_for_index (seed_of m) 0) as [kp|] eqn:Ed; cbn [wbind]; [|discriminate].
    intros E. injection E as <-. eauto.
  Qed.
  Theorem base_address_is_index0 pw salt nonce now e ks : keystore_from_entropy e = WOk ks ->
    exists kp, derive_for_index (ks_seed ks) 0 = WOk kp /\ ks_base ks = kp_addr kp /\
               kf_base (encrypt pw salt nonce now ks) = kp_addr kp.
  Proof.
    intros Hk. apply keystore_is_function in Hk as (m & kp & _ & Hd & ->). exists kp. cbn. auto.
  Qed.

  (* signatures: a derived pair signs verifiably and its public key maps to its address *)
  Variable sign : bytes -> bytes -> bytes.
  Variable verify : bytes -> bytes -> bytes -> bool.
  Hypothesis verify_sign : forall sd m, verify (ed_pub sd) m (sign (sd ++ ed_pub sd) m) = true.

  Theorem sig_address_chain path seed kp : derive_for_path path seed = WOk kp ->
    kp_addr kp = pk_to_addr sha3 (kp_pub kp) /\ (exists t, kp_addr kp = 0 :: t) /\
    forall m, verify (kp_pub kp) m (sign (kp_priv kp) m) = true.
  Proof.
    unfold Wallet.derive_for_path. destruct (parse_path path); [|discriminate].
    destruct (derive_chain _ _) as [k|]; cbn [wbind]; [|discriminate]. intros E. injection E as <-.
    unfold to_keypair. cbn [kp_addr kp_pub kp_priv]. repeat split; [unfold pk_to_addr; eauto|].
    intros m. apply verify_sign.
  Qed.
End CryptoProofs.
