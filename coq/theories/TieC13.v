(* Executable entry points compared with the implementation by ./check C13. *)
From ZV Require Import Prelude GoSem Abi Block CodecPb Dec BlockAccept AbiCanon.
Open Scope Z_scope.

Definition body_eqb (a b : ABody) : bool :=
  (ab_version a =? ab_version b) && (ab_chainid a =? ab_chainid b) && (ab_blocktype a =? ab_blocktype b) &&
  bytes_eqb (ab_hash a) (ab_hash b) && bytes_eqb (ab_prev a) (ab_prev b) && (ab_height a =? ab_height b) &&
  bytes_eqb (ab_ma_hash a) (ab_ma_hash b) && (ab_ma_height a =? ab_ma_height b) &&
  bytes_eqb (ab_addr a) (ab_addr b) && bytes_eqb (ab_to a) (ab_to b) && (ab_amount a =? ab_amount b) &&
  bytes_eqb (ab_zts a) (ab_zts b) && bytes_eqb (ab_from a) (ab_from b) && bytes_eqb (ab_data a) (ab_data b) &&
  (ab_fused a =? ab_fused b) && (ab_diff a =? ab_diff b) && bytes_eqb (ab_nonce a) (ab_nonce b) &&
  (ab_base a =? ab_base b) && (ab_total a =? ab_total b) && bytes_eqb (ab_changes a) (ab_changes b) &&
  bytes_eqb (ab_pk a) (ab_pk b) && bytes_eqb (ab_sig a) (ab_sig b).
Fixpoint ab_eqb (x y : AB) : bool :=
  match x, y with
  | ABNode a ds, ABNode b es =>
    body_eqb a b &&
    (fix go (l m : list AB) : bool :=
       match l, m with
       | [], [] => true
       | d :: l', e :: m' => ab_eqb d e && go l' m'
       | _, _ => false
       end) ds es
  end.
Definition aheader_eqb (a b : AHeader) : bool :=
  bytes_eqb (ah_addr a) (ah_addr b) && bytes_eqb (ah_hash a) (ah_hash b) && (ah_height a =? ah_height b).
Definition mom_eqb (a b : Mom) : bool :=
  (m_version a =? m_version b) && (m_chainid a =? m_chainid b) && bytes_eqb (m_hash a) (m_hash b) &&
  bytes_eqb (m_prev a) (m_prev b) && (m_height a =? m_height b) && (m_timestamp a =? m_timestamp b) &&
  bytes_eqb (m_data a) (m_data b) && list_eqb aheader_eqb (m_content a) (m_content b) &&
  bytes_eqb (m_changes a) (m_changes b) && bytes_eqb (m_pk a) (m_pk b) && bytes_eqb (m_sig a) (m_sig b).
(* the model's DUnsup (unknown group field) is outside the modelled fragment: not compared *)
Definition dres_eqb {A} (e : A -> A -> bool) (model impl : dres A) : bool :=
  match model, impl with
  | DOk a, DOk b => e a b
  | DErr, DErr => true
  | DPanic, DPanic => true
  | DUnsup, _ => true
  | _, _ => false
  end.

(* in: (body, digest of descendant hashes, digest of data); out: pre-image bytes of ComputeHash *)
Definition ab_preimage_run (i : ABody * bytes * bytes) : bytes :=
  let '(b, hdesc, hdata) := i in ab_preimage_with hdesc hdata b.
Definition mom_preimage_run (i : Mom * bytes * bytes) : bytes :=
  let '(m, hdata, hcontent) := i in mom_preimage_with hdata hcontent m.
(* MomentumContent.Bytes *)
Definition content_bytes_run (c : list AHeader) : bytes := content_bytes c.
(* Serialize / Deserialize *)
(* out: the wire bytes, and whether the model's decoder maps them back to the same block *)
Definition ab_ser_run (x : AB) : bytes * bool :=
  (serialize_ab x, dres_eqb ab_eqb (deserialize_ab (serialize_ab x)) (DOk x)).
Definition ser_eqb (a b : bytes * bool) : bool := bytes_eqb (fst a) (fst b) && Bool.eqb (snd a) (snd b).
Definition ab_de_run (bs : bytes) : dres AB := deserialize_ab bs.
Definition mom_ser_run (m : Mom) : bytes * bool :=
  (serialize_mom m, dres_eqb mom_eqb (deserialize_mom (serialize_mom m)) (DOk m)).
Definition mom_de_run (bs : bytes) : dres Mom := deserialize_mom bs.
(* NewMomentumContent on headers *)
Definition content_sort_run (hs : list AHeader) : list AHeader := new_momentum_content hs.
(* JSON scalars *)
Definition print_dec_run (z : Z) : bytes := print_dec z.
Definition parse_dec_run (s : bytes) : Z := parse_dec s.
Definition hex_enc_run (b : bytes) : bytes := hex_enc b.
Definition obytes_eqb : option bytes -> option bytes -> bool := option_eqb bytes_eqb.
Definition parse_hash_run (s : bytes) : option bytes := parse_hash s.
Definition parse_nonce_run (s : bytes) : option bytes := parse_nonce s.
Definition big32_run (z : Z) : bytes := big32 z.

(* acceptance of a delivered user block: in = (block, hash_ok, sig_ok, addr_ok, rest_ok, plasma) ; out = stored block *)
Definition accept_in := (AB * bool * bool * bool * bool * option (Z * Z))%type.
Definition accept_out := option AB.
Definition accept_user_run (i : accept_in) : accept_out :=
  let '(x, h, s, a, r, p) := i in accept_user_obs x h s a r p.
Definition accept_out_eqb : accept_out -> accept_out -> bool := option_eqb ab_eqb.

(* call data of an embedded method (selector, argument types): the canonical packing of what it decodes to
   (None: not decodable) = abi.PackMethod(name, Unpack(data)...) of the implementation *)
Definition abi_canon_run (i : bytes * list ty * bytes) : option bytes :=
  let '(sel, tys, data) := i in repack sel tys data.
