(* The specification the versioned store is proved to refine: a chain of commits, each remembering what the
   store contained when it was the frontier; a view opened at a commit is that content (a value) plus the writes
   made through the view; nothing that happens to the chain afterwards can change it. *)
From ZV Require Import Prelude.
From stdpp Require Import gmap sorting.
From ZV Require Import Store.
Open Scope Z_scope.

Notation amap := (gmap key value).
Definition abs_apply1 (Sm : amap) (o : pop) : amap :=
  match o with PPut k v => <[k := v]> Sm | PDel k => delete k Sm end.
Definition abs_apply (Sm : amap) (p : patch) : amap := foldl abs_apply1 Sm p.

Record centry := CE { ce_id : ident; ce_state : amap; ce_patch : patch }.
Definition achain := list centry.               (* newest first *)
Definition a_height (c : achain) : Z := match c with [] => 0 | e :: _ => snd (ce_id e) end.
Definition a_front_id (c : achain) : ident := match c with [] => zero_id | e :: _ => ce_id e end.
Definition a_front (c : achain) : amap := match c with [] => ∅ | e :: _ => ce_state e end.
Fixpoint a_find (c : achain) (i : ident) : option centry :=
  match c with [] => None | e :: r => if ident_eqb (ce_id e) i then Some e else a_find r i end.
Fixpoint a_at (c : achain) (h : Z) : option centry :=
  match c with [] => None | e :: r => if snd (ce_id e) =? h then Some e else a_at r h end.

(* views *)
Notation alocal := (gmap key (option value)).
Inductive anode :=
| ARoot (local : alocal) (content : amap)
| ASnap (local : alocal) (parent : Z)
| ASub (pre : list Z) (parent : Z).
Notation avtable := (gmap Z anode).
Definition overlay (la : alocal) (Sm : amap) : amap :=
  merge (fun ol os => match ol with Some o => o | None => os end) la Sm.
Fixpoint acontent (fuel : nat) (vs : avtable) (id : Z) : amap :=
  match fuel with
  | O => ∅
  | S f => match vs !! id with
           | None => ∅
           | Some (ARoot la Sm) => overlay la Sm
           | Some (ASnap la p) => overlay la (acontent f vs p)
           | Some (ASub pre p) => sub_map pre (acontent f vs p)
           end
  end.
Definition afuel (vs : avtable) : nat := S (size vs).
Definition aget (vs : avtable) (id : Z) : amap := acontent (afuel vs) vs id.
Definition alocal_of (n : anode) : alocal := match n with ARoot l _ => l | ASnap l _ => l | ASub _ _ => ∅ end.
Definition aset_local (n : anode) (l : alocal) : anode :=
  match n with ARoot _ Sm => ARoot l Sm | ASnap _ p => ASnap l p | ASub pre p => ASub pre p end.
Fixpoint awrite_f (fuel : nat) (vs : avtable) (id : Z) (k : key) (x : option value) : avtable :=
  match fuel with
  | O => vs
  | S f => match vs !! id with
           | Some (ASub pre p) => awrite_f f vs p (pre ++ k) x
           | Some n => <[id := aset_local n (<[k := x]> (alocal_of n))]> vs
           | None => vs
           end
  end.
Definition awrite (vs : avtable) (id : Z) (k : key) (x : option value) : avtable := awrite_f (afuel vs) vs id k x.
Fixpoint awrites (fuel : nat) (vs : avtable) (id : Z) : alocal :=
  match fuel with
  | O => ∅
  | S f => match vs !! id with
           | Some (ASub pre p) => sub_map pre (awrites f vs p)
           | Some n => alocal_of n
           | None => ∅
           end
  end.

Record astate := ASt { a_chain : achain; a_views : avtable }.
Definition ast_init : astate := ASt [] ∅.

Definition astep (a : astate) (o : op) : astate * ans :=
  let c := a_chain a in
  let vs := a_views a in
  match o with
  | OAdd prev cid data p =>
    if ident_eqb prev (a_front_id c) then
      let full := p ++ frontier_ops cid data in
      (ASt (CE cid (abs_apply (a_front c) full) full :: c) vs, ABool true)
    else (* any other parent: refused without changing the store; an unknown parent is an error *)
      (a, ABool (ident_eqb prev zero_id || match a_find c prev with Some _ => true | None => false end))
  | OPop => (ASt (tail c) vs, ABool true)
  | OGet v i =>
    if ident_eqb i zero_id then (ASt c (<[v := ARoot ∅ ∅]> vs), AKind 1)
    else match a_find c i with
         | Some e => (ASt c (<[v := ARoot ∅ (ce_state e)]> vs), AKind 1)
         | None => (ASt c (delete v vs), AKind 0)
         end
  | OVGet v k => (a, AOpt (aget vs v !! k))
  | OVHas v k => (a, ABool (match aget vs v !! k with Some _ => true | None => false end))
  | OVScan v p => (a, AScan (ascan (aget vs v) p))
  | OVPut v k x => (ASt c (awrite vs v k (Some x)), AUnit)
  | OVDel v k => (ASt c (awrite vs v k None), AUnit)
  | OVSnap v nv => (ASt c (<[nv := ASnap ∅ v]> vs), AUnit)
  | OVChanges v => (a, APatch (achanges (awrites (afuel vs) vs v)))
  | OVSub v nv pre => (ASt c (<[nv := ASub pre v]> vs), AUnit)
  | OVApply v p => (ASt c (foldl (fun vs o => awrite vs v (pkey o) (dec_op o)) vs p), AUnit)
  | OEvict => (a, AUnit)
  | OGetPatch i => (a, AOptPatch (ce_patch <$> a_at c (snd i)))
  end.

Fixpoint arun (a : astate) (ops : list op) : list ans :=
  match ops with
  | [] => []
  | o :: r => let '(a', x) := astep a o in x :: arun a' r
  end.

(* Well-formed operations (what callers of the store guarantee): a commit on the frontier carries the next
   height, a hash not yet on the chain, and a patch that does not touch the manager's own keys; a rollback is
   only requested when there is something to roll back. *)
Definition reserved (k : key) : bool := match k with b :: _ => (0 <=? b) && (b <? 3) | [] => false end.
Definition wf_op (c : achain) (o : op) : Prop :=
  match o with
  | OAdd prev cid data p =>
    prev = a_front_id c ->
    snd cid = a_height c + 1 /\ snd cid < two64 /\
    Forall (fun e => fst (ce_id e) <> fst cid) c /\
    Forall (fun o => reserved (pkey o) = false) p
  | OPop => c <> []
  | _ => True
  end.
Fixpoint wf_ops (a : astate) (ops : list op) : Prop :=
  match ops with
  | [] => True
  | o :: r => wf_op (a_chain a) o /\ wf_ops (fst (astep a o)) r
  end.
