(* Model of chain/nom/account_block.go, chain/nom/momentum.go, chain/nom/momentum_content.go,
   common/types/{hash_height,account_header}.go, common/bytes.go:
   the block records, the exact hash pre-image of ComputeHash, and the covered / uncovered projections.
   SHA3-256 (types.NewHash) is a parameter [H : bytes -> bytes] of every definition that needs it. *)
From ZV Require Import Prelude.
Open Scope Z_scope.

(* common.Uint64ToBytes: binary.BigEndian.PutUint64 *)
Definition u64be (x : Z) : bytes := be_bytes 8 x.

(* number of bytes of big.Int.Bytes() for |z| *)
Definition nbytes (z : Z) : Z := if Z.abs z =? 0 then 0 else Z.log2 (Z.abs z) / 8 + 1.
(* common.BigIntToBytes: LeftPadBytes(|z|.Bytes(), 32); nil is 0; the sign is dropped; more than 32 bytes are kept as they are *)
Definition big32 (z : Z) : bytes := be_bytes (Z.to_nat (Z.max 32 (nbytes z))) (Z.abs z).
(* common.BytesToBigInt *)
Definition big_of_bytes (b : bytes) : Z := be_value b.

(* ---------------------------------------------------------------- account block *)
(* all fields of nom.AccountBlock except DescendantBlocks *)
Record ABody := mkABody {
  ab_version : Z; ab_chainid : Z; ab_blocktype : Z;
  ab_hash : bytes; ab_prev : bytes; ab_height : Z;
  ab_ma_hash : bytes; ab_ma_height : Z;
  ab_addr : bytes; ab_to : bytes; ab_amount : Z; ab_zts : bytes;
  ab_from : bytes;
  ab_data : bytes;
  ab_fused : Z; ab_diff : Z; ab_nonce : bytes;
  ab_base : Z; ab_total : Z;
  ab_changes : bytes;
  ab_pk : bytes; ab_sig : bytes
}.
(* a block with its descendant blocks (the Go type is recursive) *)
Inductive AB := ABNode (b : ABody) (ds : list AB).
Definition body (x : AB) : ABody := match x with ABNode b _ => b end.
Definition desc (x : AB) : list AB := match x with ABNode _ ds => ds end.

Definition hash_height_bytes (h : bytes) (n : Z) : bytes := h ++ u64be n.

(* DescendantBlocksHash: hash of the concatenated Hash FIELDS of the descendants *)
Definition desc_hashes (x : AB) : list bytes := map (fun d => ab_hash (body d)) (desc x).
Definition desc_source (x : AB) : bytes := concat (desc_hashes x).

(* the pre-image with the two inner digests supplied (this is what the tie compares byte for byte) *)
Definition ab_preimage_with (hdesc hdata : bytes) (b : ABody) : bytes :=
  u64be (ab_version b) ++ u64be (ab_chainid b) ++ u64be (ab_blocktype b) ++
  ab_prev b ++ u64be (ab_height b) ++ hash_height_bytes (ab_ma_hash b) (ab_ma_height b) ++
  ab_addr b ++ ab_to b ++ big32 (ab_amount b) ++ ab_zts b ++ ab_from b ++
  hdesc ++ hdata ++
  u64be (ab_fused b) ++ u64be (ab_diff b) ++ ab_nonce b.

Definition ab_preimage (H : bytes -> bytes) (x : AB) : bytes :=
  ab_preimage_with (H (desc_source x)) (H (ab_data (body x))) (body x).
Definition ab_compute_hash (H : bytes -> bytes) (x : AB) : bytes := H (ab_preimage H x).

(* the fields the hash speaks about. Descendants enter through their Hash fields only. *)
Record ABCovered := mkCov {
  cv_version : Z; cv_chainid : Z; cv_blocktype : Z; cv_prev : bytes; cv_height : Z;
  cv_ma_hash : bytes; cv_ma_height : Z; cv_addr : bytes; cv_to : bytes; cv_amount : Z;
  cv_zts : bytes; cv_from : bytes; cv_desc : list bytes; cv_data : bytes;
  cv_fused : Z; cv_diff : Z; cv_nonce : bytes
}.
Definition ab_covered (x : AB) : ABCovered :=
  let b := body x in
  mkCov (ab_version b) (ab_chainid b) (ab_blocktype b) (ab_prev b) (ab_height b)
        (ab_ma_hash b) (ab_ma_height b) (ab_addr b) (ab_to b) (ab_amount b)
        (ab_zts b) (ab_from b) (desc_hashes x) (ab_data b)
        (ab_fused b) (ab_diff b) (ab_nonce b).
(* outside the hash: the plasma totals, the changes hash, key and signature
   (and everything inside a descendant except its Hash field) *)
Record ABUncovered := mkUnc {
  uc_base : Z; uc_total : Z; uc_changes : bytes; uc_pk : bytes; uc_sig : bytes
}.
Definition ab_uncovered (x : AB) : ABUncovered :=
  let b := body x in mkUnc (ab_base b) (ab_total b) (ab_changes b) (ab_pk b) (ab_sig b).

Definition set_body_cov (c : ABCovered) (h : bytes) (u : ABUncovered) : ABody :=
  mkABody (cv_version c) (cv_chainid c) (cv_blocktype c) h (cv_prev c) (cv_height c)
          (cv_ma_hash c) (cv_ma_height c) (cv_addr c) (cv_to c) (cv_amount c) (cv_zts c)
          (cv_from c) (cv_data c) (cv_fused c) (cv_diff c) (cv_nonce c)
          (uc_base u) (uc_total u) (uc_changes u) (uc_pk u) (uc_sig u).

Definition is_u64 (x : Z) : Prop := 0 <= x < two64.
Definition blen (n : nat) (b : bytes) : Prop := length b = n.

(* shape of a block held in a Go value: fixed-size arrays have their size, integers are uint64;
   the amount is a non-negative big.Int below 2^256 (verifier: Sign != -1, BitLen <= 255) *)
Record ab_wf (x : AB) : Prop := mkWf {
  wf_version : is_u64 (ab_version (body x)); wf_chainid : is_u64 (ab_chainid (body x));
  wf_blocktype : is_u64 (ab_blocktype (body x)); wf_height : is_u64 (ab_height (body x));
  wf_ma_height : is_u64 (ab_ma_height (body x)); wf_fused : is_u64 (ab_fused (body x));
  wf_diff : is_u64 (ab_diff (body x));
  wf_prev : blen 32 (ab_prev (body x)); wf_ma_hash : blen 32 (ab_ma_hash (body x));
  wf_addr : blen 20 (ab_addr (body x)); wf_to : blen 20 (ab_to (body x));
  wf_zts : blen 10 (ab_zts (body x)); wf_from : blen 32 (ab_from (body x));
  wf_nonce : blen 8 (ab_nonce (body x));
  wf_amount : 0 <= ab_amount (body x) < 2 ^ 256;
  wf_desc : Forall (blen 32) (desc_hashes x)
}.

(* ---------------------------------------------------------------- momentum *)
Record AHeader := mkAHeader { ah_addr : bytes; ah_hash : bytes; ah_height : Z }.
(* AccountHeader.Bytes: address ++ height ++ hash *)
Definition aheader_bytes (h : AHeader) : bytes := ah_addr h ++ u64be (ah_height h) ++ ah_hash h.
Definition content_bytes (c : list AHeader) : bytes := concat (map aheader_bytes c).

Record Mom := mkMom {
  m_version : Z; m_chainid : Z; m_hash : bytes; m_prev : bytes; m_height : Z; m_timestamp : Z;
  m_data : bytes; m_content : list AHeader; m_changes : bytes; m_pk : bytes; m_sig : bytes
}.
Definition mom_preimage_with (hdata hcontent : bytes) (m : Mom) : bytes :=
  u64be (m_version m) ++ u64be (m_chainid m) ++ m_prev m ++ u64be (m_height m) ++
  u64be (m_timestamp m) ++ hdata ++ hcontent ++ m_changes m.
Definition mom_preimage (H : bytes -> bytes) (m : Mom) : bytes :=
  mom_preimage_with (H (m_data m)) (H (content_bytes (m_content m))) m.
Definition mom_compute_hash (H : bytes -> bytes) (m : Mom) : bytes := H (mom_preimage H m).

Record MomCovered := mkMCov {
  mc_version : Z; mc_chainid : Z; mc_prev : bytes; mc_height : Z; mc_timestamp : Z;
  mc_data : bytes; mc_content : list AHeader; mc_changes : bytes
}.
Definition mom_covered (m : Mom) : MomCovered :=
  mkMCov (m_version m) (m_chainid m) (m_prev m) (m_height m) (m_timestamp m) (m_data m) (m_content m) (m_changes m).

Record ah_wf (h : AHeader) : Prop := mkAhWf {
  ahw_addr : blen 20 (ah_addr h); ahw_hash : blen 32 (ah_hash h); ahw_height : is_u64 (ah_height h) }.
Record mom_wf (m : Mom) : Prop := mkMomWf {
  mw_version : is_u64 (m_version m); mw_chainid : is_u64 (m_chainid m); mw_height : is_u64 (m_height m);
  mw_timestamp : is_u64 (m_timestamp m); mw_prev : blen 32 (m_prev m); mw_changes : blen 32 (m_changes m);
  mw_content : Forall ah_wf (m_content m)
}.

(* NewMomentumContent: the headers of the blocks, sorted by Bytes() (insertion sort model of
   sort.Slice with the comparer "a <= b"; the result is the same sorted list whenever the
   keys are pairwise distinct, which holds for headers of distinct blocks) *)
Fixpoint bytes_leb (a b : bytes) : bool :=
  match a, b with
  | [], _ => true
  | _ :: _, [] => false
  | x :: a', y :: b' => if x <? y then true else if y <? x then false else bytes_leb a' b'
  end.
Fixpoint insert_by {A} (key : A -> bytes) (x : A) (l : list A) : list A :=
  match l with
  | [] => [x]
  | y :: r => if bytes_leb (key x) (key y) then x :: l else y :: insert_by key x r
  end.
Definition sort_by {A} (key : A -> bytes) (l : list A) : list A := fold_right (insert_by key) [] l.
Definition new_momentum_content (hs : list AHeader) : list AHeader := sort_by aheader_bytes hs.
