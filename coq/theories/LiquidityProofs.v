(* Proofs about the liquidity-stake model (Liquidity.v): method table well-formedness (no panic, frame), backing of the
   stake entries per token along every history of the entry-touching methods, release rules as success => guard,
   never-twice, and the refutation of backing once the treasury methods (Fund / BurnZnn) are part of the history. *)
From ZV Require Import Prelude GoSem Abi AbiProofs VmReceive VmReceiveProofs Emb EmbProofs Locks LocksProofs LocksBacked Liquidity.
From ZV.gen Require Import Consts.
Open Scope Z_scope.
Ltac Zify.zify_post_hook ::= Z.div_mod_to_equations.

(* ---------------------------------------------------------------- tables *)
Lemma tget_tmap {V} (f : V -> V) (t : tab V) k : tget (tmap f t) k = option_map f (tget t k).
Proof. induction t as [|[k' v] r IH]; cbn; [reflexivity|]. destruct (bytes_eqb k' k); [reflexivity|exact IH]. Qed.
Lemma tnodup_tmap {V} (f : V -> V) (t : tab V) : tnodup t -> tnodup (tmap f t).
Proof.
  induction t as [|[k v] r IH]; cbn; [auto|]. intros (Hg & Hr). split; [|apply IH; exact Hr].
  rewrite tget_tmap, Hg. reflexivity.
Qed.
Lemma tsum_tmap {V} (g : V -> Z) (f : V -> V) (t : tab V) : (forall v, g (f v) = g v) -> tsum g (tmap f t) = tsum g t.
Proof. intros H. induction t as [|[k v] r IH]; cbn; [reflexivity|]. rewrite H, IH. reflexivity. Qed.
Lemma tall_tmap {V} (P : V -> Prop) (f : V -> V) (t : tab V) : (forall v, P v -> P (f v)) -> tall P t -> tall P (tmap f t).
Proof.
  intros Hf Ht k v E. rewrite tget_tmap in E. destruct (tget t k) as [v0|] eqn:Eg; [|discriminate].
  inversion E; subst. apply Hf. eapply Ht; eauto.
Qed.

(* ---------------------------------------------------------------- validation never panics *)
Definition lq_env_ok (e : env) : Prop :=
  0 < c_StakeTimeUnit e /\ 0 <= c_StakeTimeMin e /\ c_StakeTimeMax e < 13 * c_StakeTimeUnit e.

Lemma liquidity_stake_validate_no_panic e s : lq_env_ok e -> data_ok (s_data s) -> liquidity_stake_validate e s <> VPanic.
Proof.
  intros (Hu & _) Hd. unfold liquidity_stake_validate.
  destruct (unpack_args Sel_liquidity_LiquidityStake [TInt 64] (s_data s)) as [vs| |] eqn:E.
  - apply unpack_args_shape in E; shapes.
    destruct (_ || _); [discriminate|].
    destruct (c_StakeTimeUnit e =? 0) eqn:Eu; [exfalso; lia|]. destruct (negb _); discriminate.
  - discriminate.
  - exfalso; revert E; apply unpack_args_no_panic; [wf_tys | vm_compute; discriminate | exact Hd].
Qed.
Lemma cancel_liquidity_validate_no_panic s : data_ok (s_data s) -> cancel_liquidity_validate s <> VPanic.
Proof. intros Hd. unfold cancel_liquidity_validate. validate_args Sel_liquidity_CancelLiquidityStake [THash]. Qed.
Lemma unlock_liquidity_validate_no_panic s : unlock_liquidity_validate s <> VPanic.
Proof. unfold unlock_liquidity_validate. validate_empty Sel_liquidity_UnlockLiquidityStakeEntries. Qed.
Lemma set_halted_validate_no_panic s : data_ok (s_data s) -> set_halted_validate s <> VPanic.
Proof. intros Hd. unfold set_halted_validate. validate_args Sel_liquidity_SetIsHalted [TBool]. Qed.
Lemma fund_validate_no_panic sp s : data_ok (s_data s) -> fund_validate sp s <> VPanic.
Proof. intros Hd. unfold fund_validate. destruct (negb _); [discriminate|]. validate_args Sel_liquidity_Fund [TUint 256; TUint 256]. Qed.
Lemma burn_znn_validate_no_panic sp s : data_ok (s_data s) -> burn_znn_validate sp s <> VPanic.
Proof. intros Hd. unfold burn_znn_validate. destruct (negb _); [discriminate|]. validate_args Sel_liquidity_BurnZnn [TUint 256]. Qed.

(* what LiquidityStake's validation establishes: the period indexes the weights table *)
Lemma liquidity_weights_len : length LiquidityStakeWeights = 13%nat. Proof. reflexivity. Qed.
Lemma liquidity_weight_some e s t : lq_env_ok e -> liquidity_stake_validate e s = VOk t -> liquidity_weight e t <> None.
Proof.
  intros (Hu & Hmin & Hmax) Hv. unfold liquidity_stake_validate in Hv.
  destruct (unpack_args _ _ _) as [vs| |]; try discriminate.
  destruct vs as [|[x| | |] [|]]; try discriminate.
  destruct ((x <? c_StakeTimeMin e) || (c_StakeTimeMax e <? x)) eqn:Er; [discriminate|].
  destruct (c_StakeTimeUnit e =? 0); [discriminate|]. destruct (negb _); [discriminate|]. inversion Hv; subst x. clear Hv.
  apply orb_false_iff in Er. destruct Er as (E1 & E2).
  assert (Ht : 0 <= t <= c_StakeTimeMax e) by lia.
  unfold liquidity_weight.
  assert (Hq : 0 <= Z.quot t (c_StakeTimeUnit e) < 13).
  { rewrite Z.quot_div_nonneg by lia. split; [apply Z.div_pos; lia|]. apply Z.div_lt_upper_bound; lia. }
  replace (Z.quot t (c_StakeTimeUnit e) <? 0) with false by (symmetry; lia).
  apply nth_error_Some. rewrite liquidity_weights_len. lia.
Qed.

(* ---------------------------------------------------------------- the method tables *)
Section Tables.
  Variable dc : dsend -> option Z.
  Variable zstr : bytes -> bytes.

  (* the methods that touch stake entries / the halted flag, and donations *)
  Definition liq_lookup (ef : send -> env) (s : send) : lres qstore :=
    let sel := sel_of (s_data s) in
    if bytes_eqb sel Sel_liquidity_LiquidityStake then LFound (liquidity_stake_receive zstr (ef s))
    else if bytes_eqb sel Sel_liquidity_CancelLiquidityStake then LFound (cancel_liquidity_receive (ef s))
    else if bytes_eqb sel Sel_liquidity_UnlockLiquidityStakeEntries then LFound (unlock_liquidity_receive (ef s))
    else if bytes_eqb sel Sel_liquidity_SetIsHalted then LFound set_halted_receive
    else if bytes_eqb sel Sel_liquidity_Donate then LFound donate_receive
    else LNotFound.
  Definition lq_entry_ok (e : lstake) : Prop := 0 <= ls_amount e /\ (0 < ls_amount e -> ls_zts e <> zero_zts).
  Definition J_liq (a : cacct qstore) : Prop := tall lq_entry_ok (lq_entries (a_store a)).

  Lemma unlock_entry_ok now z e : lq_entry_ok e -> lq_entry_ok (unlock_entry now z e).
  Proof. unfold unlock_entry. destruct (_ && _); auto. Qed.

  Ltac lq_cases El :=
    unfold liq_lookup in El; cbv zeta in El;
    repeat (match type of El with context [bytes_eqb ?x ?y] => destruct (bytes_eqb x y) end;
            [inversion El; subst; clear El|]); try discriminate.

  Lemma liq_table_ok ef : (forall s, lq_env_ok (ef s)) -> table_ok qstore dc J_liq (liq_lookup ef).
  Proof.
    intros He. split.
    - intros a a' HJ Hs _. unfold J_liq in *. rewrite Hs. exact HJ.
    - intros s. unfold liq_lookup. cbv zeta. repeat destruct (bytes_eqb _ _); discriminate.
    - intros s m a El HJ Hn Hs. assert (Hd : data_ok (s_data s)) by (split; apply Hs). lq_cases El.
      + unfold liquidity_stake_receive.
        pose proof (liquidity_stake_validate_no_panic (ef s) s (He s) Hd).
        destruct (liquidity_stake_validate (ef s) s) as [t| |] eqn:Ev; [|discriminate|contradiction].
        destruct (tuple_check _ _ _); [discriminate|].
        pose proof (liquidity_weight_some (ef s) s t (He s) Ev). destruct (liquidity_weight (ef s) t); [discriminate|contradiction].
      + unfold cancel_liquidity_receive. pose proof (cancel_liquidity_validate_no_panic s Hd).
        destruct (cancel_liquidity_validate s); [|discriminate|contradiction].
        destruct (tget _ _); [|discriminate]. destruct (Z.ltb _ _); discriminate.
      + unfold unlock_liquidity_receive. pose proof (unlock_liquidity_validate_no_panic s).
        destruct (unlock_liquidity_validate s); [|discriminate|contradiction]. destruct (negb _); discriminate.
      + unfold set_halted_receive. pose proof (set_halted_validate_no_panic s Hd).
        destruct (set_halted_validate s); [|discriminate|contradiction]. destruct (negb _); discriminate.
      + unfold donate_receive. pose proof (donate_validate_no_panic s). destruct (donate_validate s); [discriminate|discriminate|contradiction].
    - intros s m a a' ds El HJ Hn Hs Em.
      pose proof (credited_nonneg qstore a s Hn Hs) as Hnc. lq_cases El.
      + unfold liquidity_stake_receive in Em. destruct (liquidity_stake_validate (ef s) s) as [t| |]; try discriminate.
        destruct (tuple_check _ _ _); [discriminate|]. destruct (liquidity_weight (ef s) t) as [w|]; [|discriminate].
        inversion Em; subst a' ds. clear Em.
        split; [|split; [|split]]; auto.
        intros a'' Ea. inversion Ea; subst a''. unfold J_liq. cbn [a_store with_store set_entries lq_entries]. rewrite ?credited_store.
        apply tall_tput; [exact HJ|]. split; cbn [ls_amount ls_zts]; [apply u256_nonneg|].
        intros Hp. destruct Hs as (Hs0 & Hz & _). apply Hz.
        destruct (Z_lt_dec 0 (s_amount s)); [assumption|]. assert (s_amount s = 0) by lia.
        replace (s_amount s) with 0 in Hp by lia. cbv in Hp. discriminate.
      + unfold cancel_liquidity_receive in Em. destruct (cancel_liquidity_validate s) as [id| |]; try discriminate.
        rewrite credited_store in Em.
        destruct (tget (lq_entries (a_store a)) (s_from s ++ id)) as [ent|] eqn:Eg; [|discriminate].
        destruct (e_now (ef s) <? ls_exp ent); [discriminate|].
        inversion Em; subst a' ds. clear Em.
        pose proof (HJ _ _ Eg) as (Hamt & Hzt).
        assert (Hds : Forall ds_ok [{| d_to := s_from s; d_amount := ls_amount ent; d_zts := ls_zts ent; d_data := [] |}]).
        { constructor; [|constructor]. split; cbn; [exact Hamt | exact Hzt]. }
        split; [|split; [|split]]; auto.
        intros a'' Ea. unfold J_liq.
        rewrite (apply_all_store qstore dc _ _ a'' (with_store_nonneg qstore _ _ Hnc) Hds Ea).
        cbn [a_store with_store set_entries lq_entries]. apply tall_tput; [exact HJ|]. split; cbn; [lia|intros; lia].
      + unfold unlock_liquidity_receive in Em. destruct (unlock_liquidity_validate s); try discriminate.
        destruct (negb _); [discriminate|]. inversion Em; subst a' ds. clear Em.
        split; [|split; [|split]]; auto.
        intros a'' Ea. inversion Ea; subst a''. unfold J_liq. cbn [a_store with_store set_entries lq_entries]. rewrite ?credited_store.
        apply tall_tmap; [intros v; apply unlock_entry_ok | exact HJ].
      + unfold set_halted_receive in Em. destruct (set_halted_validate s); try discriminate.
        destruct (negb _); [discriminate|]. inversion Em; subst a' ds. clear Em.
        split; [|split; [|split]]; auto.
        intros a'' Ea. inversion Ea; subst a''. unfold J_liq. cbn [a_store with_store set_halted lq_entries]. rewrite ?credited_store. exact HJ.
      + unfold donate_receive in Em. destruct (donate_validate s); try discriminate.
        inversion Em; subst a' ds. clear Em.
        split; [|split; [|split]]; auto.
        intros a'' Ea. inversion Ea; subst a''. unfold J_liq. rewrite credited_store. exact HJ.
  Qed.

  (* ---------------------------------------------------------------- backing *)
  Definition K_liq (a : cacct qstore) : Prop :=
    tnodup (lq_entries (a_store a)) /\ forall z, liab_liquidity (a_store a) z <= bal_get (a_bal a) z.

  Lemma lq_entry_sel_nonneg (t : tab lstake) z : tall lq_entry_ok t -> tall (fun e => 0 <= zsel (ls_zts e) z (ls_amount e)) t.
  Proof. intros Ht k v E. destruct (Ht k v E) as (Ha & _). unfold zsel. destruct (bytes_eqb _ _); lia. Qed.
  Lemma unlock_entry_sel now z0 z e : zsel (ls_zts (unlock_entry now z0 e)) z (ls_amount (unlock_entry now z0 e)) = zsel (ls_zts e) z (ls_amount e).
  Proof. unfold unlock_entry. destruct (_ && _); reflexivity. Qed.

  Lemma liq_backed_table_ok ef : (forall s, lq_env_ok (ef s)) ->
    table_ok qstore dc (fun a => J_liq a /\ K_liq a) (liq_lookup ef).
  Proof.
    intros He. apply table_ok_strengthen; [apply liq_table_ok; exact He| |].
    - intros a a' (Hu & Hb) Hs Hbal. unfold K_liq. rewrite Hs. split; [exact Hu|]. intros z. rewrite Hbal. apply Hb.
    - intros s m a a' ds a'' El HJ (Hu & Hb) Hn Hs Em Hn' Hds Ea. lq_cases El.
      + (* stake: the entry is booked against the deposit of the same token *)
        unfold liquidity_stake_receive in Em. destruct (liquidity_stake_validate (ef s) s) as [t| |]; try discriminate.
        destruct (tuple_check _ _ _); [discriminate|]. destruct (liquidity_weight (ef s) t) as [w|]; [|discriminate].
        inversion Em; subst a' ds. clear Em. apply apply_all_nil in Ea. subst a''.
        unfold K_liq. cbn [a_store a_bal with_store set_entries lq_entries]. rewrite ?credited_store.
        split; [apply tnodup_tput; exact Hu|].
        intros z. unfold liab_liquidity. cbn [lq_entries set_entries]. rewrite tsum_tput by exact Hu. cbn [ls_zts ls_amount].
        pose proof (told_nonneg _ _ (s_from s ++ s_hash s) (lq_entry_sel_nonneg _ z HJ)) as Ho.
        specialize (Hb z). unfold liab_liquidity in Hb. rewrite credited_eq.
        destruct Hs as (Hs0 & _). pose proof (u256_le (s_amount s) Hs0).
        unfold zsel in *. destruct (bytes_eqb (s_zts s) z); lia.
      + (* cancel: pays exactly what the entry recorded and zeroes it *)
        unfold cancel_liquidity_receive in Em. destruct (cancel_liquidity_validate s) as [id| |]; try discriminate.
        rewrite credited_store in Em.
        destruct (tget (lq_entries (a_store a)) (s_from s ++ id)) as [ent|] eqn:Eg; [|discriminate].
        destruct (_ <? _); [discriminate|].
        inversion Em; subst a' ds. clear Em.
        inversion Hds as [|? ? Hd1 _]; subst.
        destruct (apply_all_one qstore dc _ a'' _ Hn' Hd1 Ea) as (Hst & _ & Hg).
        unfold K_liq. rewrite Hst. cbn [a_store with_store set_entries lq_entries]. split; [apply tnodup_tput; exact Hu|].
        intros z. rewrite Hg. cbn [a_bal with_store d_zts d_amount].
        unfold liab_liquidity. cbn [lq_entries set_entries]. rewrite tsum_tput by exact Hu. cbn [ls_zts ls_amount].
        rewrite (told_get _ _ _ _ Eg).
        specialize (Hb z). unfold liab_liquidity in Hb. pose proof (credited_ge qstore a s z Hs).
        unfold zsel in *. destruct (bytes_eqb (ls_zts ent) z); lia.
      + (* unlock: amounts and tokens untouched *)
        unfold unlock_liquidity_receive in Em. destruct (unlock_liquidity_validate s); try discriminate.
        destruct (negb _); [discriminate|]. inversion Em; subst a' ds. clear Em. apply apply_all_nil in Ea. subst a''.
        unfold K_liq. cbn [a_store a_bal with_store set_entries lq_entries]. rewrite ?credited_store.
        split; [apply tnodup_tmap; exact Hu|].
        intros z. unfold liab_liquidity. cbn [lq_entries set_entries].
        rewrite (tsum_tmap (fun e => zsel (ls_zts e) z (ls_amount e))) by (intros v; apply unlock_entry_sel).
        specialize (Hb z). unfold liab_liquidity in Hb. pose proof (credited_ge qstore a s z Hs). lia.
      + unfold set_halted_receive in Em. destruct (set_halted_validate s); try discriminate.
        destruct (negb _); [discriminate|]. inversion Em; subst a' ds. clear Em. apply apply_all_nil in Ea. subst a''.
        unfold K_liq. cbn [a_store a_bal with_store set_halted lq_entries]. rewrite ?credited_store. split; [exact Hu|].
        intros z. specialize (Hb z). unfold liab_liquidity in *. cbn [lq_entries set_halted]. rewrite ?credited_store.
        pose proof (credited_ge qstore a s z Hs). lia.
      + unfold donate_receive in Em. destruct (donate_validate s); try discriminate.
        inversion Em; subst a' ds. apply apply_all_nil in Ea. subst a''.
        unfold K_liq. split; [rewrite credited_store; exact Hu|]. intros z. specialize (Hb z).
        pose proof (credited_ge qstore a s z Hs). rewrite credited_store. lia.
  Qed.

  Theorem liquidity_backed_history ef q a : (forall s, lq_env_ok (ef s)) -> deliverable dc q ->
    nonneg qstore a -> J_liq a -> K_liq a ->
    exists a', process_all qstore dc (liq_lookup ef) a q = Some a' /\ J_liq a' /\ K_liq a'.
  Proof.
    intros He Hq Hn HJ HK.
    destruct (inbox_never_wedged qstore dc _ (liq_lookup ef) q (liq_backed_table_ok ef He) Hq a Hn (conj HJ HK))
      as (a' & E & _ & _ & HJ' & HK'). eauto.
  Qed.
End Tables.

(* ... plus the treasury methods *)
Definition liq_lookup_all (zstr : bytes -> bytes) (spork_addr : bytes) (accel : bool) (ef : send -> env) (s : send) : lres qstore :=
  let sel := sel_of (s_data s) in
  if bytes_eqb sel Sel_liquidity_Fund then LFound (fund_receive spork_addr accel)
  else if bytes_eqb sel Sel_liquidity_BurnZnn then LFound (burn_znn_receive spork_addr accel)
  else liq_lookup zstr ef s.

(* ---------------------------------------------------------------- release rules: success => guard *)

(* CancelLiquidityStake: only the sender's own entry (the key contains the sender), not before its expiration, pays
   exactly the entry's amount in the entry's token to the sender and closes the entry *)
Theorem cancel_liquidity_guard e (a a' : cacct qstore) s ds :
  cancel_liquidity_receive e a s = MOk a' ds ->
  exists id ent, cancel_liquidity_validate s = VOk id /\ tget (lq_entries (a_store a)) (s_from s ++ id) = Some ent /\
    ls_exp ent <= e_now e /\
    ds = [{| d_to := s_from s; d_amount := ls_amount ent; d_zts := ls_zts ent; d_data := [] |}] /\
    exists ent', tget (lq_entries (a_store a')) (s_from s ++ id) = Some ent' /\ ls_amount ent' = 0 /\ ls_revoke ent' = e_now e /\
    a_bal a' = a_bal a.
Proof.
  unfold cancel_liquidity_receive. destruct (cancel_liquidity_validate s) as [id| |] eqn:Ev; try discriminate.
  destruct (tget (lq_entries (a_store a)) (s_from s ++ id)) as [ent|] eqn:Eg; [|discriminate].
  destruct (e_now e <? ls_exp ent) eqn:Et; [discriminate|]. intros H; inv_ok H.
  exists id, ent. repeat split; auto; try lia.
  eexists. cbn [a_store with_store set_entries lq_entries]. rewrite tget_tput, bytes_eqb_refl. repeat split.
Qed.

(* a cancelled liquidity stake pays nothing the second time (the entry stays, with amount 0, until the reward update) *)
Theorem liquidity_never_twice e e' (a a' a'' : cacct qstore) s s2 ds ds2 id :
  cancel_liquidity_receive e a s = MOk a' ds -> cancel_liquidity_validate s = VOk id ->
  s_from s2 = s_from s -> cancel_liquidity_validate s2 = VOk id ->
  cancel_liquidity_receive e' a' s2 = MOk a'' ds2 ->
  exists z, ds2 = [{| d_to := s_from s; d_amount := 0; d_zts := z; d_data := [] |}].
Proof.
  intros H1 Ev Hf Ev2 H2.
  destruct (cancel_liquidity_guard e a a' s ds H1) as (id1 & ent & Ev1 & _ & _ & _ & ent' & Hg' & Hz & _).
  rewrite Ev in Ev1. inversion Ev1; subst id1.
  destruct (cancel_liquidity_guard e' a' a'' s2 ds2 H2) as (id2 & ent2 & Ev2' & Hg2 & _ & Hds & _).
  rewrite Ev2 in Ev2'. inversion Ev2'; subst id2. rewrite Hf in *. rewrite Hg' in Hg2. inversion Hg2; subst ent2.
  exists (ls_zts ent'). rewrite Hds, Hz. reflexivity.
Qed.

(* somebody else's call never reaches the entry: the entry read is the one under the SENDER's address *)
Theorem cancel_liquidity_only_own_entry e (a : cacct qstore) s id :
  cancel_liquidity_validate s = VOk id -> tget (lq_entries (a_store a)) (s_from s ++ id) = None ->
  cancel_liquidity_receive e a s = MErr E_nonexistent.
Proof. intros Ev Eg. unfold cancel_liquidity_receive. rewrite Ev, Eg. reflexivity. Qed.

(* LiquidityStake books exactly the deposit, under the sender and the send's hash, for a configured token and at
   least its minimum *)
Theorem liquidity_stake_guard zstr e (a a' : cacct qstore) s ds :
  liquidity_stake_receive zstr e a s = MOk a' ds ->
  exists t ent, liquidity_stake_validate e s = VOk t /\ ds = [] /\ a_bal a' = a_bal a /\
    tuple_check (lq_tuples (a_store a)) (zstr (s_zts s)) (s_amount s) = None /\
    tget (lq_entries (a_store a')) (s_from s ++ s_hash s) = Some ent /\
    ls_amount ent = u256 (s_amount s) /\ ls_zts ent = s_zts s /\ ls_start ent = e_now e /\ ls_revoke ent = 0 /\ ls_exp ent = wrapS 64 (e_now e + t).
Proof.
  unfold liquidity_stake_receive. destruct (liquidity_stake_validate e s) as [t| |] eqn:Ev; try discriminate.
  destruct (tuple_check _ _ _) eqn:Et; [discriminate|]. destruct (liquidity_weight e t) as [w|]; [|discriminate].
  intros H; inv_ok H. eexists t, _. cbn [a_store with_store set_entries lq_entries a_bal]. rewrite tget_tput, bytes_eqb_refl.
  repeat split; auto.
Qed.
Lemma tuple_check_none ts zs amount : tuple_check ts zs amount = None ->
  exists t, In t ts /\ lt_zts t = zs /\ lt_min t <= amount.
Proof.
  induction ts as [|t r IH]; cbn; [discriminate|]. destruct (bytes_eqb (lt_zts t) zs) eqn:E.
  - destruct (amount <? lt_min t) eqn:El; [discriminate|]. intros _. exists t. apply bytes_eqb_eq in E. repeat split; auto; lia.
  - intros H. destruct (IH H) as (t' & Hin & ?). exists t'. split; [right; exact Hin|assumption].
Qed.

(* UnlockLiquidityStakeEntries: only the administrator; it moves no value and changes no amount, owner or token - only
   expirations of the named token, and only downwards to now *)
Theorem unlock_liquidity_guard e (a a' : cacct qstore) s ds :
  unlock_liquidity_receive e a s = MOk a' ds ->
  s_from s = lq_admin (a_store a) /\ ds = [] /\ a_bal a' = a_bal a /\
  forall k, match tget (lq_entries (a_store a)) k, tget (lq_entries (a_store a')) k with
            | Some x, Some y => ls_amount y = ls_amount x /\ ls_zts y = ls_zts x /\ ls_revoke y = ls_revoke x /\ ls_start y = ls_start x /\
                                (ls_exp y = ls_exp x \/ (ls_zts x = s_zts s /\ e_now e < ls_exp x /\ ls_exp y = e_now e))
            | None, None => True
            | _, _ => False
            end.
Proof.
  unfold unlock_liquidity_receive. destruct (unlock_liquidity_validate s); try discriminate.
  destruct (negb (bytes_eqb (s_from s) (lq_admin (a_store a)))) eqn:Ea; [discriminate|].
  intros H; inv_ok H. apply negb_false_iff, bytes_eqb_eq in Ea. repeat split; auto.
  intros k. cbn [a_store with_store set_entries lq_entries]. rewrite tget_tmap.
  destruct (tget (lq_entries (a_store a)) k) as [x|]; cbn [option_map]; [|exact I].
  unfold unlock_entry. destruct (bytes_eqb (ls_zts x) (s_zts s) && (e_now e <? ls_exp x)) eqn:Ec; cbn; repeat split; auto.
  right. apply andb_true_iff in Ec. destruct Ec as (E1 & E2). apply bytes_eqb_eq in E1. repeat split; auto; lia.
Qed.

(* ---------------------------------------------------------------- KNOWN FINDING: the treasury methods ignore open stakes *)

(* the model's Fund, as the code: succeeds whenever the whole balance covers the amounts *)
Theorem fund_ignores_stakes sp (a : cacct qstore) s znn qsr :
  fund_validate sp s = VOk (znn, qsr) -> znn <= bal_get (a_bal a) ZtsZnn -> qsr <= bal_get (a_bal a) ZtsQsr ->
  fund_receive sp true a s = MOk a [donate_call znn ZtsZnn; donate_call qsr ZtsQsr].
Proof.
  intros Ev H1 H2. unfold fund_receive. rewrite Ev.
  replace (znn <=? bal_get (a_bal a) ZtsZnn) with true by (symmetry; lia).
  replace (qsr <=? bal_get (a_bal a) ZtsQsr) with true by (symmetry; lia). reflexivity.
Qed.

(* a concrete history: ZNN configured as stake token (accepted by SetTokenTuple), one user stakes 10 ZNN, the spork
   address funds the accelerator with 4 ZNN (and 1 unit of donated QSR): every call is applied, and afterwards the
   contract owes 10 ZNN and holds 6 *)
Definition tr_user : bytes := repeat 7 20.
Definition tr_spork : bytes := repeat 9 20.
Definition tr_zstr (z : bytes) : bytes := z.                     (* any injective rendering will do *)
Definition tr_env : env := {| e_now := 1000; e_height := 100; c_FuseMinAmount := 0; c_CostPerFusionUnit := 1; c_FuseExpiration := 0;
  c_StakeMinAmount := 0; c_StakeTimeMin := 30; c_StakeTimeMax := 360; c_StakeTimeUnit := 30; c_TokenIssueAmount := 0 |}.
Definition tr_store : qstore := {| lq_admin := repeat 5 20; lq_halted := false; lq_znn_reward := 0; lq_qsr_reward := 0;
  lq_tuples := [{| lt_zts := ZtsZnn; lt_znn_pct := 10000; lt_qsr_pct := 10000; lt_min := 1000 |}]; lq_entries := [] |}.
Definition tr_acct : cacct qstore := {| a_bal := []; a_store := tr_store; a_cursor := 0 |}.
Definition tr_stake : send := {| s_from := tr_user; s_from_embedded := false; s_amount := 1000000000; s_zts := ZtsZnn;
  s_data := Sel_liquidity_LiquidityStake ++ be_bytes 32 30; s_hash := repeat 1 32 |}.
Definition tr_donate : send := {| s_from := tr_user; s_from_embedded := false; s_amount := 10; s_zts := ZtsQsr;
  s_data := Sel_liquidity_Donate; s_hash := repeat 2 32 |}.
Definition tr_fund : send := {| s_from := tr_spork; s_from_embedded := false; s_amount := 0; s_zts := ZtsZnn;
  s_data := Sel_liquidity_Fund ++ be_bytes 32 400000000 ++ be_bytes 32 1; s_hash := repeat 3 32 |}.
Definition tr_cancel : send := {| s_from := tr_user; s_from_embedded := false; s_amount := 0; s_zts := ZtsZnn;
  s_data := Sel_liquidity_CancelLiquidityStake ++ repeat 1 32; s_hash := repeat 4 32 |}.
Definition tr_dc (d : dsend) : option Z := None.                 (* every descendant is deliverable *)
Definition tr_late : env := {| e_now := 2000; e_height := 200; c_FuseMinAmount := 0; c_CostPerFusionUnit := 1; c_FuseExpiration := 0;
  c_StakeMinAmount := 0; c_StakeTimeMin := 30; c_StakeTimeMax := 360; c_StakeTimeUnit := 30; c_TokenIssueAmount := 0 |}.

Theorem liquidity_treasury_refuted :
  exists (q : list send) (a a' : cacct qstore),
    deliverable tr_dc q /\ nonneg qstore a /\ J_liq a /\ K_liq a /\ lq_env_ok tr_env /\
    process_all qstore tr_dc (liq_lookup_all tr_zstr tr_spork true (fun _ => tr_env)) a q = Some a' /\
    liab_liquidity (a_store a') ZtsZnn = 1000000000 /\ bal_get (a_bal a') ZtsZnn = 600000000 /\
    (* ... and the matured cancellation of the stake can no longer be paid: the call is rolled back *)
    exists a'' c, generate_receive qstore tr_dc (liq_lookup_all tr_zstr tr_spork true (fun _ => tr_late)) a' tr_cancel = RRefunded a'' [] c /\
                  c = E_insufficient_balance /\ liab_liquidity (a_store a'') ZtsZnn = 1000000000.
Proof.
  exists [tr_stake; tr_donate; tr_fund], tr_acct. eexists.
  split.
  { repeat constructor; cbn; try lia; try discriminate;
      try (apply Forall_forall; intros x Hx; unfold is_byte;
           repeat (destruct Hx as [<-|Hx]; [vm_compute; split; discriminate|]); destruct Hx);
      vm_compute; reflexivity. }
  split; [intros z; cbn; lia|].
  split; [intros k v E; discriminate E|].
  split; [split; [exact I | intros z; cbn; lia]|].
  split; [unfold lq_env_ok; cbn; lia|].
  split; [vm_compute; reflexivity|].
  split; [vm_compute; reflexivity|].
  split; [vm_compute; reflexivity|].
  eexists _, _. split; [vm_compute; reflexivity|]. split; vm_compute; reflexivity.
Qed.
