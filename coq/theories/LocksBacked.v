(* C10_backed: every lock contract always holds at least what it owes, per token; preserved by every modelled
   vm step (credit, method, debit of the descendants / or refund), hence along any history of calls. *)
From ZV Require Import Prelude GoSem Abi AbiProofs VmReceive VmReceiveProofs Emb EmbProofs Locks LocksProofs.
From ZV.gen Require Import Consts.
Open Scope Z_scope.
Ltac Zify.zify_post_hook ::= Z.div_mod_to_equations.

Lemma zts_znn_qsr : bytes_eqb ZtsZnn ZtsQsr = false. Proof. vm_compute. reflexivity. Qed.
Lemma zts_qsr_znn : bytes_eqb ZtsQsr ZtsZnn = false. Proof. vm_compute. reflexivity. Qed.
Lemma zsel_refl z x : zsel z z x = x. Proof. unfold zsel. rewrite bytes_eqb_refl. reflexivity. Qed.

Section Strengthen.
  Variable S : Type.
  Variable dc : dsend -> option Z.
  Variables J K : cacct S -> Prop.
  Variable lookup : send -> lres S.

  (* an additional invariant K re-established by every applied call strengthens a table's invariant *)
  Lemma table_ok_strengthen :
    table_ok S dc J lookup ->
    (forall a a', K a -> a_store a' = a_store a -> (forall z, bal_get (a_bal a') z = bal_get (a_bal a) z) -> K a') ->
    (forall s m a a' ds a'', lookup s = LFound m -> J a -> K a -> nonneg S a -> send_ok s ->
        m (credited S a s) s = MOk a' ds -> nonneg S a' -> Forall ds_ok ds -> apply_all S dc a' ds = ASOk a'' -> K a'') ->
    table_ok S dc (fun a => J a /\ K a) lookup.
  Proof.
    intros T Kext Kstep. split.
    - intros a a' (HJ & HK) Hs Hb. split; [eapply (t_ext S dc J lookup T); eauto | eapply Kext; eauto].
    - apply (t_not_other S dc J lookup T).
    - intros s m a El (HJ & _). apply (t_no_panic S dc J lookup T); assumption.
    - intros s m a a' ds El (HJ & HK) Hn Hs Em.
      destruct (t_frame S dc J lookup T s m a a' ds El HJ Hn Hs Em) as (Hc & Hn' & Hds & HJ').
      split; [|split; [|split]]; auto.
      intros a'' Ea. split; [apply HJ'; exact Ea | eapply Kstep; eauto].
  Qed.

End Strengthen.

Section Helpers.
  Variable S : Type.
  Variable dc : dsend -> option Z.

  Lemma credited_eq (a : cacct S) s z :
    bal_get (a_bal (credited S a s)) z = bal_get (a_bal a) z + zsel (s_zts s) z (s_amount s).
  Proof.
    unfold credited. rewrite add_balance_get. unfold zsel. cbn.
    destruct (bytes_eqb (s_zts s) z) eqn:E; [apply bytes_eqb_eq in E; subst z|]; lia.
  Qed.
  Lemma credited_ge (a : cacct S) s z : send_ok s -> bal_get (a_bal a) z <= bal_get (a_bal (credited S a s)) z.
  Proof. intros (Hs & _). rewrite credited_eq. unfold zsel. destruct (bytes_eqb _ _); lia. Qed.

  Lemma apply_all_nil (a a'' : cacct S) : apply_all S dc a [] = ASOk a'' -> a'' = a.
  Proof. cbn. intros H; inversion H; reflexivity. Qed.
  Lemma apply_all_one (a a'' : cacct S) d : nonneg S a -> ds_ok d -> apply_all S dc a [d] = ASOk a'' ->
    a_store a'' = a_store a /\ nonneg S a'' /\
    forall z, bal_get (a_bal a'') z = bal_get (a_bal a) z - zsel (d_zts d) z (d_amount d).
  Proof.
    intros Hn Hd. cbn [VmReceive.apply_all]. pose proof (apply_send_spec S dc a d Hn Hd) as Hs.
    destruct (apply_send S dc a d) as [a1| |]; try discriminate. intros E; inversion E; subst a1.
    destruct Hs as (Hn' & _ & Hst & _ & _ & Hg). split; [exact Hst|]. split; [exact Hn'|].
    intros z. rewrite Hg. unfold zsel. destruct (bytes_eqb (d_zts d) z); lia.
  Qed.
  Lemma apply_all_two (a a'' : cacct S) d1 d2 : nonneg S a -> ds_ok d1 -> ds_ok d2 -> apply_all S dc a [d1; d2] = ASOk a'' ->
    a_store a'' = a_store a /\
    forall z, bal_get (a_bal a'') z = bal_get (a_bal a) z - zsel (d_zts d1) z (d_amount d1) - zsel (d_zts d2) z (d_amount d2).
  Proof.
    intros Hn Hd1 Hd2. cbn [VmReceive.apply_all]. pose proof (apply_send_spec S dc a d1 Hn Hd1) as Hs.
    destruct (apply_send S dc a d1) as [a1| |] eqn:E1; try discriminate.
    destruct Hs as (Hn1 & _ & Hst1 & _ & _ & Hg1). intros E2.
    destruct (apply_all_one a1 a'' d2 Hn1 Hd2 E2) as (Hst2 & _ & Hg2).
    split; [congruence|]. intros z. rewrite Hg2, Hg1. unfold zsel. destruct (bytes_eqb (d_zts d1) z); lia.
  Qed.
End Helpers.

(* ================================================================ what validation establishes *)
Lemma stake_validate_zts e s t : stake_validate e s = VOk t -> s_zts s = ZtsZnn.
Proof.
  unfold stake_validate. destruct (unpack_args _ _ _); try discriminate. intros H. repeat (vcase H).
  all: match goal with E : (_ || negb (bytes_eqb _ ZtsZnn)) = false |- _ =>
         apply orb_false_iff in E; destruct E as (_ & E); apply negb_false_iff, bytes_eqb_eq in E; exact E end.
Qed.
Lemma fuse_validate_zts e s b : fuse_validate e s = VOk b -> s_zts s = ZtsQsr.
Proof.
  unfold fuse_validate. destruct (unpack_args _ _ _); try discriminate. intros H. repeat (vcase H).
  all: match goal with E : (negb (bytes_eqb _ ZtsQsr) || _) = false |- _ =>
         apply orb_false_iff in E; destruct E as (E & _); apply negb_false_iff, bytes_eqb_eq in E; exact E end.
Qed.
Lemma deposit_qsr_validate_zts s x : deposit_qsr_validate s = VOk x -> s_zts s = ZtsQsr.
Proof.
  unfold deposit_qsr_validate. destruct (unpack_empty _ _); try discriminate. intros H. repeat (vcase H).
  all: match goal with E : (negb (bytes_eqb _ ZtsQsr) || _) = false |- _ =>
         apply orb_false_iff in E; destruct E as (E & _); apply negb_false_iff, bytes_eqb_eq in E; exact E end.
Qed.

(* ================================================================ stake *)
Section Backed.
  Variable dc : dsend -> option Z.

  Definition K_stake (a : cacct sstore) : Prop :=
    tnodup (a_store a) /\ forall z, liab_stake (a_store a) z <= bal_get (a_bal a) z.

  Lemma stake_backed_table_ok ef : (forall s, env_ok (ef s)) ->
    table_ok sstore dc (fun a => J_stake a /\ K_stake a) (stake_lookup ef).
  Proof.
    intros He. apply table_ok_strengthen; [apply stake_table_ok; exact He| |].
    - intros a a' (Hu & Hb) Hs Hbal. unfold K_stake. rewrite Hs. split; [exact Hu|]. intros z. rewrite Hbal. apply Hb.
    - intros s m a a' ds a'' El HJ (Hu & Hb) Hn Hs Em Hn' Hds Ea. unfold stake_lookup in El.
      destruct (bytes_eqb _ Sel_stake_Stake); [inversion El; subst m; clear El|
        destruct (bytes_eqb _ Sel_stake_Cancel); [inversion El; subst m; clear El|discriminate]].
      + unfold stake_receive in Em. destruct (stake_validate (ef s) s) as [t| |] eqn:Ev; try discriminate.
        inversion Em; subst a' ds. clear Em. apply apply_all_nil in Ea. subst a''.
        pose proof (stake_validate_zts _ _ _ Ev) as Hz.
        unfold K_stake. cbn [a_store a_bal with_store]. rewrite ?credited_store. split; [apply tnodup_tput; exact Hu|].
        intros z. unfold liab_stake. rewrite tsum_tput by exact Hu. cbn [k_amount].
        pose proof (told_nonneg k_amount (a_store a) (s_from s ++ s_hash s) HJ) as Ho.
        specialize (Hb z). unfold liab_stake in Hb. rewrite credited_eq. rewrite Hz.
        destruct Hs as (Hs0 & _). pose proof (u256_le (s_amount s) Hs0).
        unfold zsel in *. destruct (bytes_eqb ZtsZnn z); lia.
      + unfold cancel_stake_receive in Em. destruct (cancel_stake_validate s) as [id| |]; try discriminate.
        rewrite credited_store in Em.
        destruct (tget (a_store a) (s_from s ++ id)) as [ent|] eqn:Eg; [|discriminate].
        destruct (e_now (ef s) <? k_exp ent); [discriminate|]. inversion Em; subst a' ds. clear Em.
        inversion Hds as [|? ? Hd1 _]; subst.
        destruct (apply_all_one sstore dc _ a'' _ Hn' Hd1 Ea) as (Hst & _ & Hg).
        unfold K_stake. rewrite Hst. cbn [a_store with_store]. split; [apply tnodup_tput; exact Hu|].
        intros z. rewrite Hg. cbn [a_bal with_store d_zts d_amount].
        unfold liab_stake. rewrite tsum_tput by exact Hu. cbn [k_amount]. rewrite (told_get _ _ _ _ Eg).
        specialize (Hb z). unfold liab_stake in Hb. pose proof (credited_ge sstore a s z Hs).
        unfold zsel in *. destruct (bytes_eqb ZtsZnn z); lia.
  Qed.

  (* ================================================================ plasma *)
  Definition K_plasma (a : cacct pstore) : Prop :=
    tnodup (p_fusions (a_store a)) /\ forall z, liab_plasma (a_store a) z <= bal_get (a_bal a) z.

  Lemma plasma_backed_table_ok ef : table_ok pstore dc (fun a => J_plasma a /\ K_plasma a) (plasma_lookup ef).
  Proof.
    apply table_ok_strengthen; [apply plasma_table_ok| |].
    - intros a a' (Hu & Hb) Hs Hbal. unfold K_plasma. rewrite Hs. split; [exact Hu|]. intros z. rewrite Hbal. apply Hb.
    - intros s m a a' ds a'' El HJ (Hu & Hb) Hn Hs Em Hn' Hds Ea. unfold plasma_lookup in El.
      destruct (bytes_eqb _ Sel_plasma_Fuse); [inversion El; subst m; clear El|
        destruct (bytes_eqb _ Sel_plasma_CancelFuse); [inversion El; subst m; clear El|discriminate]].
      + unfold fuse_receive in Em. destruct (fuse_validate (ef s) s) as [ben| |] eqn:Ev; try discriminate.
        inversion Em; subst a' ds. clear Em. apply apply_all_nil in Ea. subst a''.
        pose proof (fuse_validate_zts _ _ _ Ev) as Hz.
        unfold K_plasma. cbn [a_store a_bal with_store p_fusions]. rewrite ?credited_store. split; [apply tnodup_tput; exact Hu|].
        intros z. unfold liab_plasma. cbn [p_fusions]. rewrite tsum_tput by exact Hu. cbn [f_amount].
        pose proof (told_nonneg f_amount (p_fusions (a_store a)) (s_from s ++ s_hash s) HJ) as Ho.
        specialize (Hb z). unfold liab_plasma in Hb. rewrite credited_eq. rewrite Hz.
        destruct Hs as (Hs0 & _). pose proof (u256_le (s_amount s) Hs0).
        unfold zsel in *. destruct (bytes_eqb ZtsQsr z); lia.
      + unfold cancel_fuse_receive in Em. destruct (cancel_fuse_validate s) as [id| |]; try discriminate.
        rewrite credited_store in Em.
        destruct (tget (p_fusions (a_store a)) (s_from s ++ id)) as [ent|] eqn:Eg; [|discriminate].
        destruct (e_height (ef s) <? f_exp ent); [discriminate|]. inversion Em; subst a' ds. clear Em.
        inversion Hds as [|? ? Hd1 _]; subst.
        destruct (apply_all_one pstore dc _ a'' _ Hn' Hd1 Ea) as (Hst & _ & Hg).
        unfold K_plasma. rewrite Hst. cbn [a_store with_store p_fusions]. split; [apply tnodup_tdel; exact Hu|].
        intros z. rewrite Hg. cbn [a_bal with_store d_zts d_amount].
        unfold liab_plasma. cbn [p_fusions]. rewrite tsum_tdel by exact Hu. rewrite (told_get _ _ _ _ Eg).
        specialize (Hb z). unfold liab_plasma in Hb. pose proof (credited_ge pstore a s z Hs).
        unfold zsel in *. destruct (bytes_eqb ZtsQsr z); lia.
  Qed.

  (* ================================================================ htlc *)
  Variable H : Z -> bytes -> bytes.
  Definition K_htlc (a : cacct hstore) : Prop :=
    tnodup (h_entries (a_store a)) /\ forall z, liab_htlc (a_store a) z <= bal_get (a_bal a) z.

  Lemma htlc_entry_sel_nonneg (t : tab htlc) z : tall htlc_entry_ok t -> tall (fun h => 0 <= zsel (h_zts h) z (h_amount h)) t.
  Proof. intros Ht k v E. destruct (Ht k v E) as (Ha & _). unfold zsel. destruct (bytes_eqb _ _); lia. Qed.

  Lemma htlc_backed_table_ok ef : table_ok hstore dc (fun a => J_htlc a /\ K_htlc a) (htlc_lookup H ef).
  Proof.
    apply table_ok_strengthen; [apply htlc_table_ok| |].
    - intros a a' (Hu & Hb) Hs Hbal. unfold K_htlc. rewrite Hs. split; [exact Hu|]. intros z. rewrite Hbal. apply Hb.
    - intros s m a a' ds a'' El HJ (Hu & Hb) Hn Hs Em Hn' Hds Ea. unfold htlc_lookup in El. cbv zeta in El.
      repeat (match type of El with context [bytes_eqb ?x ?y] => destruct (bytes_eqb x y) end;
              [inversion El; subst m; clear El|]); try discriminate.
      + (* create *)
        unfold create_receive in Em. destruct (create_validate s) as [[[[[hl ex] ty] km] lk]| |]; try discriminate.
        destruct (ex <=? e_now (ef s)); [discriminate|]. inversion Em; subst a' ds. clear Em.
        apply apply_all_nil in Ea. subst a''.
        unfold K_htlc. cbn [a_store a_bal with_store h_entries]. rewrite ?credited_store. split; [apply tnodup_tput; exact Hu|].
        intros z. unfold liab_htlc. cbn [h_entries]. rewrite tsum_tput by exact Hu. cbn [h_zts h_amount].
        pose proof (told_nonneg _ _ (s_hash s) (htlc_entry_sel_nonneg _ z HJ)) as Ho.
        specialize (Hb z). unfold liab_htlc in Hb. rewrite credited_eq.
        destruct Hs as (Hs0 & _). pose proof (u256_le (s_amount s) Hs0).
        unfold zsel in *. destruct (bytes_eqb (s_zts s) z); lia.
      + (* reclaim *)
        unfold reclaim_receive in Em. destruct (reclaim_validate s) as [id| |]; try discriminate.
        rewrite credited_store in Em.
        destruct (tget (h_entries (a_store a)) id) as [ent|] eqn:Eg; [|discriminate].
        destruct (negb _); [discriminate|]. destruct (_ <? _); [discriminate|].
        inversion Em; subst a' ds. clear Em.
        inversion Hds as [|? ? Hd1 _]; subst.
        destruct (apply_all_one hstore dc _ a'' _ Hn' Hd1 Ea) as (Hst & _ & Hg).
        unfold K_htlc. rewrite Hst. cbn [a_store with_store h_entries]. split; [apply tnodup_tdel; exact Hu|].
        intros z. rewrite Hg. cbn [a_bal with_store d_zts d_amount].
        unfold liab_htlc. cbn [h_entries]. rewrite tsum_tdel by exact Hu. rewrite (told_get _ _ _ _ Eg).
        specialize (Hb z). unfold liab_htlc in Hb. pose proof (credited_ge hstore a s z Hs). lia.
      + (* unlock *)
        unfold unlock_receive in Em. destruct (unlock_validate s) as [[id pre]| |]; try discriminate.
        rewrite credited_store in Em.
        destruct (tget (h_entries (a_store a)) id) as [ent|] eqn:Eg; [|discriminate].
        destruct (_ && _); [discriminate|]. destruct (_ <=? _); [discriminate|]. destruct (_ <? _); [discriminate|].
        destruct (negb _); [discriminate|].
        inversion Em; subst a' ds. clear Em.
        inversion Hds as [|? ? Hd1 _]; subst.
        destruct (apply_all_one hstore dc _ a'' _ Hn' Hd1 Ea) as (Hst & _ & Hg).
        unfold K_htlc. rewrite Hst. cbn [a_store with_store h_entries]. split; [apply tnodup_tdel; exact Hu|].
        intros z. rewrite Hg. cbn [a_bal with_store d_zts d_amount].
        unfold liab_htlc. cbn [h_entries]. rewrite tsum_tdel by exact Hu. rewrite (told_get _ _ _ _ Eg).
        specialize (Hb z). unfold liab_htlc in Hb. pose proof (credited_ge hstore a s z Hs). lia.
      + unfold proxy_receive in Em. destruct (proxy_validate _ s); try discriminate.
        inversion Em; subst a' ds. apply apply_all_nil in Ea. subst a''.
        unfold K_htlc. cbn [a_store a_bal with_store h_entries]. rewrite ?credited_store. split; [exact Hu|].
        intros z. specialize (Hb z). unfold liab_htlc in *. cbn [h_entries]. pose proof (credited_ge hstore a s z Hs). lia.
      + unfold proxy_receive in Em. destruct (proxy_validate _ s); try discriminate.
        inversion Em; subst a' ds. apply apply_all_nil in Ea. subst a''.
        unfold K_htlc. cbn [a_store a_bal with_store h_entries]. rewrite ?credited_store. split; [exact Hu|].
        intros z. specialize (Hb z). unfold liab_htlc in *. cbn [h_entries]. pose proof (credited_ge hstore a s z Hs). lia.
  Qed.

  (* ================================================================ QSR deposits (common part) *)
  Variable self : bytes.
  Definition K_common (a : cacct cstore) : Prop :=
    tnodup (q_dep (a_store a)) /\ forall z, liab_common (a_store a) z <= bal_get (a_bal a) z.

  Lemma common_backed_table_ok : table_ok cstore dc (fun a => J_common a /\ K_common a) (common_lookup self).
  Proof.
    apply table_ok_strengthen; [apply common_table_ok| |].
    - intros a a' (Hu & Hb) Hs Hbal. unfold K_common. rewrite Hs. split; [exact Hu|]. intros z. rewrite Hbal. apply Hb.
    - intros s m a a' ds a'' El HJ (Hu & Hb) Hn Hs Em Hn' Hds Ea. unfold common_lookup in El. cbv zeta in El.
      repeat (match type of El with context [bytes_eqb ?x ?y] => destruct (bytes_eqb x y) end;
              [inversion El; subst m; clear El|]); try discriminate.
      + (* deposit *)
        unfold deposit_qsr_receive in Em. destruct (deposit_qsr_validate s) eqn:Ev; try discriminate.
        inversion Em; subst a' ds. clear Em. apply apply_all_nil in Ea. subst a''.
        pose proof (deposit_qsr_validate_zts _ _ Ev) as Hz.
        unfold K_common. cbn [a_store a_bal with_store q_dep]. rewrite ?credited_store. split; [apply tnodup_tput; exact Hu|].
        intros z. unfold liab_common. cbn [q_dep]. rewrite tsum_tput by exact Hu.
        assert (Hcur : told (fun v => v) (q_dep (a_store a)) (s_from s) =
                       match tget (q_dep (a_store a)) (s_from s) with Some v => v | None => 0 end) by reflexivity.
        pose proof (told_nonneg (fun v => v) (q_dep (a_store a)) (s_from s) HJ) as Ho.
        specialize (Hb z). unfold liab_common in Hb. rewrite credited_eq. rewrite Hz.
        destruct Hs as (Hs0 & _).
        pose proof (u256_le (match tget (q_dep (a_store a)) (s_from s) with Some v => v | None => 0 end + s_amount s)).
        unfold zsel in *. destruct (bytes_eqb ZtsQsr z); lia.
      + (* withdraw *)
        unfold withdraw_qsr_receive in Em. destruct (withdraw_qsr_validate s); try discriminate.
        rewrite credited_store in Em.
        destruct (tget (q_dep (a_store a)) (s_from s)) as [v|] eqn:Eg; cbn in Em; [|discriminate].
        destruct (v =? 0); [discriminate|]. inversion Em; subst a' ds. clear Em.
        inversion Hds as [|? ? Hd1 _]; subst.
        destruct (apply_all_one cstore dc _ a'' _ Hn' Hd1 Ea) as (Hst & _ & Hg).
        unfold K_common. rewrite Hst. cbn [a_store with_store q_dep]. split; [apply tnodup_tdel; exact Hu|].
        intros z. rewrite Hg. cbn [a_bal with_store d_zts d_amount].
        unfold liab_common. cbn [q_dep]. rewrite tsum_tdel by exact Hu. rewrite (told_get _ _ _ _ Eg).
        specialize (Hb z). unfold liab_common in Hb. pose proof (credited_ge cstore a s z Hs).
        unfold zsel in *. destruct (bytes_eqb ZtsQsr z); lia.
      + (* collect: the reward deposit is not a balance liability (rewards are minted on collection) *)
        unfold collect_receive in Em. destruct (collect_validate s); try discriminate.
        rewrite credited_store in Em.
        destruct (match tget (r_dep (a_store a)) (s_from s) with Some v => v | None => (0, 0) end) as [znn qsr].
        destruct ((znn =? 0) && (qsr =? 0)); [discriminate|]. inversion Em; subst a' ds. clear Em.
        pose proof (apply_all_spec cstore dc _ _ Hn' Hds) as Hsp. rewrite Ea in Hsp. destruct Hsp as (_ & _ & Hst).
        unfold K_common. rewrite Hst. cbn [a_store with_store q_dep]. split; [exact Hu|].
        intros z. specialize (Hb z). unfold liab_common in *.
        (* both descendants carry amount 0 *)
        assert (Hbal : bal_get (a_bal a'') z = bal_get (a_bal (credited cstore a s)) z).
        { revert Ea. destruct (0 <? znn); destruct (0 <? qsr); cbn [app]; intros Ea.
          - inversion Hds as [|? ? Hd1 Hr]; subst. inversion Hr as [|? ? Hd2 _]; subst.
            destruct (apply_all_two cstore dc _ a'' _ _ Hn' Hd1 Hd2 Ea) as (_ & Hg). rewrite Hg. cbn. unfold zsel.
            destruct (bytes_eqb ZtsZnn z); lia.
          - inversion Hds as [|? ? Hd1 _]; subst.
            destruct (apply_all_one cstore dc _ a'' _ Hn' Hd1 Ea) as (_ & _ & Hg). rewrite Hg. cbn. unfold zsel.
            destruct (bytes_eqb ZtsZnn z); lia.
          - inversion Hds as [|? ? Hd1 _]; subst.
            destruct (apply_all_one cstore dc _ a'' _ Hn' Hd1 Ea) as (_ & _ & Hg). rewrite Hg. cbn. unfold zsel.
            destruct (bytes_eqb ZtsZnn z); lia.
          - apply apply_all_nil in Ea. subst a''. reflexivity. }
        rewrite Hbal. pose proof (credited_ge cstore a s z Hs). cbn [q_dep]. lia.
      + unfold donate_receive in Em. destruct (donate_validate s); try discriminate.
        inversion Em; subst a' ds. apply apply_all_nil in Ea. subst a''.
        unfold K_common. split; [exact Hu|]. intros z. specialize (Hb z).
        pose proof (credited_ge cstore a s z Hs). rewrite credited_store. lia.
  Qed.
End Backed.

(* ================================================================ sentinel and pillar contracts *)
Definition lenv_ok (e : lenv) : Prop :=
  0 <= c_SentinelZnn e /\ 0 <= c_SentinelQsr e /\ 0 <= c_PillarStake e /\
  wrapS 64 (c_SentinelLock e + c_SentinelRevoke e) <> 0 /\ wrapS 64 (c_PillarLock e + c_PillarRevoke e) <> 0 /\
  0 < l_now e.                                  (* momentum timestamps are positive: revoke time 0 means "not revoked" *)

Lemma revoke_window_no_panic L R reg now : wrapS 64 (L + R) <> 0 -> revoke_window L R reg now <> Panic.
Proof.
  intros H. unfold revoke_window, guard. destruct (wrapS 64 (L + R) =? 0) eqn:E; [lia|]. cbn [negb].
  cbv zeta. destruct (_ <? L); discriminate.
Qed.

Lemma sentinel_register_validate_zts e s x : sentinel_register_validate e s = VOk x -> s_zts s = ZtsZnn /\ s_amount s = c_SentinelZnn e.
Proof.
  unfold sentinel_register_validate. destruct (unpack_empty _ _); try discriminate. intros H. repeat (vcase H).
  all: match goal with E : (negb (bytes_eqb _ ZtsZnn) || _) = false |- _ =>
         apply orb_false_iff in E; destruct E as (E & E2); apply negb_false_iff, bytes_eqb_eq in E;
         apply negb_false_iff in E2; split; [exact E | lia] end.
Qed.
Lemma sentinel_register_validate_no_panic e s : sentinel_register_validate e s <> VPanic.
Proof. unfold sentinel_register_validate. validate_empty Sel_sentinel_Register. Qed.
Lemma sentinel_revoke_validate_no_panic s : sentinel_revoke_validate s <> VPanic.
Proof. unfold sentinel_revoke_validate. validate_empty Sel_sentinel_Revoke. Qed.

Section BackedSentinel.
  Variable dc : dsend -> option Z.

  Definition sentinel_lookup (lf : send -> lenv) (s : send) : lres nstore :=
    let sl := sel_of (s_data s) in
    if bytes_eqb sl Sel_sentinel_Register then LFound (sentinel_register_receive (lf s))
    else if bytes_eqb sl Sel_sentinel_Revoke then LFound (sentinel_revoke_receive (lf s))
    else if bytes_eqb sl Sel_common_DepositQsr then LFound sentinel_deposit_receive
    else if bytes_eqb sl Sel_common_WithdrawQsr then LFound sentinel_withdraw_receive
    else LNotFound.

  Definition J_sentinel (a : cacct nstore) : Prop :=
    tall (fun n => 0 <= n_znn n) (n_ent (a_store a)) /\ tall (fun n => 0 <= n_qsr n) (n_ent (a_store a)) /\
    tall (fun v => 0 <= v) (n_dep (a_store a)).

  Lemma sentinel_table_ok lf : (forall s, lenv_ok (lf s)) -> table_ok nstore dc J_sentinel (sentinel_lookup lf).
  Proof.
    intros He. split.
    - intros a a' HJ Hs _. unfold J_sentinel in *. rewrite Hs. exact HJ.
    - intros s. unfold sentinel_lookup. cbv zeta. repeat destruct (bytes_eqb _ _); discriminate.
    - intros s m a El HJ Hn Hs. destruct (He s) as (_ & _ & _ & Hw & _).
      unfold sentinel_lookup in El. cbv zeta in El.
      repeat (match type of El with context [bytes_eqb ?x ?y] => destruct (bytes_eqb x y) end;
              [inversion El; subst m; clear El|]); try discriminate.
      + unfold sentinel_register_receive. pose proof (sentinel_register_validate_no_panic (lf s) s).
        destruct (sentinel_register_validate (lf s) s); [|discriminate|contradiction].
        destruct (tget _ _); [discriminate|]. destruct (_ <? _); discriminate.
      + unfold sentinel_revoke_receive. pose proof (sentinel_revoke_validate_no_panic s).
        destruct (sentinel_revoke_validate s); [|discriminate|contradiction].
        destruct (tget _ _) as [ent|]; [|discriminate]. destruct (negb _); [discriminate|].
        pose proof (revoke_window_no_panic (c_SentinelLock (lf s)) (c_SentinelRevoke (lf s)) (n_reg ent) (l_now (lf s)) Hw).
        destruct (revoke_window _ _ _ _) as [[[|] t]|]; [discriminate|discriminate|contradiction].
      + unfold sentinel_deposit_receive. pose proof (deposit_qsr_validate_no_panic s).
        destruct (deposit_qsr_validate s); [discriminate|discriminate|contradiction].
      + unfold sentinel_withdraw_receive. pose proof (withdraw_qsr_validate_no_panic s).
        destruct (withdraw_qsr_validate s); [|discriminate|contradiction]. destruct (Z.eqb _ 0); discriminate.
    - intros s m a a' ds El (HJ1 & HJ2 & HJ3) Hn Hs Em. destruct (He s) as (Hz0 & Hq0 & _).
      unfold sentinel_lookup in El. cbv zeta in El.
      pose proof (credited_nonneg nstore a s Hn Hs) as Hnc.
      repeat (match type of El with context [bytes_eqb ?x ?y] => destruct (bytes_eqb x y) end;
              [inversion El; subst m; clear El|]); try discriminate.
      + unfold sentinel_register_receive in Em. destruct (sentinel_register_validate (lf s) s); try discriminate.
        rewrite credited_store in Em.
        destruct (tget (n_ent (a_store a)) (s_from s)); [discriminate|].
        destruct (_ <? _); [discriminate|]. inversion Em; subst a' ds. clear Em.
        split; [|split; [|split]]; auto.
        intros a'' Ea. inversion Ea; subst a''. unfold J_sentinel. cbn [a_store with_store n_ent n_dep].
        split; [|split].
        * apply tall_tput; [exact HJ1 | cbn; apply u256_nonneg].
        * apply tall_tput; [exact HJ2 | cbn; apply u256_nonneg].
        * destruct (_ =? 0); [apply tall_tdel; exact HJ3 | apply tall_tput; [exact HJ3 | apply u256_nonneg]].
      + unfold sentinel_revoke_receive in Em. destruct (sentinel_revoke_validate s); try discriminate.
        rewrite credited_store in Em.
        destruct (tget (n_ent (a_store a)) (s_from s)) as [ent|] eqn:Eg; [|discriminate].
        destruct (negb _); [discriminate|].
        destruct (revoke_window _ _ _ _) as [[[|] t]|]; try discriminate. inversion Em; subst a' ds. clear Em.
        assert (Hds : Forall ds_ok [{| d_to := s_from s; d_amount := n_znn ent; d_zts := ZtsZnn; d_data := [] |};
                                    {| d_to := s_from s; d_amount := n_qsr ent; d_zts := ZtsQsr; d_data := [] |}]).
        { repeat constructor; cbn; try (apply (HJ1 _ _ Eg)); try (apply (HJ2 _ _ Eg));
            intros _; [exact zts_znn_not_zero | exact zts_qsr_not_zero]. }
        split; [|split; [|split]]; auto.
        intros a'' Ea. unfold J_sentinel.
        rewrite (apply_all_store nstore dc _ _ a'' (with_store_nonneg nstore _ _ Hnc) Hds Ea).
        cbn [a_store with_store n_ent n_dep]. split; [|split]; auto; apply tall_tput; auto; cbn; lia.
      + unfold sentinel_deposit_receive in Em. destruct (deposit_qsr_validate s); try discriminate.
        inversion Em; subst a' ds. split; [|split; [|split]]; auto.
        intros a'' Ea. inversion Ea; subst a''. unfold J_sentinel. cbn [a_store with_store n_ent n_dep].
        split; [|split]; auto. apply tall_tput; [exact HJ3 | apply u256_nonneg].
      + unfold sentinel_withdraw_receive in Em. destruct (withdraw_qsr_validate s); try discriminate.
        rewrite credited_store in Em.
        destruct (tget (n_dep (a_store a)) (s_from s)) as [v|] eqn:Eg; cbn in Em; [|discriminate].
        destruct (v =? 0); [discriminate|]. inversion Em; subst a' ds. clear Em.
        pose proof (HJ3 _ _ Eg) as Hv. cbn beta in Hv.
        assert (Hds : Forall ds_ok [{| d_to := s_from s; d_amount := v; d_zts := ZtsQsr; d_data := [] |}]).
        { constructor; [|constructor]. split; cbn; [exact Hv | intros _; exact zts_qsr_not_zero]. }
        split; [|split; [|split]]; auto.
        intros a'' Ea. unfold J_sentinel.
        rewrite (apply_all_store nstore dc _ _ a'' (with_store_nonneg nstore _ _ Hnc) Hds Ea).
        cbn [a_store with_store n_ent n_dep]. split; [|split]; auto. apply tall_tdel. exact HJ3.
  Qed.

  Definition K_sentinel (a : cacct nstore) : Prop :=
    tnodup (n_ent (a_store a)) /\ tnodup (n_dep (a_store a)) /\ forall z, liab_sentinel (a_store a) z <= bal_get (a_bal a) z.

  Lemma sentinel_backed_table_ok lf : (forall s, lenv_ok (lf s)) ->
    table_ok nstore dc (fun a => J_sentinel a /\ K_sentinel a) (sentinel_lookup lf).
  Proof.
    intros He. apply table_ok_strengthen; [apply sentinel_table_ok; exact He| |].
    - intros a a' (Hu & Hu2 & Hb) Hs Hbal. unfold K_sentinel. rewrite Hs. split; [exact Hu|]. split; [exact Hu2|].
      intros z. rewrite Hbal. apply Hb.
    - intros s m a a' ds a'' El (HJ1 & HJ2 & HJ3) (Hu & Hu2 & Hb) Hn Hs Em Hn' Hds Ea.
      destruct (He s) as (Hz0 & Hq0 & _).
      unfold sentinel_lookup in El. cbv zeta in El.
      repeat (match type of El with context [bytes_eqb ?x ?y] => destruct (bytes_eqb x y) end;
              [inversion El; subst m; clear El|]); try discriminate.
      + (* register *)
        unfold sentinel_register_receive in Em. destruct (sentinel_register_validate (lf s) s) eqn:Ev; try discriminate.
        destruct (sentinel_register_validate_zts _ _ _ Ev) as (Hz & Hamt).
        rewrite credited_store in Em.
        destruct (tget (n_ent (a_store a)) (s_from s)) eqn:Eg; [discriminate|].
        destruct (_ <? _) eqn:Elt; [discriminate|]. inversion Em; subst a' ds. clear Em.
        apply apply_all_nil in Ea. subst a''.
        set (dep := match tget (n_dep (a_store a)) (s_from s) with Some v => v | None => 0 end) in *.
        assert (Hdep : told (fun v => v) (n_dep (a_store a)) (s_from s) = dep) by reflexivity.
        unfold K_sentinel. cbn [a_store a_bal with_store n_ent n_dep].
        split; [apply tnodup_tput; exact Hu|]. split; [destruct (_ =? 0); [apply tnodup_tdel|apply tnodup_tput]; exact Hu2|].
        intros z. unfold liab_sentinel. cbn [n_ent n_dep]. rewrite !tsum_tput by exact Hu.
        rewrite !(told_none _ _ _ Eg). cbn [n_znn n_qsr].
        assert (Hsumdep : tsum (fun v => v) (if dep - c_SentinelQsr (lf s) =? 0 then tdel (n_dep (a_store a)) (s_from s)
                                            else tput (n_dep (a_store a)) (s_from s) (u256 (dep - c_SentinelQsr (lf s))))
                          <= tsum (fun v => v) (n_dep (a_store a)) - c_SentinelQsr (lf s)).
        { destruct (dep - c_SentinelQsr (lf s) =? 0) eqn:E0.
          - rewrite tsum_tdel by exact Hu2. rewrite Hdep. lia.
          - rewrite tsum_tput by exact Hu2. rewrite Hdep. pose proof (u256_le (dep - c_SentinelQsr (lf s))). lia. }
        specialize (Hb z). unfold liab_sentinel in Hb. rewrite credited_eq, Hz, Hamt.
        pose proof (u256_le _ Hz0). pose proof (u256_le _ Hq0).
        unfold zsel in *. destruct (bytes_eqb ZtsZnn z); destruct (bytes_eqb ZtsQsr z); lia.
      + (* revoke *)
        unfold sentinel_revoke_receive in Em. destruct (sentinel_revoke_validate s); try discriminate.
        rewrite credited_store in Em.
        destruct (tget (n_ent (a_store a)) (s_from s)) as [ent|] eqn:Eg; [|discriminate].
        destruct (negb _); [discriminate|].
        destruct (revoke_window _ _ _ _) as [[[|] t]|]; try discriminate. inversion Em; subst a' ds. clear Em.
        inversion Hds as [|? ? Hd1 Hr]; subst. inversion Hr as [|? ? Hd2 _]; subst.
        destruct (apply_all_two nstore dc _ a'' _ _ Hn' Hd1 Hd2 Ea) as (Hst & Hg).
        unfold K_sentinel. rewrite Hst. cbn [a_store with_store n_ent n_dep].
        split; [apply tnodup_tput; exact Hu|]. split; [exact Hu2|].
        intros z. rewrite Hg. cbn [a_bal with_store d_zts d_amount].
        unfold liab_sentinel. cbn [n_ent n_dep]. rewrite !tsum_tput by exact Hu. rewrite !(told_get _ _ _ _ Eg). cbn [n_znn n_qsr].
        specialize (Hb z). unfold liab_sentinel in Hb. pose proof (credited_ge nstore a s z Hs).
        unfold zsel in *. destruct (bytes_eqb ZtsZnn z); destruct (bytes_eqb ZtsQsr z); lia.
      + (* deposit *)
        unfold sentinel_deposit_receive in Em. destruct (deposit_qsr_validate s) eqn:Ev; try discriminate.
        inversion Em; subst a' ds. clear Em. apply apply_all_nil in Ea. subst a''.
        pose proof (deposit_qsr_validate_zts _ _ Ev) as Hz.
        unfold K_sentinel. cbn [a_store a_bal with_store n_ent n_dep]. rewrite ?credited_store.
        split; [exact Hu|]. split; [apply tnodup_tput; exact Hu2|].
        intros z. unfold liab_sentinel. cbn [n_ent n_dep]. rewrite tsum_tput by exact Hu2.
        change (match tget (n_dep (a_store a)) (s_from s) with Some v => v | None => 0 end)
          with (told (fun v : Z => v) (n_dep (a_store a)) (s_from s)).
        pose proof (told_nonneg (fun v => v) (n_dep (a_store a)) (s_from s) HJ3) as Ho.
        set (dep := told (fun v : Z => v) (n_dep (a_store a)) (s_from s)) in *.
        specialize (Hb z). unfold liab_sentinel in Hb. rewrite credited_eq, Hz.
        destruct Hs as (Hs0 & _). pose proof (u256_le (dep + s_amount s)).
        unfold zsel in *. destruct (bytes_eqb ZtsZnn z); destruct (bytes_eqb ZtsQsr z); lia.
      + (* withdraw *)
        unfold sentinel_withdraw_receive in Em. destruct (withdraw_qsr_validate s); try discriminate.
        rewrite credited_store in Em.
        destruct (tget (n_dep (a_store a)) (s_from s)) as [v|] eqn:Eg; cbn in Em; [|discriminate].
        destruct (v =? 0); [discriminate|]. inversion Em; subst a' ds. clear Em.
        inversion Hds as [|? ? Hd1 _]; subst.
        destruct (apply_all_one nstore dc _ a'' _ Hn' Hd1 Ea) as (Hst & _ & Hg).
        unfold K_sentinel. rewrite Hst. cbn [a_store with_store n_ent n_dep].
        split; [exact Hu|]. split; [apply tnodup_tdel; exact Hu2|].
        intros z. rewrite Hg. cbn [a_bal with_store d_zts d_amount].
        unfold liab_sentinel. cbn [n_ent n_dep]. rewrite tsum_tdel by exact Hu2. rewrite (told_get _ _ _ _ Eg).
        specialize (Hb z). unfold liab_sentinel in Hb. pose proof (credited_ge nstore a s z Hs).
        unfold zsel in *. destruct (bytes_eqb ZtsZnn z); destruct (bytes_eqb ZtsQsr z); lia.
  Qed.
End BackedSentinel.

Ltac lsimp := cbn [a_store a_bal with_store l_pillars l_dep l_producing l_deleg l_legacy set_pillars set_dep set_producing set_deleg set_legacy upd_pillar
                      l_owner l_amount l_reg l_revoke l_producer l_reward l_pct_block l_pct_deleg l_type] in *.

Lemma tcount_nonneg {V} (f : V -> bool) (t : tab V) : 0 <= tcount f t.
Proof. unfold tcount. induction t as [|[k v] r IH]; cbn [tsum]; [lia|]. destruct (f v); lia. Qed.

Section BackedPillar.
  Variable dc : dsend -> option Z.
  Variable name_ok : bytes -> bool.
  Variable legacy_key : bytes -> bytes -> bytes -> option bytes.
  Variable P : Z.                                  (* constants.PillarStakeAmount *)

  Definition pillar_lookup (lf : send -> lenv) (s : send) : lres lstore :=
    let sl := sel_of (s_data s) in
    if bytes_eqb sl Sel_pillars_Register then LFound (register_receive name_ok (lf s))
    else if bytes_eqb sl Sel_pillars_RegisterLegacy then LFound (legacy_receive name_ok legacy_key (lf s))
    else if bytes_eqb sl Sel_pillars_Revoke then LFound (pillar_revoke_receive name_ok (lf s))
    else if bytes_eqb sl Sel_pillars_UpdatePillar then LFound (update_pillar_receive name_ok (lf s))
    else if bytes_eqb sl Sel_pillars_Delegate then LFound (delegate_receive name_ok)
    else if bytes_eqb sl Sel_pillars_Undelegate then LFound undelegate_receive
    else if bytes_eqb sl Sel_common_DepositQsr then LFound pillar_deposit_receive
    else if bytes_eqb sl Sel_common_WithdrawQsr then LFound pillar_withdraw_receive
    else LNotFound.

  Definition penv_ok (e : lenv) : Prop :=
    lenv_ok e /\ c_PillarStake e = P /\ 0 <= c_PillarQsrBase e /\ 0 <= c_PillarQsrIncr e.

  Lemma pillar_revoke_validate_no_panic s : data_ok (s_data s) -> pillar_revoke_validate name_ok s <> VPanic.
  Proof. intros Hd. unfold pillar_revoke_validate. validate_args Sel_pillars_Revoke [TString]. Qed.
  Lemma register_validate_no_panic e s : data_ok (s_data s) -> register_validate name_ok e s <> VPanic.
  Proof.
    intros Hd. unfold register_validate, reg_static.
    validate_args Sel_pillars_Register [TString; TAddress; TAddress; TUint 8; TUint 8].
  Qed.
  Lemma legacy_validate_no_panic e s : data_ok (s_data s) -> legacy_validate name_ok legacy_key e s <> VPanic.
  Proof.
    intros Hd. unfold legacy_validate, reg_static.
    destruct (unpack_args Sel_pillars_RegisterLegacy [TString; TAddress; TAddress; TUint 8; TUint 8; TString; TString] (s_data s)) as [vs| |] eqn:E.
    - apply unpack_args_shape in E; shapes. cbn [r_name r_pb r_pd]. ifs. destruct (legacy_key _ _ _); ifs.
    - discriminate.
    - exfalso; revert E; apply unpack_args_no_panic; [wf_tys | vm_compute; discriminate | exact Hd].
  Qed.
  Lemma update_pillar_validate_no_panic e s : data_ok (s_data s) -> update_pillar_validate name_ok e s <> VPanic.
  Proof.
    intros Hd. unfold update_pillar_validate, reg_static.
    validate_args Sel_pillars_UpdatePillar [TString; TAddress; TAddress; TUint 8; TUint 8].
  Qed.
  Lemma delegate_validate_no_panic s : data_ok (s_data s) -> delegate_validate name_ok s <> VPanic.
  Proof. intros Hd. unfold delegate_validate. validate_args Sel_pillars_Delegate [TString]. Qed.
  Lemma undelegate_validate_no_panic s : undelegate_validate s <> VPanic.
  Proof. unfold undelegate_validate. validate_empty Sel_pillars_Undelegate. Qed.

  (* amounts are non-negative, an active pillar holds exactly the pillar stake *)
  Definition pillar_entry_ok (p : pillar) : Prop := 0 <= l_amount p /\ (l_revoke p = 0 -> l_amount p = P).
  Definition J_pillar (a : cacct lstore) : Prop :=
    tall pillar_entry_ok (l_pillars (a_store a)) /\ tall (fun v => 0 <= v) (l_dep (a_store a)).
  Definition K_pillar (a : cacct lstore) : Prop :=
    tnodup (l_pillars (a_store a)) /\ tnodup (l_dep (a_store a)) /\ forall z, liab_pillar (a_store a) z <= bal_get (a_bal a) z.
  Definition JK_pillar (a : cacct lstore) : Prop := J_pillar a /\ K_pillar a.

  (* checkAndConsumeQsr *)
  Lemma consume_qsr_spec st owner req st' : consume_qsr st owner req = Some st' -> 0 <= req ->
    tall (fun v => 0 <= v) (l_dep st) -> tnodup (l_dep st) ->
    l_pillars st' = l_pillars st /\ tall (fun v => 0 <= v) (l_dep st') /\ tnodup (l_dep st') /\
    tsum (fun v => v) (l_dep st') <= tsum (fun v => v) (l_dep st) - req.
  Proof.
    unfold consume_qsr. intros H Hr Ha Hu.
    change (match tget (l_dep st) owner with Some v => v | None => 0 end) with (told (fun v : Z => v) (l_dep st) owner) in H.
    set (dep := told (fun v : Z => v) (l_dep st) owner) in *.
    destruct (dep <? req) eqn:E; [discriminate|]. inversion H; subst st'. clear H. lsimp.
    split; [reflexivity|]. destruct (dep - req =? 0) eqn:E0.
    - split; [apply tall_tdel; exact Ha|]. split; [apply tnodup_tdel; exact Hu|]. rewrite tsum_tdel by exact Hu. fold dep. lia.
    - split; [apply tall_tput; [exact Ha | apply u256_nonneg]|]. split; [apply tnodup_tput; exact Hu|].
      rewrite tsum_tput by exact Hu. fold dep. pose proof (u256_le (dep - req)). lia.
  Qed.

  (* checkAndRegisterPillar *)
  Lemma check_and_register_spec e st p owner ty st1 : check_and_register name_ok e st p owner ty = inl st1 ->
    tget (l_pillars st) (r_name p) = None /\ l_dep st1 = l_dep st /\ l_legacy st1 = l_legacy st /\
    exists pl, l_pillars st1 = tput (l_pillars st) (r_name p) pl /\ l_amount pl = u256 (c_PillarStake e) /\ l_revoke pl = 0.
  Proof.
    unfold check_and_register. destruct (negb (name_ok (r_name p))); [discriminate|].
    destruct (_ || _); [discriminate|]. destruct (tget (l_pillars st) (r_name p)) eqn:Eg; [discriminate|].
    destruct (negb _); [discriminate|]. intros H; inversion H; subst st1. lsimp.
    repeat split. eexists. split; [reflexivity|]. split; reflexivity.
  Qed.

  Lemma pillar_table_ok lf : 0 <= P < two256 -> (forall s, penv_ok (lf s)) ->
    table_ok lstore dc JK_pillar (pillar_lookup lf).
  Proof.
    intros HP He. split.
    - intros a a' ((HJ1 & HJ2) & (Hu & Hu2 & Hb)) Hs Hbal. unfold JK_pillar, J_pillar, K_pillar. rewrite Hs.
      split; [split; [exact HJ1 | exact HJ2] | split; [exact Hu | split; [exact Hu2 | intros z; rewrite Hbal; apply Hb]]].
    - intros s. unfold pillar_lookup. cbv zeta. repeat destruct (bytes_eqb _ _); discriminate.
    - intros s m a El HJ Hn Hs. assert (Hd : data_ok (s_data s)) by (split; apply Hs).
      destruct (He s) as ((_ & _ & _ & _ & Hw & _) & _).
      unfold pillar_lookup in El. cbv zeta in El.
      repeat (match type of El with context [bytes_eqb ?x ?y] => destruct (bytes_eqb x y) end;
              [inversion El; subst m; clear El|]); try discriminate.
      + unfold register_receive. pose proof (register_validate_no_panic (lf s) s Hd).
        destruct (register_validate name_ok (lf s) s); [|discriminate|contradiction].
        destruct (check_and_register _ _ _ _ _ _); [|discriminate]. destruct (consume_qsr _ _ _); discriminate.
      + unfold legacy_receive. pose proof (legacy_validate_no_panic (lf s) s Hd).
        destruct (legacy_validate name_ok legacy_key (lf s) s) as [[p k]| |]; [|discriminate|contradiction].
        destruct (tget _ _); [|discriminate].
        destruct (check_and_register _ _ _ _ _ _); [|discriminate]. destruct (consume_qsr _ _ _); discriminate.
      + unfold pillar_revoke_receive. pose proof (pillar_revoke_validate_no_panic s Hd).
        destruct (pillar_revoke_validate name_ok s); [|discriminate|contradiction].
        destruct (tget _ _) as [p|]; [|discriminate]. destruct (negb _); [discriminate|]. destruct (negb _); [discriminate|].
        pose proof (revoke_window_no_panic (c_PillarLock (lf s)) (c_PillarRevoke (lf s)) (l_reg p) (l_now (lf s)) Hw).
        destruct (revoke_window _ _ _ _) as [[[|] t]|]; [discriminate|discriminate|contradiction].
      + unfold update_pillar_receive. pose proof (update_pillar_validate_no_panic (lf s) s Hd).
        destruct (update_pillar_validate name_ok (lf s) s); [|discriminate|contradiction].
        destruct (tget _ _); [|discriminate]. ifs.
      + unfold delegate_receive. pose proof (delegate_validate_no_panic s Hd).
        destruct (delegate_validate name_ok s); [|discriminate|contradiction].
        destruct (tget _ _); [|discriminate]. ifs.
      + unfold undelegate_receive. pose proof (undelegate_validate_no_panic s).
        destruct (undelegate_validate s); [|discriminate|contradiction]. destruct (tget _ _); discriminate.
      + unfold pillar_deposit_receive. pose proof (deposit_qsr_validate_no_panic s).
        destruct (deposit_qsr_validate s); [discriminate|discriminate|contradiction].
      + unfold pillar_withdraw_receive. pose proof (withdraw_qsr_validate_no_panic s).
        destruct (withdraw_qsr_validate s); [|discriminate|contradiction]. destruct (Z.eqb _ 0); discriminate.
    - intros s m a a' ds El ((HJ1 & HJ3) & (Hu & Hu2 & Hb)) Hn Hs Em.
      destruct (He s) as ((_ & _ & _ & _ & _ & Hnow) & HPs & Hbase & Hincr).
      unfold pillar_lookup in El. cbv zeta in El.
      pose proof (credited_nonneg lstore a s Hn Hs) as Hnc.
      assert (Hfin : forall st' ds', nonneg lstore (with_store (credited lstore a s) st') -> Forall ds_ok ds' ->
                 (forall a'', apply_all lstore dc (with_store (credited lstore a s) st') ds' = ASOk a'' -> JK_pillar a'') ->
                 a_cursor (with_store (credited lstore a s) st') = a_cursor a + 1 /\
                 nonneg lstore (with_store (credited lstore a s) st') /\ Forall ds_ok ds' /\
                 (forall a'', apply_all lstore dc (with_store (credited lstore a s) st') ds' = ASOk a'' -> JK_pillar a'')).
      { intros st' ds' H1 H2 H3. split; [reflexivity | split; [exact H1 | split; [exact H2 | exact H3]]]. }
      repeat (match type of El with context [bytes_eqb ?x ?y] => destruct (bytes_eqb x y) end;
              [inversion El; subst m; clear El|]); try discriminate.
      + (* Register *)
        unfold register_receive in Em. destruct (register_validate name_ok (lf s) s) as [p| |] eqn:Ev; try discriminate.
        rewrite credited_store in Em.
        destruct (check_and_register name_ok (lf s) (a_store a) p (s_from s) PillarTypeNormal) as [st1|] eqn:Ec; [|discriminate].
        destruct (consume_qsr st1 (s_from s) _) as [st2|] eqn:Eq; [|discriminate].
        inversion Em; subst a' ds. clear Em.
        destruct (check_and_register_spec _ _ _ _ _ _ Ec) as (Hnone & Hd1 & _ & pl & Hp1 & Hamt & Hrev).
        set (cost := c_PillarQsrIncr (lf s) * active_normal (a_store a) + c_PillarQsrBase (lf s)) in *.
        assert (Hcost : 0 <= cost) by (subst cost; pose proof (tcount_nonneg (fun p : pillar => (l_revoke p =? 0) && (l_type p =? PillarTypeNormal)) (l_pillars (a_store a))); unfold active_normal; nia).
        destruct (consume_qsr_spec st1 (s_from s) cost st2 Eq Hcost) as (Hp2 & Ha2 & Hu2' & Hsum); [rewrite Hd1; exact HJ3 | rewrite Hd1; exact Hu2|].
        assert (Hz : s_zts s = ZtsZnn /\ s_amount s = P).
        { unfold register_validate in Ev. destruct (unpack_args _ _ _); try discriminate. repeat (vcase Ev).
          all: match goal with E : (negb (bytes_eqb _ ZtsZnn) || _) = false |- _ =>
                 apply orb_false_iff in E; destruct E as (E & E2); apply negb_false_iff, bytes_eqb_eq in E;
                 apply negb_false_iff in E2; split; [exact E | lia] end. }
        destruct Hz as (Hz & Hamts).
        assert (Hds : Forall ds_ok [burn_qsr cost]).
        { constructor; [|constructor]. split; cbn; [exact Hcost | intros _; exact zts_qsr_not_zero]. }
        apply Hfin; [apply with_store_nonneg; exact Hnc | exact Hds|].
        intros a'' Ea. destruct (apply_all_one lstore dc _ a'' _ (with_store_nonneg lstore _ _ Hnc) (Forall_inv Hds) Ea) as (Hst & _ & Hg).
        unfold JK_pillar, J_pillar, K_pillar. rewrite Hst. cbn [a_store with_store]. rewrite Hp2, Hp1.
        rewrite HPs in Hamt. rewrite (u256_small P HP) in Hamt.
        split; [split; [apply tall_tput; [exact HJ1 | split; lia] | exact Ha2]|].
        split; [apply tnodup_tput; exact Hu|]. split; [exact Hu2'|].
        intros z. rewrite Hg. cbn [a_bal with_store burn_qsr d_zts d_amount].
        unfold liab_pillar. rewrite Hp2, Hp1. rewrite tsum_tput by exact Hu. rewrite (told_none _ _ _ Hnone). rewrite Hamt.
        specialize (Hb z). unfold liab_pillar in Hb. rewrite credited_eq, Hz, Hamts. rewrite Hd1 in Hsum.
        unfold zsel in *. destruct (bytes_eqb ZtsZnn z); destruct (bytes_eqb ZtsQsr z); lia.
      + (* RegisterLegacy *)
        unfold legacy_receive in Em. destruct (legacy_validate name_ok legacy_key (lf s) s) as [[p k]| |] eqn:Ev; try discriminate.
        rewrite credited_store in Em.
        destruct (tget (l_legacy (a_store a)) k) as [cnt|]; [|discriminate].
        set (st0 := set_legacy (a_store a) _) in *.
        destruct (check_and_register name_ok (lf s) st0 p (s_from s) PillarTypeLegacy) as [st1|] eqn:Ec; [|discriminate].
        destruct (consume_qsr st1 (s_from s) _) as [st2|] eqn:Eq; [|discriminate].
        inversion Em; subst a' ds. clear Em.
        destruct (check_and_register_spec _ _ _ _ _ _ Ec) as (Hnone & Hd1 & _ & pl & Hp1 & Hamt & Hrev).
        assert (Hp0 : l_pillars st0 = l_pillars (a_store a)) by reflexivity.
        assert (Hd0 : l_dep st0 = l_dep (a_store a)) by reflexivity.
        rewrite Hp0 in *. rewrite Hd0 in *.
        destruct (consume_qsr_spec st1 (s_from s) _ st2 Eq Hbase) as (Hp2 & Ha2 & Hu2' & Hsum); [rewrite Hd1; exact HJ3 | rewrite Hd1; exact Hu2|].
        assert (Hz : s_zts s = ZtsZnn /\ s_amount s = P).
        { unfold legacy_validate in Ev. destruct (unpack_args _ _ _); try discriminate. repeat (vcase Ev).
          all: match goal with E : (negb (bytes_eqb _ ZtsZnn) || _) = false |- _ =>
                 apply orb_false_iff in E; destruct E as (E & E2); apply negb_false_iff, bytes_eqb_eq in E;
                 apply negb_false_iff in E2; split; [exact E | lia] end. }
        destruct Hz as (Hz & Hamts).
        assert (Hds : Forall ds_ok [burn_qsr (c_PillarQsrBase (lf s))]).
        { constructor; [|constructor]. split; cbn; [exact Hbase | intros _; exact zts_qsr_not_zero]. }
        apply Hfin; [apply with_store_nonneg; exact Hnc | exact Hds|].
        intros a'' Ea. destruct (apply_all_one lstore dc _ a'' _ (with_store_nonneg lstore _ _ Hnc) (Forall_inv Hds) Ea) as (Hst & _ & Hg).
        unfold JK_pillar, J_pillar, K_pillar. rewrite Hst. cbn [a_store with_store]. rewrite Hp2, Hp1.
        rewrite HPs in Hamt. rewrite (u256_small P HP) in Hamt.
        split; [split; [apply tall_tput; [exact HJ1 | split; lia] | exact Ha2]|].
        split; [apply tnodup_tput; exact Hu|]. split; [exact Hu2'|].
        intros z. rewrite Hg. cbn [a_bal with_store burn_qsr d_zts d_amount].
        unfold liab_pillar. rewrite Hp2, Hp1. rewrite tsum_tput by exact Hu. rewrite (told_none _ _ _ Hnone). rewrite Hamt.
        specialize (Hb z). unfold liab_pillar in Hb. rewrite credited_eq, Hz, Hamts. rewrite Hd1 in Hsum.
        unfold zsel in *. destruct (bytes_eqb ZtsZnn z); destruct (bytes_eqb ZtsQsr z); lia.
      + (* Revoke *)
        unfold pillar_revoke_receive in Em. destruct (pillar_revoke_validate name_ok s) as [name| |]; try discriminate.
        rewrite credited_store in Em.
        destruct (tget (l_pillars (a_store a)) name) as [p|] eqn:Eg; [|discriminate].
        destruct (negb (l_revoke p =? 0)) eqn:Er; [discriminate|].
        destruct (negb (bytes_eqb (l_owner p) (s_from s))); [discriminate|].
        destruct (revoke_window _ _ _ _) as [[[|] t]|]; try discriminate. inversion Em; try subst a'; try subst ds. clear Em.
        destruct (HJ1 _ _ Eg) as (_ & Hact). assert (Hamt : l_amount p = P) by (apply Hact; lia).
        assert (Hds : Forall ds_ok [{| d_to := l_owner p; d_amount := c_PillarStake (lf s); d_zts := ZtsZnn; d_data := [] |}]).
        { constructor; [|constructor]. split; cbn; [lia | intros _; exact zts_znn_not_zero]. }
        apply Hfin; [apply with_store_nonneg; exact Hnc | exact Hds|].
        intros a'' Ea. destruct (apply_all_one lstore dc _ a'' _ (with_store_nonneg lstore _ _ Hnc) (Forall_inv Hds) Ea) as (Hst & _ & Hg).
        unfold JK_pillar, J_pillar, K_pillar. rewrite Hst. lsimp.
        split; [split; [apply tall_tput; [exact HJ1 | split; cbn; lia] | exact HJ3]|].
        split; [apply tnodup_tput; exact Hu|]. split; [exact Hu2|].
        intros z. rewrite Hg. cbn [d_zts d_amount].
        unfold liab_pillar. lsimp. rewrite tsum_tput by exact Hu. rewrite (told_get _ _ _ _ Eg). cbn [l_amount upd_pillar].
        specialize (Hb z). unfold liab_pillar in Hb. pose proof (credited_ge lstore a s z Hs).
        unfold zsel in *. destruct (bytes_eqb ZtsZnn z); destruct (bytes_eqb ZtsQsr z); lia.
      + (* UpdatePillar: amount and revoke time of the entry are kept *)
        unfold update_pillar_receive in Em. destruct (update_pillar_validate name_ok (lf s) s) as [p| |]; try discriminate.
        rewrite credited_store in Em.
        destruct (tget (l_pillars (a_store a)) (r_name p)) as [pl|] eqn:Eg; [|discriminate].
        destruct (negb (bytes_eqb (l_owner pl) (s_from s))); [discriminate|].
        destruct (negb (l_revoke pl =? 0)); [discriminate|].
        destruct (_ && _); [discriminate|]. inversion Em; subst a' ds. clear Em.
        apply Hfin; [apply with_store_nonneg; exact Hnc | constructor|].
        intros a'' Ea. apply apply_all_nil in Ea. subst a''.
        assert (Hpp : forall st1, l_pillars st1 = l_pillars (a_store a) -> l_dep st1 = l_dep (a_store a) ->
                  JK_pillar (with_store (credited lstore a s) (set_pillars st1 (tput (l_pillars st1) (r_name p)
                    {| l_owner := l_owner pl; l_amount := l_amount pl; l_reg := l_reg pl; l_revoke := l_revoke pl;
                       l_producer := r_producer p; l_reward := r_reward p; l_pct_block := r_pb p; l_pct_deleg := r_pd p; l_type := l_type pl |})))).
        { intros st1 E1 E2. unfold JK_pillar, J_pillar, K_pillar. lsimp. rewrite E1, E2.
          split; [split; [apply tall_tput; [exact HJ1 | exact (HJ1 _ _ Eg)] | exact HJ3]|].
          split; [apply tnodup_tput; exact Hu|]. split; [exact Hu2|].
          intros z. unfold liab_pillar. lsimp. rewrite ?E1, ?E2. rewrite tsum_tput by exact Hu. rewrite (told_get _ _ _ _ Eg). cbn [l_amount].
          specialize (Hb z). unfold liab_pillar in Hb. pose proof (credited_ge lstore a s z Hs).
          unfold zsel in *. destruct (bytes_eqb ZtsZnn z); destruct (bytes_eqb ZtsQsr z); lia. }
        destruct (negb (bytes_eqb (r_producer p) (l_producer pl))); apply Hpp; reflexivity.
      + (* Delegate *)
        unfold delegate_receive in Em. destruct (delegate_validate name_ok s) as [name| |]; try discriminate.
        rewrite credited_store in Em.
        destruct (tget (l_pillars (a_store a)) name); [|discriminate]. destruct (negb _); [discriminate|].
        inversion Em; subst a' ds. clear Em.
        apply Hfin; [apply with_store_nonneg; exact Hnc | constructor|].
        intros a'' Ea. apply apply_all_nil in Ea. subst a''.
        unfold JK_pillar, J_pillar, K_pillar. lsimp.
        split; [split; [exact HJ1 | exact HJ3]|]. split; [exact Hu|]. split; [exact Hu2|].
        intros z. specialize (Hb z). pose proof (credited_ge lstore a s z Hs). unfold liab_pillar in *. lsimp. lia.
      + (* Undelegate *)
        unfold undelegate_receive in Em. destruct (undelegate_validate s); try discriminate.
        rewrite credited_store in Em.
        destruct (tget (l_deleg (a_store a)) (s_from s)); [|discriminate].
        inversion Em; subst a' ds. clear Em.
        apply Hfin; [apply with_store_nonneg; exact Hnc | constructor|].
        intros a'' Ea. apply apply_all_nil in Ea. subst a''.
        unfold JK_pillar, J_pillar, K_pillar. lsimp.
        split; [split; [exact HJ1 | exact HJ3]|]. split; [exact Hu|]. split; [exact Hu2|].
        intros z. specialize (Hb z). pose proof (credited_ge lstore a s z Hs). unfold liab_pillar in *. lsimp. lia.
      + (* DepositQsr *)
        unfold pillar_deposit_receive in Em. destruct (deposit_qsr_validate s) eqn:Ev; try discriminate.
        inversion Em; subst a' ds. clear Em.
        pose proof (deposit_qsr_validate_zts _ _ Ev) as Hz.
        apply Hfin; [apply with_store_nonneg; exact Hnc | constructor|].
        intros a'' Ea. apply apply_all_nil in Ea. subst a''.
        unfold JK_pillar, J_pillar, K_pillar. lsimp. rewrite ?credited_store.
        split; [split; [exact HJ1 | apply tall_tput; [exact HJ3 | apply u256_nonneg]]|].
        split; [exact Hu|]. split; [apply tnodup_tput; exact Hu2|].
        intros z. unfold liab_pillar. lsimp. rewrite tsum_tput by exact Hu2.
        change (match tget (l_dep (a_store a)) (s_from s) with Some v => v | None => 0 end)
          with (told (fun v : Z => v) (l_dep (a_store a)) (s_from s)).
        pose proof (told_nonneg (fun v => v) (l_dep (a_store a)) (s_from s) HJ3) as Ho.
        set (dep := told (fun v : Z => v) (l_dep (a_store a)) (s_from s)) in *.
        specialize (Hb z). unfold liab_pillar in Hb. rewrite credited_eq, Hz.
        destruct Hs as (Hs0 & _). pose proof (u256_le (dep + s_amount s)).
        unfold zsel in *. destruct (bytes_eqb ZtsZnn z); destruct (bytes_eqb ZtsQsr z); lia.
      + (* WithdrawQsr *)
        unfold pillar_withdraw_receive in Em. destruct (withdraw_qsr_validate s); try discriminate.
        rewrite credited_store in Em.
        destruct (tget (l_dep (a_store a)) (s_from s)) as [v|] eqn:Eg; cbn in Em; [|discriminate].
        destruct (v =? 0); [discriminate|]. inversion Em; subst a' ds. clear Em.
        pose proof (HJ3 _ _ Eg) as Hv. cbn beta in Hv.
        assert (Hds : Forall ds_ok [{| d_to := s_from s; d_amount := v; d_zts := ZtsQsr; d_data := [] |}]).
        { constructor; [|constructor]. split; cbn; [exact Hv | intros _; exact zts_qsr_not_zero]. }
        apply Hfin; [apply with_store_nonneg; exact Hnc | exact Hds|].
        intros a'' Ea. destruct (apply_all_one lstore dc _ a'' _ (with_store_nonneg lstore _ _ Hnc) (Forall_inv Hds) Ea) as (Hst & _ & Hg).
        unfold JK_pillar, J_pillar, K_pillar. rewrite Hst. lsimp.
        split; [split; [exact HJ1 | apply tall_tdel; exact HJ3]|].
        split; [exact Hu|]. split; [apply tnodup_tdel; exact Hu2|].
        intros z. rewrite Hg. cbn [d_zts d_amount].
        unfold liab_pillar. lsimp. rewrite tsum_tdel by exact Hu2. rewrite (told_get _ _ _ _ Eg).
        specialize (Hb z). unfold liab_pillar in Hb. pose proof (credited_ge lstore a s z Hs).
        unfold zsel in *. destruct (bytes_eqb ZtsZnn z); destruct (bytes_eqb ZtsQsr z); lia.
  Qed.
End BackedPillar.

(* ================================================================ along any history of calls *)
Section Histories.
  Variable dc : dsend -> option Z.
  Definition deliverable (q : list send) : Prop := Forall (fun s => send_ok s /\ dc (refund_of s) = None) q.

  Theorem stake_backed_history ef q a : (forall s, env_ok (ef s)) -> deliverable q ->
    nonneg sstore a -> J_stake a -> K_stake a ->
    exists a', process_all sstore dc (stake_lookup ef) a q = Some a' /\ K_stake a'.
  Proof.
    intros He Hq Hn HJ HK.
    destruct (inbox_never_wedged sstore dc _ (stake_lookup ef) q (stake_backed_table_ok dc ef He) Hq a Hn (conj HJ HK))
      as (a' & E & _ & _ & _ & HK'). eauto.
  Qed.
  Theorem plasma_backed_history ef q a : deliverable q ->
    nonneg pstore a -> J_plasma a -> K_plasma a ->
    exists a', process_all pstore dc (plasma_lookup ef) a q = Some a' /\ K_plasma a'.
  Proof.
    intros Hq Hn HJ HK.
    destruct (inbox_never_wedged pstore dc _ (plasma_lookup ef) q (plasma_backed_table_ok dc ef) Hq a Hn (conj HJ HK))
      as (a' & E & _ & _ & _ & HK'). eauto.
  Qed.
  Theorem htlc_backed_history H ef q a : deliverable q ->
    nonneg hstore a -> J_htlc a -> K_htlc a ->
    exists a', process_all hstore dc (htlc_lookup H ef) a q = Some a' /\ K_htlc a'.
  Proof.
    intros Hq Hn HJ HK.
    destruct (inbox_never_wedged hstore dc _ (htlc_lookup H ef) q (htlc_backed_table_ok dc H ef) Hq a Hn (conj HJ HK))
      as (a' & E & _ & _ & _ & HK'). eauto.
  Qed.
  Theorem sentinel_backed_history lf q a : (forall s, lenv_ok (lf s)) -> deliverable q ->
    nonneg nstore a -> J_sentinel a -> K_sentinel a ->
    exists a', process_all nstore dc (sentinel_lookup lf) a q = Some a' /\ K_sentinel a'.
  Proof.
    intros He Hq Hn HJ HK.
    destruct (inbox_never_wedged nstore dc _ (sentinel_lookup lf) q (sentinel_backed_table_ok dc lf He) Hq a Hn (conj HJ HK))
      as (a' & E & _ & _ & _ & HK'). eauto.
  Qed.
  Theorem pillar_backed_history name_ok legacy_key P lf q a : 0 <= P < two256 -> (forall s, penv_ok P (lf s)) -> deliverable q ->
    nonneg lstore a -> J_pillar P a -> K_pillar a ->
    exists a', process_all lstore dc (pillar_lookup name_ok legacy_key lf) a q = Some a' /\ J_pillar P a' /\ K_pillar a'.
  Proof.
    intros HP He Hq Hn HJ HK.
    destruct (inbox_never_wedged lstore dc _ (pillar_lookup name_ok legacy_key lf) q (pillar_table_ok dc name_ok legacy_key P lf HP He) Hq a Hn (conj HJ HK))
      as (a' & E & _ & _ & HJ' & HK'). eauto.
  Qed.
  Theorem common_backed_history self q a : deliverable q ->
    nonneg cstore a -> J_common a -> K_common a ->
    exists a', process_all cstore dc (common_lookup self) a q = Some a' /\ K_common a'.
  Proof.
    intros Hq Hn HJ HK.
    destruct (inbox_never_wedged cstore dc _ (common_lookup self) q (common_backed_table_ok dc (fun _ _ => []) self) Hq a Hn (conj HJ HK))
      as (a' & E & _ & _ & _ & HK'). eauto.
  Qed.
End Histories.

(* ================================================================ C10_fused_total *)
Lemma u256_add_l x y : u256 (u256 x + y) = u256 (x + y).
Proof. unfold u256. apply Z.add_mod_idemp_l. unfold two256. lia. Qed.
Lemma u256_add_r x y : u256 (x + u256 y) = u256 (x + y).
Proof. unfold u256. apply Z.add_mod_idemp_r. unfold two256. lia. Qed.
Lemma u256_sub_l x y : u256 (u256 x - y) = u256 (x - y).
Proof. unfold u256. apply Zminus_mod_idemp_l. Qed.
Lemma u256_0 : u256 0 = 0. Proof. reflexivity. Qed.

Section FusedTotal.
  Variable dc : dsend -> option Z.

  (* the per-beneficiary total the plasma contract keeps is the sum of that beneficiary's fusion entries, as a
     uint256 (they are equal outright as long as the sum is below 2^256, which the backing by real balances gives) *)
  Definition F_plasma (a : cacct pstore) : Prop :=
    forall b, fused_of (a_store a) b = u256 (entries_of (a_store a) b).

  (* block hashes are unique: the fusion entry of a new Fuse call does not exist yet *)
  Definition fresh_fusion (a : cacct pstore) (s : send) : Prop :=
    tget (p_fusions (a_store a)) (s_from s ++ s_hash s) = None.

  Lemma fused_total_step ef a s a' :
    nonneg pstore a -> J_plasma a -> K_plasma a -> F_plasma a -> fresh_fusion a s ->
    send_ok s -> dc (refund_of s) = None ->
    result_acct pstore (generate_receive pstore dc (plasma_lookup ef) a s) = Some a' -> F_plasma a'.
  Proof.
    intros Hn HJ (Hu & _) HF Hfresh Hs Hd.
    apply (vm_step_preserves pstore dc J_plasma F_plasma (plasma_lookup ef) a s (plasma_table_ok dc ef) Hn HJ Hs Hd HF).
    - intros a1 a2 H1 Hst _. unfold F_plasma in *. rewrite Hst. exact H1.
    - intros m a1 ds a'' El Em Hn1 Hds Ea. unfold plasma_lookup in El.
      destruct (bytes_eqb _ Sel_plasma_Fuse); [inversion El; subst m; clear El|
        destruct (bytes_eqb _ Sel_plasma_CancelFuse); [inversion El; subst m; clear El|discriminate]].
      + unfold fuse_receive in Em. destruct (fuse_validate (ef s) s) as [ben| |]; try discriminate.
        inversion Em; subst a1 ds. clear Em. apply apply_all_nil in Ea. subst a''.
        intros b. unfold fused_of, entries_of. cbn [a_store with_store p_fusions p_fused]. rewrite ?credited_store.
        rewrite tsum_tput by exact Hu. rewrite (told_none _ _ _ Hfresh). cbn [f_ben f_amount].
        rewrite tget_tput. specialize (HF b). unfold fused_of, entries_of in HF. unfold zsel in HF.
        unfold zsel. destruct (bytes_eqb ben b) eqn:Eb.
        * apply bytes_eqb_eq in Eb. subst b.
          change (match tget (p_fused (a_store a)) ben with Some v => v | None => 0 end) with (fused_of (a_store a) ben).
          unfold fused_of. rewrite HF. rewrite u256_add_l. rewrite Z.sub_0_r. rewrite u256_add_r. reflexivity.
        * rewrite HF. f_equal. lia.
      + unfold cancel_fuse_receive in Em. destruct (cancel_fuse_validate s) as [id| |]; try discriminate.
        rewrite credited_store in Em.
        destruct (tget (p_fusions (a_store a)) (s_from s ++ id)) as [ent|] eqn:Eg; [|discriminate].
        destruct (e_height (ef s) <? f_exp ent); [discriminate|]. inversion Em; subst a1 ds. clear Em.
        pose proof (Forall_inv Hds) as Hd1.
        destruct (apply_all_one pstore dc _ a'' _ Hn1 Hd1 Ea) as (Hst & _ & _).
        intros b. unfold F_plasma. rewrite Hst. unfold fused_of, entries_of. cbn [a_store with_store p_fusions p_fused].
        rewrite tsum_tdel by exact Hu. rewrite (told_get _ _ _ _ Eg).
        pose proof (HF b) as HFb. pose proof (HF (f_ben ent)) as HFe. unfold fused_of, entries_of in HFb, HFe. unfold zsel in HFb, HFe.
        set (Fe := match tget (p_fused (a_store a)) (f_ben ent) with Some v => v | None => 0 end) in *.
        unfold zsel. destruct (bytes_eqb (f_ben ent) b) eqn:Eb.
        * apply bytes_eqb_eq in Eb. subst b.
          destruct (Fe - f_amount ent =? 0) eqn:Ez.
          -- rewrite tget_tdel, bytes_eqb_refl. assert (Hz : Fe - f_amount ent = 0) by lia.
             rewrite <- u256_sub_l. rewrite <- HFe. rewrite Hz. reflexivity.
          -- rewrite tget_tput, bytes_eqb_refl. rewrite <- (u256_sub_l (tsum _ _)). rewrite <- HFe. reflexivity.
        * destruct (Fe - f_amount ent =? 0).
          -- rewrite tget_tdel, Eb. rewrite HFb. f_equal. lia.
          -- rewrite tget_tput, Eb. rewrite HFb. f_equal. lia.
  Qed.

  (* histories in which every send has a fresh hash *)
  Inductive plasma_reach (ef : send -> env) : cacct pstore -> Prop :=
  | pr_init a : nonneg pstore a -> J_plasma a -> K_plasma a -> F_plasma a -> plasma_reach ef a
  | pr_step a s a' : plasma_reach ef a -> fresh_fusion a s -> send_ok s -> dc (refund_of s) = None ->
      result_acct pstore (generate_receive pstore dc (plasma_lookup ef) a s) = Some a' -> plasma_reach ef a'.

  Theorem fused_total ef a : plasma_reach ef a ->
    nonneg pstore a /\ J_plasma a /\ K_plasma a /\ forall b, fused_of (a_store a) b = u256 (entries_of (a_store a) b).
  Proof.
    induction 1 as [a Hn HJ HK HF | a s a' _ IH Hf Hs Hd Hr]; [auto|].
    destruct IH as (Hn & HJ & HK & HF).
    pose proof (fused_total_step ef a s a' Hn HJ HK HF Hf Hs Hd Hr) as HF'.
    destruct (vm_completes pstore dc _ (plasma_lookup ef) a s (plasma_backed_table_ok dc ef) Hn (conj HJ HK) Hs Hd)
      as [(ar & ds & E & _ & Hn' & HJ' & HK')|(ar & c & E & _ & _ & Hn' & (HJ' & HK') & _)];
      rewrite E in Hr; cbn in Hr; inversion Hr; subst ar; auto.
  Qed.

  (* with the sum of a beneficiary's entries below 2^256 (it is at most the contract's QSR balance) the equality is plain *)
  Corollary fused_total_exact ef a b : plasma_reach ef a -> 0 <= entries_of (a_store a) b < two256 ->
    fused_of (a_store a) b = entries_of (a_store a) b.
  Proof. intros H Hb. destruct (fused_total ef a H) as (_ & _ & _ & HF). rewrite HF. apply u256_small. exact Hb. Qed.
End FusedTotal.
