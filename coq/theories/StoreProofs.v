(* Refinement proof: the model of the versioned store (Store.v) behaves like the specification
   (StoreSpec.v) on every well-formed operation sequence. *)
From ZV Require Import Prelude.
From stdpp Require Import gmap sorting.
From ZV Require Import Store StoreSpec.
Open Scope Z_scope.

(* ------------------------------------------------------------------ encodings *)
Lemma lookup_omap_dec m k : omap_dec m !! k = dec (m !! k).
Proof. unfold omap_dec. rewrite lookup_omap. destruct (m !! k) as [[|b e]|]; reflexivity. Qed.

Lemma dec_enc_op o : dec (Some (enc_op o)) = dec_op o.
Proof. destruct o; reflexivity. Qed.

Lemma abs_apply1_lookup Sm o k :
  abs_apply1 Sm o !! k = if decide (pkey o = k) then dec_op o else Sm !! k.
Proof.
  destruct o as [k' v|k']; cbn [abs_apply1 pkey dec_op]; destruct (decide (k' = k)) as [->|Hne].
  - apply lookup_insert.
  - by apply lookup_insert_ne.
  - apply lookup_delete.
  - by apply lookup_delete_ne.
Qed.

Lemma omap_dec_apply1 m o : omap_dec (raw_apply1 m o) = abs_apply1 (omap_dec m) o.
Proof.
  apply map_eq; intros k. rewrite lookup_omap_dec, abs_apply1_lookup. unfold raw_apply1.
  destruct (decide (pkey o = k)) as [->|Hne].
  - rewrite lookup_insert. apply dec_enc_op.
  - rewrite lookup_insert_ne by done. by rewrite lookup_omap_dec.
Qed.

Lemma omap_dec_apply m p : omap_dec (raw_apply m p) = abs_apply (omap_dec m) p.
Proof.
  revert m; induction p as [|o p IH]; intros m; [reflexivity|].
  cbn [raw_apply abs_apply foldl]. fold (raw_apply (raw_apply1 m o) p). fold (abs_apply (abs_apply1 (omap_dec m) o) p).
  by rewrite IH, omap_dec_apply1.
Qed.

(* keys a patch touches *)
Definition pkeys (p : patch) : list key := map pkey p.

Lemma abs_apply_other Sm p k : k ∉ pkeys p -> abs_apply Sm p !! k = Sm !! k.
Proof.
  revert Sm; induction p as [|o p IH]; intros Sm Hk; [reflexivity|].
  cbn [pkeys map] in Hk. apply not_elem_of_cons in Hk as [Hne Hk].
  cbn [abs_apply foldl]. fold (abs_apply (abs_apply1 Sm o) p). rewrite IH by exact Hk.
  rewrite abs_apply1_lookup. by destruct (decide (pkey o = k)).
Qed.

(* a patch whose every entry records the value of its key in [Sold] rewrites those keys to [Sold] *)
Definition encodes (Sold : amap) (p : patch) : Prop := Forall (fun o => dec_op o = Sold !! pkey o) p.

Lemma abs_apply_encodes Sold Sm p k : encodes Sold p -> k ∈ pkeys p -> abs_apply Sm p !! k = Sold !! k.
Proof.
  revert Sm; induction p as [|o p IH]; intros Sm Henc Hk; [by apply elem_of_nil in Hk|].
  apply Forall_cons in Henc as [Ho Henc].
  cbn [abs_apply foldl]. fold (abs_apply (abs_apply1 Sm o) p).
  destruct (decide (k ∈ pkeys p)) as [Hin|Hnin].
  - by apply IH.
  - rewrite abs_apply_other by exact Hnin.
    cbn [pkeys map] in Hk. apply elem_of_cons in Hk as [->|Hk]; [|done].
    rewrite abs_apply1_lookup. by rewrite decide_True.
Qed.

Lemma rollback_encodes get Sold p : (forall k, get k = Sold !! k) -> encodes Sold (rollback_patch get p).
Proof.
  intros Hget. unfold encodes, rollback_patch. apply Forall_forall. intros o Ho.
  apply elem_of_list_fmap in Ho as (o' & -> & _). rewrite Hget.
  destruct (Sold !! pkey o') eqn:E; cbn [dec_op pkey]; by rewrite E.
Qed.
Lemma rollback_pkeys get p : pkeys (rollback_patch get p) = pkeys p.
Proof.
  unfold pkeys, rollback_patch. rewrite map_map. apply map_ext. intros o. by destruct (get (pkey o)).
Qed.

(* undo_ok u Sold Snew: u restores Sold from Snew *)
Definition undo_ok (u : patch) (Sold Snew : amap) : Prop :=
  encodes Sold u /\ forall k, k ∉ pkeys u -> Snew !! k = Sold !! k.

Lemma undo_ok_apply u Sold Snew : undo_ok u Sold Snew -> abs_apply Snew u = Sold.
Proof.
  intros [Henc Hoth]. apply map_eq; intros k.
  destruct (decide (k ∈ pkeys u)) as [Hin|Hnin].
  - by apply abs_apply_encodes.
  - rewrite abs_apply_other by exact Hnin. by apply Hoth.
Qed.

(* ------------------------------------------------------------------ overlays *)
(* ov_ok ov Sfrom T: reading ov first and Sfrom below yields T *)
Definition ov_ok (ov : raw) (Sfrom T : amap) : Prop :=
  forall k, match ov !! k with Some e => dec (Some e) = T !! k | None => Sfrom !! k = T !! k end.

Lemma ov_ok_lookup ov m Sfrom T k :
  ov_ok ov Sfrom T -> omap_dec m = Sfrom -> dec ((ov ∪ m) !! k) = T !! k.
Proof.
  intros Hov <-. specialize (Hov k). rewrite lookup_union.
  destruct (ov !! k) as [e|] eqn:E.
  - by destruct (m !! k).
  - rewrite (left_id_L None _). by rewrite <- lookup_omap_dec.
Qed.

Lemma wo_apply1_keeps ov o k e : ov !! k = Some e -> wo_apply1 ov o !! k = Some e.
Proof.
  intros Hk. unfold wo_apply1. destruct (ov !! pkey o) eqn:E; [done|].
  unfold raw_apply1. rewrite lookup_insert_ne; [done|]. intros <-. congruence.
Qed.
Lemma wo_apply_keeps ov p k e : ov !! k = Some e -> wo_apply ov p !! k = Some e.
Proof.
  revert ov; induction p as [|o p IH]; intros ov Hk; [done|].
  cbn [wo_apply foldl]. fold (wo_apply (wo_apply1 ov o) p). apply IH. by apply wo_apply1_keeps.
Qed.
Lemma wo_apply_covers ov p k : k ∈ pkeys p -> is_Some (wo_apply ov p !! k).
Proof.
  revert ov; induction p as [|o p IH]; intros ov Hk; [by apply elem_of_nil in Hk|].
  cbn [wo_apply foldl]. fold (wo_apply (wo_apply1 ov o) p).
  cbn [pkeys map] in Hk. apply elem_of_cons in Hk as [->|Hk]; [|by apply IH].
  assert (is_Some (wo_apply1 ov o !! pkey o)) as [e He].
  { unfold wo_apply1. destruct (ov !! pkey o) eqn:E; [by rewrite E|].
    unfold raw_apply1. rewrite lookup_insert. by eexists. }
  rewrite (wo_apply_keeps _ _ _ _ He). by eexists.
Qed.

(* one undo patch applied without override: still relative to the same lower state *)
Lemma wo_apply_same ov u Sfrom T : encodes Sfrom u -> ov_ok ov Sfrom T -> ov_ok (wo_apply ov u) Sfrom T.
Proof.
  revert ov; induction u as [|o u IH]; intros ov Henc Hov; [done|].
  apply Forall_cons in Henc as [Ho Henc].
  cbn [wo_apply foldl]. fold (wo_apply (wo_apply1 ov o) u). apply IH; [done|].
  intros k. unfold wo_apply1. destruct (ov !! pkey o) eqn:E; [apply Hov|].
  unfold raw_apply1. destruct (decide (pkey o = k)) as [<-|Hne].
  - rewrite lookup_insert, dec_enc_op, Ho. specialize (Hov (pkey o)). by rewrite E in Hov.
  - rewrite lookup_insert_ne by done. apply Hov.
Qed.

(* ... and then relative to the next state *)
Lemma wo_apply_step ov u Sold Snew T : undo_ok u Sold Snew -> ov_ok ov Sold T -> ov_ok (wo_apply ov u) Snew T.
Proof.
  intros [Henc Hoth] Hov. pose proof (wo_apply_same _ _ _ _ Henc Hov) as H1.
  intros k. specialize (H1 k). destruct (wo_apply ov u !! k) eqn:E; [done|].
  assert (k ∉ pkeys u) as Hn.
  { intros Hin. apply (wo_apply_covers ov) in Hin as [? ?]. congruence. }
  by rewrite Hoth.
Qed.

Lemma ov_loop_snoc undo h cnt ov :
  ov_loop undo h (S cnt) ov =
  match ov_loop undo h cnt ov with
  | None => None
  | Some ov1 => match undo !! (h + Z.of_nat cnt + 1) with None => None | Some u => Some (wo_apply ov1 u) end
  end.
Proof.
  revert h ov; induction cnt as [|cnt IH]; intros h ov.
  - cbn [ov_loop]. replace (h + Z.of_nat 0 + 1) with (h + 1) by lia. by destruct (undo !! (h + 1)).
  - change (ov_loop undo h (S (S cnt)) ov) with
      (match undo !! (h + 1) with None => None | Some u => ov_loop undo (h + 1) (S cnt) (wo_apply ov u) end).
    change (ov_loop undo h (S cnt) ov) with
      (match undo !! (h + 1) with None => None | Some u => ov_loop undo (h + 1) cnt (wo_apply ov u) end).
    destruct (undo !! (h + 1)) as [u|]; [|done].
    rewrite IH. replace (h + 1 + Z.of_nat cnt + 1) with (h + Z.of_nat (S cnt) + 1) by lia. done.
Qed.

(* ------------------------------------------------------------------ identifiers and frontier keys *)
From ZV Require PoWProofs.

Lemma be_roundtrip n : 0 <= n < two64 -> be_value (be_bytes 8 n) = n.
Proof.
  intros Hn. unfold be_value, be_bytes. rewrite rev_involutive.
  apply PoWProofs.le_bytes_value. exact Hn.
Qed.
Lemma be_bytes_length n : length (be_bytes 8 n) = 8%nat.
Proof. unfold be_bytes. rewrite rev_length. apply PoWProofs.le_bytes_length. Qed.

Lemma parse_ser i : 0 <= snd i < two64 -> parse_id (ser_id i) = i.
Proof.
  intros Hh. unfold parse_id, ser_id. destruct i as [h n]. cbn [fst snd] in *.
  pose proof (be_bytes_length n) as L.
  replace (firstn 8 (be_bytes 8 n ++ h)) with (be_bytes 8 n).
  2:{ symmetry. rewrite <- L. apply take_app. }
  replace (skipn 8 (be_bytes 8 n ++ h)) with h.
  2:{ symmetry. rewrite <- L. apply drop_app. }
  by rewrite be_roundtrip.
Qed.

Lemma abs_apply_app Sm p q : abs_apply Sm (p ++ q) = abs_apply (abs_apply Sm p) q.
Proof. unfold abs_apply. apply foldl_app. Qed.

Lemma abs_apply_frontier_ops Sm i d :
  abs_apply Sm (frontier_ops i d) =
  <[k_height (snd i) := d]> (<[k_hash (fst i) := be_bytes 8 (snd i)]> (<[k_frontier := ser_id i]> Sm)).
Proof. reflexivity. Qed.

Lemma reserved_not_in p K : reserved K = true -> Forall (fun o => reserved (pkey o) = false) p -> K ∉ pkeys p.
Proof.
  intros HK Hp Hin. unfold pkeys in Hin. apply elem_of_list_fmap in Hin as (o & -> & Ho).
  rewrite Forall_forall in Hp. specialize (Hp o Ho). congruence.
Qed.

Lemma full_lookup_frontier Sm p i d :
  Forall (fun o => reserved (pkey o) = false) p ->
  abs_apply Sm (p ++ frontier_ops i d) !! k_frontier = Some (ser_id i).
Proof.
  intros Hp. rewrite abs_apply_app, abs_apply_frontier_ops.
  rewrite lookup_insert_ne by discriminate. rewrite lookup_insert_ne by discriminate. apply lookup_insert.
Qed.

Lemma full_lookup_hash Sm p i d h :
  Forall (fun o => reserved (pkey o) = false) p ->
  abs_apply Sm (p ++ frontier_ops i d) !! k_hash h =
  if decide (fst i = h) then Some (be_bytes 8 (snd i)) else Sm !! k_hash h.
Proof.
  intros Hp. rewrite abs_apply_app, abs_apply_frontier_ops.
  rewrite lookup_insert_ne by discriminate.
  destruct (decide (fst i = h)) as [->|Hne].
  - apply lookup_insert.
  - rewrite lookup_insert_ne by (unfold k_hash; congruence). rewrite lookup_insert_ne by discriminate.
    apply abs_apply_other. by apply reserved_not_in.
Qed.

(* ------------------------------------------------------------------ well-formed chains *)
Fixpoint chain_ok (c : achain) : Prop :=
  match c with
  | [] => True
  | e :: r =>
    snd (ce_id e) = a_height r + 1 /\ snd (ce_id e) < two64 /\
    Forall (fun e' => fst (ce_id e') <> fst (ce_id e)) r /\
    (exists p data, Forall (fun o => reserved (pkey o) = false) p /\ ce_patch e = p ++ frontier_ops (ce_id e) data) /\
    ce_state e = abs_apply (a_front r) (ce_patch e) /\
    chain_ok r
  end.

Lemma chain_height_nonneg c : chain_ok c -> 0 <= a_height c.
Proof.
  induction c as [|e r IH]; intros H; cbn [a_height]; [lia|].
  destruct H as (Hh & _ & _ & _ & _ & Hr). specialize (IH Hr). lia.
Qed.
Lemma chain_heights c e : chain_ok c -> e ∈ c -> 1 <= snd (ce_id e) <= a_height c.
Proof.
  induction c as [|e0 r IH]; intros H Hin; [by apply elem_of_nil in Hin|].
  pose proof H as (Hh & _ & _ & _ & _ & Hr). pose proof (chain_height_nonneg r Hr).
  apply elem_of_cons in Hin as [->|Hin]; cbn [a_height]; [lia|].
  specialize (IH Hr Hin). lia.
Qed.
Lemma chain_hash_inj c e1 e2 : chain_ok c -> e1 ∈ c -> e2 ∈ c -> fst (ce_id e1) = fst (ce_id e2) -> e1 = e2.
Proof.
  induction c as [|e0 r IH]; intros H H1 H2 Heq; [by apply elem_of_nil in H1|].
  destruct H as (_ & _ & Hfresh & _ & _ & Hr). rewrite Forall_forall in Hfresh.
  apply elem_of_cons in H1 as [->|H1]; apply elem_of_cons in H2 as [->|H2]; try done.
  - exfalso. by apply (Hfresh e2 H2).
  - exfalso. by apply (Hfresh e1 H1).
  - by apply IH.
Qed.

Lemma a_find_Some c i e : a_find c i = Some e -> e ∈ c /\ ce_id e = i.
Proof.
  induction c as [|e0 r IH]; cbn [a_find]; [done|].
  unfold ident_eqb. case_bool_decide as Hd.
  - intros [= ->]. split; [apply elem_of_list_here|done].
  - intros H. destruct (IH H). split; [by apply elem_of_list_further|done].
Qed.
Lemma a_find_elem c e : chain_ok c -> e ∈ c -> a_find c (ce_id e) = Some e.
Proof.
  induction c as [|e0 r IH]; intros H Hin; [by apply elem_of_nil in Hin|].
  cbn [a_find]. unfold ident_eqb. case_bool_decide as Hd.
  - f_equal. eapply chain_hash_inj; eauto; [apply elem_of_list_here|by rewrite Hd].
  - apply elem_of_cons in Hin as [->|Hin]; [done|]. apply IH; [|done]. by destruct H as (_ & _ & _ & _ & _ & Hr).
Qed.
Lemma a_find_head e r : a_find (e :: r) (ce_id e) = Some e.
Proof. cbn [a_find]. unfold ident_eqb. by rewrite bool_decide_true. Qed.

Lemma chain_front_key c : chain_ok c ->
  a_front c !! k_frontier = match c with [] => None | e :: _ => Some (ser_id (ce_id e)) end.
Proof.
  destruct c as [|e r]; intros H; cbn [a_front]; [apply lookup_empty|].
  destruct H as (_ & _ & _ & (p & d & Hp & Hpatch) & Hst & _). rewrite Hst, Hpatch. by apply full_lookup_frontier.
Qed.

Lemma chain_hash_key c e : chain_ok c -> e ∈ c ->
  a_front c !! k_hash (fst (ce_id e)) = Some (be_bytes 8 (snd (ce_id e))).
Proof.
  induction c as [|e0 r IH]; intros H Hin; [by apply elem_of_nil in Hin|].
  pose proof H as (_ & _ & Hfresh & (p & d & Hp & Hpatch) & Hst & Hr). cbn [a_front].
  rewrite Hst, Hpatch, full_lookup_hash by done.
  apply elem_of_cons in Hin as [->|Hin]; [by rewrite decide_True|].
  rewrite decide_False; [by apply IH|]. rewrite Forall_forall in Hfresh. intros Heq. by apply (Hfresh e Hin).
Qed.
Lemma chain_hash_key_inv c h v : chain_ok c -> a_front c !! k_hash h = Some v ->
  exists e, e ∈ c /\ fst (ce_id e) = h /\ v = be_bytes 8 (snd (ce_id e)).
Proof.
  induction c as [|e0 r IH]; intros H Hv; [cbn [a_front] in Hv; by rewrite lookup_empty in Hv|].
  pose proof H as (_ & _ & _ & (p & d & Hp & Hpatch) & Hst & Hr). cbn [a_front] in Hv.
  rewrite Hst, Hpatch, full_lookup_hash in Hv by done.
  destruct (decide (fst (ce_id e0) = h)) as [Heq|Hne].
  - injection Hv as <-. exists e0. split; [apply elem_of_list_here|done].
  - destruct (IH Hr Hv) as (e & Hin & ? & ?). exists e. split; [by apply elem_of_list_further|done].
Qed.

(* ------------------------------------------------------------------ the invariant *)
Fixpoint undo_inv (undo : gmap Z patch) (c : achain) : Prop :=
  match c with
  | [] => True
  | e :: r => (exists u, undo !! snd (ce_id e) = Some u /\ undo_ok u (a_front r) (ce_state e)) /\ undo_inv undo r
  end.

Definition cache_ok (cache : gmap ident (ident * raw)) (c : achain) : Prop :=
  forall i cf ov, cache !! i = Some (cf, ov) ->
    exists e ef, a_find c i = Some e /\ a_find c cf = Some ef /\ snd i <= snd cf /\ ov_ok ov (ce_state ef) (ce_state e).

Definition Inv (m : mgr) (c : achain) : Prop :=
  chain_ok c /\ omap_dec (m_front m) = a_front c /\ undo_inv (m_undo m) c /\
  (forall j, m_redo m !! j = ce_patch <$> a_at c j) /\ cache_ok (m_cache m) c.

Lemma frontier_id_spec m c : Inv m c -> frontier_id (m_front m) = a_front_id c.
Proof.
  intros (Hc & HF & _). unfold frontier_id. rewrite <- lookup_omap_dec, HF, chain_front_key by done.
  destruct c as [|e r]; [done|]. cbn [a_front_id]. apply parse_ser.
  pose proof (chain_heights (e :: r) e Hc ltac:(apply elem_of_list_here)). destruct Hc as (_ & ? & _). lia.
Qed.

Lemma ov_loop_chain undo c : chain_ok c -> undo_inv undo c -> forall e ov T, e ∈ c -> ov_ok ov (ce_state e) T ->
  exists ov', ov_loop undo (snd (ce_id e)) (Z.to_nat (a_height c - snd (ce_id e))) ov = Some ov' /\ ov_ok ov' (a_front c) T.
Proof.
  induction c as [|e0 r IH]; intros Hc Hu e ov T Hin Hov; [by apply elem_of_nil in Hin|].
  pose proof Hc as (Hh & _ & _ & _ & _ & Hr). destruct Hu as ((u & Hu & Huok) & Hur).
  apply elem_of_cons in Hin as [->|Hin].
  - cbn [a_height a_front]. replace (snd (ce_id e0) - snd (ce_id e0)) with 0 by lia. cbn [Z.to_nat ov_loop]. eauto.
  - pose proof (chain_heights r e Hr Hin) as Hb. cbn [a_height a_front].
    replace (Z.to_nat (snd (ce_id e0) - snd (ce_id e))) with (S (Z.to_nat (a_height r - snd (ce_id e)))) by lia.
    rewrite ov_loop_snoc.
    destruct (IH Hr Hur e ov T Hin Hov) as (ov1 & -> & Hov1).
    replace (snd (ce_id e) + Z.of_nat (Z.to_nat (a_height r - snd (ce_id e))) + 1) with (snd (ce_id e0)) by lia.
    rewrite Hu. eexists; split; [done|]. eapply wo_apply_step; eauto.
Qed.

(* ------------------------------------------------------------------ manager operations *)
Lemma ident_eqb_true a b : ident_eqb a b = true <-> a = b.
Proof. unfold ident_eqb. apply bool_decide_eq_true. Qed.
Lemma ident_eqb_false a b : ident_eqb a b = false <-> a <> b.
Proof. unfold ident_eqb. apply bool_decide_eq_false. Qed.

Definition view_of (c : achain) (i : ident) : amap :=
  if ident_eqb i zero_id then ∅ else match a_find c i with Some e => ce_state e | None => ∅ end.
Definition known (c : achain) (i : ident) : bool :=
  ident_eqb i zero_id || match a_find c i with Some _ => true | None => false end.

Lemma ov_ok_empty T : ov_ok ∅ T T.
Proof. intros k. by rewrite lookup_empty. Qed.

Lemma omap_dec_union_ov ov m Sfrom T : ov_ok ov Sfrom T -> omap_dec m = Sfrom -> omap_dec (ov ∪ m) = T.
Proof. intros Hov Hm. apply map_eq; intros k. rewrite lookup_omap_dec. by eapply ov_ok_lookup. Qed.

Lemma cache_ok_insert cache c i fid ov e ef :
  cache_ok cache c -> a_find c i = Some e -> a_find c fid = Some ef -> snd i <= snd fid ->
  ov_ok ov (ce_state ef) (ce_state e) -> cache_ok (<[i := (fid, ov)]> cache) c.
Proof.
  intros Hc He Hef Hle Hov i' cf' ov' Hl.
  destruct (decide (i = i')) as [<-|Hne].
  - rewrite lookup_insert in Hl. injection Hl as <- <-. eauto 10.
  - rewrite lookup_insert_ne in Hl by done. by apply Hc.
Qed.

Lemma mgr_get_spec m c i : Inv m c ->
  match mgr_get m i with
  | GPanic => False
  | GNil => known c i = false
  | GView ov base m' =>
      Inv m' c /\ m_front m' = m_front m /\ m_undo m' = m_undo m /\ m_redo m' = m_redo m /\
      base = (if ident_eqb i zero_id then ∅ else m_front m) /\
      omap_dec (ov ∪ base) = view_of c i /\ known c i = true
  end.
Proof.
  intros HI. pose proof HI as (Hc & HF & Hu & Hredo & Hcache).
  pose proof (frontier_id_spec m c HI) as Hfid.
  unfold mgr_get, view_of, known. rewrite Hfid.
  destruct (ident_eqb i zero_id) eqn:Ez.
  { repeat split; try done. rewrite (left_id_L ∅ (∪)). unfold omap_dec. apply omap_empty. }
  destruct (ident_eqb i (a_front_id c)) eqn:Ef.
  { apply ident_eqb_true in Ef. destruct c as [|e0 r].
    - cbn [a_front_id] in Ef. apply ident_eqb_false in Ez. done.
    - cbn [a_front_id] in Ef. subst i. rewrite a_find_head.
      split; [done|]. split; [done|]. split; [done|]. split; [done|]. split; [done|]. split; [|done].
      rewrite (left_id_L ∅ (∪)). exact HF. }
  unfold id_by_hash. rewrite <- lookup_omap_dec, HF.
  destruct (a_front c !! k_hash (fst i)) as [v|] eqn:Eh.
  2:{ destruct (a_find c i) as [e|] eqn:Efind; [|done].
      apply a_find_Some in Efind as [Hin <-]. rewrite (chain_hash_key c e Hc Hin) in Eh. done. }
  destruct (chain_hash_key_inv c _ _ Hc Eh) as (e & Hin & Hhash & ->).
  pose proof (chain_heights c e Hc Hin) as Hhe.
  assert (Hlt : snd (ce_id e) < two64).
  { pose proof (chain_height_nonneg c Hc). destruct c as [|e0 r]; [by apply elem_of_nil in Hin|].
    destruct Hc as (_ & ? & _). cbn [a_height] in Hhe. lia. }
  rewrite be_roundtrip by lia.
  destruct (ident_eqb (fst i, snd (ce_id e)) i) eqn:Eti; cbn [negb].
  2:{ destruct (a_find c i) as [e'|] eqn:Efind; [|done].
      apply a_find_Some in Efind as [Hin' <-].
      assert (e' = e) by (eapply chain_hash_inj; eauto). subst e'.
      apply ident_eqb_false in Eti. exfalso. apply Eti. by destruct (ce_id e). }
  apply ident_eqb_true in Eti.
  assert (Hid : ce_id e = i). { rewrite <- Eti, <- Hhash. by destruct (ce_id e). }
  assert (Hfind : a_find c i = Some e). { rewrite <- Hid. by apply a_find_elem. }
  rewrite Hfind.
  (* the overlay: from the cache or from scratch *)
  assert (Hloop : forall ef ov0, ef ∈ c -> ov_ok ov0 (ce_state ef) (ce_state e) ->
            exists ov', ov_loop (m_undo m) (snd (ce_id ef)) (Z.to_nat (snd (a_front_id c) - snd (ce_id ef))) ov0 = Some ov'
                        /\ ov_ok ov' (a_front c) (ce_state e)).
  { intros ef ov0 Hef Hov0. replace (snd (a_front_id c)) with (a_height c) by (by destruct c).
    by apply ov_loop_chain. }
  assert (Hfront : exists e0, a_find c (a_front_id c) = Some e0 /\ ce_state e0 = a_front c).
  { destruct c as [|e0 r]; [by apply elem_of_nil in Hin|]. exists e0. split; [apply a_find_head|done]. }
  destruct Hfront as (e0 & Hfind0 & Hst0).
  assert (Hle : snd i <= snd (a_front_id c)).
  { rewrite <- Hid. replace (snd (a_front_id c)) with (a_height c) by (by destruct c). lia. }
  destruct (m_cache m !! i) as [[cf ov]|] eqn:Ecache.
  - destruct (Hcache _ _ _ Ecache) as (e1 & ef & Hf1 & Hfc & Hlecf & Hovc).
    rewrite Hfind in Hf1. injection Hf1 as <-.
    apply a_find_Some in Hfc as [Hefin Hefid].
    destruct (Hloop ef ov Hefin Hovc) as (ov' & Hl & Hov'). rewrite Hefid in Hl. rewrite Hl.
    repeat split; try done.
    + eapply cache_ok_insert; eauto. by rewrite Hst0.
    + by eapply omap_dec_union_ov.
  - destruct (Hloop e ∅ Hin (ov_ok_empty _)) as (ov' & Hl & Hov'). rewrite Hid in Hl. rewrite Hl.
    repeat split; try done.
    + eapply cache_ok_insert; eauto. by rewrite Hst0.
    + by eapply omap_dec_union_ov.
Qed.

Lemma undo_inv_mono undo undo' c :
  (forall e, e ∈ c -> undo' !! snd (ce_id e) = undo !! snd (ce_id e)) -> undo_inv undo c -> undo_inv undo' c.
Proof.
  induction c as [|e r IH]; intros Hsame H; [done|].
  destruct H as ((u & Hu & Hok) & Hr). split.
  - exists u. split; [|done]. rewrite Hsame; [done|apply elem_of_list_here].
  - apply IH; [|done]. intros e' He'. apply Hsame. by apply elem_of_list_further.
Qed.

Lemma a_at_None c j : (forall e, e ∈ c -> snd (ce_id e) <> j) -> a_at c j = None.
Proof.
  induction c as [|e r IH]; intros H; [done|]. cbn [a_at].
  destruct (snd (ce_id e) =? j) eqn:E.
  - exfalso. apply (H e); [apply elem_of_list_here|lia].
  - apply IH. intros e' He'. apply H. by apply elem_of_list_further.
Qed.

Lemma view_of_front c : chain_ok c -> view_of c (a_front_id c) = a_front c.
Proof.
  intros Hc. unfold view_of. destruct c as [|e r]; cbn [a_front_id a_front].
  - unfold ident_eqb. by rewrite bool_decide_true.
  - assert (ident_eqb (ce_id e) zero_id = false) as ->.
    { apply ident_eqb_false. intros Heq. pose proof (chain_heights (e :: r) e Hc ltac:(apply elem_of_list_here)) as Hh.
      rewrite Heq in Hh. cbn in Hh. lia. }
    by rewrite a_find_head.
Qed.

Lemma known_front c : chain_ok c -> known c (a_front_id c) = true.
Proof.
  intros Hc. unfold known. destruct c as [|e r]; cbn [a_front_id].
  - unfold ident_eqb. by rewrite bool_decide_true.
  - rewrite a_find_head. apply orb_true_r.
Qed.

Lemma mgr_add_spec m c prev cid data p :
  Inv m c -> wf_op c (OAdd prev cid data p) ->
  match mgr_add m prev cid data p with
  | RPanic => False
  | ROk m' ok =>
    if ident_eqb prev (a_front_id c) then
      ok = true /\ Inv m' (CE cid (abs_apply (a_front c) (p ++ frontier_ops cid data)) (p ++ frontier_ops cid data) :: c)
    else ok = known c prev /\ Inv m' c
  end.
Proof.
  intros HI Hwf. unfold mgr_add.
  pose proof (mgr_get_spec m c prev HI) as Hget.
  destruct (mgr_get m prev) as [| |ov base m1]; [|done|].
  { (* unknown parent *)
    destruct (ident_eqb prev (a_front_id c)) eqn:Ef.
    - apply ident_eqb_true in Ef. subst prev. destruct HI as (Hc & _). by rewrite known_front in Hget.
    - by rewrite Hget. }
  destruct Hget as (HI1 & HF1 & Hu1 & Hr1 & Hbase & Hview & Hknown).
  rewrite (frontier_id_spec m1 c HI1).
  destruct (ident_eqb prev (a_front_id c)) eqn:Ef; [|done].
  apply ident_eqb_true in Ef. subst prev. split; [done|].
  destruct (Hwf eq_refl) as (Hh & Hlt & Hfresh & Hres).
  destruct HI1 as (Hc & HF & Hu & Hredo & Hcache).
  set (full := p ++ frontier_ops cid data) in *.
  rewrite view_of_front in Hview by done.
  assert (Hget_k : forall k, dec ((ov ∪ base) !! k) = a_front c !! k).
  { intros k. by rewrite <- lookup_omap_dec, Hview. }
  assert (Hhe : forall e, e ∈ c -> snd (ce_id e) <> snd cid).
  { intros e He. pose proof (chain_heights c e Hc He). lia. }
  split; [|split; [|split; [|split]]]; cbn [m_front m_redo m_undo m_cache].
  - cbn [chain_ok ce_id ce_state ce_patch]. repeat split; try done. by exists p, data.
  - cbn [a_front ce_state]. by rewrite omap_dec_apply, HF.
  - cbn [undo_inv ce_id ce_state]. split.
    + eexists. split; [apply lookup_insert|]. split.
      * by apply rollback_encodes.
      * intros k Hk. rewrite rollback_pkeys in Hk. by apply abs_apply_other.
    + eapply undo_inv_mono; [|exact Hu]. intros e He. rewrite lookup_insert_ne; [done|]. intros Heq. by apply (Hhe e He).
  - intros j. cbn [a_at ce_id]. destruct (snd cid =? j) eqn:Ej.
    + assert (snd cid = j) as -> by lia. by rewrite lookup_insert.
    + rewrite lookup_insert_ne by lia. apply Hredo.
  - intros i cf ov' Hl. destruct (Hcache _ _ _ Hl) as (e & ef & He & Hef & Hle & Hov).
    assert (Hother : forall i' e', a_find c i' = Some e' -> a_find (CE cid (abs_apply (a_front c) full) full :: c) i' = Some e').
    { intros i' e' Hf. cbn [a_find ce_id]. unfold ident_eqb. rewrite bool_decide_false; [done|].
      intros <-. apply a_find_Some in Hf as [Hin Hid]. rewrite Forall_forall in Hfresh.
      apply (Hfresh e' Hin). by rewrite Hid. }
    exists e, ef. auto.
Qed.

Lemma mgr_pop_spec m c : Inv m c -> c <> [] ->
  match mgr_pop m with RPanic => False | ROk m' ok => ok = true /\ Inv m' (tail c) end.
Proof.
  intros HI Hne. pose proof (frontier_id_spec m c HI) as Hfid.
  destruct HI as (Hc & HF & Hu & Hredo & Hcache). destruct c as [|e0 r]; [done|].
  unfold mgr_pop. rewrite Hfid. cbn [a_front_id tail].
  destruct Hu as ((u & Hu & Huok) & Hur). rewrite Hu.
  pose proof Hc as (Hh & _ & _ & _ & _ & Hr).
  assert (Hhe : forall e, e ∈ r -> snd (ce_id e) <> snd (ce_id e0)).
  { intros e He. pose proof (chain_heights r e Hr He). lia. }
  split; [done|]. split; [done|]. cbn [m_front m_redo m_undo m_cache]. split; [|split; [|split]].
  - rewrite omap_dec_apply, HF. cbn [a_front]. by apply undo_ok_apply.
  - eapply undo_inv_mono; [|exact Hur]. intros e He. apply lookup_delete_ne. intros Heq. by apply (Hhe e He).
  - intros j. destruct (decide (snd (ce_id e0) = j)) as [<-|Hnej].
    + rewrite lookup_delete. by rewrite a_at_None.
    + rewrite lookup_delete_ne by done. rewrite Hredo. cbn [a_at].
      destruct (snd (ce_id e0) =? j) eqn:E; [lia|done].
  - intros i cf ov Hl. by rewrite lookup_empty in Hl.
Qed.

(* ------------------------------------------------------------------ subsets *)
Lemma has_prefix_app pre s : has_prefix pre (pre ++ s) = true.
Proof. induction pre as [|x pre IH]; [done|]. cbn [app has_prefix]. by rewrite Z.eqb_refl, IH. Qed.
Lemma has_prefix_inv pre k : has_prefix pre k = true -> k = pre ++ drop (length pre) k.
Proof.
  revert k; induction pre as [|x pre IH]; intros k H; [done|].
  destruct k as [|y k]; [done|]. cbn [has_prefix] in H. apply andb_true_iff in H as [Hxy Hr].
  apply Z.eqb_eq in Hxy as ->. cbn [app length drop]. f_equal. by apply IH.
Qed.
Lemma strip_Some pre k k' : strip pre k = Some k' <-> k = pre ++ k'.
Proof.
  unfold strip. split.
  - destruct (has_prefix pre k) eqn:E; [|done]. intros [= <-]. by apply has_prefix_inv.
  - intros ->. rewrite has_prefix_app. by rewrite drop_app.
Qed.

Lemma sub_map_NoDup {A} (pre : list Z) (l : list (list Z * A)) :
  NoDup l.*1 -> NoDup (omap (fun kv => (fun k' => (k', snd kv)) <$> strip pre (fst kv)) l).*1.
Proof.
  induction l as [|[k0 x0] l IH]; intros Hnd; [constructor|].
  cbn [fmap list_fmap] in Hnd. apply NoDup_cons in Hnd as [Hnin Hnd].
  cbn [omap list_omap fst snd]. destruct (strip pre k0) as [k'|] eqn:E; cbn [fmap option_fmap option_map]; [|by apply IH].
  cbn [fmap list_fmap fst]. apply NoDup_cons. split; [|by apply IH].
  intros Hin. apply elem_of_list_fmap in Hin as ([k2 x2] & Hk & Hin). cbn [fst] in Hk. subst k2.
  apply elem_of_list_omap in Hin as ([k3 x3] & Hin3 & Hf). cbn [fst snd] in Hf.
  destruct (strip pre k3) as [k3'|] eqn:E3; [|done]. cbn in Hf. injection Hf as -> ->.
  apply strip_Some in E as ->. apply strip_Some in E3 as ->.
  apply Hnin. apply elem_of_list_fmap. by exists (pre ++ k', x2).
Qed.

Lemma lookup_sub_map {A} (pre : list Z) (m : gmap (list Z) A) (k : list Z) : sub_map pre m !! k = m !! (pre ++ k).
Proof.
  apply option_eq; intros x. unfold sub_map.
  rewrite <- elem_of_list_to_map by apply sub_map_NoDup, NoDup_fst_map_to_list.
  rewrite elem_of_list_omap. split.
  - intros ([k0 x0] & Hin & Hf). cbn [fst snd] in Hf. destruct (strip pre k0) as [k'|] eqn:E; [|done].
    cbn in Hf. injection Hf as -> ->. apply strip_Some in E as ->. by apply elem_of_map_to_list.
  - intros H. exists (pre ++ k, x). split; [by apply elem_of_map_to_list|]. cbn [fst snd].
    by rewrite (proj2 (strip_Some pre (pre ++ k) k) eq_refl).
Qed.

Lemma omap_dec_sub_map pre m : omap_dec (sub_map pre m) = sub_map pre (omap_dec m).
Proof. apply map_eq; intros k. by rewrite lookup_omap_dec, !lookup_sub_map, lookup_omap_dec. Qed.

(* ------------------------------------------------------------------ views *)
Definition dec_local (lc : raw) : alocal := dec_enc <$> lc.
Definition node_rel (n : vnode) (an : anode) : Prop :=
  match n, an with
  | VRoot lc ov base, ARoot la Sm => la = dec_local lc /\ omap_dec (ov ∪ base) = Sm
  | VSnap lc p, ASnap la p' => la = dec_local lc /\ p = p'
  | VSub pre p, ASub pre' p' => pre = pre' /\ p = p'
  | _, _ => False
  end.
Definition views_rel (vs : vtable) (avs : avtable) : Prop :=
  forall v, match vs !! v, avs !! v with
            | Some n, Some an => node_rel n an
            | None, None => True
            | _, _ => False
            end.

Lemma views_rel_size vs avs : views_rel vs avs -> size vs = size avs.
Proof.
  intros H. rewrite <- !size_dom. f_equal. apply set_eq. intros v. rewrite !elem_of_dom.
  specialize (H v). destruct (vs !! v), (avs !! v); try done; split; intros [? ?]; try done; by eexists.
Qed.

Lemma overlay_lookup la Sm k : overlay la Sm !! k = match la !! k with Some o => o | None => Sm !! k end.
Proof. unfold overlay. rewrite lookup_merge. by destruct (la !! k), (Sm !! k). Qed.

Lemma overlay_empty Sm : overlay ∅ Sm = Sm.
Proof. apply map_eq; intros k. by rewrite overlay_lookup, lookup_empty. Qed.

Lemma omap_dec_union lc m : omap_dec (lc ∪ m) = overlay (dec_local lc) (omap_dec m).
Proof.
  apply map_eq; intros k. rewrite lookup_omap_dec, overlay_lookup, lookup_union. unfold dec_local.
  rewrite lookup_fmap. destruct (lc !! k) as [e|] eqn:E; cbn.
  - destruct (m !! k); by destruct e.
  - rewrite (left_id_L None _). by rewrite lookup_omap_dec.
Qed.

Lemma content_rel fuel vs avs v : views_rel vs avs -> omap_dec (vmap fuel vs v) = acontent fuel avs v.
Proof.
  intros H. revert v; induction fuel as [|f IH]; intros v; cbn [vmap acontent]; [apply omap_empty|].
  pose proof (H v) as Hv. destruct (vs !! v) as [n|], (avs !! v) as [an|]; try done; [|apply omap_empty].
  destruct n as [lc ov base|lc p|pre p], an as [la Sm|la p'|pre' p']; try done; destruct Hv as [-> Hx].
  - rewrite omap_dec_union. by rewrite Hx.
  - subst p'. rewrite omap_dec_union. by rewrite IH.
  - subst p'. rewrite omap_dec_sub_map. by rewrite IH.
Qed.

Lemma views_rel_insert vs avs v n an : views_rel vs avs -> node_rel n an -> views_rel (<[v := n]> vs) (<[v := an]> avs).
Proof.
  intros H Hn v'. destruct (decide (v = v')) as [<-|Hne].
  - by rewrite !lookup_insert.
  - rewrite !lookup_insert_ne by done. apply H.
Qed.
Lemma views_rel_delete vs avs v : views_rel vs avs -> views_rel (delete v vs) (delete v avs).
Proof.
  intros H v'. destruct (decide (v = v')) as [<-|Hne].
  - by rewrite !lookup_delete.
  - rewrite !lookup_delete_ne by done. apply H.
Qed.

Lemma dec_local_sub_map pre m : dec_local (sub_map pre m) = sub_map pre (dec_local m).
Proof. apply map_eq; intros k. unfold dec_local. by rewrite lookup_fmap, !lookup_sub_map, lookup_fmap. Qed.

Lemma views_rel_write_f fuel : forall vs avs v o,
  views_rel vs avs -> views_rel (vwrite_f fuel vs v o) (awrite_f fuel avs v (pkey o) (dec_op o)).
Proof.
  induction fuel as [|f IH]; intros vs avs v o H; [done|]. cbn [vwrite_f awrite_f]. pose proof (H v) as Hv.
  destruct (vs !! v) as [n|], (avs !! v) as [an|]; try done.
  assert (Hl : forall lc, dec_local (raw_apply1 lc o) = <[pkey o := dec_op o]> (dec_local lc)).
  { intros lc. unfold dec_local, raw_apply1. rewrite fmap_insert. f_equal. by destruct o. }
  destruct n as [lc ov base|lc p|pre p], an as [la Sm|la p'|pre' p']; try done; destruct Hv as [-> Hx].
  - apply views_rel_insert; [done|]. cbn [vset_local vlocal aset_local alocal_of node_rel]. by rewrite Hl.
  - apply views_rel_insert; [done|]. cbn [vset_local vlocal aset_local alocal_of node_rel]. by rewrite Hl.
  - subst p'. specialize (IH vs avs p (prefix_op pre' o) H).
    replace (pkey (prefix_op pre' o)) with (pre' ++ pkey o) in IH by (by destruct o).
    replace (dec_op (prefix_op pre' o)) with (dec_op o) in IH by (by destruct o). exact IH.
Qed.

Lemma views_rel_write vs avs v o :
  views_rel vs avs -> views_rel (vwrite vs v o) (awrite avs v (pkey o) (dec_op o)).
Proof.
  intros H. unfold vwrite, awrite, vfuel, afuel. rewrite (views_rel_size _ _ H). by apply views_rel_write_f.
Qed.

Lemma views_rel_apply p : forall vs avs v,
  views_rel vs avs ->
  views_rel (foldl (fun vs o => vwrite vs v o) vs p) (foldl (fun vs o => awrite vs v (pkey o) (dec_op o)) avs p).
Proof.
  induction p as [|o p IH]; intros vs avs v H; [done|]. cbn [foldl]. apply IH. by apply views_rel_write.
Qed.

Lemma writes_rel fuel : forall vs avs v, views_rel vs avs -> dec_local (vwrites fuel vs v) = awrites fuel avs v.
Proof.
  induction fuel as [|f IH]; intros vs avs v H; cbn [vwrites awrites]; [unfold dec_local; apply fmap_empty|].
  pose proof (H v) as Hv. destruct (vs !! v) as [n|], (avs !! v) as [an|]; try done; [|unfold dec_local; apply fmap_empty].
  destruct n as [lc ov base|lc p|pre p], an as [la Sm|la p'|pre' p']; try done; destruct Hv as [-> Hx]; try done.
  subst p'. rewrite dec_local_sub_map. by rewrite (IH vs avs p H).
Qed.

(* ------------------------------------------------------------------ refinement *)
Definition Rel (s : state) (a : astate) : Prop :=
  Inv (s_mgr s) (a_chain a) /\ views_rel (s_views s) (a_views a).

Lemma Rel_init : Rel st_init ast_init.
Proof.
  split; [|intros v; cbn [st_init ast_init s_views a_views]; by rewrite !lookup_empty].
  cbn [st_init ast_init s_mgr a_chain]. unfold mgr_init.
  split; [done|]. split; [apply omap_empty|]. split; [done|]. split.
  - intros j. cbn [m_redo a_at]. by rewrite lookup_empty.
  - intros i cf ov Hl. cbn [m_cache] in Hl. by rewrite lookup_empty in Hl.
Qed.

Lemma step_refines s a o : Rel s a -> wf_op (a_chain a) o ->
  snd (step s o) = snd (astep a o) /\ Rel (fst (step s o)) (fst (astep a o)).
Proof.
  intros [HI HV] Hwf. destruct s as [m vs], a as [c avs]. cbn [s_mgr s_views a_chain a_views] in *.
  pose proof (views_rel_size _ _ HV) as Hsize.
  assert (Hcontent : forall v, omap_dec (vmap (vfuel vs) vs v) = aget avs v).
  { intros v. unfold aget, afuel, vfuel. rewrite <- Hsize. by apply content_rel. }
  destruct o as [prev cid data p| |v i|v k|v k|v p|v k x|v k|v nv|v|v nv pre|v p| |i]; cbn [step astep s_mgr s_views a_chain a_views].
  - (* OAdd *)
    pose proof (mgr_add_spec m c prev cid data p HI Hwf) as H.
    destruct (mgr_add m prev cid data p) as [m' ok|]; [|done].
    destruct (ident_eqb prev (a_front_id c)); destruct H as [-> HI']; cbn [fst snd]; by split.
  - (* OPop *)
    pose proof (mgr_pop_spec m c HI Hwf) as H.
    destruct (mgr_pop m) as [m' ok|]; [|done]. destruct H as [-> HI']. cbn [fst snd]. by split.
  - (* OGet *)
    pose proof (mgr_get_spec m c i HI) as H. unfold known, view_of in H.
    destruct (mgr_get m i) as [| |ov base m'].
    + destruct (ident_eqb i zero_id); [done|]. destruct (a_find c i); [done|]. cbn [fst snd].
      split; [done|]. split; [done|]. by apply views_rel_delete.
    + done.
    + destruct H as (HI' & _ & _ & _ & _ & Hview & Hk).
      destruct (ident_eqb i zero_id).
      * cbn [fst snd]. split; [done|]. split; [done|]. apply views_rel_insert; [done|].
        split; [|done]. unfold dec_local. by rewrite fmap_empty.
      * destruct (a_find c i) as [e|]; [|done]. cbn [fst snd]. split; [done|]. split; [done|].
        apply views_rel_insert; [done|]. split; [|done]. unfold dec_local. by rewrite fmap_empty.
  - (* OVGet *) cbn [fst snd]. split; [|by split]. f_equal. unfold vget. by rewrite <- lookup_omap_dec, Hcontent.
  - (* OVHas *) cbn [fst snd]. split; [|by split]. f_equal. unfold vget. by rewrite <- lookup_omap_dec, Hcontent.
  - (* OVScan *) cbn [fst snd]. split; [|by split]. f_equal. unfold vscan, scan_of. by rewrite Hcontent.
  - (* OVPut *) cbn [fst snd]. split; [done|]. split; [done|]. apply (views_rel_write vs avs v (PPut k x) HV).
  - (* OVDel *) cbn [fst snd]. split; [done|]. split; [done|]. apply (views_rel_write vs avs v (PDel k) HV).
  - (* OVSnap *) cbn [fst snd]. split; [done|]. split; [done|]. apply views_rel_insert; [done|].
    split; [|done]. unfold dec_local. by rewrite fmap_empty.
  - (* OVChanges *) cbn [fst snd]. split; [|by split]. f_equal. unfold changes_of.
    unfold vfuel, afuel. rewrite <- Hsize. by rewrite (writes_rel _ vs avs v HV).
  - (* OVSub *) cbn [fst snd]. split; [done|]. split; [done|]. by apply views_rel_insert.
  - (* OVApply *) cbn [fst snd]. split; [done|]. split; [done|]. by apply views_rel_apply.
  - (* OEvict *) cbn [fst snd]. split; [done|]. split; [|done].
    destruct HI as (? & ? & ? & ? & ?). repeat split; try done.
  - (* OGetPatch *) cbn [fst snd]. split; [|by split]. f_equal. destruct HI as (_ & _ & _ & Hredo & _). apply Hredo.
Qed.

Theorem run_refines ops : forall s a, Rel s a -> wf_ops a ops -> run s ops = arun a ops.
Proof.
  induction ops as [|o ops IH]; intros s a HR Hwf; [done|].
  destruct Hwf as [Hwo Hwr]. pose proof (step_refines s a o HR Hwo) as [Hans HR'].
  cbn [run arun]. destruct (step s o) as [s' x], (astep a o) as [a' y]. cbn [fst snd] in *.
  subst y. f_equal. by apply IH.
Qed.

Corollary store_refines_spec ops : wf_ops ast_init ops -> run st_init ops = arun ast_init ops.
Proof. apply run_refines, Rel_init. Qed.
