(* C05 — the checks of the momentum acceptance model (MomentumVerif.v: raw_verify, tx_verify) ARE the code: the methods
   of verifier.rawMomentumVerifier (chainIdentifier, version, timestamp, previous, data, all) and of
   verifier.momentumTransactionVerifier (changesHash, hash, signature, producer, all) are translated from /repo's source
   by go2coq on every run (gen/Pure.v, names rmv_... / mtv_...) and proved equal to the model here.
   Inputs of the translations (oracles): the frontier momentum of the verifier's store (= the parent), the comparison
   with time.Now()+10s, the result of content() (a loop over maps, modelled by hand: content_check), db.PatchHash,
   ComputeHash, wallet.VerifySignature, consensus.VerifyMomentumProducer. Hashes and (hash, height) identifiers enter
   as numbers under any injective encoding [enc]. *)
From ZV Require Import Prelude GoSem Election MomentumVerif.
From ZV.gen Require Import Consts Pure PureVerifCommon PureMomentumVerifier.
Open Scope Z_scope.

Definition mmap : list (Z * Z) :=
  [ (0, 0);
    (Err_verifier_ErrABChainIdentifierMissing, verr_code VChainIdMissing);
    (Err_verifier_ErrABChainIdentifierMismatch, verr_code VChainIdMismatch);
    (Err_verifier_ErrMVersionMissing, verr_code VVersionMissing); (Err_verifier_ErrMVersionInvalid, verr_code VVersionInvalid);
    (Err_verifier_ErrMTimestampMissing, verr_code VTimestampMissing);
    (Err_verifier_ErrMTimestampInTheFuture, verr_code VTimestampFuture);
    (Err_verifier_ErrMTimestampNotIncreasing, verr_code VTimestampNotIncreasing);
    (Err_verifier_ErrVerifierInternal, verr_code VInternal);
    (Err_verifier_ErrMNotGenesis, verr_code VNotGenesis); (Err_verifier_ErrMPrevHashMissing, verr_code VPrevHashMissing);
    (Err_verifier_ErrMPreviousMissing, verr_code VPreviousMissing); (Err_verifier_ErrMDataMustBeZero, verr_code VDataMustBeZero);
    (Err_verifier_ErrMChangesHashInvalid, verr_code VChangesHashInvalid); (Err_verifier_ErrMHashInvalid, verr_code VHashInvalid);
    (Err_verifier_ErrMSignatureMissing, verr_code VSignatureMissing); (Err_verifier_ErrMPublicKeyMissing, verr_code VPublicKeyMissing);
    (Err_verifier_ErrMSignatureInvalid, verr_code VSignatureInvalid); (Err_verifier_ErrMProducerInvalid, verr_code VProducerInvalid) ].

Definition mcode (e : Z) : Z :=
  match find (fun p => fst p =? e) mmap with Some p => snd p | None => -1 end.

Lemma mcode_zero e : (mcode e =? 0) = (e =? 0).
Proof.
  unfold mcode. destruct (find (fun p => fst p =? e) mmap) as [p|] eqn:F.
  - apply find_some in F. destruct F as [Hin He]. apply Z.eqb_eq in He. subst e.
    assert (H : forallb (fun p => Bool.eqb (snd p =? 0) (fst p =? 0)) mmap = true) by (vm_compute; reflexivity).
    rewrite forallb_forall in H. specialize (H p Hin). apply Bool.eqb_prop in H. exact H.
  - destruct (e =? 0) eqn:E; [|reflexivity].
    apply Z.eqb_eq in E. subst e. vm_compute in F. discriminate.
Qed.

(* the sequence of rawMomentumVerifier.all() over the parent's store, as raw_verify has it *)
Definition raw_tail (par : msum) (cx : vctx) (m : mom) : verr :=
  if mo_chain m =? 0 then VChainIdMissing else
  if negb (mo_chain m =? cx_chain_id cx) then VChainIdMismatch else
  if mo_version m =? 0 then VVersionMissing else
  if negb (mo_version m =? 1) then VVersionInvalid else
  if to_int64 (mo_ts m) =? 0 then VTimestampMissing else
  if time_sec (cx_now cx) + 10 <? time_sec (mo_ts m) then VTimestampFuture else
  if mo_ts m <=? m_ts par then VTimestampNotIncreasing else
  if negb ((mo_prev m =? m_hash par) && (u64 (mo_height m - 1) =? m_height par)) then VPreviousMissing else
  if negb (mo_data_len m =? 0) then VDataMustBeZero else
  content_check cx m.

Lemma raw_verify_unfold cx m :
  raw_verify cx m =
  if mo_height m =? 1 then VNotGenesis else
  if mo_prev m =? 0 then VPrevHashMissing else
  match find_mom (cx_chain cx) (mo_prev m) (u64 (mo_height m - 1)) with
  | None => VPreviousMissing
  | Some par => raw_tail par cx m
  end.
Proof. reflexivity. Qed.

Section Enc.
  Variable enc : Z -> Z -> Z.
  Hypothesis enc_inj : forall a b a' b', enc a b = enc a' b' -> a = a' /\ b = b'.

  Lemma enc_eqb5 a b a' b' : (enc a b =? enc a' b') = ((a =? a') && (b =? b')).
  Proof.
    destruct (enc a b =? enc a' b') eqn:E.
    - apply Z.eqb_eq in E. apply enc_inj in E. destruct E; subst. rewrite !Z.eqb_refl. reflexivity.
    - symmetry. apply andb_false_iff. apply Z.eqb_neq in E.
      destruct (a =? a') eqn:Ea; [|left; reflexivity]. right. apply Z.eqb_neq. apply Z.eqb_eq in Ea. subst. intros ->. apply E. reflexivity.
  Qed.

  (* rawMomentumVerifier.all(): [ce] is what content() returned *)
  Theorem raw_all_is_source par cx m ce :
    mo_height m <> 1 -> mo_prev m <> 0 ->
    mcode ce = verr_code (content_check cx m) ->
    mcode (rmv_all (mo_chain m) (cx_chain_id cx) (mo_version m) (to_int64 (mo_ts m))
             (time_sec (cx_now cx) + 10 <? time_sec (mo_ts m)) 0 (m_ts par) (mo_ts m)
             (mo_height m) (mo_prev m =? 0) 0
             (enc (mo_prev m) (u64 (mo_height m - 1))) (enc (m_hash par) (m_height par))
             (mo_data_len m) ce)
    = verr_code (raw_tail par cx m).
  Proof.
    intros Hh Hp Hce. unfold rmv_all, raw_tail, rmv_chainIdentifier, rmv_version, rmv_timestamp, rmv_previous, rmv_data.
    cbv zeta.
    destruct (mo_chain m =? 0); [reflexivity|].
    destruct (mo_chain m =? cx_chain_id cx); cbn [negb]; [|reflexivity].
    change (0 =? 0) with true. cbn [negb].
    destruct (mo_version m =? 0); [reflexivity|].
    destruct (mo_version m =? 1); cbn [negb]; [|reflexivity].
    change (0 =? 0) with true. cbn [negb].
    destruct (to_int64 (mo_ts m) =? 0); [reflexivity|].
    destruct (time_sec (cx_now cx) + 10 <? time_sec (mo_ts m)); [reflexivity|].
    destruct (mo_ts m <=? m_ts par); [reflexivity|].
    change (0 =? 0) with true. cbn [negb].
    assert (mo_height m =? 1 = false) as -> by lia. assert (mo_prev m =? 0 = false) as -> by lia.
    rewrite enc_eqb5.
    destruct ((mo_prev m =? m_hash par) && (u64 (mo_height m - 1) =? m_height par)); cbn [negb]; [|reflexivity].
    change (0 =? 0) with true. cbn [negb].
    destruct (mo_data_len m =? 0); cbn [negb]; [|reflexivity].
    change (0 =? 0) with true. cbn [negb].
    destruct (ce =? 0) eqn:E; cbn [negb]; [|exact Hce].
    apply Z.eqb_eq in E. subst ce. exact Hce.
  Qed.
End Enc.

(* momentumTransactionVerifier.all(). What consensus.VerifyMomentumProducer answers is the tail of tx_verify: *)
Section Tx.
  Variable perm : Z -> nat -> list nat.
  Variables nc rc : nat.
  Variables bt genesis : Z.
  Variable delegs_at : Z -> list deleg.

  Definition producer_part (cx : vctx) (m : mom) : verr :=
    if time_sec (mo_ts m) <? time_sec genesis then VInternal else
    match momentum_producer perm nc rc bt genesis delegs_at (cx_chain cx) (mo_ts m) with
    | PFound a => if a =? mo_producer m then VOk else VProducerInvalid
    | PElectionPanic => VPanic
    | PElectionFuel => VNoTermination
    | _ => VInternal
    end.

  (* the oracle answers (result, err) that correspond to an outcome of the model; a panic inside the election is
     recovered by ApplyMomentum, not returned by VerifyMomentumProducer *)
  Definition producer_answer (v : verr) (result : bool) (err : Z) : Prop :=
    match v with
    | VOk => result = true /\ err = 0
    | VProducerInvalid => result = false /\ err = 0
    | VInternal => err <> 0
    | _ => False
    end.

  Theorem tx_all_is_source cx m changes result err sigerr :
    producer_answer (producer_part cx m) result err ->
    (sigerr = 0 <-> mo_pk_len m = 32) ->
    mcode (mtv_all changes (mo_changes m) (cx_hash cx) (mo_hash m) (mo_sig_len m) (mo_pk_len m)
             (cx_sig_ok cx) sigerr result err)
    = verr_code (tx_verify perm nc rc bt genesis delegs_at cx m changes).
  Proof.
    intros Hp Hs. unfold mtv_all, mtv_changesHash, mtv_hash, mtv_signature, mtv_producer, tx_verify. cbv zeta.
    destruct (changes =? mo_changes m); cbn [negb]; [|reflexivity].
    change (0 =? 0) with true. cbn [negb].
    destruct (cx_hash cx =? mo_hash m); cbn [negb]; [|reflexivity].
    change (0 =? 0) with true. cbn [negb].
    destruct (mo_sig_len m =? 0); [reflexivity|].
    destruct (mo_pk_len m =? 0); [reflexivity|].
    destruct (mo_pk_len m =? 32) eqn:E32; cbn [negb].
    - assert (sigerr =? 0 = true) as -> by (apply Z.eqb_eq; apply Hs; lia). cbn [negb].
      destruct (cx_sig_ok cx); cbn [negb]; [|reflexivity].
      change (0 =? 0) with true. cbn [negb].
      fold (producer_part cx m). unfold producer_answer in Hp.
      destruct (producer_part cx m); try contradiction.
      + destruct Hp as [-> ->]. reflexivity.
      + assert (err =? 0 = false) as -> by lia. reflexivity.
      + destruct Hp as [-> ->]. reflexivity.
    - assert (sigerr =? 0 = false) as -> by (apply Z.eqb_neq; intros H0; apply Hs in H0; lia). reflexivity.
  Qed.
End Tx.
