(* Executable entry points compared with the implementation by ./check C20. *)
From ZV Require Import Prelude Block Genesis.
Open Scope Z_scope.

Definition kv_eqb (a b : kv) : bool := bytes_eqb (fst a) (fst b) && bytes_eqb (snd a) (snd b).
Definition header_eqb (a b : AHeader) : bool :=
  bytes_eqb (ah_addr a) (ah_addr b) && bytes_eqb (ah_hash a) (ah_hash b) && (ah_height a =? ah_height b).

(* CheckGenesis (the code after fixes 47865a2, 6ab94f1) *)
Definition check_genesis_run (c : Config) : bool := check_genesis c.
(* balance of (address, token) in the genesis state *)
Definition state_balance_run (i : list GBlock * bytes * bytes) : Z :=
  let '(blocks, addr, z) := i in state_balance blocks addr z.
(* in: the writes of the entries of one account in program order; out: the account block's patch, sorted *)
Definition genesis_patch_run (es : list (list kv)) : list kv := norm (concat es).
(* in: accounts in the order the pool is filled; out: momentum content *)
Definition genesis_content_run (accounts : list GAccount) : list AHeader := map fst (genesis_blocks accounts).
(* chain.Init on a database *)
Definition init_db_run (i : option bytes * bytes) : option bytes := init_db (fst i) (snd i).
Definition obytes_eqb20 : option bytes -> option bytes -> bool := option_eqb bytes_eqb.
