(* Model of the momentum acceptance path (C05):
     vm/supervisor.go        ApplyMomentum: verifier.Momentum -> execute -> packMomentum -> verifier.MomentumTransaction
     verifier/momentum.go    getContext, rawMomentumVerifier.all (chainIdentifier, version, timestamp, previous, data,
                             content), momentumTransactionVerifier.all (changesHash, hash, signature, producer)
     chain/momentum_pool.go  AddMomentumTransaction -> common/db/versioned_db.go ldbManager.Add (parent = frontier)
   The decision procedure returns the small error enum [verr]. Cryptography and execution enter as observed
   oracle values in the context [vctx]: ComputeHash of the candidate, PatchHash of the executed changes,
   ed25519 verification, address of the public key. The elected producer is computed by Election.v.
   Go panics inside ApplyMomentum are recovered there and reported as ErrVmRunPanic = VPanic. *)
From ZV Require Import Prelude GoSem Election.
From ZV.gen Require Import Consts.
Open Scope Z_scope.

Inductive verr :=
| VOk | VNotGenesis | VPrevHashMissing | VPreviousMissing | VChainIdMissing | VChainIdMismatch
| VVersionMissing | VVersionInvalid | VTimestampMissing | VTimestampFuture | VTimestampNotIncreasing
| VDataMustBeZero | VContentTooBig | VContentMismatch | VPanic | VExecError
| VChangesHashInvalid | VHashInvalid | VSignatureMissing | VPublicKeyMissing | VInternal
| VSignatureInvalid | VProducerInvalid | VNoTermination.

Definition verr_code (e : verr) : Z :=
  match e with
  | VOk => 0 | VNotGenesis => 1 | VPrevHashMissing => 2 | VPreviousMissing => 3 | VChainIdMissing => 4
  | VChainIdMismatch => 5 | VVersionMissing => 6 | VVersionInvalid => 7 | VTimestampMissing => 8
  | VTimestampFuture => 9 | VTimestampNotIncreasing => 10 | VDataMustBeZero => 11 | VContentTooBig => 12
  | VContentMismatch => 13 | VPanic => 14 | VExecError => 15 | VChangesHashInvalid => 16 | VHashInvalid => 17
  | VSignatureMissing => 18 | VPublicKeyMissing => 19 | VInternal => 20 | VSignatureInvalid => 21
  | VProducerInvalid => 22 | VNoTermination => 23
  end.

(* account-block header in the momentum content; prefetched account block (what content() reads of it) *)
Record hdr := mkH { h_addr : Z; h_hash : Z; h_height : Z }.
Record pblock := mkPB { pb_addr : Z; pb_hash : Z; pb_height : Z; pb_prev : Z; pb_batched : bool }.

Record mom := mkMom {
  mo_version : Z; mo_chain : Z; mo_hash : Z; mo_prev : Z; mo_height : Z; mo_ts : Z;
  mo_data_len : Z; mo_changes : Z; mo_pk_len : Z; mo_sig_len : Z;
  mo_producer : Z;                       (* types.PubKeyToAddress(PublicKey), observed *)
  mo_content : list hdr }.

Inductive exec_res := XOk (changes_hash : Z) | XPanic | XErr.

Record vctx := mkCtx {
  cx_chain_id : Z;
  cx_chain : list msum;                  (* own momentums, genesis first; the last one is the frontier *)
  cx_now : Z;                            (* time.Now(), whole unix seconds *)
  cx_prefetched : list pblock;           (* DetailedMomentum.AccountBlocks *)
  cx_acct : list (Z * (Z * Z));          (* address -> frontier (hash, height) of that account in the parent's store *)
  cx_exec : exec_res;                    (* executing the content over the parent's store: PatchHash of the changes *)
  cx_hash : Z;                           (* Momentum.ComputeHash() of the candidate *)
  cx_sig_ok : bool }.                    (* ed25519.Verify(PublicKey, Hash, Signature) *)

(* time.Unix(sec, 0): seconds are kept relative to year 1 in an int64; the addition wraps *)
Definition unix_to_internal : Z := 62135596800.
Definition time_sec (unix : Z) : Z := wrapS 64 (to_int64 unix + unix_to_internal).

Fixpoint find_mom (chain : list msum) (hash height : Z) : option msum :=
  match chain with
  | [] => None
  | m :: r => if (m_hash m =? hash) && (m_height m =? height) then Some m else find_mom r hash height
  end.
Definition frontier_of (chain : list msum) : option msum := last (map Some chain) None.

(* ---- rawMomentumVerifier.content *)
Fixpoint lookup_pb (l : list pblock) (hash height : Z) : option pblock :=   (* map keyed by Identifier(): last write wins *)
  match l with
  | [] => None
  | b :: r => match lookup_pb r hash height with
              | Some x => Some x
              | None => if (pb_hash b =? hash) && (pb_height b =? height) then Some b else None
              end
  end.
Fixpoint distinct_ids (l : list pblock) (seen : list (Z * Z)) : Z :=
  match l with
  | [] => 0
  | b :: r => if existsb (fun k => (fst k =? pb_hash b) && (snd k =? pb_height b)) seen
              then distinct_ids r seen else 1 + distinct_ids r ((pb_hash b, pb_height b) :: seen)
  end.
Fixpoint assoc_hh (l : list (Z * (Z * Z))) (a : Z) : option (Z * Z) :=
  match l with [] => None | (k, v) :: r => if k =? a then Some v else assoc_hh r a end.

Fixpoint content_scan (pre : list pblock) (acct heads : list (Z * (Z * Z))) (hs : list hdr) : verr :=
  match hs with
  | [] => VOk
  | h :: r =>
      let previous := match assoc_hh heads (h_addr h) with
                      | Some p => p
                      | None => match assoc_hh acct (h_addr h) with Some p => p | None => (0, 0) end
                      end in
      match lookup_pb pre (h_hash h) (h_height h) with
      | None => VPanic                                      (* isBatched(nil) dereferences *)
      | Some b =>
          if pb_batched b then content_scan pre acct heads r
          else if (pb_prev b =? fst previous) && (u64 (pb_height b - 1) =? snd previous)
               then content_scan pre acct ((h_addr h, (pb_hash b, pb_height b)) :: heads) r
               else VContentMismatch
      end
  end.
Definition content_check (cx : vctx) (m : mom) : verr :=
  if MaxAccountBlocksInMomentum <? Z.of_nat (length (mo_content m)) then VContentTooBig
  else if negb (distinct_ids (cx_prefetched cx) [] =? Z.of_nat (length (mo_content m))) then VContentMismatch
  else content_scan (cx_prefetched cx) (cx_acct cx) [] (mo_content m).

(* ---- verifier.Momentum = getContext + rawMomentumVerifier.all; [par] is the store the checks read: the
        store as of momentum.Previous() (NOT necessarily the frontier) *)
Definition raw_verify (cx : vctx) (m : mom) : verr :=
  if mo_height m =? 1 then VNotGenesis else
  if mo_prev m =? 0 then VPrevHashMissing else
  match find_mom (cx_chain cx) (mo_prev m) (u64 (mo_height m - 1)) with
  | None => VPreviousMissing
  | Some par =>
      if mo_chain m =? 0 then VChainIdMissing else
      if negb (mo_chain m =? cx_chain_id cx) then VChainIdMismatch else
      if mo_version m =? 0 then VVersionMissing else
      if negb (mo_version m =? 1) then VVersionInvalid else
      if to_int64 (mo_ts m) =? 0 then VTimestampMissing else
      if time_sec (cx_now cx) + 10 <? time_sec (mo_ts m) then VTimestampFuture else
      if mo_ts m <=? m_ts par then VTimestampNotIncreasing else
      if negb ((mo_prev m =? m_hash par) && (u64 (mo_height m - 1) =? m_height par)) then VPreviousMissing else
      if negb (mo_data_len m =? 0) then VDataMustBeZero else
      content_check cx m
  end.

Section Accept.
  Variable perm : Z -> nat -> list nat.
  Variables nc rc : nat.
  Variables bt genesis : Z.
  Variable delegs_at : Z -> list deleg.

  (* momentumTransactionVerifier.all; the election is evaluated on the node's current chain *)
  Definition tx_verify (cx : vctx) (m : mom) (changes : Z) : verr :=
    if negb (changes =? mo_changes m) then VChangesHashInvalid else
    if negb (cx_hash cx =? mo_hash m) then VHashInvalid else
    if mo_sig_len m =? 0 then VSignatureMissing else
    if mo_pk_len m =? 0 then VPublicKeyMissing else
    if negb (mo_pk_len m =? 32) then VInternal else
    if negb (cx_sig_ok cx) then VSignatureInvalid else
    (* t.Before(genesis) compares the wrapped internal seconds *)
    if time_sec (mo_ts m) <? time_sec genesis then VInternal else
    match momentum_producer perm nc rc bt genesis delegs_at (cx_chain cx) (mo_ts m) with
    | PFound a => if a =? mo_producer m then VOk else VProducerInvalid
    | PElectionPanic => VPanic
    | PElectionFuel => VNoTermination
    | _ => VInternal
    end.

  (* Supervisor.ApplyMomentum *)
  Definition apply_momentum (cx : vctx) (m : mom) : verr :=
    match raw_verify cx m with
    | VOk => match cx_exec cx with
             | XPanic => VPanic
             | XErr => VExecError
             | XOk ch => tx_verify cx m ch
             end
    | e => e
    end.

  (* AddMomentumTransaction -> ldbManager.Add: written only if the parent is the current frontier *)
  Definition extends_frontier (cx : vctx) (m : mom) : bool :=
    match frontier_of (cx_chain cx) with
    | Some f => (mo_prev m =? m_hash f) && (u64 (mo_height m - 1) =? m_height f)
    | None => false
    end.
  Definition accepted (cx : vctx) (m : mom) : bool :=
    match apply_momentum cx m with VOk => extends_frontier cx m | _ => false end.
End Accept.
