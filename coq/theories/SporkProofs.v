(* C17 — proofs about the spork model (Spork.v) over the regenerated method tables (gen/Consts.v). *)
From ZV Require Import Prelude GoSem Spork.
From ZV.gen Require Import Consts.
Open Scope Z_scope.
Ltac Zify.zify_post_hook ::= Z.div_mod_to_equations.

(* ------------------------------------------------------------------ is_active *)

Lemma is_active_iff st id :
  is_active st id = true <->
  ms_height st <> 1 /\ exists s, In s (ms_sporks st) /\ sp_id s = id /\ sp_activated s = true /\ sp_enf s <= ms_height st.
Proof.
  unfold is_active. destruct (ms_height st =? 1) eqn:E1.
  - split; [discriminate|]. intros [H _]. lia.
  - rewrite existsb_exists. split.
    + intros [s [Hin Hs]]. split; [lia|]. exists s. destruct (sp_activated s); cbn in Hs; [|discriminate].
      repeat split; try assumption; lia.
    + intros [_ [s [Hin [Hid [Ha He]]]]]. exists s. split; [exact Hin|]. rewrite Ha. cbn. lia.
Qed.

(* l' keeps every activated entry of l: what Create and Activate guarantee *)
Definition keeps_activated (l l' : list spork) : Prop :=
  forall s, In s l -> sp_activated s = true -> In s l'.

(* once enforced, enforced at every later momentum of the chain: switches on by height, never off *)
Lemma is_active_monotone h h' l l' id :
  2 <= h <= h' -> keeps_activated l l' ->
  is_active (mkMstore h l) id = true -> is_active (mkMstore h' l') id = true.
Proof.
  intros Hh Hk. rewrite !is_active_iff. cbn [ms_height ms_sporks].
  intros [_ [s [Hin [Hid [Ha He]]]]]. split; [lia|]. exists s. repeat split; try assumption; [apply Hk; assumption | lia].
Qed.

(* ------------------------------------------------------------------ spork contract storage (keyed by id) *)

Definition sp_wf (l : list spork) : Prop := NoDup (map sp_id l).

Lemma sp_find_some id l x : sp_find id l = Some x -> In x l /\ sp_id x = id.
Proof.
  induction l as [|s l IH]; [discriminate|]. cbn [sp_find]. destruct (sp_id s =? id) eqn:E.
  - intros H. inversion H. subst. split; [left; reflexivity|lia].
  - intros H. destruct (IH H). split; [right; assumption|assumption].
Qed.
Lemma sp_find_none id l : sp_find id l = None -> forall s, In s l -> sp_id s <> id.
Proof.
  induction l as [|s l IH]; [intros _ x []|]. cbn [sp_find]. destruct (sp_id s =? id) eqn:E; [discriminate|].
  intros H x [<-|Hin]; [lia|apply IH; assumption].
Qed.

Lemma sp_put_in s l x : sp_wf l -> (In x (sp_put s l) <-> x = s \/ (In x l /\ sp_id x <> sp_id s)).
Proof.
  unfold sp_wf. induction l as [|y l IH]; cbn [sp_put map]; intros Hnd.
  - cbn. intuition.
  - inversion Hnd as [|? ? Hnin Hnd']. subst. destruct (sp_id y =? sp_id s) eqn:E.
    + assert (Hy : sp_id y = sp_id s) by lia. cbn [In]. split.
      * intros [<-|Hin]; [left; reflexivity|]. right. split; [right; assumption|].
        intros Heq. apply Hnin. rewrite Hy, <- Heq. apply in_map. exact Hin.
      * intros [->|[[<-|Hin] Hne]]; [left; reflexivity|lia|right; assumption].
    + cbn [In]. rewrite (IH Hnd'). split.
      * intros [<-|[->|[Hin Hne]]]; [right; split; [left; reflexivity|lia]|left; reflexivity|right; split; [right; assumption|assumption]].
      * intros [->|[[<-|Hin] Hne]]; [right; left; reflexivity|left; reflexivity|right; right; split; assumption].
Qed.

Lemma sp_put_ids s l : sp_wf l -> sp_wf (sp_put s l).
Proof.
  unfold sp_wf. induction l as [|y l IH]; cbn [sp_put map]; intros Hnd.
  - repeat constructor. intros [].
  - inversion Hnd as [|? ? Hnin Hnd']. subst. destruct (sp_id y =? sp_id s) eqn:E.
    + cbn [map]. assert (Hy : sp_id y = sp_id s) by lia. rewrite <- Hy. exact Hnd.
    + cbn [map]. constructor; [|apply IH; exact Hnd'].
      intros Hin. apply in_map_iff in Hin. destruct Hin as [x [Hx Hin]].
      apply (sp_put_in s l x Hnd') in Hin. destruct Hin as [->|[Hin _]]; [lia|].
      apply Hnin. rewrite <- Hx. apply in_map. exact Hin.
Qed.

Lemma sp_find_put s l : sp_find (sp_id s) (sp_put s l) = Some s.
Proof.
  induction l as [|y l IH]; cbn [sp_put sp_find].
  - rewrite Z.eqb_refl. reflexivity.
  - destruct (sp_id y =? sp_id s) eqn:E; cbn [sp_find]; [rewrite Z.eqb_refl; reflexivity|]. rewrite E. exact IH.
Qed.

Lemma delay_ok : 0 <= SporkMinHeightDelay < two32.
Proof. split; [apply Z.leb_le | apply Z.ltb_lt]; vm_compute; reflexivity. Qed.

Lemma sp_unique l x y : sp_wf l -> In x l -> In y l -> sp_id x = sp_id y -> x = y.
Proof.
  unfold sp_wf. induction l as [|z l IH]; [intros _ []|]. cbn [map]. intros Hnd Hx Hy Heq.
  inversion Hnd as [|? ? Hnin Hnd']. subst.
  destruct Hx as [<-|Hx]; destruct Hy as [<-|Hy]; try reflexivity.
  - exfalso. apply Hnin. rewrite Heq. apply in_map. exact Hy.
  - exfalso. apply Hnin. rewrite <- Heq. apply in_map. exact Hx.
  - apply IH; assumption.
Qed.

Lemma activate_ok_inv s az uo h start end_ id l l' :
  activate_receive s az uo h start end_ id l = inr l' ->
  s <> OtherKey /\ (s = CommunityKey -> community_ok h start end_ = true) /\
  exists x, sp_find id l = Some x /\ sp_activated x = false /\
  l' = sp_put (mkSpork id true (u64 (h + SporkMinHeightDelay))) l.
Proof.
  unfold activate_receive, activate_validate.
  destruct s; try discriminate; destruct (negb uo); try discriminate; destruct (negb az); try discriminate.
  - destruct (sp_find id l) as [x|]; [|discriminate]. destruct (sp_activated x) eqn:Ea; [discriminate|].
    intros H. inversion H. split; [discriminate|]. split; [discriminate|]. exists x. repeat split; assumption.
  - destruct (community_ok h start end_) eqn:Ec; cbn [negb]; [|discriminate].
    destruct (sp_find id l) as [x|]; [|discriminate]. destruct (sp_activated x) eqn:Ea; [discriminate|].
    intros H. inversion H. split; [discriminate|]. split; [reflexivity|]. exists x. repeat split; assumption.
Qed.

(* Activate: designated key, takes effect exactly SporkMinHeightDelay momentums after the acknowledged one,
   single activation *)
Theorem activation_rules s az uo h start end_ id l l' :
  sp_wf l -> 0 <= h -> h + SporkMinHeightDelay < two64 ->
  activate_receive s az uo h start end_ id l = inr l' ->
  s <> OtherKey /\ (s = CommunityKey -> start <= h < end_) /\
  (exists x, In x l /\ sp_id x = id /\ sp_activated x = false) /\
  In (mkSpork id true (h + SporkMinHeightDelay)) l' /\
  (forall y, sp_id y <> id -> (In y l' <-> In y l)) /\
  sp_wf l' /\ keeps_activated l l' /\
  (forall h', h' < h + SporkMinHeightDelay -> is_active (mkMstore h' l') id = false) /\
  (forall h', 2 <= h' -> h + SporkMinHeightDelay <= h' -> is_active (mkMstore h' l') id = true) /\
  (forall s2 az2 uo2 h2 st2 en2, exists e, activate_receive s2 az2 uo2 h2 st2 en2 id l' = inl e).
Proof.
  intros Hwf Hh Hr H. destruct (activate_ok_inv _ _ _ _ _ _ _ _ _ H) as [Hs [Hc [x [Ef [Ea ->]]]]].
  assert (Hu : u64 (h + SporkMinHeightDelay) = h + SporkMinHeightDelay).
  { pose proof delay_ok. unfold u64. apply Z.mod_small. lia. }
  rewrite Hu. set (new := mkSpork id true (h + SporkMinHeightDelay)).
  destruct (sp_find_some _ _ _ Ef) as [Hxin Hxid].
  assert (Hin_new : forall y, In y (sp_put new l) <-> y = new \/ (In y l /\ sp_id y <> id))
    by (intros y; apply (sp_put_in new l y Hwf)).
  split; [exact Hs|]. split; [intros Hcs; specialize (Hc Hcs); unfold community_ok in Hc; lia|].
  split; [exists x; repeat split; assumption|].
  split; [apply Hin_new; left; reflexivity|].
  split.
  { intros y Hy. rewrite Hin_new. split.
    - intros [->|[Hy1 _]]; [cbn in Hy; lia|assumption].
    - intros Hy1. right. split; assumption. }
  split; [apply sp_put_ids; exact Hwf|].
  split.
  { intros y Hy Hya. apply Hin_new. right. split; [exact Hy|]. intros Heq.
    assert (y = x) by (apply (sp_unique l); [exact Hwf|exact Hy|exact Hxin|lia]). subst y. congruence. }
  split.
  { intros h' Hlt. destruct (is_active (mkMstore h' (sp_put new l)) id) eqn:E; [|reflexivity]. exfalso.
    apply is_active_iff in E. cbn [ms_height ms_sporks] in E. destruct E as [_ [y [Hy [Hyid [Hya Hye]]]]].
    apply Hin_new in Hy. destruct Hy as [->|[_ Hne]]; [cbn in Hye; lia|lia]. }
  split.
  { intros h' H2 Hge. apply is_active_iff. cbn [ms_height ms_sporks]. split; [lia|].
    exists new. split; [apply Hin_new; left; reflexivity|]. cbn. repeat split; lia. }
  intros s2 az2 uo2 h2 st2 en2. unfold activate_receive.
  destruct (activate_validate s2 az2 uo2); [eexists; reflexivity|].
  destruct (match s2 with CommunityKey => negb (community_ok h2 st2 en2) | _ => false end); [eexists; reflexivity|].
  assert (Hf : sp_find id (sp_put new l) = Some new) by (exact (sp_find_put new l)).
  rewrite Hf. cbn [sp_activated new]. eexists. reflexivity.
Qed.

(* Create: designated key; the new spork is not activated and nothing that was activated changes *)
Theorem creation_rules s az data h start end_ new_id l l' :
  sp_wf l -> ~ In new_id (map sp_id l) ->
  create_receive s az data h start end_ new_id l = inr l' ->
  s <> OtherKey /\ (s = CommunityKey -> start <= h < end_) /\
  sp_wf l' /\ keeps_activated l l' /\
  (forall y, In y l' <-> y = mkSpork new_id false 0 \/ In y l) /\
  (forall h', is_active (mkMstore h' l') new_id = false).
Proof.
  intros Hwf Hfresh. unfold create_receive.
  destruct (create_validate s az data) eqn:Ev; [discriminate|].
  assert (Hs : s <> OtherKey) by (destruct s; [discriminate|discriminate|cbn in Ev; discriminate]).
  set (new := mkSpork new_id false 0).
  assert (Hin_new : forall y, In y (sp_put new l) <-> y = new \/ In y l).
  { intros y. rewrite (sp_put_in new l y Hwf). split.
    - intros [->|[Hy _]]; [left; reflexivity|right; assumption].
    - intros [->|Hy]; [left; reflexivity|]. right. split; [exact Hy|]. intros Heq. apply Hfresh.
      cbn in Heq. rewrite <- Heq. apply in_map. exact Hy. }
  assert (Hrest : forall l0, l0 = sp_put new l ->
          sp_wf l0 /\ keeps_activated l l0 /\ (forall y, In y l0 <-> y = new \/ In y l) /\
          (forall h', is_active (mkMstore h' l0) new_id = false)).
  { intros l0 ->. split; [apply sp_put_ids; exact Hwf|]. split; [intros y Hy _; apply Hin_new; right; exact Hy|].
    split; [exact Hin_new|]. intros h'.
    destruct (is_active (mkMstore h' (sp_put new l)) new_id) eqn:E; [|reflexivity]. exfalso.
    apply is_active_iff in E. cbn [ms_height ms_sporks] in E. destruct E as [_ [y [Hy [Hyid [Hya _]]]]].
    apply Hin_new in Hy. destruct Hy as [->|Hy]; [cbn in Hya; discriminate|].
    apply Hfresh. rewrite <- Hyid. apply in_map. exact Hy. }
  destruct s; [| |contradiction].
  - intros H. inversion H. split; [exact Hs|]. split; [discriminate|]. apply Hrest. reflexivity.
  - destruct (community_ok h start end_) eqn:Ec; [|discriminate].
    intros H. inversion H. split; [exact Hs|]. split; [intros _; unfold community_ok in Ec; lia|]. apply Hrest. reflexivity.
Qed.

(* ------------------------------------------------------------------ method tables: facts re-checked by computation
   on the regenerated tables (a removed entry that breaks one of them breaks the build of this file) *)

Definition incl_b (a b : list Z) : bool := forallb (fun x => zmem x b) a.
Lemma incl_b_spec a b : incl_b a b = true -> forall x, zmem x a = true -> zmem x b = true.
Proof.
  unfold incl_b, zmem. intros H x Hx. rewrite forallb_forall in H. apply existsb_exists in Hx.
  destruct Hx as [y [Hy Hxy]]. assert (x = y) by lia. subst y. apply H. exact Hy.
Qed.

Lemma tables_nested :
  incl_b (table Origin) (table Accelerator) = true /\ incl_b (table Accelerator) (table Bridge) = true /\
  incl_b (table Bridge) (table Htlc) = true.
Proof. repeat split; vm_compute; reflexivity. Qed.
Lemma contracts_nested :
  incl_b (contracts Origin) (contracts Accelerator) = true /\ incl_b (contracts Accelerator) (contracts Bridge) = true /\
  incl_b (contracts Bridge) (contracts Htlc) = true.
Proof. repeat split; vm_compute; reflexivity. Qed.

Definition rank (r : regime) : Z := match r with Origin => 0 | Accelerator => 1 | Bridge => 2 | Htlc => 3 end.

Lemma table_mono r1 r2 x : rank r1 <= rank r2 -> zmem x (table r1) = true -> zmem x (table r2) = true.
Proof.
  destruct tables_nested as [A [B C]].
  destruct r1, r2; cbn [rank]; intros Hr Hx; try lia; try exact Hx;
  repeat first [ exact Hx | apply (incl_b_spec _ _ C) | apply (incl_b_spec _ _ B) | apply (incl_b_spec _ _ A) ].
Qed.
Lemma contracts_mono r1 r2 x : rank r1 <= rank r2 -> zmem x (contracts r1) = true -> zmem x (contracts r2) = true.
Proof.
  destruct contracts_nested as [A [B C]].
  destruct r1, r2; cbn [rank]; intros Hr Hx; try lia; try exact Hx;
  repeat first [ exact Hx | apply (incl_b_spec _ _ C) | apply (incl_b_spec _ _ B) | apply (incl_b_spec _ _ A) ].
Qed.

(* the table is a function of the three activity bits of the store the block is evaluated against *)
Lemma regime_function st1 st2 im :
  (forall k, is_active st1 (id_of im k) = is_active st2 (id_of im k)) -> regime_of st1 im = regime_of st2 im.
Proof.
  intros H. unfold regime_of.
  pose proof (H KHtlc) as A. pose proof (H KBridge) as B. pose proof (H KAccelerator) as C. cbn [id_of] in A, B, C.
  rewrite A, B, C. reflexivity.
Qed.

(* validation at send time and execution at receive time use the same function of the acknowledged store *)
Theorem send_receive_agree st1 st2 im embedded c sel :
  (forall k, is_active st1 (id_of im k) = is_active st2 (id_of im k)) ->
  get_embedded_method st1 im embedded c sel = get_embedded_method st2 im embedded c sel /\
  (send_reaches_method st1 im true c sel = true <-> receive_path_of st2 im c sel = Execute).
Proof.
  intros H. unfold get_embedded_method, send_reaches_method, receive_path_of, get_embedded_method.
  rewrite (regime_function st1 st2 im H). split; [reflexivity|]. cbn [negb].
  unfold lookup_in. destruct (zmem c (contracts (regime_of st2 im))); [destruct (zmem (enc c sel) (table (regime_of st2 im)))|];
  split; intros X; try reflexivity; discriminate X.
Qed.

(* more sporks enforced (a later momentum of the same chain) never lowers the regime ... *)
Lemma regime_mono st st' im :
  (forall k, is_active st (id_of im k) = true -> is_active st' (id_of im k) = true) ->
  rank (regime_of st im) <= rank (regime_of st' im).
Proof.
  intros H. unfold regime_of.
  pose proof (H KHtlc) as Hh. pose proof (H KBridge) as Hb. pose proof (H KAccelerator) as Ha. cbn [id_of] in *.
  destruct (is_active st (id_htlc im)); [rewrite (Hh eq_refl); cbn; lia|].
  destruct (is_active st (id_bridge im)).
  - rewrite (Hb eq_refl). destruct (is_active st' (id_htlc im)); cbn; lia.
  - destruct (is_active st (id_accelerator im)).
    + rewrite (Ha eq_refl). destruct (is_active st' (id_htlc im)); destruct (is_active st' (id_bridge im)); cbn; lia.
    + destruct (is_active st' (id_htlc im)); destruct (is_active st' (id_bridge im)); destruct (is_active st' (id_accelerator im)); cbn; lia.
Qed.

(* ... so a send that found its method is executed, not refunded, at every later momentum *)
Theorem accepted_send_is_executed st st' im c sel :
  (forall k, is_active st (id_of im k) = true -> is_active st' (id_of im k) = true) ->
  send_reaches_method st im true c sel = true -> receive_path_of st' im c sel = Execute.
Proof.
  intros H. pose proof (regime_mono st st' im H) as Hr.
  unfold send_reaches_method, receive_path_of, get_embedded_method, lookup_in. cbn [negb].
  destruct (zmem c (contracts (regime_of st im))) eqn:Ec; [|discriminate].
  destruct (zmem (enc c sel) (table (regime_of st im))) eqn:Et; [|discriminate]. intros _.
  rewrite (contracts_mono _ _ _ Hr Ec), (table_mono _ _ _ Hr Et). reflexivity.
Qed.

(* ------------------------------------------------------------------ is a feature gated by its own spork? *)

(* sporks enforced in the order in which the tables were built on each other *)
Definition nesting_order (st : mstore) (im : impl) : Prop :=
  (is_active st (id_htlc im) = true -> is_active st (id_bridge im) = true) /\
  (is_active st (id_bridge im) = true -> is_active st (id_accelerator im) = true).

Definition gated_by_own_spork (st : mstore) (im : impl) (c sel : Z) : Prop :=
  get_embedded_method st im true c sel = Found ->
  match guard_of c sel with
  | GatedBy k => is_active st (id_of im k) = true
  | Ungated => True
  | NeverCallable => False
  end.

(* a pair that the bridge-and-liquidity table has and the accelerator table has not *)
Definition bridge_witness : Z := hd 0 (filter (fun e => negb (zmem e (table Accelerator))) (table Bridge)).

(* REFUTED on the faithful model: with only the HTLC spork enforced, a method introduced by the
   bridge-and-liquidity spork is callable *)
Lemma gated_by_own_spork_refuted :
  exists st im c sel, ~ gated_by_own_spork st im c sel.
Proof.
  exists (mkMstore 10 [mkSpork 2 true 5]), (mkImpl 1 2 3), (bridge_witness / two32), (bridge_witness mod two32).
  unfold gated_by_own_spork. intros H.
  assert (F : get_embedded_method (mkMstore 10 [mkSpork 2 true 5]) (mkImpl 1 2 3) true (bridge_witness / two32) (bridge_witness mod two32) = Found)
    by (vm_compute; reflexivity).
  specialize (H F).
  assert (G : guard_of (bridge_witness / two32) (bridge_witness mod two32) = GatedBy KBridge) by (vm_compute; reflexivity).
  rewrite G in H. vm_compute in H. discriminate.
Qed.

Lemma gated_by_own_spork_partial st im c sel : nesting_order st im -> gated_by_own_spork st im c sel.
Proof.
  intros [Hhb Hba]. unfold gated_by_own_spork, get_embedded_method, lookup_in, regime_of, guard_of. cbn [negb].
  destruct (is_active st (id_htlc im)) eqn:Eh.
  - specialize (Hhb eq_refl). specialize (Hba Hhb).
    destruct (zmem c (contracts Htlc)); [|discriminate].
    destruct (zmem (enc c sel) (table Htlc)) eqn:E3; [|discriminate]. intros _.
    destruct (zmem (enc c sel) (table Origin)); [exact I|].
    destruct (zmem (enc c sel) (table Accelerator)); [exact Hba|].
    destruct (zmem (enc c sel) (table Bridge)); [exact Hhb|]. cbn [id_of]. exact Eh.
  - destruct (is_active st (id_bridge im)) eqn:Eb.
    + specialize (Hba eq_refl).
      destruct (zmem c (contracts Bridge)); [|discriminate].
      destruct (zmem (enc c sel) (table Bridge)) eqn:E2; [|discriminate]. intros _.
      destruct (zmem (enc c sel) (table Origin)); [exact I|].
      destruct (zmem (enc c sel) (table Accelerator)); [exact Hba|]. cbn [id_of]. exact Eb.
    + destruct (is_active st (id_accelerator im)) eqn:Ea.
      * destruct (zmem c (contracts Accelerator)); [|discriminate].
        destruct (zmem (enc c sel) (table Accelerator)) eqn:E1; [|discriminate]. intros _.
        destruct (zmem (enc c sel) (table Origin)); [exact I|]. cbn [id_of]. exact Ea.
      * destruct (zmem c (contracts Origin)); [|discriminate].
        destruct (zmem (enc c sel) (table Origin)) eqn:E0; [|discriminate]. intros _. exact I.
Qed.

(* every callable pair of a table belongs to a contract of that table *)
Lemma tables_contracts_ok :
  forallb (fun r => forallb (fun e => zmem (e / two32) (contracts r)) (table r)) [Origin; Accelerator; Bridge; Htlc] = true.
Proof. vm_compute. reflexivity. Qed.

Lemma pair_contract_present r c sel : 0 <= sel < two32 ->
  zmem (enc c sel) (table r) = true -> zmem c (contracts r) = true.
Proof.
  intros Hs Hm. pose proof tables_contracts_ok as H. rewrite forallb_forall in H.
  assert (Hr : In r [Origin; Accelerator; Bridge; Htlc]) by (destruct r; cbn; tauto).
  specialize (H r Hr). rewrite forallb_forall in H.
  unfold zmem in Hm. apply existsb_exists in Hm. destruct Hm as [e [He Heq]].
  assert (e = enc c sel) by lia. subst e. specialize (H _ He).
  replace (enc c sel / two32) with c in H; [exact H|].
  unfold enc, two32 in *. apply Z.div_unique with (r := sel); lia.
Qed.

(* the other direction: from the enforcement height of its spork on, the feature is available *)
Lemma available_when_active st im c sel k : 0 <= sel < two32 ->
  guard_of c sel = GatedBy k -> is_active st (id_of im k) = true -> get_embedded_method st im true c sel = Found.
Proof.
  unfold guard_of. intros Hsel Hg Ha.
  assert (Hm : zmem (enc c sel) (table (match k with KAccelerator => Accelerator | KBridge => Bridge | KHtlc => Htlc end)) = true).
  { destruct (zmem (enc c sel) (table Origin)); [discriminate|].
    destruct (zmem (enc c sel) (table Accelerator)) eqn:E1; [inversion Hg; subst; exact E1|].
    destruct (zmem (enc c sel) (table Bridge)) eqn:E2; [inversion Hg; subst; exact E2|].
    destruct (zmem (enc c sel) (table Htlc)) eqn:E3; [inversion Hg; subst; exact E3|discriminate]. }
  assert (Hr : rank (match k with KAccelerator => Accelerator | KBridge => Bridge | KHtlc => Htlc end) <= rank (regime_of st im)).
  { unfold regime_of. destruct k; cbn [id_of] in Ha.
    - destruct (is_active st (id_htlc im)); [cbn; lia|]. destruct (is_active st (id_bridge im)); [cbn; lia|]. rewrite Ha. cbn. lia.
    - destruct (is_active st (id_htlc im)); [cbn; lia|]. rewrite Ha. cbn. lia.
    - rewrite Ha. cbn. lia. }
  unfold get_embedded_method, lookup_in. cbn [negb].
  pose proof (table_mono _ _ _ Hr Hm) as Hm'. rewrite Hm'.
  rewrite (pair_contract_present _ c sel Hsel Hm'). reflexivity.
Qed.

(* an ungated (origin) method is available at every momentum *)
Lemma ungated_always_available st im c sel : 0 <= sel < two32 ->
  guard_of c sel = Ungated -> get_embedded_method st im true c sel = Found.
Proof.
  unfold guard_of. intros Hsel Hg.
  destruct (zmem (enc c sel) (table Origin)) eqn:E0.
  - assert (Hr : rank Origin <= rank (regime_of st im)) by (destruct (regime_of st im); cbn; lia).
    unfold get_embedded_method, lookup_in. cbn [negb].
    pose proof (table_mono _ _ _ Hr E0) as Hm'. rewrite Hm', (pair_contract_present _ c sel Hsel Hm'). reflexivity.
  - destruct (zmem (enc c sel) (table Accelerator)); [discriminate|].
    destruct (zmem (enc c sel) (table Bridge)); [discriminate|].
    destruct (zmem (enc c sel) (table Htlc)); discriminate.
Qed.

(* ------------------------------------------------------------------ halt on an unknown enforced spork *)

Lemma unimplemented_spec st implemented id :
  In id (unimplemented st implemented) <->
  exists s, In s (ms_sporks st) /\ sp_id s = id /\ sp_activated s = true /\ sp_enf s <= ms_height st /\ ~ In id implemented.
Proof.
  unfold unimplemented. rewrite in_map_iff. split.
  - intros [s [Hid Hin]]. apply filter_In in Hin. destruct Hin as [Hin Hc]. exists s.
    destruct (sp_activated s); cbn in Hc; [|discriminate].
    destruct (sp_enf s <=? ms_height st) eqn:E; cbn in Hc; [|discriminate].
    destruct (zmem (sp_id s) implemented) eqn:Ez; cbn in Hc; [discriminate|].
    repeat split; try assumption; try lia. intros Hi. subst id.
    assert (zmem (sp_id s) implemented = true); [|congruence].
    unfold zmem. apply existsb_exists. exists (sp_id s). split; [exact Hi|lia].
  - intros [s [Hin [Hid [Ha [He Hni]]]]]. exists s. split; [exact Hid|]. apply filter_In. split; [exact Hin|].
    rewrite Ha. cbn. destruct (sp_enf s <=? ms_height st) eqn:E; [|lia]. cbn.
    destruct (zmem (sp_id s) implemented) eqn:Ez; [|reflexivity]. exfalso. apply Hni.
    unfold zmem in Ez. apply existsb_exists in Ez. destruct Ez as [y [Hy Heq]]. assert (sp_id s = y) by lia. subst. exact Hy.
Qed.

(* at start-up and after every stored momentum: an enforced spork the binary does not know stops the node *)
Theorem halt_on_unknown st implemented :
  (check_sporks st implemented = Halted <->
   exists s, In s (ms_sporks st) /\ sp_activated s = true /\ sp_enf s <= ms_height st /\ ~ In (sp_id s) implemented) /\
  (forall id, is_active st id = true -> ~ In id implemented -> check_sporks st implemented = Halted).
Proof.
  assert (E : check_sporks st implemented = Halted <-> exists id, In id (unimplemented st implemented)).
  { unfold check_sporks. destruct (unimplemented st implemented) as [|x r].
    - split; [discriminate|]. intros [id []].
    - split; [intros _; exists x; left; reflexivity|reflexivity]. }
  split.
  - rewrite E. split.
    + intros [id Hid]. apply unimplemented_spec in Hid. destruct Hid as [s [A [B [C [D F]]]]]. exists s. subst id. repeat split; assumption.
    + intros [s [A [C [D F]]]]. exists (sp_id s). apply unimplemented_spec. exists s. repeat split; assumption.
  - intros id Ha Hni. apply E. exists id. apply unimplemented_spec.
    apply is_active_iff in Ha. destruct Ha as [_ [s [A [B [C D]]]]]. exists s. repeat split; assumption.
Qed.

(* a node never stores a further momentum on top of a store in which an unknown spork is enforced *)
Theorem node_stops implemented : forall stores done fin,
  run_node implemented stores = (done, fin) ->
  (exists rest, stores = done ++ rest) /\
  (forall pre st post, done = pre ++ st :: post -> post <> [] -> check_sporks st implemented = Running) /\
  (fin = Halted -> exists pre st, done = pre ++ [st] /\ check_sporks st implemented = Halted) /\
  (fin = Running -> done = stores /\ Forall (fun st => check_sporks st implemented = Running) stores).
Proof.
  induction stores as [|st r IH]; intros done fin H.
  - cbn in H. inversion H. subst. split; [exists []; reflexivity|]. split.
    + intros pre st post Hd. destruct pre; discriminate.
    + split; [discriminate|]. intros _. split; [reflexivity|constructor].
  - cbn [run_node] in H. destruct (check_sporks st implemented) eqn:Ec.
    + destruct (run_node implemented r) as [d f] eqn:Er. inversion H. subst done fin. clear H.
      destruct (IH d f eq_refl) as [[rest Hr] [Hmid [Hh Hrun]]].
      split; [exists rest; cbn; rewrite Hr at 1; reflexivity|]. split.
      * intros pre s post Hd Hp. destruct pre as [|p pre].
        -- cbn in Hd. inversion Hd. subst. exact Ec.
        -- cbn in Hd. inversion Hd. subst. eapply Hmid; [reflexivity|exact Hp].
      * split.
        -- intros Hf. destruct (Hh Hf) as [pre [s [Hd Hs]]]. exists (st :: pre), s. rewrite Hd. split; [reflexivity|exact Hs].
        -- intros Hf. destruct (Hrun Hf) as [Hd Hall]. subst d. split; [reflexivity|constructor; assumption].
    + inversion H. subst done fin. clear H. split; [exists r; reflexivity|]. split.
      * intros pre s post Hd Hp. destruct pre as [|p pre]; cbn in Hd; inversion Hd; subst.
        -- contradiction.
        -- destruct pre; discriminate.
      * split; [intros _; exists [], st; split; [reflexivity|exact Ec]|discriminate].
Qed.

(* ------------------------------------------------------------------ the named features of the binary *)

Definition guard_enc (e : Z) : guard := guard_of (e / two32) (e mod two32).
Definition available_enc (st : mstore) (im : impl) (e : Z) : bool :=
  match get_embedded_method st im true (e / two32) (e mod two32) with Found => true | _ => false end.

(* which spork introduces which well-known method: re-checked on the regenerated tables *)
Lemma feature_guards :
  guard_enc FeaturePlasmaFuse = Ungated /\ guard_enc FeatureSporkActivate = Ungated /\
  guard_enc FeaturePillarCollectReward = Ungated /\
  guard_enc FeatureAcceleratorCreateProject = GatedBy KAccelerator /\ guard_enc FeatureLiquidityFund = GatedBy KAccelerator /\
  guard_enc FeatureBridgeWrapToken = GatedBy KBridge /\ guard_enc FeatureBridgeRedeem = GatedBy KBridge /\
  guard_enc FeatureLiquidityStake = GatedBy KBridge /\
  guard_enc FeatureHtlcCreate = GatedBy KHtlc /\ guard_enc FeatureHtlcUnlock = GatedBy KHtlc.
Proof. repeat split; vm_compute; reflexivity. Qed.

(* with the sporks enforced in nesting order a gated method is available exactly where its own spork is enforced *)
Lemma gated_switches_with_its_spork st im e k :
  nesting_order st im -> guard_enc e = GatedBy k ->
  (available_enc st im e = true <-> is_active st (id_of im k) = true).
Proof.
  intros Hn Hg. unfold available_enc, guard_enc in *.
  assert (Hs : 0 <= e mod two32 < two32) by (apply Z.mod_pos_bound; unfold two32; lia).
  split.
  - intros Ha. pose proof (gated_by_own_spork_partial st im (e / two32) (e mod two32) Hn) as H.
    unfold gated_by_own_spork in H. rewrite Hg in H. apply H.
    destruct (get_embedded_method st im true (e / two32) (e mod two32)); [reflexivity|discriminate..].
  - intros Ha. rewrite (available_when_active st im _ _ k Hs Hg Ha). reflexivity.
Qed.

Lemma ungated_enc_available st im e : guard_enc e = Ungated -> available_enc st im e = true.
Proof.
  intros Hg. unfold available_enc, guard_enc in *.
  assert (Hs : 0 <= e mod two32 < two32) by (apply Z.mod_pos_bound; unfold two32; lia).
  rewrite (ungated_always_available st im _ _ Hs Hg). reflexivity.
Qed.

Theorem features_switch_on_at_enforcement st im : nesting_order st im ->
  (available_enc st im FeatureAcceleratorCreateProject = true <-> is_active st (id_accelerator im) = true) /\
  (available_enc st im FeatureLiquidityFund = true <-> is_active st (id_accelerator im) = true) /\
  (available_enc st im FeatureBridgeWrapToken = true <-> is_active st (id_bridge im) = true) /\
  (available_enc st im FeatureBridgeRedeem = true <-> is_active st (id_bridge im) = true) /\
  (available_enc st im FeatureLiquidityStake = true <-> is_active st (id_bridge im) = true) /\
  (available_enc st im FeatureHtlcCreate = true <-> is_active st (id_htlc im) = true) /\
  (available_enc st im FeatureHtlcUnlock = true <-> is_active st (id_htlc im) = true) /\
  available_enc st im FeaturePlasmaFuse = true /\ available_enc st im FeatureSporkActivate = true /\
  available_enc st im FeaturePillarCollectReward = true.
Proof.
  intros Hn. destruct feature_guards as [G1 [G2 [G3 [G4 [G5 [G6 [G7 [G8 [G9 G10]]]]]]]]].
  split; [exact (gated_switches_with_its_spork st im _ KAccelerator Hn G4)|].
  split; [exact (gated_switches_with_its_spork st im _ KAccelerator Hn G5)|].
  split; [exact (gated_switches_with_its_spork st im _ KBridge Hn G6)|].
  split; [exact (gated_switches_with_its_spork st im _ KBridge Hn G7)|].
  split; [exact (gated_switches_with_its_spork st im _ KBridge Hn G8)|].
  split; [exact (gated_switches_with_its_spork st im _ KHtlc Hn G9)|].
  split; [exact (gated_switches_with_its_spork st im _ KHtlc Hn G10)|].
  split; [exact (ungated_enc_available st im _ G1)|].
  split; [exact (ungated_enc_available st im _ G2)|exact (ungated_enc_available st im _ G3)].
Qed.

Require ZV.gen.Pure ZV.gen.PureSpork.
(* ---- the activity test of the model IS the code: momentumStore.IsSporkActive (chain/momentum/embedded.go) as
   translated by go2coq on every run (incl. its loop over the defined sporks, as a structural fixpoint). The frontier
   momentum and the list of defined sporks (GetAllDefinedSporks) are inputs of the translation; spork ids enter as
   numbers (the 32 bytes as one big-endian number). *)
Lemma is_active_is_source h l id :
  ZV.gen.PureSpork.IsSporkActive 0 h 0 id (map (fun s => (sp_activated s, sp_enf s, sp_id s)) l) =
  (is_active (mkMstore h l) id, 0).
Proof.
  unfold ZV.gen.PureSpork.IsSporkActive, is_active. cbn [ms_height ms_sporks]. cbv zeta.
  change (0 =? 0) with true. cbn [negb].
  destruct (h =? 1); [reflexivity|].
  induction l as [|s l IH]; [reflexivity|].
  cbn [map existsb].
  destruct (sp_activated s && (sp_enf s <=? h) && (sp_id s =? id)); [reflexivity|].
  cbn [orb]. exact IH.
Qed.

Lemma is_active_errors_propagate e1 h e2 id items :
  e1 <> 0 \/ (h <> 1 /\ e2 <> 0) -> exists e, e <> 0 /\ ZV.gen.PureSpork.IsSporkActive e1 h e2 id items = (false, e).
Proof.
  intros H. unfold ZV.gen.PureSpork.IsSporkActive. cbv zeta.
  destruct (e1 =? 0) eqn:E1; cbn [negb]; [|exists e1; split; [lia|reflexivity]].
  destruct H as [H|[Hh H]]; [lia|].
  destruct (h =? 1) eqn:Eh; [lia|].
  destruct (e2 =? 0) eqn:E2; cbn [negb]; [lia|exists e2; split; [lia|reflexivity]].
Qed.
