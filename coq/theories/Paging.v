(* C18 — executable model of the RPC paging / range arithmetic.
   Mirrors: rpc/api/utils.go GetRange (TRANSLATED: Pure.GetRange) and its callers `list[start:end]`;
            rpc/api/ledger.go Get{AccountBlocks,Momentums}By{Height,Page};
            chain/account/account_block.go MoreByHeight; chain/momentum/momentum.go GetMomentumsByHeight /
            getMomentumsByRange; rpc/api/embedded/shared.go getFrontierRewardByPage (epoch cursor).
   A chain of height h is abstracted to its heights 1..h (the harness checks that the block returned for a
   height is the stored one); a list of n elements to its positions 0..n-1. *)
From ZV Require Import Prelude GoSem.
From ZV.gen Require Import Consts Pure.
Open Scope Z_scope.

(* ---------- Go slicing l[s:e] with its run-time check *)
Definition slice {A} (l : list A) (s e : Z) : list A :=
  firstn (Z.to_nat (e - s)) (skipn (Z.to_nat s) l).
Definition slice_res {A} (l : list A) (s e : Z) : res (list A) :=
  guard ((0 <=? s) && (s <=? e) && (e <=? Z.of_nat (length l))) (Ok (slice l s e)).

(* start, end := GetRange(pageIndex, pageSize, uint32(len(list))); list[start:end] *)
Definition page_res {A} (l : list A) (index size : Z) : res (list A) :=
  let '(s, e) := GetRange index size (wrapU 32 (Z.of_nat (length l))) in slice_res l s e.
Definition page {A} (l : list A) (index size : Z) : list A :=
  match page_res l index size with Ok p => p | Panic => [] end.

Definition zseq (a : Z) (n : nat) : list Z := map (fun k => a + Z.of_nat k) (seq 0 n).

Inductive api_out := AErr | APanic | AList (l : list Z).
(* an API method with `if pageSize > limit { return ErrPageSizeParamTooBig }` (limit = 0: the method has no such line) *)
Definition paged_api (limit n index size : Z) : api_out :=
  if (0 <? limit) && (limit <? size) then AErr
  else match page_res (zseq 0 (Z.to_nat n)) index size with Ok p => AList p | Panic => APanic end.

(* hand copy of GetRange as it was before the fix (record of finding F13) *)
Definition GetRange_u32 (index count listLen : Z) : Z * Z :=
  let start := wrapU 32 (index * count) in
  if listLen <=? start then (listLen, listLen)
  else let end_ := wrapU 32 (start + count) in
       if listLen <=? end_ then (start, listLen) else (start, end_).

(* ---------- by height *)
Definition exists_at (h x : Z) : bool := (1 <=? x) && (x <=? h).

(* accountStore.MoreByHeight: for i := 0; i < int(count); i++ { if height+i < height {break}; ByHeight(height+i) };
   nil entries (no block at that height) are dropped by ledgerAccountBlocksToRpc *)
Fixpoint more_loop (h height i : Z) (n : nat) : list Z :=
  match n with
  | O => []
  | S n' => let x := u64 (height + i) in
            if x <? height then []
            else (if exists_at h x then [x] else []) ++ more_loop h height (i + 1) n'
  end.
Definition more_by_height (h height count : Z) : list Z :=
  more_loop h height 0 (Z.to_nat (to_int64 count)).
(* before the fix: no wrap test *)
Fixpoint more_loop_wrap (h height i : Z) (n : nat) : list Z :=
  match n with
  | O => []
  | S n' => let x := u64 (height + i) in
            (if exists_at h x then [x] else []) ++ more_loop_wrap h height (i + 1) n'
  end.

Definition rpc_out := (Z * list Z * Z)%type.  (* error class (0 = ok), heights, Count *)
Definition ErrHeightZero := 1.
Definition ErrCountTooBig := 2.
Definition ErrPageSizeTooBig := 3.

(* LedgerApi.GetAccountBlocksByHeight on an account whose frontier height is h (0 = no block) *)
Definition acc_by_height (h height count : Z) : rpc_out :=
  if height =? 0 then (ErrHeightZero, [], 0)
  else if RpcMaxCountSize <? count then (ErrCountTooBig, [], 0)
  else if h =? 0 then (0, [], 0)
  else (0, more_by_height h height count, h).

(* momentumStore.GetMomentumsByHeight: the range (translated), then getMomentumsByRange's allocation and loop (hand-modelled) *)
(* the range computation is TRANSLATED from chain/momentum/momentum.go (go2coq, opaque callee getMomentumsByRange):
   Pure.GetMomentumsByHeight_range returns the (from, to) passed to getMomentumsByRange *)
Definition mom_range (height : Z) (higher : bool) (count : Z) : Z * Z := GetMomentumsByHeight_range height higher count.
(* closed form used in the proofs (PagingProofs.mom_range_eq shows it equal to the translation) *)
Definition mom_range_hand (height : Z) (higher : bool) (count : Z) : Z * Z :=
  if higher then (height, u64 (height + count))
  else ((if u64 (height + 1) <=? count then 1 else u64 (u64 (height + 1) - count)), u64 (height + 1)).
(* make([]*Momentum, 0, to-from): the run time refuses capacities beyond the address space; 2^40 stands for that bound *)
Definition alloc_limit : Z := 2 ^ 40.
Definition mom_store_range (H height : Z) (higher : bool) (count : Z) : option (list Z) :=
  let '(from, to) := mom_range height higher count in
  if alloc_limit <=? u64 (to - from) then None
  else Some (map (fun i => if exists_at H i then i else 0) (zseq from (Z.to_nat (to - from)))).

Definition mom_by_height (H height count : Z) : rpc_out :=
  if height =? 0 then (ErrHeightZero, [], 0)
  else if RpcMaxCountSize <? count then (ErrCountTooBig, [], 0)
  else match mom_store_range H height true count with
       | Some l => (0, filter (fun x => negb (x =? 0)) l, H)
       | None => (9, [], 0)
       end.

(* ---------- by page: startHeight := int64(frontier) - int64(pageIndex+1)*int64(pageSize) + 1 ... *)
Definition page_window (h index size : Z) : option (Z * Z) :=
  let start := wrapS 64 (wrapS 64 (to_int64 h - wrapS 64 (wrapU 32 (index + 1) * size)) + 1) in
  let tooMuch := wrapS 64 (1 - start) in
  let '(start, count) := if 0 <? tooMuch then (1, wrapS 64 (size - tooMuch)) else (start, size) in
  if count <? 1 then None else Some (u64 start, u64 count).

Definition by_page (byh : Z -> Z -> Z -> rpc_out) (h index size : Z) : rpc_out :=
  match page_window h index size with
  | None => (0, [], h)
  | Some (s, c) => let '(e, l, cnt) := byh h s c in if e =? 0 then (0, rev l, cnt) else (e, [], 0)
  end.
Definition acc_by_page (h index size : Z) : rpc_out :=
  if RpcMaxPageSize <? size then (ErrPageSizeTooBig, [], 0)
  else if h =? 0 then (0, [], 0)
  else by_page acc_by_height h index size.
Definition mom_by_page (H index size : Z) : rpc_out :=
  if RpcMaxPageSize <? size then (ErrPageSizeTooBig, [], 0)
  else by_page mom_by_height H index size.

(* ---------- reward / pillar-history pagers: epoch := lastEpoch - int64(pageIndex)*int64(pageSize);
   for i < pageSize { if epoch < 0 {break}; emit epoch; epoch-- } *)
Fixpoint epoch_loop (epoch : Z) (n : nat) : list Z :=
  match n with O => [] | S n' => if epoch <? 0 then [] else epoch :: epoch_loop (wrapS 64 (epoch - 1)) n' end.
Definition epoch_page (last index size : Z) : list Z :=
  epoch_loop (wrapS 64 (last - wrapS 64 (index * size))) (Z.to_nat size).
(* before the fix: int64(pageIndex*pageSize) with the product in uint32 *)
Definition epoch_page_u32 (last index size : Z) : list Z :=
  epoch_loop (wrapS 64 (last - wrapU 32 (index * size))) (Z.to_nat size).
