(* C10: release rules (success => guard), never-twice corollaries, revoke windows = the translated Go functions. *)
From ZV Require Import Prelude GoSem Abi AbiProofs VmReceive VmReceiveProofs Emb EmbProofs Locks.
From ZV.gen Require Import Consts Pure.
Open Scope Z_scope.
Ltac Zify.zify_post_hook ::= Z.div_mod_to_equations.

(* ================================================================ tables: sums and unique keys *)
Lemma tget_none_tdel {V} (t : tab V) k : tget t k = None -> tdel t k = t.
Proof.
  induction t as [|[k0 v] r IH]; cbn [tget tdel]; [reflexivity|].
  destruct (bytes_eqb k0 k); [discriminate|]. intros H. rewrite IH by exact H. reflexivity.
Qed.
Lemma tnodup_tdel {V} (t : tab V) k : tnodup t -> tnodup (tdel t k).
Proof.
  induction t as [|[k0 v] r IH]; cbn [tnodup tdel]; [auto|]. intros (Hn & Hr).
  destruct (bytes_eqb k0 k); [auto|]. cbn [tnodup]. split; [|auto].
  rewrite tget_tdel. destruct (bytes_eqb k k0); [reflexivity | exact Hn].
Qed.
Lemma tnodup_tput {V} (t : tab V) k v : tnodup t -> tnodup (tput t k v).
Proof.
  intros H. unfold tput. cbn [tnodup]. split; [|apply tnodup_tdel; exact H].
  rewrite tget_tdel, bytes_eqb_refl. reflexivity.
Qed.
Definition told {V} (f : V -> Z) (t : tab V) (k : bytes) : Z := match tget t k with Some v => f v | None => 0 end.
Lemma tsum_tdel {V} (f : V -> Z) (t : tab V) k : tnodup t -> tsum f (tdel t k) = tsum f t - told f t k.
Proof.
  unfold told. induction t as [|[k0 v] r IH]; cbn [tnodup tsum tdel tget]; [lia|]. intros (Hn & Hr).
  destruct (bytes_eqb k0 k) eqn:E.
  - apply bytes_eqb_eq in E. subst k0. rewrite (tget_none_tdel r k Hn). lia.
  - cbn [tsum]. rewrite (IH Hr). lia.
Qed.
Lemma tsum_tput {V} (f : V -> Z) (t : tab V) k v : tnodup t -> tsum f (tput t k v) = tsum f t - told f t k + f v.
Proof. intros H. unfold tput. cbn [tsum]. rewrite (tsum_tdel f t k H). lia. Qed.
Lemma told_get {V} (f : V -> Z) (t : tab V) k v : tget t k = Some v -> told f t k = f v.
Proof. intros H. unfold told. rewrite H. reflexivity. Qed.
Lemma told_none {V} (f : V -> Z) (t : tab V) k : tget t k = None -> told f t k = 0.
Proof. intros H. unfold told. rewrite H. reflexivity. Qed.
Lemma told_nonneg {V} (f : V -> Z) (t : tab V) k : tall (fun v => 0 <= f v) t -> 0 <= told f t k.
Proof. intros H. unfold told. destruct (tget t k) eqn:E; [apply (H _ _ E) | lia]. Qed.
Lemma tsum_nonneg {V} (f : V -> Z) (t : tab V) : tnodup t -> tall (fun v => 0 <= f v) t -> 0 <= tsum f t.
Proof.
  induction t as [|[k v] r IH]; cbn [tsum tnodup]; [lia|]. intros (Hn & Hr) Ha.
  assert (0 <= f v) by (apply (Ha k); cbn [tget]; rewrite bytes_eqb_refl; reflexivity).
  assert (tall (fun v => 0 <= f v) r).
  { intros k' v' E. apply (Ha k'). cbn [tget]. destruct (bytes_eqb k k') eqn:Ek; [|exact E].
    apply bytes_eqb_eq in Ek. subst. congruence. }
  specialize (IH Hr H0). lia.
Qed.

Lemma u256_le x : 0 <= x -> u256 x <= x.
Proof. intros H. unfold u256, two256. apply Z.mod_le; [exact H|]. apply Z.pow_pos_nonneg; lia. Qed.
Lemma u256_small x : 0 <= x < two256 -> u256 x = x.
Proof. intros H. unfold u256. apply Z.mod_small. exact H. Qed.

(* ================================================================ revoke windows *)
(* the model's window function is the go2coq translation of the Go functions at the dumped constants *)
Lemma pillar_window_is_translated now reg :
  PillarGetRevokeStatus now reg = revoke_window Consts.PillarEpochLockTime Consts.PillarEpochRevokeTime reg now.
Proof. reflexivity. Qed.
Lemma sentinel_window_is_translated reg now :
  GetSentinelRevokeStatus reg now = revoke_window Consts.SentinelLockTimeWindow Consts.SentinelRevokeTimeWindow reg now.
Proof. reflexivity. Qed.

(* inside the revoke window <=> the time since registration, modulo lock+revoke, is at least lock *)
Lemma revoke_window_spec L R reg now b t :
  0 < L -> 0 < R -> L + R < two63 -> 0 <= now - reg < two63 ->
  revoke_window L R reg now = Ok (b, t) ->
  (b = true <-> L <= (now - reg) mod (L + R)) /\ (b = true -> 0 < t <= R) /\ (b = false -> 0 < t <= L).
Proof.
  intros HL HR HS Hd. unfold revoke_window, guard.
  rewrite (wrapS64_small (L + R)) by (unfold two63 in *; lia).
  rewrite (wrapS64_small (now - reg)) by (unfold two63 in *; lia).
  replace (L + R =? 0) with false by (symmetry; lia). cbn [negb].
  rewrite Z.rem_mod_nonneg by lia.
  assert (Hm : 0 <= (now - reg) mod (L + R) < L + R) by (apply Z.mod_pos_bound; lia).
  rewrite (wrapS64_small ((now - reg) mod (L + R))) by (unfold two63 in *; lia).
  destruct ((now - reg) mod (L + R) <? L) eqn:E; intros Ho; inversion Ho; subst; clear Ho.
  - rewrite wrapS64_small by (unfold two63 in *; lia). repeat split; try discriminate; try lia.
  - rewrite wrapS64_small by (unfold two63 in *; lia). repeat split; try discriminate; try lia.
Qed.

(* ================================================================ release rules: success => guard *)
Ltac inv_ok H := inversion H; subst; clear H.

(* CancelStake: only the owner's own entry (the key contains the sender), not before expiration, pays exactly
   the entry's amount to the owner and zeroes it *)
Theorem cancel_stake_guard e (a a' : cacct sstore) s ds :
  cancel_stake_receive e a s = MOk a' ds ->
  exists id ent, cancel_stake_validate s = VOk id /\ tget (a_store a) (s_from s ++ id) = Some ent /\
    k_exp ent <= e_now e /\
    ds = [{| d_to := s_from s; d_amount := k_amount ent; d_zts := ZtsZnn; d_data := [] |}] /\
    exists ent', tget (a_store a') (s_from s ++ id) = Some ent' /\ k_amount ent' = 0 /\ k_revoke ent' = e_now e /\
    a_bal a' = a_bal a.
Proof.
  unfold cancel_stake_receive. destruct (cancel_stake_validate s) as [id| |] eqn:Ev; try discriminate.
  destruct (tget (a_store a) (s_from s ++ id)) as [ent|] eqn:Eg; [|discriminate].
  destruct (e_now e <? k_exp ent) eqn:Et; [discriminate|]. intros H; inv_ok H.
  exists id, ent. repeat split; auto; try lia.
  eexists. cbn [a_store with_store]. rewrite tget_tput, bytes_eqb_refl. repeat split.
Qed.

(* CancelFuse: owner's own entry, height >= expiration, pays the entry's amount, entry deleted *)
Theorem cancel_fuse_guard e (a a' : cacct pstore) s ds :
  cancel_fuse_receive e a s = MOk a' ds ->
  exists id ent, cancel_fuse_validate s = VOk id /\ tget (p_fusions (a_store a)) (s_from s ++ id) = Some ent /\
    f_exp ent <= e_height e /\
    ds = [{| d_to := s_from s; d_amount := f_amount ent; d_zts := ZtsQsr; d_data := [] |}] /\
    tget (p_fusions (a_store a')) (s_from s ++ id) = None.
Proof.
  unfold cancel_fuse_receive. destruct (cancel_fuse_validate s) as [id| |] eqn:Ev; try discriminate.
  destruct (tget (p_fusions (a_store a)) (s_from s ++ id)) as [ent|] eqn:Eg; [|discriminate].
  destruct (e_height e <? f_exp ent) eqn:Et; [discriminate|]. intros H; inv_ok H.
  exists id, ent. repeat split; auto; try lia.
  cbn [a_store with_store p_fusions]. rewrite tget_tdel, bytes_eqb_refl. reflexivity.
Qed.

Section HtlcGuards.
  Variable H : Z -> bytes -> bytes.
  (* Unlock: the preimage hashes to the lock, before expiry, within the size bound, paid to the hash-locked
     address, by that address itself unless it allows proxy unlocks, entry deleted *)
  Theorem unlock_guard e (a a' : cacct hstore) s ds :
    unlock_receive H e a s = MOk a' ds ->
    exists id pre ent, unlock_validate s = VOk (id, pre) /\ tget (h_entries (a_store a)) id = Some ent /\
      H (h_type ent) pre = h_lock ent /\ e_now e < h_exp ent /\ len pre <= h_keymax ent /\
      (proxy_allowed (a_store a) (h_hashlocked ent) = true \/ s_from s = h_hashlocked ent) /\
      ds = [{| d_to := h_hashlocked ent; d_amount := h_amount ent; d_zts := h_zts ent; d_data := [] |}] /\
      tget (h_entries (a_store a')) id = None.
  Proof.
    unfold unlock_receive. destruct (unlock_validate s) as [[id pre]| |] eqn:Ev; try discriminate.
    destruct (tget (h_entries (a_store a)) id) as [ent|] eqn:Eg; [|discriminate].
    destruct (negb (proxy_allowed (a_store a) (h_hashlocked ent)) && negb (bytes_eqb (s_from s) (h_hashlocked ent))) eqn:Ep; [discriminate|].
    destruct (h_exp ent <=? e_now e) eqn:Et; [discriminate|].
    destruct (h_keymax ent <? len pre) eqn:Ek; [discriminate|].
    destruct (negb (bytes_eqb (H (h_type ent) pre) (h_lock ent))) eqn:Eh; [discriminate|].
    intros Hm; inv_ok Hm. exists id, pre, ent.
    apply negb_false_iff, bytes_eqb_eq in Eh.
    repeat split; auto; try lia.
    - apply andb_false_iff in Ep. destruct Ep as [Ep|Ep]; [left|right].
      + apply negb_false_iff in Ep. exact Ep.
      + apply negb_false_iff, bytes_eqb_eq in Ep. exact Ep.
    - cbn [a_store with_store h_entries]. rewrite tget_tdel, bytes_eqb_refl. reflexivity.
  Qed.

  (* Reclaim: only the time-locked address, not before expiry, paid to it, entry deleted *)
  Theorem reclaim_guard e (a a' : cacct hstore) s ds :
    reclaim_receive e a s = MOk a' ds ->
    exists id ent, reclaim_validate s = VOk id /\ tget (h_entries (a_store a)) id = Some ent /\
      s_from s = h_timelocked ent /\ h_exp ent <= e_now e /\
      ds = [{| d_to := h_timelocked ent; d_amount := h_amount ent; d_zts := h_zts ent; d_data := [] |}] /\
      tget (h_entries (a_store a')) id = None.
  Proof.
    unfold reclaim_receive. destruct (reclaim_validate s) as [id| |] eqn:Ev; try discriminate.
    destruct (tget (h_entries (a_store a)) id) as [ent|] eqn:Eg; [|discriminate].
    destruct (negb (bytes_eqb (h_timelocked ent) (s_from s))) eqn:Eo; [discriminate|].
    destruct (e_now e <? h_exp ent) eqn:Et; [discriminate|]. intros Hm; inv_ok Hm.
    apply negb_false_iff, bytes_eqb_eq in Eo.
    exists id, ent. repeat split; auto; try lia.
    cbn [a_store with_store h_entries]. rewrite tget_tdel, bytes_eqb_refl. reflexivity.
  Qed.

  (* an HTLC is paid out at most once: after Unlock or Reclaim the entry is gone, both fail on it *)
  Theorem htlc_never_twice e e' (a a' : cacct hstore) s ds id :
    (unlock_receive H e a s = MOk a' ds /\ (exists pre, unlock_validate s = VOk (id, pre))) \/
    (reclaim_receive e a s = MOk a' ds /\ reclaim_validate s = VOk id) ->
    forall s2, (forall pre2, unlock_validate s2 = VOk (id, pre2) -> unlock_receive H e' a' s2 = MErr E_nonexistent) /\
               (reclaim_validate s2 = VOk id -> reclaim_receive e' a' s2 = MErr E_nonexistent).
  Proof.
    intros Hfirst s2.
    assert (Hgone : tget (h_entries (a_store a')) id = None).
    { destruct Hfirst as [(Hu & pre & Ev)|(Hr & Ev)].
      - destruct (unlock_guard e a a' s ds Hu) as (id' & pre' & ent & Ev' & _ & _ & _ & _ & _ & _ & Hg).
        rewrite Ev in Ev'. inversion Ev'; subst. exact Hg.
      - destruct (reclaim_guard e a a' s ds Hr) as (id' & ent & Ev' & _ & _ & _ & _ & Hg).
        rewrite Ev in Ev'. inversion Ev'; subst. exact Hg. }
    split.
    - intros pre2 Ev2. unfold unlock_receive. rewrite Ev2, Hgone. reflexivity.
    - intros Ev2. unfold reclaim_receive. rewrite Ev2, Hgone. reflexivity.
  Qed.
End HtlcGuards.

(* a cancelled stake pays nothing the second time (the entry stays, with amount 0, until the epoch update) *)
Theorem stake_never_twice e e' (a a' a'' : cacct sstore) s s2 ds ds2 id :
  cancel_stake_receive e a s = MOk a' ds -> cancel_stake_validate s = VOk id ->
  s_from s2 = s_from s -> cancel_stake_validate s2 = VOk id ->
  cancel_stake_receive e' a' s2 = MOk a'' ds2 ->
  ds2 = [{| d_to := s_from s; d_amount := 0; d_zts := ZtsZnn; d_data := [] |}].
Proof.
  intros H1 Ev Hf Ev2 H2.
  destruct (cancel_stake_guard e a a' s ds H1) as (id1 & ent & Ev1 & _ & _ & _ & ent' & Hg' & Hz & _).
  rewrite Ev in Ev1. inversion Ev1; subst id1.
  destruct (cancel_stake_guard e' a' a'' s2 ds2 H2) as (id2 & ent2 & Ev2' & Hg2 & _ & Hds & _).
  rewrite Ev2 in Ev2'. inversion Ev2'; subst id2. rewrite Hf in *. rewrite Hg' in Hg2. inversion Hg2; subst ent2.
  rewrite Hds, Hz. reflexivity.
Qed.

(* a cancelled fusion cannot be cancelled again *)
Theorem fuse_never_twice e e' (a a' : cacct pstore) s s2 ds id :
  cancel_fuse_receive e a s = MOk a' ds -> cancel_fuse_validate s = VOk id ->
  s_from s2 = s_from s -> cancel_fuse_validate s2 = VOk id ->
  cancel_fuse_receive e' a' s2 = MErr E_nonexistent.
Proof.
  intros H1 Ev Hf Ev2.
  destruct (cancel_fuse_guard e a a' s ds H1) as (id1 & ent & Ev1 & _ & _ & _ & Hg).
  rewrite Ev in Ev1. inversion Ev1; subst id1.
  unfold cancel_fuse_receive. rewrite Ev2, Hf, Hg. reflexivity.
Qed.

(* sentinel Revoke: only the owner's own entry (key = sender), not revoked before, inside the revoke window,
   pays exactly the recorded ZNN and QSR to the owner and zeroes both *)
Theorem sentinel_revoke_guard e (a a' : cacct nstore) s ds :
  sentinel_revoke_receive e a s = MOk a' ds ->
  exists ent t, tget (n_ent (a_store a)) (s_from s) = Some ent /\ n_revoke ent = 0 /\
    revoke_window (c_SentinelLock e) (c_SentinelRevoke e) (n_reg ent) (l_now e) = Ok (true, t) /\
    ds = [{| d_to := s_from s; d_amount := n_znn ent; d_zts := ZtsZnn; d_data := [] |};
          {| d_to := s_from s; d_amount := n_qsr ent; d_zts := ZtsQsr; d_data := [] |}] /\
    exists ent', tget (n_ent (a_store a')) (s_from s) = Some ent' /\ n_znn ent' = 0 /\ n_qsr ent' = 0 /\ n_revoke ent' = l_now e.
Proof.
  unfold sentinel_revoke_receive. destruct (sentinel_revoke_validate s); try discriminate.
  destruct (tget (n_ent (a_store a)) (s_from s)) as [ent|] eqn:Eg; [|discriminate].
  destruct (negb (n_revoke ent =? 0)) eqn:Er; [discriminate|].
  destruct (revoke_window _ _ _ _) as [[[|] t]|] eqn:Ew; try discriminate. intros Hm; inv_ok Hm.
  exists ent, t. repeat split; auto; try lia.
  eexists. cbn [a_store with_store n_ent]. rewrite tget_tput, bytes_eqb_refl. repeat split.
Qed.
Theorem sentinel_never_twice e e' (a a' : cacct nstore) s s2 ds :
  sentinel_revoke_receive e a s = MOk a' ds -> s_from s2 = s_from s -> l_now e <> 0 ->
  forall a'' ds2, sentinel_revoke_receive e' a' s2 <> MOk a'' ds2.
Proof.
  intros H1 Hf Hnow a'' ds2 H2.
  destruct (sentinel_revoke_guard e a a' s ds H1) as (ent & t & _ & _ & _ & _ & ent' & Hg' & _ & _ & Hr).
  destruct (sentinel_revoke_guard e' a' a'' s2 ds2 H2) as (ent2 & t2 & Hg2 & Hr2 & _).
  rewrite Hf, Hg' in Hg2. inversion Hg2; subst. congruence.
Qed.

Section PillarGuards.
  Variable name_ok : bytes -> bool.
  (* pillar Revoke: active pillar, by its stake address, inside the revoke window, pays the pillar stake to the
     stake address, amount zeroed and revoke time set (so it is not active any more) *)
  Theorem pillar_revoke_guard e (a a' : cacct lstore) s ds :
    pillar_revoke_receive name_ok e a s = MOk a' ds ->
    exists name p t, pillar_revoke_validate name_ok s = VOk name /\ tget (l_pillars (a_store a)) name = Some p /\
      l_revoke p = 0 /\ l_owner p = s_from s /\
      revoke_window (c_PillarLock e) (c_PillarRevoke e) (l_reg p) (l_now e) = Ok (true, t) /\
      ds = [{| d_to := l_owner p; d_amount := c_PillarStake e; d_zts := ZtsZnn; d_data := [] |}] /\
      exists p', tget (l_pillars (a_store a')) name = Some p' /\ l_amount p' = 0 /\ l_revoke p' = l_now e.
  Proof.
    unfold pillar_revoke_receive. destruct (pillar_revoke_validate name_ok s) as [name| |] eqn:Ev; try discriminate.
    destruct (tget (l_pillars (a_store a)) name) as [p|] eqn:Eg; [|discriminate].
    destruct (negb (l_revoke p =? 0)) eqn:Er; [discriminate|].
    destruct (negb (bytes_eqb (l_owner p) (s_from s))) eqn:Eo; [discriminate|].
    destruct (revoke_window _ _ _ _) as [[[|] t]|] eqn:Ew; try discriminate. intros Hm; inv_ok Hm.
    apply negb_false_iff, bytes_eqb_eq in Eo.
    exists name, p, t. repeat split; auto; try lia.
    eexists. cbn [a_store with_store l_pillars set_pillars]. rewrite tget_tput, bytes_eqb_refl. repeat split.
  Qed.
  Theorem pillar_never_twice e e' (a a' : cacct lstore) s s2 ds name :
    pillar_revoke_receive name_ok e a s = MOk a' ds -> pillar_revoke_validate name_ok s = VOk name ->
    pillar_revoke_validate name_ok s2 = VOk name -> l_now e <> 0 ->
    pillar_revoke_receive name_ok e' a' s2 = MErr E_not_active.
  Proof.
    intros H1 Ev Ev2 Hnow.
    destruct (pillar_revoke_guard e a a' s ds H1) as (n1 & p & t & Ev1 & _ & _ & _ & _ & _ & p' & Hg' & _ & Hr).
    rewrite Ev in Ev1. inversion Ev1; subst n1.
    unfold pillar_revoke_receive. rewrite Ev2, Hg'.
    replace (l_revoke p' =? 0) with false by (symmetry; lia). reflexivity.
  Qed.
End PillarGuards.

(* WithdrawQsr: pays exactly the sender's own deposit to the sender and deletes it; a second withdrawal fails *)
Theorem withdraw_qsr_guard self (a a' : cacct cstore) s ds :
  withdraw_qsr_receive self a s = MOk a' ds ->
  exists v, tget (q_dep (a_store a)) (s_from s) = Some v /\ v <> 0 /\
    ds = [{| d_to := s_from s; d_amount := v; d_zts := ZtsQsr; d_data := [] |}] /\
    tget (q_dep (a_store a')) (s_from s) = None.
Proof.
  unfold withdraw_qsr_receive. destruct (withdraw_qsr_validate s); try discriminate.
  destruct (tget (q_dep (a_store a)) (s_from s)) as [v|] eqn:Eg; cbn; [|discriminate].
  destruct (v =? 0) eqn:Ez; [discriminate|]. intros Hm; inv_ok Hm.
  exists v. repeat split; auto; try lia.
  cbn [a_store with_store q_dep]. rewrite tget_tdel, bytes_eqb_refl. reflexivity.
Qed.
Theorem withdraw_qsr_never_twice self (a a' : cacct cstore) s s2 ds x :
  withdraw_qsr_receive self a s = MOk a' ds -> s_from s2 = s_from s -> withdraw_qsr_validate s2 = VOk x ->
  withdraw_qsr_receive self a' s2 = MErr E_nothing_to_withdraw.
Proof.
  intros H1 Hf Ev2. destruct (withdraw_qsr_guard self a a' s ds H1) as (v & _ & _ & _ & Hg).
  unfold withdraw_qsr_receive. rewrite Ev2, Hf, Hg. reflexivity.
Qed.

(* the windows of the real code (translated functions, dumped constants) *)
Theorem pillar_window_spec now reg b t : 0 <= now - reg < two63 ->
  PillarGetRevokeStatus now reg = Ok (b, t) ->
  (b = true <-> Consts.PillarEpochLockTime <= (now - reg) mod (Consts.PillarEpochLockTime + Consts.PillarEpochRevokeTime)) /\
  (b = true -> 0 < t <= Consts.PillarEpochRevokeTime) /\ (b = false -> 0 < t <= Consts.PillarEpochLockTime).
Proof.
  intros Hd H. rewrite pillar_window_is_translated in H.
  apply (revoke_window_spec _ _ reg now b t); try assumption; vm_compute; reflexivity.
Qed.
Theorem sentinel_window_spec reg now b t : 0 <= now - reg < two63 ->
  GetSentinelRevokeStatus reg now = Ok (b, t) ->
  (b = true <-> Consts.SentinelLockTimeWindow <= (now - reg) mod (Consts.SentinelLockTimeWindow + Consts.SentinelRevokeTimeWindow)) /\
  (b = true -> 0 < t <= Consts.SentinelRevokeTimeWindow) /\ (b = false -> 0 < t <= Consts.SentinelLockTimeWindow).
Proof.
  intros Hd H. rewrite sentinel_window_is_translated in H.
  apply (revoke_window_spec _ _ reg now b t); try assumption; vm_compute; reflexivity.
Qed.

(* ================================================================ pillar / sentinel methods: validated => no panic *)
Section PillarNoPanic.
  Variable name_ok : bytes -> bool.
  Variable legacy_key : bytes -> bytes -> bytes -> option bytes.
  Theorem register_no_panic e a s x : register_validate name_ok e s = VOk x -> register_receive name_ok e a s <> MPanic.
  Proof.
    intros H. unfold register_receive. rewrite H. destruct (check_and_register _ _ _ _ _ _); [|discriminate].
    destruct (consume_qsr _ _ _); discriminate.
  Qed.
  Theorem legacy_no_panic e a s x : legacy_validate name_ok legacy_key e s = VOk x -> legacy_receive name_ok legacy_key e a s <> MPanic.
  Proof.
    intros H. unfold legacy_receive. rewrite H. destruct x as [p k]. destruct (tget _ _); [|discriminate].
    destruct (check_and_register _ _ _ _ _ _); [|discriminate]. destruct (consume_qsr _ _ _); discriminate.
  Qed.
  Theorem update_pillar_no_panic e a s x : update_pillar_validate name_ok e s = VOk x -> update_pillar_receive name_ok e a s <> MPanic.
  Proof.
    intros H. unfold update_pillar_receive. rewrite H. destruct (tget _ _); [|discriminate].
    repeat (match goal with |- context [if ?c then _ else _] => destruct c end; try discriminate).
  Qed.
  Theorem delegate_no_panic a s x : delegate_validate name_ok s = VOk x -> delegate_receive name_ok a s <> MPanic.
  Proof.
    intros H. unfold delegate_receive. rewrite H. destruct (tget _ _); [|discriminate]. destruct (negb _); discriminate.
  Qed.
  Theorem undelegate_no_panic a s x : undelegate_validate s = VOk x -> undelegate_receive a s <> MPanic.
  Proof. intros H. unfold undelegate_receive. rewrite H. destruct (tget _ _); discriminate. Qed.
  (* Revoke divides by lock+revoke: no panic as long as that is not zero *)
  Theorem pillar_revoke_no_panic e a s x : wrapS 64 (c_PillarLock e + c_PillarRevoke e) <> 0 ->
    pillar_revoke_validate name_ok s = VOk x -> pillar_revoke_receive name_ok e a s <> MPanic.
  Proof.
    intros Hw H. unfold pillar_revoke_receive. rewrite H. destruct (tget _ _) as [p|]; [|discriminate].
    destruct (negb _); [discriminate|]. destruct (negb _); [discriminate|].
    unfold revoke_window, guard. destruct (wrapS 64 (c_PillarLock e + c_PillarRevoke e) =? 0) eqn:E; [lia|]. cbn [negb]. cbv zeta.
    destruct (_ <? c_PillarLock e); discriminate.
  Qed.
End PillarNoPanic.
Theorem sentinel_register_no_panic e a s x : sentinel_register_validate e s = VOk x -> sentinel_register_receive e a s <> MPanic.
Proof.
  intros H. unfold sentinel_register_receive. rewrite H. destruct (tget _ _); [discriminate|]. destruct (_ <? _); discriminate.
Qed.
Theorem sentinel_revoke_no_panic e a s x : wrapS 64 (c_SentinelLock e + c_SentinelRevoke e) <> 0 ->
  sentinel_revoke_validate s = VOk x -> sentinel_revoke_receive e a s <> MPanic.
Proof.
  intros Hw H. unfold sentinel_revoke_receive. rewrite H. destruct (tget _ _) as [p|]; [|discriminate].
  destruct (negb _); [discriminate|].
  unfold revoke_window, guard. destruct (wrapS 64 (c_SentinelLock e + c_SentinelRevoke e) =? 0) eqn:E; [lia|]. cbn [negb]. cbv zeta.
  destruct (_ <? c_SentinelLock e); discriminate.
Qed.
