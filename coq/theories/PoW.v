(* Model of pow/pow.go: getTargetByDifficulty, greaterDifficulty, CheckPoWNonce.
   SHA3 is not modelled: the 8-byte digest prefix enters as a list of bytes. *)
From ZV Require Import Prelude.
Open Scope Z_scope.

(* getTargetByDifficulty: 2^64 - (2^64 quo d) as big.Int, then Uint64(), little endian.
   d is the uint64 difficulty, converted to big.Int with SetUint64 (after fix F1). *)
Definition target_value (d : Z) : Z :=
  if d =? 0 then 0 else big_uint64 (two64 - Z.quot two64 d).

(* The pre-fix code used big.NewInt(int64(d)); kept to document finding F1. *)
Definition target_value_int64cast (d : Z) : Z :=
  if d =? 0 then 0 else big_uint64 (two64 - Z.quot two64 (to_int64 d)).

Definition target (d : Z) : list Z := le_bytes 8 (target_value d).

(* greaterDifficulty: compare from byte 7 down to 0; equal => true *)
Fixpoint greater_rev (x y : list Z) : bool :=   (* lists most significant first *)
  match x, y with
  | a :: x', b :: y' => if b <? a then true else if a <? b then false else greater_rev x' y'
  | _, _ => true
  end.
Definition greater (x y : list Z) : bool := greater_rev (rev (firstn 8 x)) (rev (firstn 8 y)).

(* CheckPoWNonce with the digest prefix [h8] (8 bytes) supplied *)
Definition check (d : Z) (h8 : list Z) : bool := greater h8 (target d).
