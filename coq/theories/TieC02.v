(* Executable entry points compared with the implementation by ./check C02. *)
From ZV Require Import Prelude GoSem Election Replay.
Open Scope Z_scope.

(* ---- Changes() of the in-memory overlay *)
Definition changes_run (ops : list wop) : list (bytes * option bytes) := changes ops.
Definition changes_eqb (a b : list (bytes * option bytes)) : bool :=
  list_eqb (pair_eqb bytes_eqb (option_eqb bytes_eqb)) a b.

(* ---- a receiving node under a schedule. chain: per momentum the (hash id, bytes-outside-the-hash id) of its account
        blocks; the producer's committed changes hash is computed by the model's own (honest) producer.
        events: (0, id, unc, _) gossip accepted into the pool; (1, lo, len, _) deliver momentums lo..lo+len-1; (2,..) restart.
        results: per delivery -1 = (0, nil), otherwise the reported index; final height = momentums held above genesis *)
Definition chain_t := list (list (Z * Z)).
Definition ev_t := (Z * Z * Z * Z)%type.
Fixpoint mk_chain (s : c_state) (ct : chain_t) : list mblock :=
  match ct with
  | [] => []
  | bs :: r => let blocks := map (fun p : Z * Z => mkAB (fst p) (snd p)) bs in
               mkMB blocks (c_patch_hash s blocks) :: mk_chain (c_exec s blocks) r
  end.
Definition to_event (ch : list mblock) (e : ev_t) : event :=
  let '(k, a, b, _) := e in
  if k =? 0 then Gossip (mkAB a b)
  else if k =? 1 then Deliver (Z.to_nat a) (firstn (Z.to_nat b) (skipn (Z.to_nat a) ch))
  else Restart.
Definition replay_in := (chain_t * list ev_t)%type.
Definition replay_out := (list Z * Z)%type.
Definition replay_run (i : replay_in) : replay_out :=
  let '(ct, evs) := i in
  let ch := mk_chain [] ct in
  let '(n, os) := run c_state c_exec c_patch_hash (mkN c_state [] 0%nat []) (map (to_event ch) evs) in
  (* only deliveries report a result *)
  let res := flat_map (fun eo : ev_t * option nat =>
                         let '((k, _, _, _), o) := eo in
                         if k =? 1 then [match o with None => -1 | Some i => Z.of_nat i end] else [])
                      (combine evs os) in
  (res, Z.of_nat (n_height c_state n)).
Definition replay_eqb (a b : replay_out) : bool := list_eqb Z.eqb (fst a) (fst b) && (snd a =? snd b).
