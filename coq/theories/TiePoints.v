(* Correspondence functions for the points model (C06 consensus statistics / C11 statistics as a function of the chain):
   the harness drives a real node through insertions, rollbacks and statistics queries and reports, per history, the
   operations, the elections the node derived for every (end block, tick) it met, and the answers. *)
From ZV Require Import Prelude GoSem Points.
Open Scope Z_scope.

Inductive top := TInsert (m : mom) | TRollback (k : Z) | TPeriod (t : Z) | TEpoch (e : Z) | TRestart.
Definition to_op (o : top) : op :=
  match o with
  | TInsert m => OInsert m
  | TRollback k => ORollback (Z.to_nat k)
  | TPeriod t => OPeriod t
  | TEpoch e => OEpoch e
  | TRestart => ORestart
  end.

(* elections observed on the node, keyed by (hash of the tick's end block, tick) *)
Fixpoint tab_get (tab : list (Z * Z * elect)) (h t : Z) : option elect :=
  match tab with
  | [] => None
  | (h0, t0, e) :: r => if (h0 =? h) && (t0 =? t) then Some e else tab_get r h t
  end.
Definition tab_election (tab : list (Z * Z * elect)) (pre : list mom) (t : Z) : option elect :=
  match last_opt pre with None => None | Some eb => tab_get tab (m_hash eb) t end.

Definition points_run (i : Z * Z * Z * list (Z * Z * elect) * mom * list top) : list pres :=
  let '(gts, dur, mult, tab, gen, ops) := i in
  snd (run gts dur mult (tab_election tab) (mkNS [gen] [] [] (-1) (-1)) (map to_op ops)).

Definition detail_eqb (a b : detail) : bool := (d_exp a =? d_exp b) && (d_fact a =? d_fact b) && (d_w a =? d_w b).
Definition point_eqb (a b : point) : bool :=
  (p_prev a =? p_prev b) && (p_end a =? p_end b) && (p_total a =? p_total b) &&
  list_eqb (pair_eqb Z.eqb detail_eqb) (p_pillars a) (p_pillars b).
Definition pres_eqb (a b : pres) : bool :=
  match a, b with
  | PNone, PNone | PErr, PErr | PPanic, PPanic => true
  | PSome x, PSome y => point_eqb x y
  | _, _ => false
  end.
Definition points_eqb : list pres -> list pres -> bool := list_eqb pres_eqb.
