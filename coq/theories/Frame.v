(* C15 — size / slicing arithmetic of the RLPx frame reader (p2p/rlpx.go rlpxFrameRW.ReadMsg, readInt24) and of the
   discovery packet decoder (p2p/discover/udp.go decodePacket). MAC, hash, signature recovery and RLP decoding are
   oracles (inputs of the model); what is modelled is every length computation, allocation size and slice bound,
   with Go's run-time checks as explicit Panic outcomes. *)
From ZV Require Import Prelude GoSem.
From ZV.gen Require Pure.
Open Scope Z_scope.

(* readInt24 is TRANSLATED from p2p/rlpx.go (go2coq, byte-slice leaves): Pure.readInt24 len_b b_2 b_1 b_0 with the
   run-time index checks as guards; here it is applied to a byte list *)
Definition readInt24 (b : list Z) : res Z :=
  Pure.readInt24 (Z.of_nat (length b)) (nth 2 b 0) (nth 1 b 0) (nth 0 b 0).

(* rsize: frame size rounded up to a 16 byte boundary (uint32 arithmetic) *)
Definition rsize (fsize : Z) : Z :=
  let padding := fsize mod 16 in
  if 0 <? padding then wrapU 32 (fsize + wrapU 32 (16 - padding)) else fsize.

Inductive frame_out :=
| FShort                      (* io.ReadFull error: stream ended *)
| FBadHeaderMAC | FBadFrameMAC
| FBadCode                    (* rlp.Decode of the message code failed *)
| FMsg (alloc fsize : Z)      (* a message was returned; alloc = bytes allocated for the frame buffer *)
| FPanic.

(* avail: bytes the peer sent; hmac_ok / fmac_ok: MAC comparisons; hdr: the decrypted 16 header bytes; code_ok: rlp code decodes *)
Definition read_msg (avail : Z) (hmac_ok : bool) (hdr : list Z) (fmac_ok code_ok : bool) : frame_out :=
  if avail <? 32 then FShort
  else if negb hmac_ok then FBadHeaderMAC
  else match readInt24 hdr with
       | Panic => FPanic
       | Ok fsize =>
           let rs := rsize fsize in
           if avail <? 32 + rs then FShort              (* make([]byte, rsize) happened: at most 2^24+15 bytes *)
           else if avail <? 32 + rs + 16 then FShort
           else if negb fmac_ok then FBadFrameMAC
           else if negb ((0 <=? fsize) && (fsize <=? rs)) then FPanic   (* framebuf[:fsize] *)
           else if negb code_ok then FBadCode
           else FMsg rs fsize
       end.

(* ---- discovery: decodePacket *)
Definition macSize : Z := 32.
Definition sigSize : Z := 65.
Definition headSize : Z := macSize + sigSize.

Inductive packet_out := PTooSmall | PBadHash | PBadSig | PUnknownType | PBadRlp | PReq (ptype : Z) | PPanic.

(* len: packet length; the three slicings buf[:macSize], buf[macSize:headSize], buf[headSize:] and sigdata[0], sigdata[1:] *)
Definition decode_packet (len : Z) (hash_ok sig_ok : bool) (ptype : Z) (rlp_ok : bool) : packet_out :=
  if len <? headSize + 1 then PTooSmall
  else if negb ((macSize <=? len) && (macSize <=? headSize) && (headSize <=? len)) then PPanic
  else if negb hash_ok then PBadHash
  else if negb sig_ok then PBadSig
  else if negb (0 <? len - headSize) then PPanic        (* sigdata[0] *)
  else if negb ((1 <=? ptype) && (ptype <=? 4)) then PUnknownType
  else if negb (1 <=? len - headSize) then PPanic       (* sigdata[1:] *)
  else if negb rlp_ok then PBadRlp
  else PReq ptype.
