(* C15 — size / slicing arithmetic of the RLPx frame reader (p2p/rlpx.go rlpxFrameRW.ReadMsg, readInt24) and of the
   discovery packet decoder (p2p/discover/udp.go decodePacket). MAC, hash, signature recovery and RLP decoding are
   oracles (inputs of the model); what is modelled is every length computation, allocation size and slice bound,
   with Go's run-time checks as explicit Panic outcomes. *)
From ZV Require Import Prelude GoSem.
Open Scope Z_scope.

(* readInt24(b) = uint32(b[2]) | uint32(b[1])<<8 | uint32(b[0])<<16, b[i] index-checked *)
Definition readInt24 (b : list Z) : res Z :=
  match b with
  | b0 :: b1 :: b2 :: _ => Ok (Z.lor (Z.lor b2 (wrapU 32 (Z.shiftl b1 8))) (wrapU 32 (Z.shiftl b0 16)))
  | _ => Panic
  end.

(* rsize: frame size rounded up to a 16 byte boundary (uint32 arithmetic) *)
Definition rsize (fsize : Z) : Z :=
  let padding := fsize mod 16 in
  if 0 <? padding then wrapU 32 (fsize + wrapU 32 (16 - padding)) else fsize.

Inductive frame_out :=
| FShort                      (* io.ReadFull error: stream ended *)
| FBadHeaderMAC | FBadFrameMAC
| FBadCode                    (* rlp.Decode of the message code failed *)
| FMsg (alloc fsize : Z)      (* a message was returned; alloc = bytes allocated for the frame buffer *)
| FPanic.

(* avail: bytes the peer sent; hmac_ok / fmac_ok: MAC comparisons; hdr: the decrypted 16 header bytes; code_ok: rlp code decodes *)
Definition read_msg (avail : Z) (hmac_ok : bool) (hdr : list Z) (fmac_ok code_ok : bool) : frame_out :=
  if avail <? 32 then FShort
  else if negb hmac_ok then FBadHeaderMAC
  else match readInt24 hdr with
       | Panic => FPanic
       | Ok fsize =>
           let rs := rsize fsize in
           if avail <? 32 + rs then FShort              (* make([]byte, rsize) happened: at most 2^24+15 bytes *)
           else if avail <? 32 + rs + 16 then FShort
           else if negb fmac_ok then FBadFrameMAC
           else if negb ((0 <=? fsize) && (fsize <=? rs)) then FPanic   (* framebuf[:fsize] *)
           else if negb code_ok then FBadCode
           else FMsg rs fsize
       end.

(* ---- discovery: decodePacket *)
Definition macSize : Z := 32.
Definition sigSize : Z := 65.
Definition headSize : Z := macSize + sigSize.

Inductive packet_out := PTooSmall | PBadHash | PBadSig | PUnknownType | PBadRlp | PReq (ptype : Z) | PPanic.

(* len: packet length; the three slicings buf[:macSize], buf[macSize:headSize], buf[headSize:] and sigdata[0], sigdata[1:] *)
Definition decode_packet (len : Z) (hash_ok sig_ok : bool) (ptype : Z) (rlp_ok : bool) : packet_out :=
  if len <? headSize + 1 then PTooSmall
  else if negb ((macSize <=? len) && (macSize <=? headSize) && (headSize <=? len)) then PPanic
  else if negb hash_ok then PBadHash
  else if negb sig_ok then PBadSig
  else if negb (0 <? len - headSize) then PPanic        (* sigdata[0] *)
  else if negb ((1 <=? ptype) && (ptype <=? 4)) then PUnknownType
  else if negb (1 <=? len - headSize) then PPanic       (* sigdata[1:] *)
  else if negb rlp_ok then PBadRlp
  else PReq ptype.
