From ZV Require Import Prelude.
From stdpp Require Import gmap.
From ZV Require Import Store.
Open Scope Z_scope.

Definition value_eqb : value -> value -> bool := list_eqb Z.eqb.
Definition pop_eqb (a b : pop) : bool :=
  match a, b with
  | PPut k v, PPut k' v' => value_eqb k k' && value_eqb v v'
  | PDel k, PDel k' => value_eqb k k'
  | _, _ => false
  end.
Definition ans_eqb (a b : ans) : bool :=
  match a, b with
  | ABool x, ABool y => Bool.eqb x y
  | AKind x, AKind y => x =? y
  | AOpt x, AOpt y => option_eqb value_eqb x y
  | AScan x, AScan y => list_eqb (pair_eqb value_eqb value_eqb) x y
  | APatch x, APatch y => list_eqb pop_eqb x y
  | AOptPatch x, AOptPatch y => option_eqb (list_eqb pop_eqb) x y
  | AUnit, AUnit => true
  | _, _ => false
  end.

Definition store_run_run (ops : list op) : list ans := run st_init ops.
Definition store_run_eqb : list ans -> list ans -> bool := list_eqb ans_eqb.

(* the specification is executable as well: the implementation is compared with it directly, too *)
From ZV Require Import StoreSpec.
Definition store_spec_run (ops : list op) : list ans := arun ast_init ops.

From ZV Require Import MemStore.
Definition mem_run_run (ops : list mop) : list ans := mrun mst_init ops.

(* supporting exploration of the concurrency clause: a view handed out for identifier X while a writer commits and
   rolls back shows the content as of X; in the model a view is a value, so the prediction is [true] *)
Definition concurrent_views_run (i : Z) : bool := true.
