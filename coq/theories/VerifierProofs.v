(* Soundness of the acceptance decision (C03): an accepted block satisfies every clause of the property. *)
From ZV Require Import Prelude Ledger Plasma Verifier.
From ZV.gen Require Import Consts.
Open Scope Z_scope.
Ltac Zify.zify_post_hook ::= Z.div_mod_to_equations.

Lemma first_err_zero l : first_err l = 0 -> Forall (fun x => x = 0) l.
Proof.
  induction l as [|c r IH]; cbn [first_err]; [constructor|].
  destruct (c =? 0) eqn:E; [|intros H; subst; rewrite Z.eqb_refl in E; discriminate].
  intros H. constructor; [apply Z.eqb_eq; exact E | auto].
Qed.

(* the property's clauses, spelled out on the block and on what the node knows *)
Record Valid (c : vctx) (b : vblk) : Prop := mkValid {
  (* its hash matches its content *)
  val_hash : v_hash b = v_computed b /\ v_hash b <> 0;
  (* a user block is signed by the key that owns the account; a contract block carries no key and is reproduced exactly *)
  val_key : if is_emb (v_addr b)
            then v_pk_len b = 0 /\ v_sig_len b = 0 /\ c_regen c = Some (v_hash b, v_changes b)
            else v_sig_ok b = true /\ v_pk_addr b = v_addr b /\ v_sig_len b <> 0 /\ v_pk_len b <> 0 /\ v_descs b = [];
  (* one of the acceptable types for this kind of account *)
  val_type : if is_emb (v_addr b) then v_type b = T_CONTRACT_RECEIVE
             else v_type b = T_USER_SEND \/ v_type b = T_USER_RECEIVE;
  (* it extends the account's chain by exactly one height from its stated predecessor *)
  val_chain : v_height b <> 0 /\ (v_height b = 1 <-> v_prev b = 0) /\ c_acct_store c = true /\
              (is_emb (v_addr b) = false -> v_height b <> 1 -> c_frontier c = Some (v_prev b, v_height b - 1));
  (* it acknowledges a momentum on the node's chain: a user block not older than the one its predecessor
     acknowledged, a contract receive exactly the one that confirmed the send *)
  val_ma : c_ma_known c = true /\ ~ (v_ma_hash b = 0 /\ v_ma_height b = 0) /\
           (is_emb (v_addr b) = false -> v_height b <> 1 ->
              exists pm, c_prev_ma_height c = Some pm /\ pm <= v_ma_height b) /\
           (is_emb (v_addr b) = true -> c_from_conf c = v_ma_height b /\
              forall d, In d (v_descs b) -> d_ma_hash d = v_ma_hash b /\ d_ma_height d = v_ma_height b);
  (* it spends no more than the account holds, with a non-negative amount below 2^255 *)
  val_amount : is_send_t (v_type b) = true ->
               exists v, v_amount b = Some v /\ 0 <= v < 2 ^ 255 /\
                         (v_zts b <> 0 -> v <= c_balance c) /\ (v_zts b = 0 -> v = 0) /\ v_from b = 0;
  (* a receive references a confirmed, not yet received send addressed to the receiving account
     (from the enforcement height on); a contract takes the next in line *)
  val_recv : is_send_t (v_type b) = false ->
             v_from b <> 0 /\
             exists to, c_from_to c = Some to /\
                        (c_enf_height c <= c_frontier_height c -> to = v_addr b) /\
                        c_received c = false /\
                        (is_emb (v_addr b) = true -> c_next c = Some (v_from b));
  (* every descendant of a contract receive matches its own hash (so, with the parent's hash equal to the hash of the
     regenerated block, the descendants are the regenerated ones) and is a well-formed send of this contract *)
  val_descs : forall d, In d (v_descs b) ->
              d_hash d = d_computed d /\ is_send_t (d_type d) = true /\ d_emb d = true /\
              exists v, d_amount d = Some v /\ 0 <= v < 2 ^ 255;
  (* plasma / PoW are paid (C12) *)
  val_pow : v_difficulty b <> 0 -> v_pow_ok b = true /\ is_emb (v_addr b) = false
}.

Ltac dif H :=
  match type of H with
  | (if ?x then _ else _) = 0 => let E := fresh "E" in destruct x eqn:E; try discriminate H
  | (match ?x with _ => _ end) = 0 => let E := fresh "E" in destruct x eqn:E; try discriminate H
  end.

Lemma ck_heights_ok h p : ck_heights h p = 0 -> h <> 0 /\ (h = 1 <-> p = 0).
Proof.
  unfold ck_heights. destruct (h =? 0) eqn:A; [discriminate|]. apply Z.eqb_neq in A.
  destruct (h =? 1) eqn:B; destruct (p =? 0) eqn:C; cbn [andb negb]; intros H; try discriminate H.
  - apply Z.eqb_eq in B, C. tauto.
  - apply Z.eqb_neq in B, C. tauto.
Qed.

Lemma existsb_false {A} (f : A -> bool) l : existsb f l = false -> forall x, In x l -> f x = false.
Proof.
  intros H x Hx. destruct (f x) eqn:E; [|reflexivity].
  assert (existsb f l = true) by (apply existsb_exists; exists x; auto). congruence.
Qed.
Lemma is_send_t_cases t : is_send_t t = true -> t = T_USER_SEND \/ t = T_CONTRACT_SEND.
Proof. unfold is_send_t. rewrite orb_true_iff, !Z.eqb_eq. tauto. Qed.

Theorem accept_sound c b : accept c b = true -> Valid c b.
Proof.
  unfold accept. rewrite Z.eqb_eq. unfold apply_block, apply_block_gen. intros H. apply first_err_zero in H.
  repeat match goal with H : Forall _ (_ :: _) |- _ => inversion H; clear H; subst end.
  match goal with H : verify_block c b = 0 |- _ => unfold verify_block in H; apply first_err_zero in H end.
  repeat match goal with H : Forall _ (_ :: _) |- _ => inversion H; clear H; subst end.
  repeat match goal with H : Forall _ [] |- _ => clear H end.
  (* name the facts *)
  match goal with H : (if v_type b =? T_CONTRACT_SEND then V_CantApplyContractSend else 0) = 0 |- _ => rename H into Hcs end.
  match goal with H : ck_plasma c b = 0 |- _ => rename H into Hpl end.
  match goal with H : ck_vm c b = 0 |- _ => rename H into Hvm end.
  match goal with H : ck_hash b = 0 |- _ => rename H into Hh end.
  match goal with H : ck_signature b = 0 |- _ => rename H into Hsig end.
  match goal with H : ck_producer b = 0 |- _ => rename H into Hpr end.
  match goal with H : ck_descendants true c b = 0 |- _ => rename H into Hd end.
  match goal with H : ck_version _ = 0 |- _ => clear H end.
  match goal with H : ck_chain _ _ = 0 |- _ => clear H end.
  match goal with H : ck_type _ _ = 0 |- _ => rename H into Hty end.
  match goal with H : ck_amounts _ _ _ _ _ = 0 |- _ => rename H into Ham end.
  match goal with H : ck_pow _ _ _ = 0 |- _ => rename H into Hpow end.
  match goal with H : ck_previous c b = 0 |- _ => rename H into Hprev end.
  match goal with H : ck_ma c b = 0 |- _ => rename H into Hma end.
  match goal with H : ck_from c b = 0 |- _ => rename H into Hfrom end.
  match goal with H : ck_sequencer c b = 0 |- _ => rename H into Hseq end.
  match goal with H : ck_context c b = 0 |- _ => rename H into Hctx end.
  (* type *)
  assert (NCS : v_type b <> T_CONTRACT_SEND).
  { dif Hcs. apply Z.eqb_neq; exact E. }
  assert (TY : if is_emb (v_addr b) then v_type b = T_CONTRACT_RECEIVE else v_type b = T_USER_SEND \/ v_type b = T_USER_RECEIVE).
  { unfold ck_type in Hty. dif Hty. dif Hty. dif Hty. destruct (is_emb (v_addr b)).
    - dif Hty. apply orb_true_iff in E2. rewrite !Z.eqb_eq in E2. destruct E2; [assumption | congruence].
    - dif Hty. apply orb_true_iff in E2. rewrite !Z.eqb_eq in E2. tauto. }
  (* context *)
  unfold ck_context in Hctx. cbv zeta in Hctx.
  destruct (ck_heights (v_height b) (v_prev b) =? 0) eqn:E; cbn [negb] in Hctx; [|rewrite Hctx in E; discriminate E].
  apply Z.eqb_eq in E.
  destruct (ck_heights_ok _ _ E) as [Hh0 Hh1].
  destruct ((v_ma_hash b =? 0) && (v_ma_height b =? 0)) eqn:E0; [discriminate Hctx|].
  destruct (c_ma_known c) eqn:E1; cbn [negb] in Hctx; [|discriminate Hctx].
  destruct (c_acct_store c) eqn:E2; cbn [negb] in Hctx.
  2:{ destruct (c_global_frontier c); [|discriminate Hctx].
      destruct (v_height b - 1 <? z); [destruct (c_prev_known_global c)|]; discriminate Hctx. }
  (* descendants of a user block *)
  assert (DU : is_emb (v_addr b) = false -> v_descs b = []).
  { intros EA. unfold ck_descendants, is_contract_receive in Hd. rewrite EA, andb_false_r in Hd. cbn [negb andb] in Hd.
    destruct (v_descs b); [reflexivity | discriminate Hd]. }
  constructor.
  - (* hash *) unfold ck_hash in Hh. dif Hh. dif Hh. apply Z.eqb_neq in E3. apply negb_false_iff in E4. apply Z.eqb_eq in E4. auto.
  - (* key *) unfold ck_signature in Hsig. unfold ck_producer in Hpr. destruct (is_emb (v_addr b)) eqn:EA.
    + dif Hsig. dif Hsig. apply negb_false_iff in E3, E4. apply Z.eqb_eq in E3, E4.
      split; [exact E3|]. split; [exact E4|].
      unfold ck_vm in Hvm. rewrite TY in Hvm. cbn in Hvm.
      destruct (c_regen c) as [[gh gc]|]; [|discriminate Hvm].
      dif Hvm. dif Hvm. apply negb_false_iff in E5, E6. apply Z.eqb_eq in E5, E6. subst. reflexivity.
    + dif Hsig. dif Hsig. dif Hsig. apply negb_false_iff in E5. dif Hpr. apply negb_false_iff in E6. apply Z.eqb_eq in E6.
      apply Z.eqb_neq in E3, E4. auto 6.
  - exact TY.
  - (* chain *) split; [exact Hh0|split; [exact Hh1|split; [exact E2|]]].
    intros EA N1. unfold ck_previous in Hprev. cbv zeta in Hprev. rewrite E in Hprev. cbn [negb Z.eqb] in Hprev.
      assert (v_height b =? 1 = false) as X by (apply Z.eqb_neq; exact N1). rewrite X, EA in Hprev.
      destruct (c_frontier c) as [[fh fhe]|]; [|discriminate Hprev].
      unfold eff_prev in Hprev. rewrite (DU EA) in Hprev. dif Hprev.
      apply andb_true_iff in E3. rewrite !Z.eqb_eq in E3. destruct E3; subst. reflexivity.
  - (* momentum acknowledged *) split; [exact E1|]. split.
    + intros [A B]. rewrite A, B in E0. discriminate E0.
    + split.
      * intros EA N1. unfold ck_ma, is_contract_receive in Hma. rewrite EA, !andb_false_r in Hma.
        unfold eff_prev in Hma. rewrite (DU EA) in Hma.
        destruct ((v_prev b =? 0) && (v_height b - 1 =? 0)) eqn:Z0.
        { apply andb_true_iff in Z0. rewrite !Z.eqb_eq in Z0. lia. }
        destruct (c_prev_ma_height c) as [pm|]; [|discriminate Hma]. dif Hma. exists pm. split; [reflexivity | lia].
      * intros EA. rewrite EA in TY. unfold ck_ma, is_contract_receive in Hma. rewrite EA, TY in Hma. cbn in Hma.
        dif Hma. dif Hma. apply negb_false_iff in E4. apply Z.eqb_eq in E4. split; [exact E4|].
        intros d Hd'. pose proof (existsb_false _ _ E3 d Hd') as X. cbn beta in X.
        apply negb_false_iff in X. apply andb_true_iff in X. rewrite !Z.eqb_eq in X. exact X.
  - (* amount *) intros S. unfold ck_amounts in Ham. rewrite S in Ham. unfold ck_vm in Hvm. rewrite S in Hvm.
    destruct (v_amount b) as [v|] eqn:AM; [|discriminate Ham].
    destruct (v <? 0) eqn:A1; [discriminate Ham|].
    destruct (negb (bit_len_le_255 v)) eqn:A2; [discriminate Ham|].
    destruct ((0 <? v) && (v_zts b =? 0)) eqn:A3; [discriminate Ham|].
    destruct (negb (v_from b =? 0)) eqn:A4; [discriminate Ham|].
    destruct (is_emb (v_to b) && negb (c_method_ok c)); [discriminate Hvm|].
    apply negb_false_iff in A2, A4. apply Z.eqb_eq in A4. unfold bit_len_le_255 in A2.
    exists v. split; [reflexivity|]. split; [lia|]. split; [|split; [|exact A4]].
    + intros NZ. assert (v_zts b =? 0 = false) as X by (apply Z.eqb_neq; exact NZ). rewrite X in Hvm.
      destruct (c_balance c <? v) eqn:A5; [discriminate Hvm|]. lia.
    + intros ZZ. rewrite ZZ in A3. cbn in A3. rewrite andb_true_r in A3. lia.
  - (* receive *) intros S. unfold ck_amounts in Ham. rewrite S in Ham.
    destruct (match v_amount b with Some v => negb (v =? 0) | None => false end); [discriminate Ham|].
    destruct (negb (v_zts b =? 0)); [discriminate Ham|].
    destruct (negb (v_to b =? 0)); [discriminate Ham|].
    destruct (v_from b =? 0) eqn:A4; [discriminate Ham|]. apply Z.eqb_neq in A4.
    split; [exact A4|].
    unfold ck_from in Hfrom. rewrite S in Hfrom. destruct (c_from_to c) as [to|]; [|discriminate Hfrom].
    destruct (negb (to =? v_addr b) && (c_enf_height c <=? c_frontier_height c)) eqn:A5; [discriminate Hfrom|].
    destruct (c_received c) eqn:A6; [discriminate Hfrom|].
    exists to. split; [reflexivity|]. split.
    + intros LE. apply andb_false_iff in A5. destruct A5 as [X|X]; [apply negb_false_iff in X; apply Z.eqb_eq in X; exact X | lia].
    + split; [reflexivity|]. intros EA. unfold ck_sequencer in Hseq. rewrite EA in Hseq.
      rewrite EA in TY. assert (is_recv_t (v_type b) = true) as R by (rewrite TY; reflexivity).
      rewrite R in Hseq. cbn [andb] in Hseq. destruct (c_next c) as [h|]; [|discriminate Hseq].
      destruct (h =? v_from b) eqn:A7; [|discriminate Hseq]. apply Z.eqb_eq in A7. subst; reflexivity.
  - (* descendants *) intros d Hin. unfold ck_descendants in Hd.
    destruct (negb (is_contract_receive b) && negb match v_descs b with [] => true | _ :: _ => false end); [discriminate Hd|].
    destruct (forallb (fun d0 => verify_desc true c b d0 =? 0) (v_descs b)) eqn:FA; [|discriminate Hd].
    rewrite forallb_forall in FA. specialize (FA d Hin). apply Z.eqb_eq in FA.
    unfold verify_desc in FA. apply first_err_zero in FA.
    repeat match goal with H : Forall _ (_ :: _) |- _ => inversion H; clear H; subst end.
    match goal with H : context [d_computed d =? d_hash d] |- _ => rename H into D1 end.
    match goal with H : ck_amounts (d_type d) _ _ _ _ = 0 |- _ => rename H into D2 end.
    match goal with H : context [is_send_t (d_type d) && d_emb d] |- _ => rename H into D3 end.
    cbn [andb] in D1. destruct (negb (d_computed d =? d_hash d)) eqn:X1; [discriminate D1|].
    apply negb_false_iff in X1. apply Z.eqb_eq in X1.
    destruct (is_send_t (d_type d) && d_emb d) eqn:X3; [|discriminate D3]. apply andb_true_iff in X3. destruct X3 as [X3 X4].
    split; [symmetry; exact X1|]. split; [exact X3|]. split; [exact X4|].
    unfold ck_amounts in D2. rewrite X3 in D2. destruct (d_amount d) as [v|]; [|discriminate D2].
    destruct (v <? 0) eqn:A1; [discriminate D2|]. destruct (negb (bit_len_le_255 v)) eqn:A2; [discriminate D2|].
    apply negb_false_iff in A2. unfold bit_len_le_255 in A2. exists v. split; [reflexivity | lia].
  - (* pow *) intros ND. unfold ck_pow in Hpow. assert (v_difficulty b =? 0 = false) as X by (apply Z.eqb_neq; exact ND).
    rewrite X in Hpow. cbn [negb] in Hpow. dif Hpow. dif Hpow. apply negb_false_iff in E4. auto.
Qed.

(* a corrupted copy of a block is either refused or is itself valid by the same rules *)
Corollary mutation_closed c' b' : accept c' b' = false \/ Valid c' b'.
Proof. destruct (accept c' b') eqn:A; [right; apply accept_sound; exact A | left; reflexivity]. Qed.

Lemma contract_send_rejected c b : v_type b = T_CONTRACT_SEND -> accept c b = false.
Proof. intros T. unfold accept, apply_block, apply_block_gen. cbn [first_err]. rewrite T. reflexivity. Qed.

Lemma genesis_type_rejected c b : v_type b = T_GENESIS -> accept c b = false.
Proof.
  intros T. destruct (accept c b) eqn:A; [|reflexivity]. apply accept_sound in A.
  pose proof (val_type _ _ A) as TY. rewrite T in TY. destruct (is_emb (v_addr b)); [discriminate | destruct TY; discriminate].
Qed.

Lemma contract_receive_reproduced c b :
  accept c b = true -> is_emb (v_addr b) = true ->
  v_type b = T_CONTRACT_RECEIVE /\ c_regen c = Some (v_hash b, v_changes b) /\ v_hash b = v_computed b /\
  v_pk_len b = 0 /\ v_sig_len b = 0 /\ c_next c = Some (v_from b) /\ c_from_conf c = v_ma_height b.
Proof.
  intros A E. apply accept_sound in A.
  pose proof (val_key _ _ A) as K. pose proof (val_type _ _ A) as T. rewrite E in K, T.
  destruct K as [K1 [K2 K3]]. destruct (val_hash _ _ A) as [H1 _].
  destruct (val_ma _ _ A) as [_ [_ [_ M]]]. destruct (M E) as [M1 _].
  assert (S : is_send_t (v_type b) = false) by (rewrite T; reflexivity).
  destruct (val_recv _ _ A S) as [_ [to [_ [_ [_ N]]]]].
  repeat split; auto.
Qed.

Lemma user_block_authorised c b :
  accept c b = true -> is_emb (v_addr b) = false ->
  v_sig_ok b = true /\ v_pk_addr b = v_addr b /\ v_hash b = v_computed b /\
  (v_type b = T_USER_SEND -> exists v, v_amount b = Some v /\ 0 <= v < 2 ^ 255 /\ (v_zts b <> 0 -> v <= c_balance c)).
Proof.
  intros A E. apply accept_sound in A.
  pose proof (val_key _ _ A) as K. rewrite E in K. destruct K as [K1 [K2 _]]. destruct (val_hash _ _ A) as [H1 _].
  repeat split; auto. intros T. assert (S : is_send_t (v_type b) = true) by (rewrite T; reflexivity).
  destruct (val_amount _ _ A S) as [v [A1 [A2 [A3 _]]]]. exists v. auto.
Qed.

(* record of the defect fixed by 3d79e01: without the descendant hash check a block whose descendant content differs
   from its hash was accepted *)
Definition forged_desc_ctx : vctx :=
  mkC 100 true true (Some 5) true (Some (2001, 5)) (Some 7) (Some 2) true 8 false (Some 3001) 9 0
      0 0 0 None true 0 (Some (4001, 4002)).
Definition forged_desc_blk : vblk :=
  mkV 1 100 T_CONTRACT_RECEIVE 4001 4001 2001 6 2500 8 2 0 (Some 0) 0 3001
      [mkD 5001 5999 1 100 T_CONTRACT_SEND true 6 2001 2500 8 (Some 7777) 1 102 0 0] 0 0 false 4002 0 0 false 0.
Lemma descendant_hash_refuted :
  apply_block_gen false forged_desc_ctx forged_desc_blk = 0 /\
  (exists d, In d (v_descs forged_desc_blk) /\ d_hash d <> d_computed d) /\
  apply_block forged_desc_ctx forged_desc_blk = V_DescendantVerify.
Proof.
  split; [vm_compute; reflexivity|]. split; [|vm_compute; reflexivity].
  eexists. split; [left; reflexivity|]. cbn. discriminate.
Qed.

(* ================================================================ "a receive references a ... SEND" *)
(* an accepted receive block has a zero ToAddress (amounts()) ... *)
Lemma accepted_receive_zero_to c b : accept c b = true -> is_send_t (v_type b) = false -> v_to b = 0.
Proof.
  unfold accept. rewrite Z.eqb_eq. unfold apply_block, apply_block_gen. intros H S. apply first_err_zero in H.
  repeat match goal with H : Forall _ (_ :: _) |- _ => inversion H; clear H; subst end.
  match goal with H : verify_block c b = 0 |- _ => unfold verify_block in H; apply first_err_zero in H end.
  repeat match goal with H : Forall _ (_ :: _) |- _ => inversion H; clear H; subst end.
  match goal with H : ck_amounts _ _ _ _ _ = 0 |- _ => rename H into Ham end.
  unfold ck_amounts in Ham. rewrite S in Ham.
  destruct (match v_amount b with Some v => negb (v =? 0) | None => false end); [discriminate Ham|].
  destruct (negb (v_zts b =? 0)); [discriminate Ham|].
  destruct (negb (v_to b =? 0)) eqn:T; [discriminate Ham|].
  apply negb_false_iff in T. apply Z.eqb_eq in T. exact T.
Qed.
(* ... so on a ledger made of accepted blocks (and genesis blocks) a block that is not a send has a zero ToAddress: *)
Definition ledger_wf (c : vctx) : Prop := c_from_is_send c = false -> forall to, c_from_to c = Some to -> to = 0.

(* from the enforcement height on the referenced block is a send block (nobody holds a key of the zero address) *)
Theorem receive_references_send_partial c b :
  accept c b = true -> is_send_t (v_type b) = false -> ledger_wf c ->
  c_enf_height c <= c_frontier_height c -> v_addr b <> 0 -> c_from_is_send c = true.
Proof.
  intros A S W ENF NZ. destruct (c_from_is_send c) eqn:I; [reflexivity|]. exfalso.
  destruct (val_recv _ _ (accept_sound _ _ A) S) as [_ [to [F [T _]]]].
  specialize (T ENF). pose proof (W I to F) as Z0. congruence.
Qed.

(* finding (legacy regime only): below the enforcement height fromHash() accepts a user receive whose FromBlockHash is
   the hash of a confirmed block that is NOT a send block (e.g. the account's own previous receive block): that block's
   ToAddress is zero, which is a "receiver mismatch" tolerated below the enforcement height, and the account has not
   "received" it yet *)
Definition legacy_nonsend_ctx : vctx :=
  mkC 100 true true (Some 5) true (Some (2001, 5)) (Some 7) (Some 0) false 8 false None 9 10109240
      1000000000000 0 0 (Some 21000) true 500 None.
Definition legacy_nonsend_blk : vblk :=
  mkV 1 100 T_USER_RECEIVE 4000 4000 2001 6 2500 9 101 0 (Some 0) 0 2001 [] 21000 0 false 0 32 64 true 101.
Lemma legacy_receive_of_non_send_refuted :
  accept legacy_nonsend_ctx legacy_nonsend_blk = true /\ v_type legacy_nonsend_blk = T_USER_RECEIVE /\
  ledger_wf legacy_nonsend_ctx /\ c_from_is_send legacy_nonsend_ctx = false /\
  c_frontier_height legacy_nonsend_ctx < c_enf_height legacy_nonsend_ctx.
Proof.
  split; [vm_compute; reflexivity|]. split; [reflexivity|]. split; [|split; [reflexivity | vm_compute; reflexivity]].
  intros _ to F. cbn in F. inversion F. reflexivity.
Qed.
