(* Proofs about RpcMsg.v: the server's decision never reaches the nil dereference, answers exactly the elements
   JSON-RPC wants answered (one reply each, in order, echoing the id), and writes at most one reply document per
   document. *)
From ZV Require Import Prelude RpcMsg.
Open Scope Z_scope.

(* the answer to an element that has to be answered *)
Definition answer (t : Transport) (e : Elem) : Reply :=
  let m := msg_of e in
  (id_tok m, if is_call m then call_kind t m else code_invalid_request).

Lemma fix_parse e : fix_nil (parse_elem e) = Some (msg_of e).
Proof. destruct e; reflexivity. Qed.

Lemma handle_call_msg_answer t m : is_notification m = false ->
  handle_call_msg t m = Some (id_tok m, if is_call m then call_kind t m else code_invalid_request).
Proof.
  intros Hn. unfold handle_call_msg. rewrite Hn.
  destruct (is_call m) eqn:Ec; [reflexivity|].
  destruct (has_valid_id m) eqn:Ev; [reflexivity|].
  unfold id_tok. unfold has_valid_id in Ev. destruct (m_id m); try discriminate; reflexivity.
Qed.

Lemma handle_elems_spec t es :
  handle_elems t (map fix_nil (map parse_elem es)) = Some (map (answer t) (filter needs_reply es)).
Proof.
  induction es as [|e es IH]; [reflexivity|].
  cbn [map]. rewrite fix_parse. cbn [handle_elems]. rewrite IH.
  cbn [filter]. unfold handle_immediate.
  assert (Hn : needs_reply e = negb (is_notification (msg_of e)) && negb (is_response (msg_of e))) by reflexivity.
  destruct (is_notification (msg_of e)) eqn:En.
  - cbn [negb andb] in Hn. rewrite Hn. unfold handle_call_msg. rewrite En.
    destruct (m_method (msg_of e)) as [|[] d]; reflexivity.
  - cbn [negb andb] in Hn. rewrite Hn. destruct (is_response (msg_of e)) eqn:Er; cbn [negb].
    + reflexivity.
    + rewrite handle_call_msg_answer by exact En. cbn [map]. reflexivity.
Qed.

(* what a value (single message or batch) is answered with *)
Definition value_replies (t : Transport) (batch : bool) (es : list Elem) : list ReplyDoc :=
  if batch && match es with [] => true | _ => false end then [(false, [(0, code_invalid_request)])]
  else match map (answer t) (filter needs_reply es) with [] => [] | rs => [(batch, rs)] end.

Lemma handle_value_spec t batch es : handle_value true t batch es = Replies (value_replies t batch es).
Proof.
  unfold handle_value, value_replies.
  destruct (batch && match es with [] => true | _ => false end); [reflexivity|].
  rewrite handle_elems_spec. destruct (map (answer t) (filter needs_reply es)); reflexivity.
Qed.

(* ---- never RpcPanic *)
Lemma handle_doc_no_panic t d : fst (handle_doc true t d) <> RpcPanic.
Proof.
  destruct d; cbn [handle_doc fst]; try discriminate.
  - destruct t; discriminate.
  - rewrite handle_value_spec. discriminate.
  - rewrite handle_value_spec. discriminate.
Qed.

Theorem handle_session_no_panic t ds : handle_session t ds <> RpcPanic.
Proof.
  unfold handle_session. induction ds as [|d ds IH]; [discriminate|].
  cbn [handle_session_gen]. pose proof (handle_doc_no_panic t d) as Hd.
  destruct (handle_doc true t d) as [[|a] go]; cbn [fst] in Hd; [congruence|].
  destruct go; [|discriminate]. destruct t; [discriminate|].
  destruct (handle_session_gen true TStream ds); [congruence | discriminate].
Qed.

(* ---- the replies of a value: one per element that has to be answered, in order, with the element's id (null
   when it has none that can be echoed); calls get the call's answer, everything else "invalid request" *)
Theorem value_replies_exact t batch es :
  (batch = true /\ es = [] /\ value_replies t batch es = [(false, [(0, code_invalid_request)])]) \/
  ((batch = false \/ es <> []) /\
   ((filter needs_reply es = [] /\ value_replies t batch es = []) \/
    (filter needs_reply es <> [] /\
     value_replies t batch es = [(batch, map (answer t) (filter needs_reply es))]))).
Proof.
  unfold value_replies. destruct batch; cbn [andb].
  - destruct es as [|e es]; [left; auto|]. right. split; [right; discriminate|].
    destruct (filter needs_reply (e :: es)) eqn:Ef; [left; auto|right; split; [discriminate|reflexivity]].
  - right. split; [left; reflexivity|].
    destruct (filter needs_reply es) eqn:Ef; [left; auto|right; split; [discriminate|reflexivity]].
Qed.

Lemma answers_length t es : length (map (answer t) (filter needs_reply es)) = length (filter needs_reply es).
Proof. apply map_length. Qed.
Lemma answers_ids t es : map fst (map (answer t) (filter needs_reply es)) = map reply_id (filter needs_reply es).
Proof. rewrite map_map. reflexivity. Qed.

(* an answer is never a parse error, and it is "invalid request" exactly for the elements that are not calls *)
Lemma answer_kind t e :
  snd (answer t e) = (if is_call (msg_of e) then call_kind t (msg_of e) else code_invalid_request).
Proof. reflexivity. Qed.
Lemma call_kind_cases t m : is_call m = true ->
  call_kind t m = code_default \/ call_kind t m = code_method_not_found \/ call_kind t m = code_invalid_params \/
  call_kind t m = kind_ran \/ call_kind t m = kind_any.
Proof.
  unfold is_call, has_method, call_kind. destruct (m_method m) as [|s d]; [rewrite andb_false_r; discriminate|].
  intros _. destruct s, t, d; auto.
Qed.

(* ---- per document: at most one reply document; on http silence only for an empty body or a document made of
   notifications / responses *)
Definition doc_replies (t : Transport) (d : Doc) : list ReplyDoc :=
  match fst (handle_doc true t d) with RpcPanic => [] | Replies l => l end.

Theorem doc_replies_at_most_one t d : (length (doc_replies t d) <= 1)%nat.
Proof.
  unfold doc_replies. destruct d; cbn [handle_doc fst length]; try lia.
  - destruct t; cbn [length]; lia.
  - rewrite handle_value_spec. unfold value_replies. cbn [andb].
    destruct (map (answer t) (filter needs_reply [e])); cbn [length]; lia.
  - rewrite handle_value_spec. unfold value_replies.
    destruct (true && match es with [] => true | _ => false end); [cbn [length]; lia|].
    destruct (map (answer t) (filter needs_reply es)); cbn [length]; lia.
Qed.

Theorem http_silent_only_without_requests d :
  doc_replies THttp d = [] ->
  d = DocEmpty \/ (exists e, d = DocSingle e /\ needs_reply e = false) \/
  (exists es, d = DocBatch es /\ es <> [] /\ forall e, In e es -> needs_reply e = false).
Proof.
  unfold doc_replies. destruct d; cbn [handle_doc fst]; try discriminate; auto.
  - rewrite handle_value_spec. unfold value_replies. cbn [andb filter].
    destruct (needs_reply e) eqn:En; [discriminate|]. intros _. right. left. eauto.
  - rewrite handle_value_spec. unfold value_replies. cbn [andb].
    destruct es as [|e es]; [discriminate|].
    destruct (filter needs_reply (e :: es)) eqn:Ef; [|discriminate]. intros _. right. right.
    exists (e :: es). split; [reflexivity|]. split; [discriminate|].
    intros x Hx. destruct (needs_reply x) eqn:Ex; [|reflexivity].
    assert (In x (filter needs_reply (e :: es))) by (apply filter_In; auto). rewrite Ef in H. destruct H.
Qed.

(* a session: the reply documents are those of its documents up to the first that ends the connection *)
Fixpoint session_replies (t : Transport) (ds : list Doc) : list ReplyDoc :=
  match ds with
  | [] => []
  | d :: r => doc_replies t d ++
              (if snd (handle_doc true t d) then match t with THttp => [] | TStream => session_replies t r end else [])
  end.
Theorem handle_session_spec t ds : handle_session t ds = Replies (session_replies t ds).
Proof.
  unfold handle_session. induction ds as [|d ds IH]; [reflexivity|].
  cbn [handle_session_gen session_replies]. unfold doc_replies.
  pose proof (handle_doc_no_panic t d) as Hd.
  destruct (handle_doc true t d) as [[|a] go]; cbn [fst snd] in *; [congruence|].
  destruct go; [|rewrite app_nil_r; reflexivity].
  destruct t; [rewrite app_nil_r; reflexivity|]. rewrite IH. reflexivity.
Qed.
Theorem session_replies_bounded t ds : (length (session_replies t ds) <= length ds)%nat.
Proof.
  induction ds as [|d ds IH]; [cbn; lia|]. cbn [session_replies length]. rewrite app_length.
  pose proof (doc_replies_at_most_one t d).
  destruct (snd (handle_doc true t d)); [destruct t|]; cbn [length]; lia.
Qed.

(* ---- what the replacement of nil messages in readBatch is for: without it a JSON null in message position
   (alone or inside a batch, also next to valid calls) is dereferenced *)
Theorem nofix_null_panics :
  forall t pre post, handle_session_nofix t [DocBatch (pre ++ ENull :: post)] = RpcPanic.
Proof.
  intros t pre post. unfold handle_session_nofix. cbn [handle_session_gen handle_doc].
  assert (H : handle_value false t true (pre ++ ENull :: post) = RpcPanic).
  { unfold handle_value. replace (true && match pre ++ ENull :: post with [] => true | _ => false end) with false
      by (destruct pre; reflexivity).
    assert (He : handle_elems t (map parse_elem (pre ++ ENull :: post)) = None).
    { induction pre as [|p pre IH]; [reflexivity|]. cbn [app map handle_elems].
      destruct (parse_elem p); [rewrite IH|]; reflexivity. }
    rewrite He. reflexivity. }
  rewrite H. reflexivity.
Qed.
Theorem nofix_single_null_panics : forall t, handle_session_nofix t [DocSingle ENull] = RpcPanic.
Proof. intros t. destruct t; reflexivity. Qed.

(* ---- the statement of the clause for one value, in one piece *)
Lemma answer_not_parse t e : snd (answer t e) <> code_parse.
Proof.
  rewrite answer_kind. destruct (is_call (msg_of e)) eqn:Ec; [|discriminate].
  destruct (call_kind_cases t (msg_of e) Ec) as [H|[H|[H|[H|H]]]]; rewrite H; discriminate.
Qed.
Theorem value_answered t batch es :
  exists l, handle_value true t batch es = Replies l /\
  ((batch = true /\ es = [] /\ l = [(false, [(0, code_invalid_request)])]) \/
   ((batch = false \/ es <> []) /\
    ((filter needs_reply es = [] /\ l = []) \/
     (filter needs_reply es <> [] /\
      exists rs, l = [(batch, rs)] /\ length rs = length (filter needs_reply es) /\
                 map fst rs = map reply_id (filter needs_reply es) /\
                 Forall (fun r => snd r <> code_parse) rs)))).
Proof.
  exists (value_replies t batch es). split; [apply handle_value_spec|].
  destruct (value_replies_exact t batch es) as [H|[Hb [H|[Hne H]]]]; [left; exact H | right; split; [exact Hb|left; exact H]|].
  right. split; [exact Hb|]. right. split; [exact Hne|].
  exists (map (answer t) (filter needs_reply es)). repeat split; [exact H | apply answers_length | apply answers_ids |].
  apply Forall_forall. intros r Hr. apply in_map_iff in Hr. destruct Hr as (e & <- & _). apply answer_not_parse.
Qed.

(* ---- the size gate *)
Lemma http_gate_decoded_bounded limit need n f :
  http_gate limit need n f = GDecoded ->
  need <= limit /\ need <= n /\ (forall d, f = FDeclared d -> d <= limit /\ need <= d).
Proof.
  unfold http_gate, http_gate_gen. destruct f as [d|].
  - destruct (limit <? d) eqn:Ed; [discriminate|]. apply Z.ltb_ge in Ed.
    destruct (need <=? Z.min (Z.min d n) limit) eqn:En; [|discriminate]. apply Z.leb_le in En.
    intros _. split; [lia|]. split; [lia|]. intros d' Hd. inversion Hd; subst d'. lia.
  - destruct (need <=? Z.min n limit) eqn:En; [|discriminate]. apply Z.leb_le in En.
    intros _. split; [lia|]. split; [lia|]. intros d' Hd. discriminate.
Qed.

Lemma http_gate_oversized_never_decoded limit need n f : limit < need -> http_gate limit need n f <> GDecoded.
Proof. intros Hl Hg. apply http_gate_decoded_bounded in Hg. lia. Qed.

Lemma http_gate_declared_too_large_refused limit need n d : limit < d -> http_gate limit need n (FDeclared d) = GRefused.
Proof. intros Hd. unfold http_gate, http_gate_gen. apply Z.ltb_lt in Hd. rewrite Hd. reflexivity. Qed.

(* a body within the bound: the honest framings give the same decision, and a complete document is decoded *)
Lemma http_gate_framing_independent limit need n :
  n <= limit ->
  http_gate limit need n (FDeclared n) = http_gate limit need n FUndeclared /\
  (need <= n -> http_gate limit need n FUndeclared = GDecoded).
Proof.
  intros Hn. unfold http_gate, http_gate_gen.
  assert (E : limit <? n = false) by (apply Z.ltb_ge; lia). rewrite E.
  replace (Z.min (Z.min n n) limit) with (Z.min n limit) by lia.
  split; [reflexivity|]. intros Hneed.
  assert (E2 : need <=? Z.min n limit = true) by (apply Z.leb_le; lia). rewrite E2. reflexivity.
Qed.

(* without the reader in front of the decoder a document of any length is decoded when no length is declared *)
Lemma http_gate_unlimited_body_refuted :
  exists need n, http_body_limit < need /\ http_gate_unlimited_body http_body_limit need n FUndeclared = GDecoded.
Proof. exists (http_body_limit + 1), (http_body_limit + 1). split; [lia|]. vm_compute. reflexivity. Qed.

Lemma ws_gate_from_decoded_bounded limit need frames : forall cum,
  ws_gate_from limit need cum frames = GDecoded -> need <= limit.
Proof.
  induction frames as [|f r IH]; intros cum H; cbn [ws_gate_from] in H; [discriminate|].
  destruct (limit <? cum + f) eqn:El; [discriminate|]. apply Z.ltb_ge in El.
  destruct (need <=? cum + f) eqn:En.
  - apply Z.leb_le in En. lia.
  - eapply IH. exact H.
Qed.

Lemma ws_gate_decoded_bounded limit need frames : ws_gate limit need frames = GDecoded -> need <= limit.
Proof. unfold ws_gate. apply ws_gate_from_decoded_bounded. Qed.

Fixpoint zsum (l : list Z) : Z := match l with [] => 0 | x :: r => x + zsum r end.

Lemma zsum_nonneg l : (forall f, In f l -> 0 <= f) -> 0 <= zsum l.
Proof.
  induction l as [|x r IH]; intros H; cbn [zsum]; [lia|].
  assert (0 <= x) by (apply H; left; reflexivity).
  assert (0 <= zsum r) by (apply IH; intros f Hf; apply H; right; exact Hf). lia.
Qed.

Lemma ws_gate_from_within_limit limit need frames : forall cum,
  (forall f, In f frames -> 0 <= f) -> cum < need -> need <= cum + zsum frames -> cum + zsum frames <= limit ->
  ws_gate_from limit need cum frames = GDecoded.
Proof.
  induction frames as [|f r IH]; intros cum Hpos Hc Hn Hl; cbn [zsum] in *; [lia|].
  cbn [ws_gate_from].
  assert (Hf : 0 <= f) by (apply Hpos; left; reflexivity).
  assert (Hr : 0 <= zsum r) by (apply zsum_nonneg; intros x Hx; apply Hpos; right; exact Hx).
  assert (El : limit <? cum + f = false) by (apply Z.ltb_ge; lia). rewrite El.
  destruct (need <=? cum + f) eqn:En; [reflexivity|]. apply Z.leb_gt in En.
  apply IH; [intros x Hx; apply Hpos; right; exact Hx | lia | lia | lia].
Qed.

(* a message within the bound whose document is complete is decoded however it is cut into frames *)
Lemma ws_gate_within_limit limit need frames :
  (forall f, In f frames -> 0 <= f) -> 0 < need <= zsum frames -> zsum frames <= limit ->
  ws_gate limit need frames = GDecoded.
Proof. intros Hpos [Hn1 Hn2] Hl. unfold ws_gate. apply ws_gate_from_within_limit; [exact Hpos | lia | lia | lia]. Qed.

(* a frame that takes the message over the bound before the document has ended: refused, whatever follows *)
Lemma ws_gate_from_oversized limit need frames : forall cum,
  limit < need -> ws_gate_from limit need cum frames <> GDecoded.
Proof. intros cum Hl H. apply ws_gate_from_decoded_bounded in H. lia. Qed.
