(* Executable entry points compared with the implementation by ./check C17. *)
From ZV Require Import Prelude GoSem Spork.
From ZV.gen Require Import Consts.
Open Scope Z_scope.

Definition spk := (Z * bool * Z)%type.
Definition mk_sporks (l : list spk) : list spork := map (fun q => let '(i, a, e) := q in mkSpork i a e) l.
Definition un_spork (s : spork) : spk := (sp_id s, sp_activated s, sp_enf s).
Definition spk_eqb (a b : spk) : bool :=
  let '(i1, a1, e1) := a in let '(i2, a2, e2) := b in (i1 =? i2) && Bool.eqb a1 a2 && (e1 =? e2).

(* canonical order: by id *)
Fixpoint ins_spk (x : spk) (l : list spk) : list spk :=
  match l with
  | [] => [x]
  | y :: r => if fst (fst x) <=? fst (fst y) then x :: l else y :: ins_spk x r
  end.
Definition sort_spk (l : list spk) : list spk := fold_right ins_spk [] l.

Definition is_active_run (i : Z * list spk * Z) : bool :=
  let '(h, l, id) := i in is_active (mkMstore h (mk_sporks l)) id.

Definition code_of (r : lookup_res) : Z :=
  match r with Found => 0 | MethodNotFound => 1 | ContractDoesntExist => 2 | NotContractAddress => 3 end.
(* in: height, sporks, (accelerator id, htlc id, bridge id), address is embedded, contract index, selector *)
Definition lookup_run (i : Z * list spk * (Z * Z * Z) * bool * Z * Z) : Z :=
  let '(h, l, ids, emb, c, sel) := i in
  let '(a, ht, b) := ids in
  code_of (get_embedded_method (mkMstore h (mk_sporks l)) (mkImpl a ht b) emb c sel).

Definition sender_of (k : Z) : sender := if k =? 0 then SporkKey else if k =? 1 then CommunityKey else OtherKey.
Definition err_code (e : sp_err) : Z :=
  match e with EPermission => 1 | EInvalidAmount => 2 | EForbiddenParam => 3 | EUnpack => 4 | ENonExistent => 5 | EAlreadyActivated => 6 end.
Definition res_code (r : sp_err + list spork) : Z * list spk :=
  match r with inl e => (err_code e, []) | inr l => (0, sort_spk (map un_spork l)) end.
Definition opt_code (r : option sp_err) : Z := match r with None => 0 | Some e => err_code e end.

(* send-time validation *)
Definition create_validate_run (i : Z * bool * option (Z * Z)) : Z :=
  let '(k, az, d) := i in opt_code (create_validate (sender_of k) az d).
Definition activate_validate_run (i : Z * bool * bool) : Z :=
  let '(k, az, uo) := i in opt_code (activate_validate (sender_of k) az uo).

(* receive-time execution: in: sender, amount zero, data, ack height, community window, new id, stored sporks *)
Definition create_receive_run (i : Z * bool * option (Z * Z) * Z * Z * Z * Z * list spk) : Z * list spk :=
  let '(k, az, d, h, st, en, nid, l) := i in res_code (create_receive (sender_of k) az d h st en nid (mk_sporks l)).
Definition activate_receive_run (i : Z * bool * bool * Z * Z * Z * Z * list spk) : Z * list spk :=
  let '(k, az, uo, h, st, en, id, l) := i in res_code (activate_receive (sender_of k) az uo h st en id (mk_sporks l)).
Definition res_eqb (a b : Z * list spk) : bool := (fst a =? fst b) && list_eqb spk_eqb (snd a) (snd b).

(* GotAllActiveSporksImplemented: ids of the unimplemented enforced sporks, ascending *)
Fixpoint ins_z (x : Z) (l : list Z) : list Z :=
  match l with [] => [x] | y :: r => if x <=? y then x :: l else y :: ins_z x r end.
Definition unimplemented_run (i : Z * list spk * list Z) : list Z :=
  let '(h, l, im) := i in fold_right ins_z [] (unimplemented (mkMstore h (mk_sporks l)) im).
Definition zlist_eqb : list Z -> list Z -> bool := list_eqb Z.eqb.
