(* Completion theorems for the model of generateEmbeddedReceive. *)
From ZV Require Import Prelude GoSem Abi VmReceive.
Open Scope Z_scope.
Ltac Zify.zify_post_hook ::= Z.div_mod_to_equations.

Lemma bytes_eqb_refl a : bytes_eqb a a = true.
Proof. apply bytes_eqb_eq. reflexivity. Qed.
Lemma bytes_eqb_neq a b : a <> b -> bytes_eqb a b = false.
Proof. intros H. destruct (bytes_eqb a b) eqn:E; [|reflexivity]. apply bytes_eqb_eq in E. contradiction. Qed.

Lemma bal_get_set_same b z x : bal_get (bal_set b z x) z = x.
Proof.
  induction b as [|[k v] r IH]; cbn [bal_set bal_get].
  - rewrite bytes_eqb_refl. reflexivity.
  - destruct (bytes_eqb k z) eqn:E; cbn [bal_get]; rewrite E; auto.
Qed.
Lemma bal_get_set_other b z z' x : z <> z' -> bal_get (bal_set b z x) z' = bal_get b z'.
Proof.
  intros N. induction b as [|[k v] r IH]; cbn [bal_set bal_get].
  - rewrite bytes_eqb_neq by assumption. reflexivity.
  - destruct (bytes_eqb k z) eqn:E; cbn [bal_get].
    + apply bytes_eqb_eq in E. subst k. rewrite bytes_eqb_neq by assumption. reflexivity.
    + destruct (bytes_eqb k z'); auto.
Qed.
Lemma bal_get_set b z z' x : bal_get (bal_set b z x) z' = if bytes_eqb z z' then x else bal_get b z'.
Proof.
  destruct (bytes_eqb z z') eqn:E.
  - apply bytes_eqb_eq in E. subst. apply bal_get_set_same.
  - apply bal_get_set_other. intros ->. rewrite bytes_eqb_refl in E. discriminate.
Qed.

Section Proofs.
  Variable cstate : Type.
  Variable dest_check : dsend -> option Z.
  Notation cacct := (cacct cstate).
  Notation apply_send := (apply_send cstate dest_check).
  Notation apply_all := (apply_all cstate dest_check).
  Notation generate_receive := (generate_receive cstate dest_check).
  Notation generate_receive_prefix := (generate_receive_prefix cstate dest_check).
  Notation rollback := (rollback cstate dest_check).

  Definition nonneg (a : cacct) : Prop := forall z, 0 <= bal_get (a_bal a) z.
  (* a well-formed descendant: amount >= 0, and a positive amount names a token (verifier.amounts for sends) *)
  Definition ds_ok (d : dsend) : Prop := 0 <= d_amount d /\ (0 < d_amount d -> d_zts d <> zero_zts).
  (* what the verifier guarantees of an accepted send block: amount >= 0, a positive amount names a token
     (verifier amounts()), the data is a byte string of bounded length *)
  Definition send_ok (s : send) : Prop :=
    0 <= s_amount s /\ (0 < s_amount s -> s_zts s <> zero_zts) /\ Forall is_byte (s_data s) /\ len (s_data s) < MaxData.

  Lemma add_balance_get a z x z' :
    bal_get (a_bal (add_balance cstate a z x)) z' = if bytes_eqb z z' then bal_get (a_bal a) z + x else bal_get (a_bal a) z'.
  Proof. unfold add_balance, with_bal. cbn [a_bal]. apply bal_get_set. Qed.

  Lemma add_balance_nonneg a z x : nonneg a -> 0 <= x -> nonneg (add_balance cstate a z x).
  Proof.
    intros H Hx z'. rewrite add_balance_get. destruct (bytes_eqb z z'); [specialize (H z); lia | apply H].
  Qed.

  Lemma apply_send_spec a d : nonneg a -> ds_ok d ->
    match apply_send a d with
    | ASOk a' => nonneg a' /\ a_cursor a' = a_cursor a /\ a_store a' = a_store a /\ dest_check d = None /\
                 d_amount d <= bal_get (a_bal a) (d_zts d) /\
                 forall z, bal_get (a_bal a') z = if bytes_eqb (d_zts d) z then bal_get (a_bal a) z - d_amount d else bal_get (a_bal a) z
    | ASErr _ => True
    | ASPanic => False
    end.
  Proof.
    intros Hn (Ha & Hz). unfold apply_send.
    destruct (dest_check d); [exact I|].
    destruct (negb (bytes_eqb (d_zts d) zero_zts) && (bal_get (a_bal a) (d_zts d) <? d_amount d)) eqn:E; [exact I|].
    unfold sub_balance.
    assert (Hle : d_amount d <= bal_get (a_bal a) (d_zts d)).
    { apply andb_false_iff in E. destruct E as [E|E].
      - apply negb_false_iff, bytes_eqb_eq in E.
        destruct (Z_lt_dec 0 (d_amount d)) as [Hp|Hp]; [exfalso; apply (Hz Hp); exact E|].
        specialize (Hn (d_zts d)). lia.
      - lia. }
    replace (d_amount d <=? bal_get (a_bal a) (d_zts d)) with true by (symmetry; lia).
    unfold with_bal; cbn [a_bal a_cursor a_store].
    assert (Hg : forall z, bal_get (bal_set (a_bal a) (d_zts d) (bal_get (a_bal a) (d_zts d) - d_amount d)) z =
                           if bytes_eqb (d_zts d) z then bal_get (a_bal a) z - d_amount d else bal_get (a_bal a) z).
    { intros z. rewrite bal_get_set. destruct (bytes_eqb (d_zts d) z) eqn:Ez; [|reflexivity].
      apply bytes_eqb_eq in Ez. subst z. reflexivity. }
    repeat split; auto.
    intros z. rewrite Hg. destruct (bytes_eqb (d_zts d) z) eqn:Ez; [|apply Hn].
    apply bytes_eqb_eq in Ez. subst z. lia.
  Qed.

  Lemma apply_all_spec ds : forall a, nonneg a -> Forall ds_ok ds ->
    match apply_all a ds with
    | ASOk a' => nonneg a' /\ a_cursor a' = a_cursor a /\ a_store a' = a_store a
    | ASErr _ => True
    | ASPanic => False
    end.
  Proof.
    induction ds as [|d r IH]; intros a Hn Hd; cbn [VmReceive.apply_all]; [auto|].
    inversion Hd as [|? ? Hd1 Hdr]; subst.
    pose proof (apply_send_spec a d Hn Hd1) as Hs.
    destruct (apply_send a d) as [a'| |]; [|exact I|contradiction].
    destruct Hs as (Hn' & Hc & Hst & _).
    specialize (IH a' Hn' Hdr). destruct (apply_all a' r) as [a''| |]; auto.
    destruct IH as (? & ? & ?). repeat split; auto; congruence.
  Qed.

  (* rollbackEmbedded with a snapshot: the refund is exact and the account is as before the call *)
  Lemma rollback_spec a s code : nonneg a -> send_ok s -> dest_check (refund_of s) = None ->
    exists a', rollback (Some a) s code = RRefunded a' (if 0 <? s_amount s then [refund_of s] else []) code /\
               a_cursor a' = a_cursor a /\ a_store a' = a_store a /\ nonneg a' /\
               forall z, bal_get (a_bal a') z = bal_get (a_bal a) z.
  Proof.
    intros Hn (Ha & Hz & _) Hd. unfold rollback.
    set (a1 := add_balance cstate a (s_zts s) (s_amount s)).
    assert (Hn1 : nonneg a1) by (apply add_balance_nonneg; assumption).
    destruct (0 <? s_amount s) eqn:Ep.
    - assert (Hok : ds_ok (refund_of s)) by (split; cbn; [lia | intros; apply Hz; lia]).
      pose proof (apply_send_spec a1 (refund_of s) Hn1 Hok) as Hs.
      unfold apply_send in *. rewrite Hd in *. cbn [refund_of d_zts d_amount] in *.
      assert (Hb : bal_get (a_bal a1) (s_zts s) = bal_get (a_bal a) (s_zts s) + s_amount s).
      { subst a1. rewrite add_balance_get, bytes_eqb_refl. reflexivity. }
      replace (bal_get (a_bal a1) (s_zts s) <? s_amount s) with false in * by (symmetry; specialize (Hn (s_zts s)); lia).
      rewrite andb_false_r in *. cbv beta iota in Hs |- *.
      unfold sub_balance in *.
      replace (s_amount s <=? bal_get (a_bal a1) (s_zts s)) with true in * by (symmetry; specialize (Hn (s_zts s)); lia).
      destruct Hs as (Hn2 & Hc & Hst & _ & _ & Hg).
      eexists. split; [reflexivity|]. repeat split; auto.
      intros z. rewrite Hg. subst a1. rewrite !add_balance_get.
      destruct (bytes_eqb (s_zts s) z) eqn:Ez; [|reflexivity].
      apply bytes_eqb_eq in Ez. subst z. lia.
    - exists a1. repeat split; auto.
      intros z. subst a1. rewrite add_balance_get. destruct (bytes_eqb (s_zts s) z) eqn:Ez; [|reflexivity].
      apply bytes_eqb_eq in Ez. subst z. lia.
  Qed.

  Variable J : cacct -> Prop.          (* any invariant of the contract account (storage + balances) *)

  Definition outcome_ok (a : cacct) (s : send) (r : rres cstate) : Prop :=
    (exists a' ds, r = RApplied a' ds /\ a_cursor a' = a_cursor a + 1 /\ nonneg a' /\ J a') \/
    (exists a' code, r = RRefunded a' (if 0 <? s_amount s then [refund_of s] else []) code /\
                     a_cursor a' = a_cursor a + 1 /\ a_store a' = a_store a /\ nonneg a' /\ J a' /\
                     forall z, bal_get (a_bal a') z = bal_get (a_bal a) z).

  (* the account a method runs on: cursor popped, amount credited *)
  Definition credited (a : cacct) (s : send) : cacct := add_balance cstate (pop_front cstate a) (s_zts s) (s_amount s).

  (* what a method table has to guarantee; all of it is about the methods, none about the vm:
     no method panics on a credited account satisfying the invariant, it leaves the sequencer alone, produces
     well-formed descendants, and once they are debited the invariant holds again *)
  Record table_ok (lookup : send -> lres cstate) : Prop := {
    t_ext : forall a a', J a -> a_store a' = a_store a -> (forall z, bal_get (a_bal a') z = bal_get (a_bal a) z) -> J a';
    t_not_other : forall s, lookup s <> LOther;
    t_no_panic : forall s m a, lookup s = LFound m -> J a -> nonneg a -> send_ok s -> m (credited a s) s <> MPanic;
    t_frame : forall s m a a' ds, lookup s = LFound m -> J a -> nonneg a -> send_ok s -> m (credited a s) s = MOk a' ds ->
                a_cursor a' = a_cursor a + 1 /\ nonneg a' /\ Forall ds_ok ds /\
                forall a'', apply_all a' ds = ASOk a'' -> J a''
  }.

  Theorem vm_completes lookup a s :
    table_ok lookup -> nonneg a -> J a -> send_ok s -> dest_check (refund_of s) = None ->
    outcome_ok a s (generate_receive lookup a s).
  Proof.
    intros T Hn HJ Hs Hd. unfold generate_receive.
    set (a0 := pop_front cstate a).
    assert (Hn0 : nonneg a0) by (intros z; apply Hn).
    assert (Hc0 : a_cursor a0 = a_cursor a + 1) by reflexivity.
    assert (Hroll : forall code, outcome_ok a s (rollback (Some a0) s code)).
    { intros code. destruct (rollback_spec a0 s code Hn0 Hs Hd) as (a' & E & Hc & Hst & Hn' & Hg).
      right. exists a', code. rewrite E. repeat split; auto; try lia.
      apply (t_ext lookup T a a' HJ); [rewrite Hst; reflexivity | intros z; rewrite Hg; reflexivity]. }
    destruct (lookup s) as [m| |] eqn:El.
    - change (add_balance cstate a0 (s_zts s) (s_amount s)) with (credited a s).
      pose proof (t_no_panic lookup T s m a El HJ Hn Hs) as Hnp.
      destruct (m (credited a s) s) as [a2 ds| |] eqn:Em; [|apply Hroll|contradiction].
      destruct (t_frame lookup T s m a a2 ds El HJ Hn Hs Em) as (Hc2 & Hn2 & Hds & HJ2).
      pose proof (apply_all_spec ds a2 Hn2 Hds) as Ha.
      destruct (apply_all a2 ds) as [a3| |] eqn:Ea; [|apply Hroll|contradiction].
      destruct Ha as (Hn3 & Hc3 & _). left. exists a3, ds. repeat split; auto.
      rewrite Hc3, Hc2. reflexivity.
    - apply Hroll.
    - exfalso. apply (t_not_other lookup T s). exact El.
  Qed.

  Corollary vm_no_panic lookup a s :
    table_ok lookup -> nonneg a -> J a -> send_ok s -> dest_check (refund_of s) = None ->
    generate_receive lookup a s <> RPanic /\ forall c, generate_receive lookup a s <> RInternal c.
  Proof.
    intros T Hn HJ Hs Hd. destruct (vm_completes lookup a s T Hn HJ Hs Hd) as [(a' & ds & E & _)|(a' & c & E & _)];
      rewrite E; split; try discriminate; intros; discriminate.
  Qed.

  (* one vm step preserves any further invariant K that the applied call of THIS send re-establishes (the
     hypothesis may use facts about this send and this state, e.g. that its hash is fresh) *)
  Definition result_acct (r : rres cstate) : option cacct :=
    match r with RApplied a' _ | RRefunded a' _ _ => Some a' | _ => None end.
  Theorem vm_step_preserves (K : cacct -> Prop) lookup a s :
    table_ok lookup -> nonneg a -> J a -> send_ok s -> dest_check (refund_of s) = None -> K a ->
    (forall a1 a2, K a1 -> a_store a2 = a_store a1 -> (forall z, bal_get (a_bal a2) z = bal_get (a_bal a1) z) -> K a2) ->
    (forall m a' ds a'', lookup s = LFound m -> m (credited a s) s = MOk a' ds -> nonneg a' -> Forall ds_ok ds ->
                         apply_all a' ds = ASOk a'' -> K a'') ->
    forall a', result_acct (generate_receive lookup a s) = Some a' -> K a'.
  Proof.
    intros T Hn HJ Hs Hd HK Kext Kstep a'. unfold generate_receive.
    set (a0 := pop_front cstate a).
    assert (Hn0 : nonneg a0) by (intros z; apply Hn).
    assert (Hroll : forall code, result_acct (rollback (Some a0) s code) = Some a' -> K a').
    { intros code. destruct (rollback_spec a0 s code Hn0 Hs Hd) as (ar & E & Hc & Hst & Hn' & Hg).
      rewrite E. cbn [result_acct]. intros Ea; inversion Ea; subst ar.
      apply (Kext a a' HK); [rewrite Hst; reflexivity | intros z; rewrite Hg; reflexivity]. }
    destruct (lookup s) as [m| |] eqn:El.
    - change (add_balance cstate a0 (s_zts s) (s_amount s)) with (credited a s).
      destruct (m (credited a s) s) as [a2 ds| |] eqn:Em; [|apply Hroll|discriminate].
      destruct (t_frame lookup T s m a a2 ds El HJ Hn Hs Em) as (Hc2 & Hn2 & Hds & _).
      destruct (apply_all a2 ds) as [a3| |] eqn:Ea; [|apply Hroll|discriminate].
      cbn [result_acct]. intros E; inversion E; subst a3. eapply Kstep; eauto.
    - apply Hroll.
    - discriminate.
  Qed.

  (* a call to a method that a spork retired between send and receive is refunded *)
  Theorem method_removed_refunds lookup a s :
    lookup s = LNotFound -> nonneg a -> send_ok s -> dest_check (refund_of s) = None ->
    exists a', generate_receive lookup a s =
                 RRefunded a' (if 0 <? s_amount s then [refund_of s] else []) E_method_not_found /\
               a_cursor a' = a_cursor a + 1 /\ a_store a' = a_store a /\
               forall z, bal_get (a_bal a') z = bal_get (a_bal a) z.
  Proof.
    intros El Hn Hs Hd. unfold generate_receive. rewrite El.
    assert (Hn0 : nonneg (pop_front cstate a)) by (intros z; apply Hn).
    destruct (rollback_spec (pop_front cstate a) s E_method_not_found Hn0 Hs Hd) as (a' & E & Hc & Hst & _ & Hg).
    exists a'. rewrite E. repeat split; auto.
  Qed.

  (* record of the defect fixed in /repo: before the fix that path reset to a missing snapshot and panicked *)
  Theorem method_removed_prefix_panics lookup a s :
    lookup s = LNotFound -> generate_receive_prefix lookup a s = RPanic.
  Proof. intros El. unfold generate_receive_prefix. rewrite El. reflexivity. Qed.

  (* KNOWN FINDING (refund-to-contract-sender-fails): when the sender of a failing call that carries value is itself
     a contract, applySend rejects the refund (no method for empty call data), generateEmbeddedReceive returns an
     error, no receive block is produced and the call stays at the head of the inbox *)
  Theorem refund_to_contract_wedges lookup a s m c c' :
    lookup s = LFound m -> m (credited a s) s = MErr c -> 0 < s_amount s -> dest_check (refund_of s) = Some c' ->
    generate_receive lookup a s = RInternal c'.
  Proof.
    intros El Em Hp Hd. unfold generate_receive. rewrite El. fold (credited a s). rewrite Em.
    unfold rollback. replace (0 <? s_amount s) with true by (symmetry; lia).
    unfold VmReceive.apply_send. rewrite Hd. reflexivity.
  Qed.

  (* the whole inbox: every queued call gets its receive block, whatever came before it *)
  Fixpoint process_all (lookup : send -> lres cstate) (a : cacct) (q : list send) : option cacct :=
    match q with
    | [] => Some a
    | s :: r =>
      match generate_receive lookup a s with
      | RApplied a' _ | RRefunded a' _ _ => process_all lookup a' r
      | _ => None
      end
    end.

  Theorem inbox_never_wedged lookup q : table_ok lookup ->
    Forall (fun s => send_ok s /\ dest_check (refund_of s) = None) q ->
    forall a, nonneg a -> J a ->
    exists a', process_all lookup a q = Some a' /\ a_cursor a' = a_cursor a + Z.of_nat (length q) /\ nonneg a' /\ J a'.
  Proof.
    intros T. induction 1 as [|s r (Hs & Hd) _ IH]; intros a Hn HJ; cbn [process_all length].
    - exists a. repeat split; auto. lia.
    - destruct (vm_completes lookup a s T Hn HJ Hs Hd) as [(a' & ds & E & Hc & Hn' & HJ')|(a' & c & E & Hc & _ & Hn' & HJ' & _)];
        rewrite E; destruct (IH a' Hn' HJ') as (a'' & E' & Hc' & Hn'' & HJ''); exists a''; repeat split; auto; lia.
  Qed.
End Proofs.

(* ---- method tables: [(contract, selector)] per spork regime.  A regime change only moves to a larger table, so a
   call that found its method when it was accepted finds it when it is received. *)
Definition mt_has (t : list (bytes * bytes)) (c sel : bytes) : bool :=
  existsb (fun e => bytes_eqb (fst e) c && bytes_eqb (snd e) sel) t.
Definition mt_incl (t t' : list (bytes * bytes)) : bool := forallb (fun e => mt_has t' (fst e) (snd e)) t.
Fixpoint mt_chain (ts : list (list (bytes * bytes))) : bool :=
  match ts with
  | t :: ((t' :: _) as r) => mt_incl t t' && mt_chain r
  | _ => true
  end.
Lemma mt_incl_keeps t t' c sel : mt_incl t t' = true -> mt_has t c sel = true -> mt_has t' c sel = true.
Proof.
  unfold mt_incl. rewrite forallb_forall. intros Hi Hh. unfold mt_has in Hh. apply existsb_exists in Hh.
  destruct Hh as ((c0, s0) & Hin & He). cbn [fst snd] in He. apply andb_true_iff in He. destruct He as (E1 & E2).
  apply bytes_eqb_eq in E1. apply bytes_eqb_eq in E2. subst. apply (Hi _ Hin).
Qed.
