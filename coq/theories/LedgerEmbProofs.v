(* What the concrete embedded bodies (theories/Emb.v, through the adapter LedgerEmb.v) can do to the ledger. *)
From ZV Require Import Prelude GoSem Abi VmReceive Emb.
From ZV.gen Require Import Consts.
From ZV Require Import Ledger LedgerProofs LedgerEmb.
Open Scope Z_scope.

(* every history of plain ops and concrete-method receives keeps the supply invariant *)
Theorem run_x_inv xs : forall s, Inv s -> Inv (run_x true s xs).
Proof.
  induction xs as [|x r IH]; intros s I; cbn [run_x]; [exact I|].
  apply IH. unfold step_x. destruct (step true s (op_of_xop s x)) as [s' res] eqn:E. cbn [fst]. eapply step_inv; eauto.
Qed.

(* a concrete body reaches the ledger only as "failure" or "success + descendant sends" (or a panic = no block) *)
Theorem call_of_emb_disciplined m now height sd data dok :
  is_token_call (call_of_emb m now height sd data dok) = false /\
  (call_of_emb m now height sd data dok = KPanic \/ exists ok ds, call_of_emb m now height sd data dok = KOther ok ds).
Proof.
  unfold call_of_emb. destruct (emb_outcome m now height sd data dok) as [[ds|]|]; cbn; split; auto; right; eauto.
Qed.

Lemma outcome_ok {S} (r : VmReceive.mres S) dok ds :
  outcome r dok = Some (Some ds) ->
  exists a l, r = MOk a l /\ ds = map (fun d => (addr_of_bytes (d_to d), zts_of_bytes (d_zts d), d_amount d, dok)) l.
Proof.
  unfold outcome. destruct r as [a l| |]; try discriminate. destruct (a_bal a); [|discriminate].
  intros X; inversion X. eauto.
Qed.

(* Donate, DepositQsr, Fuse, Stake: the funds stay with the contract, nothing is sent *)
Theorem emb_keepers_send_nothing m now height sd data dok ds :
  (m = MDonate \/ m = MDepositQsr \/ m = MFuse \/ m = MStake) ->
  emb_outcome m now height sd data dok = Some (Some ds) -> ds = [].
Proof.
  intros M H. destruct M as [ -> | [ -> | [ -> | -> ] ] ]; cbn [emb_outcome] in H; apply outcome_ok in H; destruct H as [a [l [E ->]]].
  - unfold donate_receive in E. destruct (donate_validate _); inversion E; reflexivity.
  - unfold deposit_qsr_receive in E. destruct (deposit_qsr_validate _); inversion E; reflexivity.
  - unfold fuse_receive in E. destruct (fuse_validate _ _); try discriminate. inversion E; reflexivity.
  - unfold stake_receive in E. destruct (stake_validate _ _); try discriminate. inversion E; reflexivity.
Qed.

Lemma zts_qsr : zts_of_bytes ZtsQsr = QsrId. Proof. vm_compute. reflexivity. Qed.
Lemma zts_znn : zts_of_bytes ZtsZnn = ZnnId. Proof. vm_compute. reflexivity. Qed.
Lemma addr_token : addr_of_bytes AddrTokenContract = TokenContract. Proof. vm_compute. reflexivity. Qed.

(* WithdrawQsr, CancelFuse, Cancel: exactly one send, of exactly the stored amount, in QSR / QSR / ZNN, to the caller *)
Theorem emb_withdraw_pays_caller dep now height sd data dok ds :
  emb_outcome (MWithdrawQsr dep) now height sd data dok = Some (Some ds) ->
  dep <> 0 /\ ds = [(addr_of_bytes (addr_bytes (Ledger.s_from sd)), QsrId, dep, dok)].
Proof.
  cbn [emb_outcome]. intros H. apply outcome_ok in H. destruct H as [a [l [E ->]]].
  unfold withdraw_qsr_receive in E. destruct (withdraw_qsr_validate _); try discriminate.
  cbn [a_store acct0 q_dep] in E. destruct (dep =? 0) eqn:D.
  - cbn [tget] in E. cbn in E. discriminate.
  - cbn [tget vsend VmReceive.s_from] in E. rewrite (proj2 (bytes_eqb_eq _ _) eq_refl) in E. rewrite D in E.
    inversion E; subst. cbn [map d_to d_zts d_amount]. rewrite zts_qsr. split; [apply Z.eqb_neq; exact D | reflexivity].
Qed.

Theorem emb_cancel_fuse_pays_caller entry now height sd data dok ds :
  emb_outcome (MCancelFuse entry) now height sd data dok = Some (Some ds) ->
  exists amt exp, entry = Some (amt, exp) /\ exp <= height /\
                  ds = [(addr_of_bytes (addr_bytes (Ledger.s_from sd)), QsrId, amt, dok)].
Proof.
  cbn [emb_outcome]. intros H. apply outcome_ok in H. destruct H as [a [l [E ->]]].
  unfold cancel_fuse_receive in E. destruct (cancel_fuse_validate (vsend sd data)) as [id| |] eqn:V; try discriminate.
  cbn [key_id a_store acct0] in E. destruct entry as [[amt exp]|].
  - cbn [p_fusions tget vsend VmReceive.s_from] in E. rewrite (proj2 (bytes_eqb_eq _ _) eq_refl) in E.
    cbn [f_exp f_amount f_ben e_height env_at] in E. destruct (height <? exp) eqn:L; [discriminate|].
    inversion E; subst. cbn [map d_to d_zts d_amount]. rewrite zts_qsr. exists amt, exp. repeat split; auto. lia.
  - cbn in E. discriminate.
Qed.

Theorem emb_cancel_stake_pays_caller entry now height sd data dok ds :
  emb_outcome (MCancelStake entry) now height sd data dok = Some (Some ds) ->
  exists amt exp, entry = Some (amt, exp) /\ exp <= now /\
                  ds = [(addr_of_bytes (addr_bytes (Ledger.s_from sd)), ZnnId, amt, dok)].
Proof.
  cbn [emb_outcome]. intros H. apply outcome_ok in H. destruct H as [a [l [E ->]]].
  unfold cancel_stake_receive in E. destruct (cancel_stake_validate (vsend sd data)) as [id| |] eqn:V; try discriminate.
  cbn [key_id a_store acct0] in E. destruct entry as [[amt exp]|].
  - cbn [tget vsend VmReceive.s_from] in E. rewrite (proj2 (bytes_eqb_eq _ _) eq_refl) in E.
    cbn [k_exp k_amount e_now env_at] in E. destruct (now <? exp) eqn:L; [discriminate|].
    inversion E; subst. cbn [map d_to d_zts d_amount]. rewrite zts_znn. exists amt, exp. repeat split; auto. lia.
  - cbn in E. discriminate.
Qed.

(* CollectReward: only zero-amount Mint calls to the token contract (supply moves when the token contract receives them) *)
Theorem emb_collect_only_mint_calls znn qsr now height sd data dok ds :
  emb_outcome (MCollectReward znn qsr) now height sd data dok = Some (Some ds) ->
  Forall (fun d => d = (TokenContract, ZnnId, 0, dok)) ds /\ (length ds <= 2)%nat.
Proof.
  cbn [emb_outcome]. intros H. apply outcome_ok in H. destruct H as [a [l [E ->]]].
  unfold collect_receive in E. destruct (collect_validate _); try discriminate.
  cbn [a_store acct0 r_dep tget vsend VmReceive.s_from] in E. rewrite (proj2 (bytes_eqb_eq _ _) eq_refl) in E.
  destruct ((znn =? 0) && (qsr =? 0)); [discriminate|]. inversion E; subst.
  destruct (0 <? znn); destruct (0 <? qsr); cbn [app map mint_call d_to d_zts d_amount length];
    rewrite ?addr_token, ?zts_znn; split; repeat constructor.
Qed.
