(* Proofs for C02 (replay determinism). *)
From ZV Require Import Prelude GoSem Election ElectionProofs Replay.
Open Scope Z_scope.
Ltac Zify.zify_post_hook ::= Z.div_mod_to_equations.

(* ------------------------------------------------------------------ (1) the patch is canonical *)
Lemma bytes_eqb_cmp a b : bytes_eqb a b = true <-> bytes_cmp a b = Eq.
Proof.
  rewrite bytes_eqb_eq. split; [intros ->; apply bytes_cmp_refl|apply bytes_cmp_eq].
Qed.
Lemma bytes_eqb_refl a : bytes_eqb a a = true.
Proof. apply bytes_eqb_eq. reflexivity. Qed.
Lemma bytes_eqb_false_cmp a b : bytes_cmp a b <> Eq -> bytes_eqb a b = false.
Proof. intros H. destruct (bytes_eqb a b) eqn:E; [|reflexivity]. apply bytes_eqb_cmp in E. contradiction. Qed.

Lemma ov_get_write k v ov k' :
  ov_get (ov_write k v ov) k' = if bytes_eqb k k' then Some v else ov_get ov k'.
Proof.
  induction ov as [|[k0 v0] r IH]; cbn; [reflexivity|].
  destruct (bytes_cmp k k0) eqn:C; cbn.
  - (* same key: replaced *)
    apply bytes_cmp_eq in C. subst k0. destruct (bytes_eqb k k'); reflexivity.
  - reflexivity.
  - rewrite IH. destruct (bytes_eqb k0 k') eqn:E0; [|reflexivity].
    apply bytes_eqb_eq in E0. subst k'.
    rewrite bytes_eqb_false_cmp; [reflexivity|]. rewrite C. discriminate.
Qed.

Lemma fold_get ops : forall ov k,
  ov_get (fold_left (fun ov o => ov_write (wkey o) (wval o) ov) ops ov) k =
  match last_write ops k with Some x => Some x | None => ov_get ov k end.
Proof.
  induction ops as [|o r IH]; intros ov k; cbn; [reflexivity|].
  rewrite IH. destruct (last_write r k); [reflexivity|]. rewrite ov_get_write.
  destruct (bytes_eqb (wkey o) k); reflexivity.
Qed.
(* reading the change set = the last write of every key *)
Lemma changes_get ops k : ov_get (changes ops) k = last_write ops k.
Proof. unfold changes. rewrite fold_get. cbn. destruct (last_write ops k); reflexivity. Qed.

(* strictly increasing keys *)
Fixpoint ksorted (ov : list (bytes * option bytes)) : Prop :=
  match ov with
  | [] => True
  | (k, _) :: r => Forall (fun e => bytes_cmp k (fst e) = Lt) r /\ ksorted r
  end.
Lemma ov_write_in k v ov e : In e (ov_write k v ov) -> e = (k, v) \/ In e ov.
Proof.
  induction ov as [|[k0 v0] r IH]; cbn; [intros [H|[]]; auto|].
  destruct (bytes_cmp k k0); cbn.
  - intros [H|H]; auto.
  - intros [H|[H|H]]; auto.
  - intros [H|H]; auto. destruct (IH H); auto.
Qed.
Lemma ov_write_sorted k v ov : ksorted ov -> ksorted (ov_write k v ov).
Proof.
  induction ov as [|[k0 v0] r IH]; cbn; intros S; [split; [constructor|exact I]|].
  destruct S as [F S].
  destruct (bytes_cmp k k0) eqn:C; cbn.
  - apply bytes_cmp_eq in C. subst. split; assumption.
  - split; [|split; assumption]. constructor; [exact C|].
    eapply Forall_impl; [|exact F]. intros e He. cbn in *. eapply bytes_cmp_trans_lt; eauto.
  - split; [|apply IH, S].
    assert (L : bytes_cmp k0 k = Lt) by (rewrite (bytes_cmp_antisym k k0), C; reflexivity).
    rewrite Forall_forall in *. intros e He. destruct (ov_write_in _ _ _ _ He) as [->|Hr]; [exact L|apply F, Hr].
Qed.
Lemma changes_sorted ops : ksorted (changes ops).
Proof.
  unfold changes. assert (G : forall ov, ksorted ov -> ksorted (fold_left (fun ov o => ov_write (wkey o) (wval o) ov) ops ov)).
  { induction ops as [|o r IH]; intros ov S; cbn; [exact S|]. apply IH, ov_write_sorted, S. }
  apply G. exact I.
Qed.
Lemma ov_get_above k ov : Forall (fun e => bytes_cmp k (fst e) = Lt) ov -> ov_get ov k = None.
Proof.
  induction ov as [|[k0 v0] r IH]; cbn; intros F; [reflexivity|].
  inversion F as [|? ? F1 F2]; subst. cbn in F1.
  rewrite bytes_eqb_false_cmp; [apply IH, F2|].
  rewrite (bytes_cmp_antisym k k0), F1. discriminate.
Qed.
(* two sorted overlays that answer every read alike are the same list *)
Lemma sorted_ext l1 : forall l2, ksorted l1 -> ksorted l2 ->
  (forall k, ov_get l1 k = ov_get l2 k) -> l1 = l2.
Proof.
  induction l1 as [|[k1 v1] r1 IH]; intros l2 S1 S2 E.
  - destruct l2 as [|[k2 v2] r2]; [reflexivity|]. specialize (E k2). cbn in E. rewrite bytes_eqb_refl in E. discriminate.
  - destruct l2 as [|[k2 v2] r2]; [specialize (E k1); cbn in E; rewrite bytes_eqb_refl in E; discriminate|].
    destruct S1 as [F1 S1]. destruct S2 as [F2 S2].
    assert (K : k1 = k2).
    { destruct (bytes_cmp k1 k2) eqn:C; [apply bytes_cmp_eq, C| |].
      - specialize (E k1). cbn in E. rewrite bytes_eqb_refl in E.
        rewrite bytes_eqb_false_cmp in E by (rewrite (bytes_cmp_antisym k1 k2), C; discriminate).
        rewrite ov_get_above in E; [discriminate|].
        eapply Forall_impl; [|exact F2]. intros e He. cbn in *. eapply bytes_cmp_trans_lt; eauto.
      - assert (C' : bytes_cmp k2 k1 = Lt) by (rewrite (bytes_cmp_antisym k1 k2), C; reflexivity).
        specialize (E k2). cbn in E. rewrite bytes_eqb_refl in E.
        rewrite bytes_eqb_false_cmp in E by (rewrite C; discriminate).
        rewrite ov_get_above in E; [discriminate|].
        eapply Forall_impl; [|exact F1]. intros e He. cbn in *. eapply bytes_cmp_trans_lt; eauto. }
    subst k2.
    assert (V : v1 = v2).
    { specialize (E k1). cbn in E. rewrite bytes_eqb_refl in E. inversion E. reflexivity. }
    subst v2. f_equal. apply IH; auto.
    intros k. specialize (E k). cbn in E. destruct (bytes_eqb k1 k) eqn:B; [|exact E].
    apply bytes_eqb_eq in B. subst k. rewrite !ov_get_above; auto.
Qed.

(* C02_patch_canonical: the change set depends only on the final content of the overlay *)
Theorem patch_canonical ops1 ops2 :
  (forall k, last_write ops1 k = last_write ops2 k) -> changes ops1 = changes ops2.
Proof.
  intros H. apply sorted_ext; try apply changes_sorted.
  intros k. rewrite !changes_get. apply H.
Qed.

(* ... and conversely the change set pins down the final content: two write sequences commit to the same patch exactly when every
   key ends with the same value (written, deleted or untouched) *)
Theorem patch_canonical_iff ops1 ops2 :
  changes ops1 = changes ops2 <-> (forall k, last_write ops1 k = last_write ops2 k).
Proof.
  split; [|apply patch_canonical].
  intros H k. rewrite <- !changes_get, H. reflexivity.
Qed.

(* ------------------------------------------------------------------ (2) replay *)
Lemma skipn_skipn' {A} : forall y x (l : list A), skipn x (skipn y l) = skipn (x + y) l.
Proof.
  induction y as [|y IH]; intros x l; [rewrite Nat.add_0_r; reflexivity|].
  destruct l as [|a l]; [rewrite !skipn_nil; reflexivity|].
  rewrite Nat.add_succ_r. cbn [skipn]. apply IH.
Qed.

Section ReplayProofs.
  Variable state : Type.
  Variable exec : state -> list ablock -> state.
  Variable patch_hash : state -> list ablock -> Z.
  Variable s0 : state.
  Variable ch : list mblock.
  Hypothesis Hprod : produced state exec patch_hash s0 ch.

  Notation node := (node state).
  Notation canon := (canon state exec).

  (* no variant: every pooled / gossiped block that shares its identifier with a block of the chain IS that block *)
  Definition genuine (b : ablock) : Prop :=
    forall b', In b' (chain_blocks ch) -> ab_id b = ab_id b' -> b = b'.
  Definition ev_ok (e : event) : Prop :=
    match e with
    | Gossip b => genuine b
    | Deliver lo batch => exists len, batch = firstn len (skipn lo ch)
    | Restart => True
    end.
  Definition inv (n : node) : Prop :=
    (n_height state n <= length ch)%nat /\ n_store state n = canon s0 ch (n_height state n) /\
    Forall genuine (n_pool state n).

  Lemma produced_nth : forall (c : list mblock) s k m, produced state exec patch_hash s c -> nth_error c k = Some m ->
    mb_changes m = patch_hash (canon s c k) (mb_blocks m) /\
    canon s c (S k) = exec (canon s c k) (mb_blocks m).
  Proof.
    induction c as [|x c IH]; intros s k m P N; [destruct k; discriminate|].
    destruct P as [P1 P2]. destruct k as [|k]; cbn in N.
    - inversion N; subst. cbn. split; [exact P1|]. destruct c; reflexivity.
    - cbn [Replay.canon]. apply IH; assumption.
  Qed.

  Lemma pool_get_in pool id p : pool_get pool id = Some p -> In p pool /\ ab_id p = id.
  Proof.
    induction pool as [|b r IH]; cbn; [discriminate|].
    destruct (ab_id b =? id) eqn:E.
    - intros H. inversion H; subst. apply Z.eqb_eq in E. auto.
    - intros H. destruct (IH H). auto.
  Qed.
  Lemma effective_genuine pool bs : Forall genuine pool -> (forall b, In b bs -> In b (chain_blocks ch)) ->
    effective pool bs = bs.
  Proof.
    intros G H. unfold effective. rewrite <- (map_id bs) at 2. apply map_ext_in. intros b Hb.
    destruct (pool_get pool (ab_id b)) as [p|] eqn:E; [|reflexivity].
    destruct (pool_get_in _ _ _ E) as [Ip Ep]. rewrite Forall_forall in G. apply (G p Ip b); auto.
  Qed.
  Lemma nth_blocks_in k m b : nth_error ch k = Some m -> In b (mb_blocks m) -> In b (chain_blocks ch).
  Proof.
    intros N Hb. unfold chain_blocks. apply in_flat_map. exists m. split; [eapply nth_error_In; eauto|exact Hb].
  Qed.

  (* a node in a canonical state accepts the producer's next momentum, whatever (genuine) blocks it has pooled *)
  Lemma apply_next n m : inv n -> nth_error ch (n_height state n) = Some m ->
    exists n', apply_m state exec patch_hash n m = Some n' /\ inv n' /\ n_height state n' = S (n_height state n).
  Proof.
    intros (HL & HS & HG) N. unfold apply_m.
    rewrite (effective_genuine _ _ HG) by (intros b Hb; eapply nth_blocks_in; eauto).
    destruct (produced_nth ch s0 _ m Hprod N) as [C1 C2].
    rewrite HS, <- C1, Z.eqb_refl. eexists. split; [reflexivity|]. split; [|reflexivity].
    assert (Hlt : (n_height state n < length ch)%nat) by (apply nth_error_Some; congruence).
    unfold inv. cbn [n_height n_store n_pool]. split; [lia|]. split; [symmetry; exact C2|exact HG].
  Qed.

  Lemma apply_batch_segment : forall len n idx, inv n ->
    let batch := firstn len (skipn (n_height state n) ch) in
    exists n', apply_batch state exec patch_hash n batch idx = (n', None) /\ inv n' /\
               n_height state n' = (n_height state n + length batch)%nat.
  Proof.
    induction len as [|len IH]; intros n idx I; cbn.
    - exists n. repeat split; try apply I; lia.
    - destruct (skipn (n_height state n) ch) as [|m r] eqn:E; cbn.
      + exists n. repeat split; try apply I; lia.
      + assert (N : nth_error ch (n_height state n) = Some m).
        { rewrite <- (firstn_skipn (n_height state n) ch) at 1. rewrite E.
          assert (L : length (firstn (n_height state n) ch) = n_height state n).
          { apply firstn_length_le. apply I. }
          rewrite nth_error_app2 by lia. rewrite L, Nat.sub_diag. reflexivity. }
        destruct (apply_next n m I N) as (n' & A & I' & H'). rewrite A.
        assert (R : skipn (n_height state n') ch = r).
        { rewrite H'. change (S (n_height state n)) with (1 + n_height state n)%nat.
          rewrite <- skipn_skipn', E. reflexivity. }
        specialize (IH n' (S idx) I'). cbn in IH. rewrite R in IH.
        destruct IH as (n'' & B & I'' & H''). exists n''. repeat split; try apply I''; auto. lia.
  Qed.

  Lemma step_inv n e : inv n -> ev_ok e ->
    inv (fst (step state exec patch_hash n e)) /\ (n_height state n <= n_height state (fst (step state exec patch_hash n e)))%nat.
  Proof.
    intros I OK. destruct e as [b|lo batch|]; cbn.
    - unfold gossip. destruct (pool_get (n_pool state n) (ab_id b)); [split; [exact I|lia]|].
      destruct I as (A & B & C). unfold inv. cbn [n_height n_store n_pool].
      split; [|lia]. split; [exact A|]. split; [exact B|]. constructor; [exact OK|exact C].
    - destruct OK as (len & ->). unfold deliver.
      destruct (n_height state n <? lo)%nat eqn:E; [cbn; split; [exact I|lia]|].
      apply Nat.ltb_ge in E.
      (* the unknown rest of the segment is itself a segment starting at the node's height *)
      assert (S : skipn (n_height state n - lo) (firstn len (skipn lo ch)) =
                  firstn (len - (n_height state n - lo)) (skipn (n_height state n) ch)).
      { rewrite skipn_firstn_comm, skipn_skipn'. f_equal. f_equal. lia. }
      rewrite S.
      destruct (apply_batch_segment (len - (n_height state n - lo)) n (n_height state n - lo) I) as (n' & A & I' & H').
      cbn in A. rewrite A. cbn. split; [exact I'|lia].
    - destruct I as (A & B & C). unfold inv. cbn [n_height n_store n_pool].
      split; [|lia]. split; [exact A|]. split; [exact B|constructor].
  Qed.

  Lemma run_inv es : forall n, inv n -> Forall ev_ok es -> inv (fst (run state exec patch_hash n es)).
  Proof.
    induction es as [|e r IH]; intros n I F; cbn; [exact I|].
    inversion F as [|? ? Fe Fr]; subst.
    destruct (step state exec patch_hash n e) as [n1 o] eqn:S.
    pose proof (step_inv n e I Fe) as [I1 _]. rewrite S in I1. cbn in I1.
    specialize (IH n1 I1 Fr).
    destruct (run state exec patch_hash n1 r) as [n2 os]. exact IH.
  Qed.

  Definition init : node := mkN state s0 0%nat [].
  Lemma init_inv : inv init.
  Proof. unfold inv, init. cbn. repeat split; [lia|destruct ch; reflexivity|constructor]. Qed.

  (* C02_replay_deterministic_partial: any two schedules of the same chain WITHOUT variant gossip (batch boundaries,
     re-deliveries, gossip of genuine blocks before or after, restarts) that got equally far hold the same store,
     hence answer every query alike; the store is the producer's own state at that height *)
  Theorem replay_deterministic es1 es2 :
    Forall ev_ok es1 -> Forall ev_ok es2 ->
    let n1 := fst (run state exec patch_hash init es1) in
    let n2 := fst (run state exec patch_hash init es2) in
    n_store state n1 = canon s0 ch (n_height state n1) /\
    (n_height state n1 = n_height state n2 ->
     n_store state n1 = n_store state n2 /\
     forall (Q A : Type) (query : state -> Q -> A) q, query (n_store state n1) q = query (n_store state n2) q).
  Proof.
    intros F1 F2 n1 n2.
    destruct (run_inv es1 init init_inv F1) as (_ & S1 & _).
    destruct (run_inv es2 init init_inv F2) as (_ & S2 & _).
    fold n1 in S1. fold n2 in S2. split; [exact S1|].
    intros H. assert (E : n_store state n1 = n_store state n2) by (rewrite S1, S2, H; reflexivity).
    split; [exact E|]. intros Q A query q. rewrite E. reflexivity.
  Qed.

  (* C02_producer_accepted_partial: a node reached by any such schedule accepts the producer's next momentum *)
  Theorem producer_accepted es m :
    Forall ev_ok es ->
    let n := fst (run state exec patch_hash init es) in
    nth_error ch (n_height state n) = Some m ->
    exists n', step state exec patch_hash n (Deliver (n_height state n) [m]) = (n', None) /\
               n_height state n' = S (n_height state n) /\
               n_store state n' = canon s0 ch (S (n_height state n)).
  Proof.
    intros F n N. pose proof (run_inv es init init_inv F) as I. fold n in I.
    destruct (apply_next n m I N) as (n' & A & I' & H').
    exists n'. cbn. unfold deliver. rewrite Nat.ltb_irrefl, Nat.sub_diag. cbn. rewrite A.
    repeat split; auto. destruct I' as (_ & S' & _). rewrite S', H'. reflexivity.
  Qed.
End ReplayProofs.

(* ------------------------------------------------------------------ F10: variant gossip breaks both *)
(* one momentum containing one user block (id 5, bytes outside the hash 9); a relay gossips id 5 with bytes 8 *)
Definition ex_chain : list mblock := [mkMB [mkAB 5 9] (c_patch_hash [] [mkAB 5 9])].
Definition ex_sched_plain : list event := [Deliver 0 ex_chain].
Definition ex_sched_variant : list event := [Gossip (mkAB 5 8); Deliver 0 ex_chain].

Theorem variant_refuted :
  produced c_state c_exec c_patch_hash [] ex_chain /\
  let r1 := run c_state c_exec c_patch_hash (mkN c_state [] 0%nat []) ex_sched_plain in
  let r2 := run c_state c_exec c_patch_hash (mkN c_state [] 0%nat []) ex_sched_variant in
  snd r1 = [None] /\ n_height c_state (fst r1) = 1%nat /\
  snd r2 = [None; Some 0%nat] /\                       (* the producer's momentum is refused *)
  n_store c_state (fst r1) <> n_store c_state (fst r2).  (* the two nodes do not hold the same ledger *)
Proof.
  split; [cbn; auto|]. vm_compute. repeat split; discriminate.
Qed.
