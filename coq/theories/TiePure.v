(* Entry points for validating the go2coq output against the original Go functions. *)
From ZV Require Import Prelude GoSem.
From ZV.gen Require Import Consts Pure.
Open Scope Z_scope.

Definition zz_eqb (a b : Z * Z) : bool := (fst a =? fst b) && (snd a =? snd b).
Definition bz_eqb (a b : bool * Z) : bool := Bool.eqb (fst a) (fst b) && (snd a =? snd b).
(* a panicking model run is rendered as an impossible output so that it shows up as a mismatch *)
Definition unres {A} (d : A) (r : res A) : A := match r with Ok a => a | Panic => d end.

Definition GetRange_run (i : Z * Z * Z) : Z * Z := let '(a, b, c) := i in GetRange a b c.
Definition DifficultyToPlasma_run (d : Z) : Z := DifficultyToPlasma d.
Definition GetDifficultyForPlasma_run (p : Z) : Z * Z := GetDifficultyForPlasma p.
Definition FussedAmountToPlasma_run (a : Z) : Z := FussedAmountToPlasma a.
Definition NetworkZnnRewardPerEpoch_run (e : Z) : Z := unres (-1) (NetworkZnnRewardPerEpoch e).
Definition NetworkQsrRewardPerEpoch_run (e : Z) : Z := unres (-1) (NetworkQsrRewardPerEpoch e).
Definition PillarRewardPerMomentum_run (e : Z) : Z * Z := unres (-1, -1) (PillarRewardPerMomentum e).
Definition SentinelRewardForEpoch_run (e : Z) : Z * Z := unres (-1, -1) (SentinelRewardForEpoch e).
Definition LiquidityRewardForEpoch_run (e : Z) : Z * Z := unres (-1, -1) (LiquidityRewardForEpoch e).
Definition StakeQsrRewardPerEpoch_run (e : Z) : Z := unres (-1) (StakeQsrRewardPerEpoch e).
Definition PillarGetRevokeStatus_run (i : Z * Z) : bool * Z := unres (false, -1) (PillarGetRevokeStatus (fst i) (snd i)).
Definition GetSentinelRevokeStatus_run (i : Z * Z) : bool * Z := unres (false, -1) (GetSentinelRevokeStatus (fst i) (snd i)).
