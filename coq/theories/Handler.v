(* C15 — executable model of protocol/handler.go handleMsg (decision and arithmetic after decoding), of the
   handshake checks of protocol/peer.go, and of the lookups they use:
   protocol/chain_bridge.go GetBlockHashesFromHash / GetBlock / GetBlockByNumber / CurrentBlock,
   chain/momentum/momentum.go GetMomentumsByHash / GetMomentumsByHeight (range model shared with C18: Paging.mom_store_range).
   The chain is abstracted to its heights 1..H; a peer-supplied hash is `Some height` if it names a momentum of the
   chain and `None` otherwise (the harness maps hashes to heights through the real store).
   Every place where the Go code dereferences a lookup result without a nil check is an explicit OPanic. *)
From ZV Require Import Prelude GoSem Paging.
From ZV.gen Require Import Consts.
Open Scope Z_scope.

(* IKnown h sz: the hash of the momentum at height h, which takes sz bytes inside a BlocksMsg *)
Inductive item := IKnown (h : Z) (sz : Z) | IUnknown | IGarbage.
Inductive req :=
| RStatus
| RGetHashes (h : option Z) (amount : Z)
| RGetHashesFromNumber (number amount : Z)
| RGetBlocks (hs : list item)
| RNoReply (code : Z)        (* well-formed BlockHashes / Blocks / NewBlockHashes / NewBlock / Tx: handed to downloader, fetcher, pool *)
| RUnknown (code : Z)
| RUndecodable (code : Z)    (* payload is not the RLP form of that code's message *)
| RBlocks (own : list bool). (* a BlocksMsg; per momentum: does it hash to the hash it states (height 1: to the genesis hash) *)
(* OBlocks l bytes: the momentums (heights) of the reply and the sum of their encoded sizes *)
Inductive outcome := OPanic | OErr (c : Z) | OHashes (l : list Z) | OBlocks (l : list Z) (bytes : Z) | ONoReply.

Definition ErrOther : Z := 99. (* an error that is not an errResp (raw rlp error) *)

(* store.GetMomentumByHeight *)
Definition by_height (H x : Z) : option Z := if exists_at H x then Some x else None.

(* momentumStore.GetMomentumsByHash(hash, higher=false, count); nilcheck = the code after fix 82e26aa *)
Definition momentums_by_hash (nilcheck : bool) (H : Z) (h : option Z) (count : Z) : res (list (option Z)) :=
  match h with
  | None => if nilcheck then Ok [] else Panic            (* momentum.Height on a nil momentum *)
  | Some ht =>
      match mom_store_range H ht false count with
      | Some l => Ok (map (fun x => if x =? 0 then None else Some x) l)
      | None => Panic                                    (* makeslice: cap out of range *)
      end
  end.

(* chainBridge.GetBlockHashesFromHash: hashes[i] = momentums[i].Hash *)
Fixpoint deref_all (l : list (option Z)) : res (list Z) :=
  match l with
  | [] => Ok []
  | None :: _ => Panic
  | Some x :: r => bind (deref_all r) (fun r' => Ok (x :: r'))
  end.
Definition hashes_from_hash (nilcheck : bool) (H : Z) (h : option Z) (amount : Z) : res (list Z) :=
  bind (momentums_by_hash nilcheck H h amount) deref_all.

Definition clamp (limit x : Z) : Z := if limit <? x then limit else x.

(* blocksMsgByteLimit = ProtocolMaxMsgSize - 16 (unexported constant of protocol/handler.go; fix 580df5c) *)
Definition blocks_byte_limit : Z := ProtocolMaxMsgSize - 16.

(* case GetBlocksMsg: gather blocks until the fetch limit or (bytecap) the byte limit is reached *)
Fixpoint gather_blocks (bytecap : bool) (H : Z) (items : list item) (n bytes : Z) (acc : list Z) : outcome :=
  match items with
  | [] => OBlocks (rev acc) bytes
  | IGarbage :: _ => OErr ErrDecode
  | IUnknown :: r => gather_blocks bytecap H r n bytes acc
  | IKnown h sz :: r =>
      match by_height H h with
      | None => gather_blocks bytecap H r n bytes acc
      | Some x =>
          if bytecap && (blocks_byte_limit <? bytes + sz) then OBlocks (rev acc) bytes
          else if MaxBlockFetch <=? n + 1 then OBlocks (rev (x :: acc)) (bytes + sz)
          else gather_blocks bytecap H r (n + 1) (bytes + sz) (x :: acc)
      end
  end.

Definition undecodable (code : Z) : outcome :=
  if code =? StatusMsg then OErr ErrExtraStatusMsg
  else if (code =? GetBlockHashesMsg) || (code =? GetBlockHashesFromNumberMsg) || (code =? NewBlockMsg) || (code =? TxMsg) then OErr ErrDecode
  else if (code =? BlockHashesMsg) || (code =? NewBlockHashesMsg) then ONoReply     (* `break`: swallowed *)
  else if (code =? GetBlocksMsg) || (code =? BlocksMsg) then OErr ErrOther
  else OErr ErrInvalidMsgCode.

(* nilcheck: fix of GetMomentumsByHash; shrink: fix of the recomputed amount in GetBlockHashesFromNumberMsg;
   bytecap: fix of the byte size of a BlocksMsg reply *)
Definition handle_gen (nilcheck shrink bytecap : bool) (H size : Z) (r : req) : outcome :=
  if ProtocolMaxMsgSize <? size then OErr ErrMsgTooLarge else
  match r with
  | RStatus => OErr ErrExtraStatusMsg
  | RGetHashes h amount =>
      match hashes_from_hash nilcheck H h (clamp MaxHashFetch amount) with
      | Ok l => OHashes l | Panic => OPanic
      end
  | RGetHashesFromNumber number amount =>
      let amount := clamp MaxHashFetch amount in
      let '(last, amount) :=
        match by_height H (u64 (number + amount - 1)) with
        | Some l => (l, amount)
        | None => (H, let available := u64 (H - number + 1) in
                      if shrink then (if available <? amount then available else amount) else available)
        end in
      if last <? number then OHashes []
      else match hashes_from_hash nilcheck H (by_height H last) amount with
           | Ok l => OHashes (rev l) | Panic => OPanic
           end
  | RGetBlocks items => gather_blocks bytecap H items 0 0 []
  | RNoReply _ => ONoReply
  | RUnknown _ => OErr ErrInvalidMsgCode
  | RUndecodable code => undecodable code
  | RBlocks own =>
      (* downloader and fetcher file a delivered momentum under its stated hash and height: a momentum that does not
         hash to it is a protocol error of the sender (fix d69e7b3), nothing of the message is delivered *)
      if forallb (fun b => b) own then ONoReply else OErr ErrDecode
  end.
Definition handle := handle_gen true true true.
(* before d69e7b3: every decodable BlocksMsg went to the fetcher filter and the downloader *)
Definition blocks_delivery_unchecked (own : list bool) : outcome := ONoReply.

(* peer.Handshake: checks on the first message of the remote side; -1 = established *)
Definition handshake (code size : Z) (decodes genesis_ok network_ok version_ok : bool) : Z :=
  if negb (code =? StatusMsg) then ErrNoStatusMsg
  else if ProtocolMaxMsgSize <? size then ErrMsgTooLarge
  else if negb decodes then ErrDecode
  else if negb genesis_ok then ErrGenesisBlockMismatch
  else if negb network_ok then ErrNetworkIdMismatch
  else if negb version_ok then ErrProtocolVersionMismatch
  else -1.

(* requests as a peer can form them: numbers are uint64, a known hash names a momentum of the chain *)
Definition wf_item (H : Z) (i : item) : Prop := match i with IKnown h sz => 1 <= h <= H /\ 0 <= sz | _ => True end.
Definition wf_req (H : Z) (r : req) : Prop :=
  match r with
  | RGetHashes h amount => in_u64 amount /\ match h with Some ht => 1 <= ht <= H | None => True end
  | RGetHashesFromNumber number amount => in_u64 number /\ in_u64 amount
  | RGetBlocks items => Forall (wf_item H) items
  | _ => True
  end.
