(* C10 — bridge unwrap requests.  Model of vm/embedded/implementation/bridge.go: UnwrapToken (registration of a request
   signed by the orchestrator's TSS key), Redeem (payout of a registered request after the redeem delay of its token
   pair) and RevokeUnwrapRequest (administrator).  Storage (definition/bridge.go): the bridgeInfo variable
   (administrator, TSS key present, halted flag, unhalt height and duration), the number of guardians of the security
   info, "orchestrator info initialised", the networks with their token pairs (key = class ++ chain id, 4 bytes big
   endian each) and the table of unwrap requests keyed by transaction hash ++ log index (4 bytes big endian).
   Same conventions as Emb.v.  Inputs that are not modelled: the ECDSA check of the request against the TSS key
   ([sigcheck]: the error of GetUnwrapTokenRequestMessage + CheckECDSASignature as observed, 0 = valid), the bech32
   string of a token standard ([zstr]). *)
From ZV Require Import Prelude GoSem Abi VmReceive Emb LockEnv.
From ZV.gen Require Import Consts.
Open Scope Z_scope.

Definition E_unknown_network := 27.           (* constants.ErrUnknownNetwork *)
Definition E_invalid_to_address := 28.        (* ErrInvalidToAddress *)
Definition E_bridge_not_initialized := 29.
Definition E_orchestrator_not_initialized := 30.
Definition E_token_not_redeemable := 31.
Definition E_bridge_halted := 32.
Definition E_invalid_redeem_period := 33.
Definition E_invalid_redeem_request := 34.
Definition E_invalid_transaction_hash := 35.
Definition E_token_not_found := 36.
Definition E_invalid_ecdsa_signature := 37.
Definition E_security_not_initialized := 38.

Record unwrap := { u_reg : Z; u_class : Z; u_chain : Z; u_to : bytes; u_tokaddr : bytes; u_zts : bytes; u_amount : Z;
                   u_sig : bytes; u_redeemed : Z; u_revoked : Z }.
Record tpair := { tp_zts : bytes; tp_addr : bytes; tp_bridgeable : bool; tp_redeemable : bool; tp_owned : bool;
                  tp_min : Z; tp_fee : Z; tp_delay : Z }.
Record network := { nw_name : bytes; nw_pairs : list tpair }.
Record bstore := { b_admin : bytes; b_tss_set : bool; b_halted : bool; b_unhalted_at : Z; b_unhalt_dur : Z;
                   b_guardians : Z; b_orch_ok : bool; b_networks : tab network; b_unwraps : tab unwrap }.
Definition set_unwraps (st : bstore) (t : tab unwrap) : bstore :=
  {| b_admin := b_admin st; b_tss_set := b_tss_set st; b_halted := b_halted st; b_unhalted_at := b_unhalted_at st;
     b_unhalt_dur := b_unhalt_dur st; b_guardians := b_guardians st; b_orch_ok := b_orch_ok st; b_networks := b_networks st;
     b_unwraps := t |}.

Definition zero_address : bytes := repeat 0 20.
Definition net_key (class chain : Z) : bytes := be_bytes 4 class ++ be_bytes 4 chain.
Definition unwrap_key (tx : bytes) (log : Z) : bytes := tx ++ be_bytes 4 log.

(* go-ethereum common.IsHexAddress: optional 0x / 0X prefix, then exactly 40 hex digits *)
Definition is_hex_digit (b : Z) : bool := ((48 <=? b) && (b <=? 57)) || ((97 <=? b) && (b <=? 102)) || ((65 <=? b) && (b <=? 70)).
Definition strip_0x (s : bytes) : bytes :=
  match s with 48 :: x :: r => if (x =? 120) || (x =? 88) then r else s | _ => s end.
Definition is_hex_address (s : bytes) : bool := let r := strip_0x s in (len r =? 40) && forallb is_hex_digit r.
(* strings.ToLower on ASCII *)
Definition to_lower (s : bytes) : bytes := map (fun b => if (65 <=? b) && (b <=? 90) then b + 32 else b) s.

(* Token.Mint(tokenStandard, amount, receiveAddress) as packed by the abi: three 32-byte words *)
Definition mint_data (z : bytes) (amt : Z) (to : bytes) : bytes :=
  Sel_token_Mint ++ repeat 0 22 ++ z ++ be_bytes 32 amt ++ repeat 0 12 ++ to.

Section BridgeC.
  Variable zstr : bytes -> bytes.              (* types.ZenonTokenStandard.String() *)
  Variable sigcheck : VmReceive.send -> Z.     (* 0: the TSS signature of the request carried by this send is valid; else the error code *)
  Notation acct := (cacct bstore).
  Notation send := VmReceive.send.

  (* CanPerformAction: bridge initialised, security initialised, not halted, orchestrator initialised - in this order *)
  Definition can_perform (st : bstore) (height : Z) : option Z :=
    if negb (b_tss_set st) || bytes_eqb (b_admin st) zero_address then Some E_bridge_not_initialized else
    if b_guardians st <? BridgeMinGuardians then Some E_security_not_initialized else
    if b_halted st then Some E_bridge_halted else
    if height <=? u64 (b_unhalted_at st + b_unhalt_dur st) then Some E_bridge_halted else
    if negb (b_orch_ok st) then Some E_orchestrator_not_initialized else None.

  Definition get_network (st : bstore) (class chain : Z) : option network :=
    match tget (b_networks st) (net_key class chain) with
    | Some nw => if len (nw_name nw) =? 0 then None else Some nw
    | None => None
    end.

  (* ---------------- UnwrapToken *)
  Definition unwrap_validate (s : send) : vres (Z * Z * bytes * Z * bytes * bytes * Z * bytes) :=
    match unpack_args Sel_bridge_UnwrapToken [TUint 32; TUint 32; THash; TUint 32; TAddress; TString; TUint 256; TString] (s_data s) with
    | VOk [VInt class; VInt chain; VBytes tx; VInt log; VBytes to; VBytes tokaddr; VInt amount; VBytes sig] =>
      if negb (is_hex_address tokaddr) then VErr E_invalid_to_address else
      if amount <=? 0 then VErr E_token_or_amount else
      if negb (s_amount s =? 0) then VErr E_token_or_amount else VOk (class, chain, tx, log, to, tokaddr, amount, sig)
    | VOk _ => VPanic
    | VErr c => VErr c | VPanic => VPanic
    end.
  (* CheckNetworkAndPairExist: the first pair whose token standard STRING or token address equals the argument *)
  Definition find_pair_unwrap (ps : list tpair) (x : bytes) : option tpair :=
    find (fun p => bytes_eqb x (zstr (tp_zts p)) || bytes_eqb x (tp_addr p)) ps.
  Definition unwrap_receive (e : env) (a : acct) (s : send) : mres bstore :=
    match unwrap_validate s with
    | VErr c => MErr c | VPanic => MPanic
    | VOk _ =>
      let st := a_store a in
      match can_perform st (e_height e) with
      | Some c => MErr c
      | None =>
        match unwrap_validate s with
        | VOk (class, chain, tx, log, to, tokaddr, amount, sig) =>
          match tget (b_unwraps st) (unwrap_key tx log) with
          | Some _ => MErr E_invalid_transaction_hash          (* a request with this (txHash, logIndex) exists *)
          | None =>
            match get_network st class chain with
            | None => MErr E_unknown_network
            | Some nw =>
              match find_pair_unwrap (nw_pairs nw) (to_lower tokaddr) with
              | None => MErr E_token_not_found
              | Some p =>
                if negb (tp_redeemable p) then MErr E_token_not_redeemable else
                if negb (sigcheck s =? 0) then MErr (sigcheck s) else
                let req := {| u_reg := e_height e; u_class := class; u_chain := chain; u_to := to; u_tokaddr := to_lower tokaddr;
                              u_zts := tp_zts p; u_amount := amount; u_sig := sig; u_redeemed := 0; u_revoked := 0 |} in
                MOk (with_store a (set_unwraps st (tput (b_unwraps st) (unwrap_key tx log) req))) []
              end
            end
          end
        | VErr c => MErr c
        | VPanic => MPanic
        end
      end
    end.

  (* ---------------- Redeem *)
  Definition redeem_validate (s : send) : vres (bytes * Z) :=
    match unpack_args Sel_bridge_Redeem [THash; TUint 32] (s_data s) with
    | VOk [VBytes tx; VInt log] => if negb (s_amount s =? 0) then VErr E_token_or_amount else VOk (tx, log)
    | VOk _ => VPanic
    | VErr c => VErr c | VPanic => VPanic
    end.
  Definition find_pair_redeem (ps : list tpair) (req : unwrap) : option tpair :=
    find (fun p => bytes_eqb (u_zts req) (tp_zts p) || bytes_eqb (u_tokaddr req) (tp_addr p)) ps.
  Definition redeemed_of (r : unwrap) : unwrap :=
    {| u_reg := u_reg r; u_class := u_class r; u_chain := u_chain r; u_to := u_to r; u_tokaddr := u_tokaddr r; u_zts := u_zts r;
       u_amount := u_amount r; u_sig := u_sig r; u_redeemed := 1; u_revoked := u_revoked r |}.
  Definition redeem_receive (e : env) (a : acct) (s : send) : mres bstore :=
    match redeem_validate s with
    | VErr c => MErr c | VPanic => MPanic
    | VOk _ =>
      match redeem_validate s with
      | VOk (tx, log) =>
        let st := a_store a in
        match can_perform st (e_height e) with
        | Some c => MErr c
        | None =>
          match tget (b_unwraps st) (unwrap_key tx log) with
          | None => MErr E_nonexistent
          | Some req =>
            if (0 <? u_redeemed req) || (0 <? u_revoked req) then MErr E_invalid_redeem_request else
            match get_network st (u_class req) (u_chain req) with
            | None => MErr E_unknown_network
            | Some nw =>
              match find_pair_redeem (nw_pairs nw) req with
              | None => MErr E_token_not_found
              | Some p =>
                (* momentum.Height - request.RegistrationMomentumHeight < uint64(RedeemDelay), on uint64 *)
                if u64 (e_height e - u_reg req) <? tp_delay p then MErr E_invalid_redeem_period else
                let a' := with_store a (set_unwraps st (tput (b_unwraps st) (unwrap_key tx log) (redeemed_of req))) in
                if tp_owned p then
                  MOk a' [{| d_to := AddrTokenContract; d_amount := 0; d_zts := tp_zts p; d_data := mint_data (tp_zts p) (u_amount req) (u_to req) |}]
                else if bal_get (a_bal a) (tp_zts p) <? u_amount req then MErr E_insufficient_balance
                else MOk a' [{| d_to := u_to req; d_amount := u_amount req; d_zts := tp_zts p; d_data := [] |}]
              end
            end
          end
        end
      | VErr c => MErr c
      | VPanic => MPanic
      end
    end.

  (* ---------------- RevokeUnwrapRequest *)
  Definition revoke_validate (s : send) : vres (bytes * Z) :=
    match unpack_args Sel_bridge_RevokeUnwrapRequest [THash; TUint 32] (s_data s) with
    | VOk [VBytes tx; VInt log] => if negb (s_amount s =? 0) then VErr E_token_or_amount else VOk (tx, log)
    | VOk _ => VPanic
    | VErr c => VErr c | VPanic => VPanic
    end.
  Definition revoked_of (r : unwrap) : unwrap :=
    {| u_reg := u_reg r; u_class := u_class r; u_chain := u_chain r; u_to := u_to r; u_tokaddr := u_tokaddr r; u_zts := u_zts r;
       u_amount := u_amount r; u_sig := u_sig r; u_redeemed := u_redeemed r; u_revoked := 1 |}.
  Definition revoke_receive (a : acct) (s : send) : mres bstore :=
    match revoke_validate s with
    | VErr c => MErr c | VPanic => MPanic
    | VOk _ =>
      match revoke_validate s with
      | VOk (tx, log) =>
        let st := a_store a in
        match tget (b_unwraps st) (unwrap_key tx log) with
        | None => MErr E_nonexistent
        | Some req =>
          if negb (bytes_eqb (s_from s) (b_admin st)) then MErr E_permission else
          MOk (with_store a (set_unwraps st (tput (b_unwraps st) (unwrap_key tx log) (revoked_of req)))) []
        end
      | VErr c => MErr c
      | VPanic => MPanic
      end
    end.
End BridgeC.
