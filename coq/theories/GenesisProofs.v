(* Proofs about Genesis.v *)
From Coq Require Import Permutation Sorted.
From ZV Require Import Prelude PoWProofs Block BlockProofs Genesis.
Open Scope Z_scope.
Ltac Zify.zify_post_hook ::= Z.div_mod_to_equations.

Lemma bytes_eqb_refl a : bytes_eqb a a = true.
Proof. apply bytes_eqb_eq. reflexivity. Qed.
Lemma bytes_eqb_neq a b : a <> b -> bytes_eqb a b = false.
Proof. intros Hn. destruct (bytes_eqb a b) eqn:E; auto. apply bytes_eqb_eq in E. contradiction. Qed.
Lemma bytes_eqb_false a b : bytes_eqb a b = false -> a <> b.
Proof. intros E ->. rewrite bytes_eqb_refl in E. discriminate. Qed.
Lemma bytes_eqb_sym a b : bytes_eqb a b = bytes_eqb b a.
Proof.
  destruct (bytes_eqb a b) eqn:E.
  - apply bytes_eqb_eq in E. subst. symmetry. apply bytes_eqb_refl.
  - symmetry. apply bytes_eqb_neq. intros ->. rewrite bytes_eqb_refl in E. discriminate.
Qed.

(* ---------------------------------------------------------------- the store: sorted, last write wins *)
Definition kle (x y : kv) : Prop := key_le (fun e : kv => fst e) x y.

Lemma put_perm k v m : ~ In k (map fst m) -> Permutation (put k v m) ((k, v) :: m).
Proof.
  induction m as [|[k' v'] m IH]; intros Hn; cbn [put]; auto.
  cbn [map fst In] in Hn.
  rewrite bytes_eqb_neq by (intros ->; apply Hn; auto).
  destruct (bytes_leb k k'); auto.
  rewrite IH by (intros Hi; apply Hn; auto). apply perm_swap.
Qed.
Lemma put_sorted k v m : StronglySorted kle m -> StronglySorted kle (put k v m).
Proof.
  induction 1 as [|[k' v'] m Hs IH Hm]; cbn [put].
  - repeat constructor.
  - destruct (bytes_eqb k k') eqn:Ee.
    + apply bytes_eqb_eq in Ee. subst k'. constructor; auto.
    + destruct (bytes_leb k k') eqn:El.
      * constructor; [constructor; auto|]. constructor; [exact El|].
        eapply Forall_impl; [|exact Hm]. intros z Hz. unfold kle, key_le in *. cbn [fst] in *.
        eapply bytes_leb_trans; eauto.
      * constructor; auto.
        assert (Hk : bytes_leb k' k = true) by (destruct (bytes_leb_total k k'); congruence).
        (* every element of put k v m is (k,v) or an element of m *)
        clear IH. induction m as [|[k2 v2] m IHm]; cbn [put].
        -- constructor; [exact Hk|constructor].
        -- inversion Hm as [|? ? H2 Hm']; subst. inversion Hs; subst.
           destruct (bytes_eqb k k2); [constructor; [exact Hk|exact Hm']|].
           destruct (bytes_leb k k2); [constructor; [exact Hk|constructor; auto]|].
           constructor; [exact H2|]. apply IHm; auto.
Qed.

Lemma norm_acc w : forall acc, StronglySorted kle acc -> NoDup (map fst (acc ++ w)) ->
  StronglySorted kle (fold_left (fun m e => put (fst e) (snd e) m) w acc) /\
  Permutation (fold_left (fun m e => put (fst e) (snd e) m) w acc) (acc ++ w).
Proof.
  induction w as [|[k v] w IH]; intros acc Hs Hn; cbn [fold_left].
  - rewrite app_nil_r. auto.
  - cbn [fst snd].
    assert (Hk : ~ In k (map fst acc)).
    { rewrite map_app in Hn. cbn [map fst] in Hn. apply NoDup_remove_2 in Hn.
      intros Hi. apply Hn. apply in_or_app. left. exact Hi. }
    pose proof (put_perm k v acc Hk) as Hp.
    destruct (IH (put k v acc)) as [S P].
    + apply put_sorted. exact Hs.
    + eapply Permutation_NoDup; [|exact Hn]. rewrite !map_app. cbn [map fst].
      rewrite (Permutation_map fst Hp). cbn [map fst].
      symmetry. apply Permutation_middle.
    + split; [exact S|]. rewrite P, Hp. cbn [app]. apply Permutation_middle.
Qed.
Lemma norm_sorted_perm w : NoDup (map fst w) -> StronglySorted kle (norm w) /\ Permutation (norm w) w.
Proof. intros Hn. apply (norm_acc w []); [constructor | exact Hn]. Qed.

(* the patch of an account does not depend on the order of its writes, when the written keys are distinct *)
Theorem norm_perm_invariant w w' : NoDup (map fst w) -> Permutation w w' -> norm w = norm w'.
Proof.
  intros Hn P.
  assert (Hn' : NoDup (map fst w')) by (eapply Permutation_NoDup; [apply Permutation_map; exact P | exact Hn]).
  destruct (norm_sorted_perm w Hn) as [S1 P1]. destruct (norm_sorted_perm w' Hn') as [S2 P2].
  apply (sorted_perm_unique (fun e : kv => fst e)); auto.
  - intros x y Hx Hy E. apply (Permutation_in _ P1) in Hx. apply (Permutation_in _ P1) in Hy.
    destruct x as [kx vx], y as [ky vy]. cbn [fst] in E. subst ky. f_equal.
    clear - Hn Hx Hy. induction w as [|[k v] w IH]; [destruct Hx|].
    cbn [map fst] in Hn. inversion Hn as [|? ? Hni Hn']; subst.
    destruct Hx as [Hx|Hx], Hy as [Hy|Hy].
    + congruence.
    + injection Hx as -> ->. exfalso. apply Hni. apply (in_map fst) in Hy. exact Hy.
    + injection Hy as -> ->. exfalso. apply Hni. apply (in_map fst) in Hx. exact Hx.
    + apply IH; auto.
  - rewrite P1, P2. exact P.
Qed.
(* and with a repeated key the order matters (the later write wins) *)
Lemma norm_order_matters : exists w w', Permutation w w' /\ norm w <> norm w'.
Proof. exists [([1], [1]); ([1], [2])], [([1], [2]); ([1], [1])]. split; [apply perm_swap | vm_compute; discriminate]. Qed.

(* ---------------------------------------------------------------- accounts *)
Definition ga_wf (a : GAccount) : Prop := length (ga_addr a) = 20%nat /\ length (ga_hash a) = 32%nat.
Definition entries_distinct (l : list GAccount) : Prop :=
  NoDup (map ga_addr l) /\ Forall (fun a => NoDup (map fst (concat (ga_entries a)))) l /\ Forall ga_wf l.
(* same account, entries (or their writes) in another order *)
Definition acc_equiv (a a' : GAccount) : Prop :=
  ga_addr a = ga_addr a' /\ ga_hash a = ga_hash a' /\ Permutation (concat (ga_entries a)) (concat (ga_entries a')).
Definition cfg_perm (l l' : list GAccount) : Prop := exists m, Permutation l m /\ Forall2 acc_equiv m l'.

Lemma dedup_nodup l : forall seen, NoDup (map ga_addr l) -> (forall a, In a l -> ~ In (ga_addr a) seen) ->
  dedup_addr seen l = l.
Proof.
  induction l as [|a l IH]; intros seen Hn Hs; [reflexivity|]. cbn [dedup_addr].
  cbn [map] in Hn. inversion Hn as [|? ? Hni Hn']; subst.
  assert (E : existsb (bytes_eqb (ga_addr a)) seen = false).
  { destruct (existsb _ seen) eqn:E; auto. apply existsb_exists in E as (x & Hx & Ex).
    apply bytes_eqb_eq in Ex. subst x. exfalso. apply (Hs a); [left; reflexivity|exact Hx]. }
  rewrite E. f_equal. apply IH; auto.
  intros b Hb [Hi|Hi].
  - apply Hni. rewrite Hi. apply in_map. exact Hb.
  - apply (Hs b); [right; exact Hb|exact Hi].
Qed.

Definition blk (a : GAccount) : AHeader * list kv := (ga_header a, ga_patch a).

Lemma blk_equiv a a' : NoDup (map fst (concat (ga_entries a))) -> acc_equiv a a' -> blk a = blk a'.
Proof.
  intros Hn (Ea & Eh & P). unfold blk, ga_header, ga_patch. rewrite Ea, Eh. f_equal.
  apply norm_perm_invariant; auto.
Qed.

Lemma header_key_inj a b : ga_wf a -> ga_wf b ->
  aheader_bytes (ga_header a) = aheader_bytes (ga_header b) -> ga_addr a = ga_addr b.
Proof.
  intros [La Ha] [Lb Hb] E. unfold aheader_bytes, ga_header in E. cbn [ah_addr ah_height ah_hash] in E.
  apply app_inj_length in E as [E _]; [exact E | congruence].
Qed.

(* the sorted content with its patches does not depend on the order of accounts, entries or writes *)
Theorem genesis_perm_invariant l l' :
  entries_distinct l -> cfg_perm l l' -> genesis_blocks l = genesis_blocks l'.
Proof.
  intros (Hn & Hk & Hw) (m & P & F). unfold genesis_blocks.
  assert (Hnm : NoDup (map ga_addr m)) by (eapply Permutation_NoDup; [apply Permutation_map; exact P|exact Hn]).
  assert (Em : map ga_addr m = map ga_addr l').
  { clear - F. induction F as [|a a' m l' (Ea & _) _ IH]; cbn; [reflexivity|]. rewrite Ea, IH. reflexivity. }
  assert (Hnl' : NoDup (map ga_addr l')) by (rewrite <- Em; exact Hnm).
  rewrite (dedup_nodup l), (dedup_nodup l') by (auto; intros ? ? []).
  assert (Hkm : Forall (fun a => NoDup (map fst (concat (ga_entries a)))) m).
  { apply Forall_forall. intros a Ha. rewrite Forall_forall in Hk. apply Hk. eapply Permutation_in; [symmetry; exact P|exact Ha]. }
  assert (E : map blk m = map blk l').
  { clear - F Hkm. induction F as [|a a' m l' Haa _ IH]; [reflexivity|]. inversion Hkm; subst.
    cbn [map]. rewrite (blk_equiv a a') by auto. f_equal. apply IH. auto. }
  change (fun a => (ga_header a, ga_patch a)) with blk. rewrite <- E.
  apply sort_by_perm_invariant; [|apply Permutation_map; exact P].
  intros x y Hx Hy Ekey. apply in_map_iff in Hx as (a & <- & Ha). apply in_map_iff in Hy as (b & <- & Hb).
  cbn [fst blk] in Ekey. rewrite Forall_forall in Hw.
  apply header_key_inj in Ekey; [|apply Hw; auto|apply Hw; auto].
  (* same address in a duplicate-free list: same account *)
  clear - Hn Ha Hb Ekey. induction l as [|c l IH]; [destruct Ha|].
  cbn [map] in Hn. inversion Hn as [|? ? Hni Hn']; subst.
  destruct Ha as [Ha|Ha], Hb as [Hb|Hb]; subst.
  - reflexivity.
  - exfalso. apply Hni. rewrite Ekey. apply in_map. exact Hb.
  - exfalso. apply Hni. rewrite <- Ekey. apply in_map. exact Ha.
  - apply IH; auto.
Qed.

(* ---------------------------------------------------------------- validators *)
Definition find_block (blocks : list GBlock) (addr : bytes) : option GBlock :=
  find (fun b => bytes_eqb (gb_addr b) addr) blocks.

Lemma nodup_b_NoDup l : nodup_b l = true -> NoDup l.
Proof.
  induction l as [|x l IH]; cbn [nodup_b]; [constructor|]. rewrite andb_true_iff, negb_true_iff.
  intros [Hx Hl]. constructor; [|apply IH; exact Hl].
  intros Hi. assert (existsb (bytes_eqb x) l = true); [|congruence].
  apply existsb_exists. exists x. split; [exact Hi|apply bytes_eqb_refl].
Qed.

Lemma state_balance_acc blocks addr z : forall acc,
  ~ In addr (map gb_addr blocks) ->
  fold_left (fun acc b => if bytes_eqb (gb_addr b) addr
                          then match lookup z (gb_bal b) with Some v => v | None => acc end else acc) blocks acc = acc.
Proof.
  induction blocks as [|b blocks IH]; intros acc Hn; [reflexivity|]. cbn [fold_left].
  cbn [map In] in Hn. rewrite bytes_eqb_neq by (intros E; apply Hn; auto). apply IH. intros Hi; apply Hn; auto.
Qed.
(* with one entry per address the state balance is the listed balance (0 when not listed) *)
Lemma state_balance_fold blocks b z : NoDup (map gb_addr blocks) -> In b blocks -> forall acc,
  fold_left (fun acc c => if bytes_eqb (gb_addr c) (gb_addr b)
                          then match lookup z (gb_bal c) with Some v => v | None => acc end else acc) blocks acc =
  match lookup z (gb_bal b) with Some v => v | None => acc end.
Proof.
  induction blocks as [|c blocks IH]; intros Hn Hi acc; [destruct Hi|]. cbn [fold_left].
  cbn [map] in Hn. inversion Hn as [|? ? Hni Hn']; subst. destruct Hi as [->|Hi].
  - rewrite bytes_eqb_refl. rewrite state_balance_acc by exact Hni. reflexivity.
  - rewrite bytes_eqb_neq by (intros E; apply Hni; rewrite E; apply in_map; exact Hi). apply IH; auto.
Qed.
Lemma state_balance_nodup blocks b z : NoDup (map gb_addr blocks) -> In b blocks ->
  state_balance blocks (gb_addr b) z = bal_of z b.
Proof. intros Hn Hi. unfold state_balance, bal_of. apply state_balance_fold; auto. Qed.
Lemma state_balance_absent blocks addr z : ~ In addr (map gb_addr blocks) -> state_balance blocks addr z = 0.
Proof. intros Hn. unfold state_balance. apply state_balance_acc. exact Hn. Qed.

(* sum of the state balances over the accounts = what the validator sums *)
Lemma total_state blocks z : NoDup (map gb_addr blocks) ->
  sumZ (map (fun b => state_balance blocks (gb_addr b) z) blocks) = given_total blocks z.
Proof.
  intros Hn. unfold given_total. f_equal. apply map_ext_in. intros b Hb. apply state_balance_nodup; auto.
Qed.

Lemma filter_mine_nil blocks addr :
  filter (fun b => bytes_eqb (gb_addr b) addr) blocks = [] -> ~ In addr (map gb_addr blocks).
Proof.
  induction blocks as [|c blocks IH]; cbn [filter map In]; [tauto|].
  destruct (bytes_eqb (gb_addr c) addr) eqn:E; [discriminate|]. intros Hf [Hi|Hi].
  - subst. rewrite bytes_eqb_refl in E. discriminate.
  - apply IH; auto.
Qed.

(* checkAccountBalance (fixed) with a single required token: the state balance of that token is the required amount *)
Lemma cab_single blocks addr z r : NoDup (map gb_addr blocks) ->
  check_account_balance true blocks addr [(z, r)] = true -> state_balance blocks addr z = r.
Proof.
  intros Hn. unfold check_account_balance. rewrite andb_true_iff. cbn [negb orb]. intros [Hall Hstrict].
  destruct (filter (fun b => bytes_eqb (gb_addr b) addr) blocks) as [|b mine] eqn:Ef.
  - cbn [is_nil_b negb orb forallb snd] in Hstrict. rewrite andb_true_r in Hstrict.
    rewrite state_balance_absent by (apply filter_mine_nil; exact Ef). lia.
  - assert (Hb : In b blocks /\ bytes_eqb (gb_addr b) addr = true).
    { apply (proj1 (filter_In (fun b => bytes_eqb (gb_addr b) addr) b blocks)). rewrite Ef. left. reflexivity. }
    destruct Hb as [Hb Ea]. apply bytes_eqb_eq in Ea. subst addr.
    rewrite state_balance_nodup by auto. cbn [forallb] in Hall. rewrite andb_true_iff in Hall. destruct Hall as [He _].
    unfold entry_ok in He. rewrite andb_true_iff in He. destruct He as [H1 H2].
    cbn [forallb fst snd] in H2. rewrite andb_true_r in H2. unfold bal_of.
    destruct (lookup z (gb_bal b)) as [v|] eqn:El; [|lia].
    (* the listed amount is checked against the required one *)
    clear H2. revert El H1. generalize (gb_bal b). intros l. induction l as [|[k a] l IH]; cbn [lookup forallb]; [discriminate|].
    destruct (bytes_eqb z k) eqn:Ek.
    + intros E. injection E as ->. rewrite andb_true_iff. intros [Hh _]. cbn [fst snd lookup] in Hh.
      apply bytes_eqb_eq in Ek. subst k. rewrite bytes_eqb_refl in Hh. lia.
    + intros E. rewrite andb_true_iff. intros [_ Ht]. apply IH; auto.
Qed.
(* two required tokens, both zero (swap contract) *)
Lemma cab_zero blocks addr z1 z2 z : NoDup (map gb_addr blocks) ->
  check_account_balance true blocks addr [(z1, 0); (z2, 0)] = true -> state_balance blocks addr z = 0.
Proof.
  intros Hn. unfold check_account_balance. rewrite andb_true_iff. intros [Hall _].
  destruct (filter (fun b => bytes_eqb (gb_addr b) addr) blocks) as [|b mine] eqn:Ef.
  - apply state_balance_absent. apply filter_mine_nil. exact Ef.
  - assert (Hb : In b blocks /\ bytes_eqb (gb_addr b) addr = true).
    { apply (proj1 (filter_In (fun b => bytes_eqb (gb_addr b) addr) b blocks)). rewrite Ef. left. reflexivity. }
    destruct Hb as [Hb Ea]. apply bytes_eqb_eq in Ea. subst addr.
    rewrite state_balance_nodup by auto. cbn [forallb] in Hall. rewrite andb_true_iff in Hall. destruct Hall as [He _].
    unfold entry_ok in He. rewrite andb_true_iff in He. destruct He as [H1 _]. unfold bal_of.
    destruct (lookup z (gb_bal b)) as [v|] eqn:El; [|reflexivity].
    revert El H1. generalize (gb_bal b). intros l. induction l as [|[k a] l IH]; cbn [lookup forallb]; [discriminate|].
    destruct (bytes_eqb z k) eqn:Ek.
    + intros E. injection E as ->. rewrite andb_true_iff. intros [Hh _]. cbn [fst snd lookup] in Hh.
      destruct (bytes_eqb k z1); [lia|]. destruct (bytes_eqb k z2); [lia|discriminate].
    + intros E. rewrite andb_true_iff. intros [_ Ht]. apply IH; auto.
Qed.

Definition fusion_total (fusions : list (option Z)) : Z :=
  sumZ (map (fun f => match f with Some a => a | None => 0 end) fusions).

(* CheckGenesis (after the two fixes) accepts only configurations whose genesis STATE adds up *)
Theorem check_genesis_sound c : check_genesis c = true ->
  exists blocks tokens pillars fusions swap,
    c_blocks c = Some blocks /\ c_tokens c = Some tokens /\ c_pillars c = Some pillars /\
    c_fusions c = Some fusions /\ c_swap c = Some swap /\ c_spork_addr c = true /\
    NoDup (map gb_addr blocks) /\
    (forall z supply, In (z, supply) tokens ->
       sumZ (map (fun b => state_balance blocks (gb_addr b) z) blocks) = supply) /\
    (forall b z a, In b blocks -> In (z, a) (gb_bal b) -> exists s, In (z, s) tokens) /\
    state_balance blocks plasma_addr qsr_zts = fusion_total fusions /\
    state_balance blocks pillar_addr znn_zts = sumZ pillars /\
    (forall z, state_balance blocks swap_addr z = 0).
Proof.
  unfold check_genesis, check_genesis_gen.
  destruct (c_blocks c) as [blocks|]; [|discriminate]. destruct (c_tokens c) as [tokens|]; [|discriminate].
  destruct (c_pillars c) as [pillars|]; [|discriminate]. destruct (c_fusions c) as [fusions|]; [|discriminate].
  destruct (c_swap c) as [swap|]; [|discriminate].
  rewrite !andb_true_iff. intros [[[[Hsp Hpl] Hsw] Hpi] Hsu].
  exists blocks, tokens, pillars, fusions, swap. repeat split; auto.
  all: unfold check_supply in Hsu; cbn [negb orb] in Hsu; rewrite !andb_true_iff in Hsu;
       destruct Hsu as [[Hnd Htok] Hdecl]; apply nodup_b_NoDup in Hnd.
  - exact Hnd.
  - intros z supply Hi. rewrite total_state by exact Hnd.
    rewrite forallb_forall in Htok. specialize (Htok _ Hi). cbn [fst snd] in Htok.
    rewrite andb_true_iff in Htok. lia.
  - intros b z a Hb Hz. rewrite forallb_forall in Hdecl. specialize (Hdecl _ Hb).
    rewrite forallb_forall in Hdecl. specialize (Hdecl _ Hz). cbn [fst] in Hdecl.
    apply existsb_exists in Hdecl as ([z' s] & Hi & Ez). cbn [fst] in Ez. apply bytes_eqb_eq in Ez. subst z'.
    exists s. exact Hi.
  - unfold check_plasma in Hpl. rewrite andb_true_iff in Hpl. destruct Hpl as [_ Hpl].
    apply cab_single in Hpl; auto.
  - unfold check_pillar in Hpi. apply cab_single in Hpi; auto.
  - intros z. unfold check_swap in Hsw. rewrite andb_true_iff in Hsw. destruct Hsw as [_ Hsw].
    eapply cab_zero; eauto.
Qed.

(* the code before the fixes accepted both classes (witnesses) *)
Definition ex_user : bytes := 0 :: repeat 7 19.
Definition cfg_no_entry : Config :=
  mkCfg true (Some []) (Some [(qsr_zts, 5)]) (Some [Some 100]) (Some []) (Some [mkGB ex_user [(qsr_zts, 5)]]).
Lemma old_no_entry_refuted :
  (check_genesis_old cfg_no_entry = true) /\ (check_genesis cfg_no_entry = false) /\
  (fusion_total [Some 100] = 100) /\ (state_balance [mkGB ex_user [(qsr_zts, 5)]] plasma_addr qsr_zts = 0).
Proof. vm_compute. auto. Qed.
Definition cfg_dup : Config :=
  mkCfg true (Some []) (Some [(znn_zts, 12)]) (Some []) (Some [])
        (Some [mkGB ex_user [(znn_zts, 5)]; mkGB ex_user [(znn_zts, 7)]]).
Lemma old_duplicate_refuted :
  (check_genesis_old cfg_dup = true) /\ (check_genesis cfg_dup = false) /\
  (state_balance [mkGB ex_user [(znn_zts, 5)]; mkGB ex_user [(znn_zts, 7)]] ex_user znn_zts = 7).
Proof. vm_compute. auto. Qed.
(* non-vacuity: a configuration the fixed validators accept *)
Definition cfg_ok : Config :=
  mkCfg true (Some [15]) (Some [(znn_zts, 20); (qsr_zts, 100)]) (Some [Some 60; Some 40]) (Some [(true, true)])
        (Some [mkGB ex_user [(znn_zts, 5)]; mkGB pillar_addr [(znn_zts, 15)]; mkGB plasma_addr [(qsr_zts, 100)]]).
Lemma cfg_ok_accepted : check_genesis cfg_ok = true.
Proof. vm_compute. reflexivity. Qed.

(* ---------------------------------------------------------------- start-up *)
Theorem init_db_spec db h s :
  init_db db h = Some s <-> (db = None /\ s = h) \/ (db = Some h /\ s = h).
Proof.
  unfold init_db. destruct db as [d|].
  - destruct (bytes_eqb d h) eqn:E.
    + apply bytes_eqb_eq in E. subst. split; [intros [= <-]; auto | intros [[? _]|[_ ->]]; [discriminate|reflexivity]].
    + split; [discriminate|]. intros [[? _]|[E' _]]; [discriminate|]. injection E' as ->. rewrite bytes_eqb_refl in E. discriminate.
  - split; [intros [= <-]; auto | intros [[_ ->]|[? _]]; [reflexivity|discriminate]].
Qed.
Theorem init_db_refuses db h : init_db db h = None <-> exists d, db = Some d /\ d <> h.
Proof.
  unfold init_db. destruct db as [d|].
  - destruct (bytes_eqb d h) eqn:E.
    + apply bytes_eqb_eq in E. subst. split; [discriminate|]. intros (d & [= ->] & Hn). contradiction.
    + split; [|reflexivity]. intros _. exists d. split; auto. apply bytes_eqb_false. exact E.
  - split; [discriminate|]. intros (d & ? & _). discriminate.
Qed.

(* every later start: a database that any start accepted is accepted again under the same configuration (and stays what it
   is), and refused under every configuration with another genesis hash *)
Theorem init_db_restart db h s :
  init_db db h = Some s ->
  init_db (Some s) h = Some s /\ (forall h', h' <> h -> init_db (Some s) h' = None).
Proof.
  intros H. apply init_db_spec in H. assert (s = h) as -> by (destruct H as [[_ ?]|[_ ?]]; assumption).
  split.
  - apply init_db_spec. right. split; reflexivity.
  - intros h' Hn. apply init_db_refuses. exists h. split; [reflexivity|]. intros E. apply Hn. symmetry. exact E.
Qed.
