(* Proofs about the ledger / VM model: supply conservation (C01). *)
From ZV Require Import Prelude Ledger.
From ZV.gen Require Import Consts.
Open Scope Z_scope.
Ltac Zify.zify_post_hook ::= Z.div_mod_to_equations.

(* ================================================================ association lists *)
Lemma key_eqb_eq k1 k2 : key_eqb k1 k2 = true <-> k1 = k2.
Proof.
  destruct k1 as [a b], k2 as [c d]; unfold key_eqb; cbn [fst snd].
  rewrite andb_true_iff, !Z.eqb_eq. split; [intros [-> ->]; reflexivity | intros E; inversion E; auto].
Qed.
Lemma key_eqb_refl k : key_eqb k k = true.
Proof. apply key_eqb_eq; reflexivity. Qed.
Lemma key_eqb_neq k1 k2 : key_eqb k1 k2 = false <-> k1 <> k2.
Proof.
  split.
  - intros H E. apply key_eqb_eq in E. congruence.
  - intros H. destruct (key_eqb k1 k2) eqn:E; [apply key_eqb_eq in E; congruence | reflexivity].
Qed.
Lemma key_eqb_sym k1 k2 : key_eqb k1 k2 = key_eqb k2 k1.
Proof.
  destruct (key_eqb k1 k2) eqn:E.
  - apply key_eqb_eq in E; subst. symmetry; apply key_eqb_refl.
  - apply key_eqb_neq in E. symmetry. apply key_eqb_neq. congruence.
Qed.

Lemma get_set_bal_same k v m : get_bal k (set_bal k v m) = v.
Proof.
  induction m as [|[k' v'] r IH]; cbn [set_bal get_bal].
  - rewrite key_eqb_refl; reflexivity.
  - destruct (key_eqb k k') eqn:E; cbn [get_bal].
    + rewrite key_eqb_refl; reflexivity.
    + rewrite E; exact IH.
Qed.
Lemma get_set_bal_other k k' v m : k' <> k -> get_bal k' (set_bal k v m) = get_bal k' m.
Proof.
  intros N. induction m as [|[k2 v2] r IH]; cbn [set_bal get_bal].
  - assert (key_eqb k' k = false) as -> by (apply key_eqb_neq; exact N). reflexivity.
  - destruct (key_eqb k k2) eqn:E; cbn [get_bal].
    + apply key_eqb_eq in E; subst k2.
      assert (key_eqb k' k = false) as -> by (apply key_eqb_neq; exact N). reflexivity.
    + destruct (key_eqb k' k2); [reflexivity | exact IH].
Qed.
Lemma sum_bal_set z a t v m :
  sum_bal z (set_bal (a, t) v m) = sum_bal z m + (if t =? z then v - get_bal (a, t) m else 0).
Proof.
  induction m as [|[k' v'] r IH]; cbn [set_bal get_bal sum_bal snd].
  - destruct (t =? z); lia.
  - destruct (key_eqb (a, t) k') eqn:E; cbn [sum_bal snd].
    + apply key_eqb_eq in E; subst k'. cbn [snd]. destruct (t =? z); lia.
    + rewrite IH. destruct (snd k' =? z); destruct (t =? z); lia.
Qed.
Lemma nonneg_set_bal k v m :
  0 <= v -> Forall (fun e => 0 <= snd e) m -> Forall (fun e : (addr * zts) * Z => 0 <= snd e) (set_bal k v m).
Proof.
  intros Hv H. induction H as [|[k' v'] r Hx Hr IH]; cbn [set_bal].
  - constructor; [exact Hv | constructor].
  - destruct (key_eqb k k'); constructor; auto.
Qed.
Lemma nonneg_get_bal k m : Forall (fun e : (addr * zts) * Z => 0 <= snd e) m -> 0 <= get_bal k m.
Proof.
  intros H. induction H as [|[k' v'] r Hx Hr IH]; cbn [get_bal]; [lia|].
  destruct (key_eqb k k'); [exact Hx | exact IH].
Qed.

Lemma get_set_tok_same z t m : get_tok z (set_tok z t m) = Some t.
Proof.
  induction m as [|[z' t'] r IH]; cbn [set_tok get_tok].
  - rewrite Z.eqb_refl; reflexivity.
  - destruct (z =? z') eqn:E; cbn [get_tok]; [rewrite Z.eqb_refl; reflexivity | rewrite E; exact IH].
Qed.
Lemma get_set_tok_other z z' t m : z' <> z -> get_tok z' (set_tok z t m) = get_tok z' m.
Proof.
  intros N. induction m as [|[z2 t2] r IH]; cbn [set_tok get_tok].
  - assert (z' =? z = false) as -> by (apply Z.eqb_neq; exact N). reflexivity.
  - destruct (z =? z2) eqn:E; cbn [get_tok].
    + apply Z.eqb_eq in E; subst z2. assert (z' =? z = false) as -> by (apply Z.eqb_neq; exact N). reflexivity.
    + destruct (z' =? z2); [reflexivity | exact IH].
Qed.

Lemma get_set_front_same c v m : get_front c (set_front c v m) = v.
Proof.
  induction m as [|[c' v'] r IH]; cbn [set_front get_front].
  - rewrite Z.eqb_refl; reflexivity.
  - destruct (c =? c') eqn:E; cbn [get_front]; [rewrite Z.eqb_refl; reflexivity | rewrite E; exact IH].
Qed.
Lemma get_set_front_other c c' v m : c' <> c -> get_front c' (set_front c v m) = get_front c' m.
Proof.
  intros N. induction m as [|[c2 v2] r IH]; cbn [set_front get_front].
  - assert (c' =? c = false) as -> by (apply Z.eqb_neq; exact N). reflexivity.
  - destruct (c =? c2) eqn:E; cbn [get_front].
    + apply Z.eqb_eq in E; subst c2. assert (c' =? c = false) as -> by (apply Z.eqb_neq; exact N). reflexivity.
    + destruct (c' =? c2); [reflexivity | exact IH].
Qed.

Lemma NoDup_app_snoc {A} (l : list A) x : NoDup l -> ~ In x l -> NoDup (l ++ [x]).
Proof.
  induction l as [|y r IH]; cbn [app]; intros H N.
  - constructor; [intros [] | constructor].
  - inversion H as [|? ? Hn Hr]; subst. constructor.
    + rewrite in_app_iff. intros [X|[X|[]]]; [exact (Hn X) | subst; apply N; left; reflexivity].
    + apply IH; [exact Hr | intros X; apply N; right; exact X].
Qed.
Lemma NoDup_nth_not_firstn {A} (l : list A) n x : NoDup l -> nth_error l n = Some x -> ~ In x (firstn n l).
Proof.
  revert n. induction l as [|y r IH]; intros [|n] H E; cbn [nth_error firstn] in *; try discriminate; [intros []|].
  inversion H as [|? ? Hn Hr]; subst. intros [X|X].
  - subst. apply Hn. eapply nth_error_In; exact E.
  - exact (IH n Hr E X).
Qed.
Lemma firstn_snoc_nth {A} (l : list A) n x : nth_error l n = Some x -> firstn (S n) l = firstn n l ++ [x].
Proof.
  revert n. induction l as [|y r IH]; intros [|n] E; cbn [nth_error firstn app] in *; try discriminate.
  - inversion E; reflexivity.
  - f_equal. apply IH; exact E.
Qed.
Lemma firstn_app_le {A} (l l2 : list A) n : (n <= length l)%nat -> firstn n (l ++ l2) = firstn n l.
Proof.
  intros H. rewrite firstn_app. replace (n - length l)%nat with 0%nat by lia. cbn [firstn]. apply app_nil_r.
Qed.

(* ================================================================ sends, markers *)
Lemma find_send_app h l sd :
  find_send h (l ++ [sd]) =
  match find_send h l with Some x => Some x | None => if s_hash sd =? h then Some sd else None end.
Proof.
  induction l as [|x r IH]; cbn [app find_send]; [reflexivity|].
  destruct (s_hash x =? h); [reflexivity | exact IH].
Qed.
Lemma find_send_hash h l sd : find_send h l = Some sd -> s_hash sd = h.
Proof.
  induction l as [|x r IH]; cbn [find_send]; [discriminate|].
  destruct (s_hash x =? h) eqn:E; [intros X; inversion X; subst; apply Z.eqb_eq; exact E | exact IH].
Qed.
Lemma find_send_in h l sd : find_send h l = Some sd -> In sd l.
Proof.
  induction l as [|x r IH]; cbn [find_send]; [discriminate|].
  destruct (s_hash x =? h); [intros X; inversion X; left; reflexivity | right; auto].
Qed.
Lemma find_send_none_notin h l : find_send h l = None -> ~ In h (map s_hash l).
Proof.
  induction l as [|x r IH]; cbn [find_send map]; [intros _ []|].
  destruct (s_hash x =? h) eqn:E; [discriminate|]. apply Z.eqb_neq in E.
  intros H [X|X]; [congruence | exact (IH H X)].
Qed.

Lemma mem_pair_in p l : mem_pair p l = true <-> In p l.
Proof.
  unfold mem_pair. rewrite existsb_exists. split.
  - intros [x [Hx E]]. apply key_eqb_eq in E; subst; exact Hx.
  - intros H. exists p. split; [exact H | apply key_eqb_refl].
Qed.
Lemma rcvd_any_in h l : rcvd_any h l = true <-> exists a, In (a, h) l.
Proof.
  unfold rcvd_any. rewrite existsb_exists. split.
  - intros [[a h'] [Hx E]]. cbn [snd] in E. apply Z.eqb_eq in E; subst. exists a; exact Hx.
  - intros [a H]. exists (a, h). split; [exact H | cbn [snd]; apply Z.eqb_refl].
Qed.
Lemma rcvd_any_cons h a h' l : rcvd_any h ((a, h') :: l) = (h' =? h) || rcvd_any h l.
Proof. reflexivity. Qed.

Lemma hashes_of_in c h l : In h (hashes_of c l) <-> In (c, h) l.
Proof.
  induction l as [|[c' h'] r IH]; cbn [hashes_of]; [tauto|].
  destruct (c' =? c) eqn:E.
  - apply Z.eqb_eq in E; subst c'. cbn [In]. rewrite IH. split; intros [X|X]; auto; [left; congruence | inversion X; auto].
  - apply Z.eqb_neq in E. rewrite IH. cbn [In]. split; [auto | intros [X|X]; [inversion X; congruence | exact X]].
Qed.
Lemma hashes_of_app c l1 l2 : hashes_of c (l1 ++ l2) = hashes_of c l1 ++ hashes_of c l2.
Proof.
  induction l1 as [|[c' h'] r IH]; cbn [app hashes_of]; [reflexivity|].
  destruct (c' =? c); [cbn [app]; f_equal; exact IH | exact IH].
Qed.
Lemma hashes_of_nodup c l : NoDup (map snd l) -> NoDup (hashes_of c l).
Proof.
  induction l as [|[c' h'] r IH]; cbn [hashes_of map snd]; [constructor|].
  intros H; inversion H as [|? ? Hn Hr]; subst.
  destruct (c' =? c); [constructor; [|auto] | auto].
  intros X. apply hashes_of_in in X. apply Hn. apply (in_map snd) in X. exact X.
Qed.

(* in-flight sum: a new send block at the end *)
Lemma inflight_of_app z r l sd :
  inflight_of z r (l ++ [sd]) =
  inflight_of z r l + (if (s_zts sd =? z) && negb (rcvd_any (s_hash sd) r) then s_amt sd else 0).
Proof.
  induction l as [|x t IH]; cbn [app inflight_of]; [lia | rewrite IH; lia].
Qed.
(* in-flight sum: a new marker for hash h *)
Lemma inflight_of_mark_absent z a h r l :
  find_send h l = None -> inflight_of z ((a, h) :: r) l = inflight_of z r l.
Proof.
  induction l as [|x t IH]; cbn [find_send inflight_of]; [reflexivity|].
  destruct (s_hash x =? h) eqn:E; [discriminate|]. intros H. rewrite (IH H).
  rewrite rcvd_any_cons. rewrite Z.eqb_sym in E. rewrite E. reflexivity.
Qed.
Lemma inflight_of_mark z a h r l sd :
  NoDup (map s_hash l) -> find_send h l = Some sd -> rcvd_any h r = false ->
  inflight_of z ((a, h) :: r) l = inflight_of z r l - (if s_zts sd =? z then s_amt sd else 0).
Proof.
  induction l as [|x t IH]; cbn [find_send inflight_of map]; [discriminate|].
  intros ND F R. inversion ND as [|? ? Hn Hr]; subst.
  destruct (s_hash x =? h) eqn:E.
  - inversion F; subst x. apply Z.eqb_eq in E. rewrite E in *.
    rewrite inflight_of_mark_absent.
    2:{ destruct (find_send h t) eqn:G; [|reflexivity]. exfalso. apply Hn.
        pose proof (find_send_hash _ _ _ G) as Hh. apply find_send_in in G. apply (in_map s_hash) in G. congruence. }
    rewrite rcvd_any_cons, Z.eqb_refl, R. cbn [orb negb]. rewrite andb_false_r.
    destruct (s_zts sd =? z); cbn [andb]; lia.
  - rewrite (IH Hr F R). rewrite rcvd_any_cons. rewrite Z.eqb_sym in E. rewrite E. cbn [orb]. lia.
Qed.

(* ================================================================ the invariant *)
Definition imb (s : state) (z : zts) : Z := sum_bal z (bal s) + inflight_sum z s - tok_total s z.

Definition supply_eq (s : state) : Prop :=
  forall z, z <> ZeroId -> tok_total s z = sum_bal z (bal s) + inflight_sum z s.
Definition supply_le_max (s : state) : Prop :=
  forall z t, get_tok z (toks s) = Some t -> t_total t <= t_max t.
Definition bal_nonneg (s : state) : Prop := forall a z, 0 <= balance s a z.

Record WF (s : state) : Prop := mkWF {
  wf_nodup : NoDup (map s_hash (sends s));
  wf_amt : Forall (fun sd => 0 <= s_amt sd) (sends s);
  wf_rcv : forall a h, In (a, h) (rcv s) -> exists sd, find_send h (sends s) = Some sd /\ s_to sd = a;
  wf_conf : forall c h, In (c, h) (conf s) -> exists sd, find_send h (sends s) = Some sd /\ s_to sd = c;
  wf_conf_nodup : NoDup (map snd (conf s));
  wf_seq : forall c, is_emb c = true ->
             0 <= get_front c (front s) /\
             rev (hashes_of c (rcv s)) = firstn (Z.to_nat (get_front c (front s))) (inbox c s) /\
             (Z.to_nat (get_front c (front s)) <= length (inbox c s))%nat;
  wf_bal : Forall (fun e => 0 <= snd e) (bal s)
}.

Definition Inv (s : state) : Prop := supply_eq s /\ supply_le_max s /\ WF s.

Lemma supply_eq_imb s : supply_eq s <-> forall z, z <> ZeroId -> imb s z = 0.
Proof. unfold supply_eq, imb. split; intros H z Hz; specialize (H z Hz); lia. Qed.

Lemma Inv_bal_nonneg s : Inv s -> bal_nonneg s.
Proof. intros [_ [_ W]] a z. apply nonneg_get_bal. apply (wf_bal _ W). Qed.

(* ================================================================ primitives: effect on the imbalance and on WF *)
Lemma imb_add_balance s a t v z :
  imb (add_balance s a t v) z = imb s z + (if t =? z then v else 0).
Proof.
  unfold imb, inflight_sum, tok_total, add_balance; cbn [bal toks sends rcv].
  rewrite sum_bal_set. destruct (t =? z); lia.
Qed.
Lemma WF_add_balance s a t v : WF s -> 0 <= v -> WF (add_balance s a t v).
Proof.
  intros W Hv. destruct W. constructor; unfold add_balance, inbox in *; cbn [bal toks sends rcv conf front] in *; auto.
  apply nonneg_set_bal; [|assumption]. pose proof (nonneg_get_bal (a, t) _ wf_bal0). lia.
Qed.
Lemma le_max_same_toks s s' : toks s' = toks s -> supply_le_max s -> supply_le_max s'.
Proof. unfold supply_le_max. intros E H z t. rewrite E. apply H. Qed.

Lemma imb_sub_balance s a t v s' z :
  sub_balance s a t v = Some s' -> imb s' z = imb s z - (if t =? z then v else 0).
Proof.
  unfold sub_balance. destruct (v <=? get_bal (a, t) (bal s)) eqn:E; [|discriminate].
  intros X; inversion X; subst s'; clear X.
  unfold imb, inflight_sum, tok_total; cbn [bal toks sends rcv].
  rewrite sum_bal_set. destruct (t =? z); lia.
Qed.
Lemma WF_sub_balance s a t v s' : sub_balance s a t v = Some s' -> WF s -> WF s'.
Proof.
  unfold sub_balance. destruct (v <=? get_bal (a, t) (bal s)) eqn:E; [|discriminate].
  intros X; inversion X; subst s'; clear X. intros W. destruct W.
  constructor; unfold inbox in *; cbn [bal toks sends rcv conf front] in *; auto.
  apply nonneg_set_bal; [lia | assumption].
Qed.
Lemma toks_sub_balance s a t v s' : sub_balance s a t v = Some s' -> toks s' = toks s.
Proof.
  unfold sub_balance. destruct (v <=? get_bal (a, t) (bal s)); [|discriminate].
  intros X; inversion X; reflexivity.
Qed.

Lemma fresh_not_rcvd s h : WF s -> find_send h (sends s) = None -> rcvd_any h (rcv s) = false.
Proof.
  intros W F. destruct (rcvd_any h (rcv s)) eqn:R; [|reflexivity].
  apply rcvd_any_in in R. destruct R as [a Ha]. destruct (wf_rcv _ W _ _ Ha) as [sd [G _]]. congruence.
Qed.
Lemma imb_push_send s sd z :
  WF s -> find_send (s_hash sd) (sends s) = None ->
  imb (push_send s sd) z = imb s z + (if s_zts sd =? z then s_amt sd else 0).
Proof.
  intros W F. unfold imb, inflight_sum, tok_total, push_send; cbn [bal toks sends rcv].
  rewrite inflight_of_app. rewrite (fresh_not_rcvd _ _ W F). cbn [negb]. rewrite andb_true_r.
  destruct (s_zts sd =? z); lia.
Qed.
Lemma WF_push_send s sd :
  WF s -> find_send (s_hash sd) (sends s) = None -> 0 <= s_amt sd -> WF (push_send s sd).
Proof.
  intros W F Hv. pose proof W as W0. destruct W. constructor; unfold push_send, inbox in *; cbn [bal toks sends rcv conf front] in *; auto.
  - rewrite map_app. cbn [map]. apply NoDup_app_snoc; [assumption | apply find_send_none_notin; exact F].
  - apply Forall_app. split; [assumption | constructor; [exact Hv | constructor]].
  - intros a h H. destruct (wf_rcv0 _ _ H) as [x [G T]]. exists x. rewrite find_send_app, G. auto.
  - intros c h H. destruct (wf_conf0 _ _ H) as [x [G T]]. exists x. rewrite find_send_app, G. auto.
Qed.

(* a new marker (a, h) for a send that nobody had received *)
Lemma imb_mark s s' a h sd z :
  WF s -> find_send h (sends s) = Some sd -> rcvd_any h (rcv s) = false ->
  bal s' = bal s -> toks s' = toks s -> sends s' = sends s -> rcv s' = (a, h) :: rcv s ->
  imb s' z = imb s z - (if s_zts sd =? z then s_amt sd else 0).
Proof.
  intros W F R Eb Et Es Er. unfold imb, inflight_sum, tok_total. rewrite Eb, Et, Es, Er.
  rewrite (inflight_of_mark z a h _ _ sd (wf_nodup _ W) F R). lia.
Qed.

Lemma tok_total_set_tok s z0 t' z :
  tok_total (set_toks s (set_tok z0 t' (toks s))) z = if z =? z0 then t_total t' else tok_total s z.
Proof.
  unfold tok_total, set_toks; cbn [toks]. destruct (z =? z0) eqn:E.
  - apply Z.eqb_eq in E; subst. rewrite get_set_tok_same. reflexivity.
  - apply Z.eqb_neq in E. rewrite get_set_tok_other by exact E. reflexivity.
Qed.
Lemma imb_set_tok s z0 t' z :
  imb (set_toks s (set_tok z0 t' (toks s))) z = imb s z - (if z =? z0 then t_total t' - tok_total s z0 else 0).
Proof.
  unfold imb. rewrite tok_total_set_tok. unfold inflight_sum, set_toks; cbn [bal sends rcv].
  destruct (z =? z0) eqn:E; [apply Z.eqb_eq in E; subst|]; lia.
Qed.
Lemma WF_set_toks s t : WF s -> WF (set_toks s t).
Proof. intros W. destruct W. constructor; unfold set_toks, inbox in *; cbn [bal toks sends rcv conf front] in *; auto. Qed.
Lemma le_max_set_tok s z0 t' :
  supply_le_max s -> t_total t' <= t_max t' -> supply_le_max (set_toks s (set_tok z0 t' (toks s))).
Proof.
  unfold supply_le_max, set_toks; cbn [toks]. intros H Ht z t.
  destruct (Z.eq_dec z z0) as [->|N].
  - rewrite get_set_tok_same. intros X; inversion X; subst; exact Ht.
  - rewrite get_set_tok_other by exact N. apply H.
Qed.

Lemma Inv_of s s' :
  Inv s -> WF s' -> supply_le_max s' -> (forall z, imb s' z = imb s z) -> Inv s'.
Proof.
  intros [E [_ _]] W L I. split; [|split; assumption].
  apply supply_eq_imb. intros z Hz. rewrite I. apply supply_eq_imb; assumption.
Qed.

Lemma amounts_check_ok z v : amounts_check z v = 0 -> 0 <= v.
Proof.
  unfold amounts_check. destruct (v <? 0) eqn:E; [unfold E_AMOUNT_NEGATIVE; discriminate | lia].
Qed.

(* ================================================================ vm.applySend *)
Lemma apply_send_spec s h from to z v vok s' :
  apply_send s h from to z v vok = inl s' -> WF s -> 0 <= v ->
  WF s' /\ toks s' = toks s /\ (forall z', imb s' z' = imb s z') /\
  rcv s' = rcv s /\ conf s' = conf s /\ front s' = front s /\
  sends s' = sends s ++ [mkSend h from to z v] /\
  (forall a t, balance s' a t = if key_eqb (a, t) (from, z) then balance s from z - v else balance s a t).
Proof.
  unfold apply_send, hash_used. destruct (find_send h (sends s)) eqn:F; [discriminate|].
  destruct vok; cbn [negb]; [|discriminate].
  destruct (enough_funds s from z v); cbn [negb]; [|discriminate].
  destruct (sub_balance s from z v) as [s1|] eqn:S; [|discriminate].
  intros X; inversion X; subst s'; clear X. intros W Hv.
  pose proof (WF_sub_balance _ _ _ _ _ S W) as W1.
  assert (Es : sends s1 = sends s /\ rcv s1 = rcv s /\ conf s1 = conf s /\ front s1 = front s /\ toks s1 = toks s /\
               bal s1 = set_bal (from, z) (get_bal (from, z) (bal s) - v) (bal s)).
  { unfold sub_balance in S. destruct (v <=? get_bal (from, z) (bal s)); [|discriminate]. inversion S; cbn; auto 10. }
  destruct Es as [Es [Er [Ec [Ef [Et Eb]]]]].
  assert (F1 : find_send (s_hash (mkSend h from to z v)) (sends s1) = None) by (cbn [s_hash]; rewrite Es; exact F).
  split; [apply WF_push_send; [exact W1 | exact F1 | exact Hv]|].
  split; [unfold push_send; cbn [toks]; exact Et|].
  split.
  { intros z'. rewrite (imb_push_send _ _ _ W1 F1). rewrite (imb_sub_balance _ _ _ _ _ z' S). cbn [s_zts s_amt]. destruct (z =? z'); lia. }
  unfold push_send; cbn [rcv conf front sends bal]. repeat (split; [congruence|]).
  intros a t. unfold balance; cbn [bal]. rewrite Eb.
  destruct (key_eqb (a, t) (from, z)) eqn:K.
  - apply key_eqb_eq in K. rewrite K. apply get_set_bal_same.
  - apply key_eqb_neq in K. apply get_set_bal_other. exact K.
Qed.

Lemma descs_amounts_ok_cons to z v ok r :
  descs_amounts_ok ((to, z, v, ok) :: r) = true -> 0 <= v /\ descs_amounts_ok r = true.
Proof.
  cbn [descs_amounts_ok]. rewrite andb_true_iff, Z.eqb_eq. intros [A B]. split; [eapply amounts_check_ok; exact A | exact B].
Qed.

Lemma apply_descs_spec c descs : forall s dh s',
  apply_descs s c descs dh = inl s' -> descs_amounts_ok descs = true -> WF s ->
  WF s' /\ toks s' = toks s /\ (forall z, imb s' z = imb s z) /\
  rcv s' = rcv s /\ conf s' = conf s /\ front s' = front s.
Proof.
  induction descs as [|[[[to z] v] ok] r IH]; intros s dh s'; cbn [apply_descs].
  - intros X; inversion X; subst. intros _ W. auto 10.
  - destruct (negb ok); [discriminate|]. destruct (negb (enough_funds s c z v)); [discriminate|].
    destruct dh as [|h dh']; [discriminate|].
    destruct (apply_send s h c to z v ok) as [s1|e] eqn:A; [|discriminate].
    intros R OK W. apply descs_amounts_ok_cons in OK. destruct OK as [Hv OK].
    destruct (apply_send_spec _ _ _ _ _ _ _ _ A W Hv) as [W1 [T1 [I1 [R1 [C1 [F1 _]]]]]].
    destruct (IH _ _ _ R OK W1) as [W2 [T2 [I2 [R2 [C2 F2]]]]].
    split; [exact W2|]. split; [congruence|]. split; [intros z'; rewrite I2; apply I1|].
    split; [congruence|]. split; congruence.
Qed.

(* ================================================================ token methods *)
Definition same_boxes (s s' : state) : Prop :=
  rcv s' = rcv s /\ conf s' = conf s /\ front s' = front s /\ sends s' = sends s.

Lemma same_boxes_add_balance s a t v : same_boxes s (add_balance s a t v).
Proof. unfold same_boxes, add_balance; cbn; auto. Qed.
Lemma same_boxes_set_toks s t : same_boxes s (set_toks s t).
Proof. unfold same_boxes, set_toks; cbn; auto. Qed.
Lemma same_boxes_sub_balance s a t v s' : sub_balance s a t v = Some s' -> same_boxes s s'.
Proof.
  unfold sub_balance. destruct (v <=? get_bal (a, t) (bal s)); [|discriminate].
  intros X; inversion X; unfold same_boxes; cbn; auto.
Qed.
Lemma same_boxes_trans s1 s2 s3 : same_boxes s1 s2 -> same_boxes s2 s3 -> same_boxes s1 s3.
Proof. unfold same_boxes. intros [A [B [C D]]] [E [F [G H]]]. repeat split; congruence. Qed.

Lemma m_issue_spec s sd nz total max mi bu tok dok s2 descs :
  m_issue s sd nz total max mi bu tok dok = Some (s2, descs) -> WF s -> supply_le_max s ->
  WF s2 /\ supply_le_max s2 /\ (forall z, imb s2 z = imb s z) /\ same_boxes s s2.
Proof.
  unfold m_issue.
  destruct tok; cbn [negb]; [|discriminate].
  destruct ((total <? 0) || (max <? 0)) eqn:E0; [discriminate|]. apply orb_false_iff in E0. destruct E0 as [E0 E0'].
  destruct (TokenMaxSupplyBig <? max); [discriminate|].
  destruct (max =? 0); [discriminate|].
  destruct (max <? total) eqn:E1; [discriminate|].
  destruct (negb mi && negb (max =? total)); [discriminate|].
  destruct (negb (s_zts sd =? ZnnId)); [discriminate|].
  destruct (negb (s_amt sd =? TokenIssueAmount)); [discriminate|].
  destruct (get_tok nz (toks s)) eqn:G; [discriminate|].
  intros X; inversion X; subst s2 descs; clear X. intros W L.
  split; [apply WF_add_balance; [apply WF_set_toks; exact W | lia]|].
  split; [eapply le_max_same_toks; [reflexivity | apply le_max_set_tok; [exact L | cbn [t_total t_max]; lia]]|].
  split.
  - intros z. rewrite imb_add_balance, imb_set_tok. cbn [t_total]. unfold tok_total. rewrite G.
    rewrite (Z.eqb_sym nz z). destruct (z =? nz); lia.
  - eapply same_boxes_trans; [apply same_boxes_set_toks | apply same_boxes_add_balance].
Qed.

Lemma m_mint_spec s sd z amount to uok dok s2 descs :
  m_mint s sd z amount to uok dok = Some (s2, descs) -> WF s -> supply_le_max s ->
  WF s2 /\ supply_le_max s2 /\ (forall z', imb s2 z' = imb s z') /\ same_boxes s s2.
Proof.
  unfold m_mint.
  destruct uok; cbn [negb]; [|discriminate].
  destruct (amount <=? 0) eqn:E0; [discriminate|].
  destruct (negb (s_amt sd =? 0)); [discriminate|].
  destruct (get_tok z (toks s)) as [t|] eqn:G; [|discriminate].
  destruct (negb (t_mintable t)); [discriminate|].
  destruct (t_max t - t_total t <? amount) eqn:E1; [discriminate|].
  destruct (negb (if (z =? ZnnId) || (z =? QsrId) then is_emb (s_from sd) else t_owner t =? s_from sd)); [discriminate|].
  intros X; inversion X; subst s2 descs; clear X. intros W L.
  split; [apply WF_add_balance; [apply WF_set_toks; exact W | lia]|].
  split; [eapply le_max_same_toks; [reflexivity | apply le_max_set_tok; [exact L | cbn [t_total t_max]; lia]]|].
  split.
  - intros z'. rewrite imb_add_balance, imb_set_tok. cbn [t_total]. unfold tok_total. rewrite G.
    rewrite (Z.eqb_sym z z'). destruct (z' =? z); lia.
  - eapply same_boxes_trans; [apply same_boxes_set_toks | apply same_boxes_add_balance].
Qed.

Lemma m_burn_spec s sd uok s2 descs :
  m_burn s sd uok = Some (Some (s2, descs)) -> WF s -> supply_le_max s ->
  WF s2 /\ supply_le_max s2 /\ (forall z', imb s2 z' = imb s z') /\ same_boxes s s2 /\ descs = [].
Proof.
  unfold m_burn.
  destruct uok; cbn [negb]; [|discriminate].
  destruct (s_amt sd <=? 0) eqn:E0; [discriminate|].
  destruct (get_tok (s_zts sd) (toks s)) as [t|] eqn:G; [|discriminate].
  destruct (negb (t_burnable t) && negb (t_owner t =? s_from sd)); [discriminate|].
  match goal with |- context [sub_balance ?st _ _ _] => set (s1 := st) end.
  destruct (sub_balance s1 TokenContract (s_zts sd) (s_amt sd)) as [s2'|] eqn:S; [|discriminate].
  intros X; inversion X; subst s2' descs; clear X. intros W L.
  assert (L1 : supply_le_max s1).
  { apply le_max_set_tok; [exact L|]. cbn [t_total t_max]. specialize (L _ _ G). destruct (t_mintable t); lia. }
  split; [eapply WF_sub_balance; [exact S | apply WF_set_toks; exact W]|].
  split; [eapply le_max_same_toks; [eapply toks_sub_balance; exact S | exact L1]|].
  split.
  - intros z'. rewrite (imb_sub_balance _ _ _ _ _ z' S). unfold s1. rewrite imb_set_tok. cbn [t_total].
    unfold tok_total. rewrite G. rewrite (Z.eqb_sym (s_zts sd) z'). destruct (z' =? s_zts sd); lia.
  - split; [|reflexivity]. eapply same_boxes_trans; [apply same_boxes_set_toks | eapply same_boxes_sub_balance; exact S].
Qed.

Lemma m_update_spec s sd z owner mi bu uok s2 descs :
  m_update s sd z owner mi bu uok = Some (s2, descs) -> WF s -> supply_le_max s ->
  WF s2 /\ supply_le_max s2 /\ (forall z', imb s2 z' = imb s z') /\ same_boxes s s2 /\ descs = [] /\
  (forall z', tok_total s2 z' = tok_total s z').
Proof.
  unfold m_update.
  destruct uok; cbn [negb]; [|discriminate].
  destruct (0 <? s_amt sd); [discriminate|].
  destruct (get_tok z (toks s)) as [t|] eqn:G; [|discriminate].
  destruct (negb (t_owner t =? s_from sd)); [discriminate|].
  destruct (negb (Bool.eqb (t_mintable t) mi) && negb (t_mintable t)); [discriminate|].
  intros X; inversion X; subst s2 descs; clear X. intros W L.
  assert (T : forall z', tok_total (set_toks s (set_tok z (mkToken (t_total t) (if negb (Bool.eqb (t_mintable t) mi) then t_total t else t_max t) owner mi bu) (toks s))) z' = tok_total s z').
  { intros z'. rewrite tok_total_set_tok. cbn [t_total]. destruct (z' =? z) eqn:E; [|reflexivity].
    apply Z.eqb_eq in E; subst. unfold tok_total. rewrite G. reflexivity. }
  split; [apply WF_set_toks; exact W|].
  split; [apply le_max_set_tok; [exact L|]; cbn [t_total t_max]; specialize (L _ _ G); destruct (negb (Bool.eqb (t_mintable t) mi)); lia|].
  split.
  - intros z'. rewrite imb_set_tok. cbn [t_total]. unfold tok_total. rewrite G. destruct (z' =? z); lia.
  - split; [apply same_boxes_set_toks|]. split; [reflexivity | exact T].
Qed.

Lemma run_method_spec s c sd k s2 descs :
  run_method s c sd k = Some (Some (s2, descs)) -> WF s -> supply_le_max s ->
  WF s2 /\ supply_le_max s2 /\ (forall z, imb s2 z = imb s z) /\ same_boxes s s2.
Proof.
  destruct k; cbn [run_method]; try discriminate.
  - destruct (c =? TokenContract); [|discriminate]. intros X; inversion X as [Y]. intros W L.
    destruct (m_issue_spec _ _ _ _ _ _ _ _ _ _ _ Y W L) as [A [B [C D]]]. auto.
  - destruct (c =? TokenContract); [|discriminate]. intros X; inversion X as [Y]. intros W L.
    destruct (m_mint_spec _ _ _ _ _ _ _ _ _ Y W L) as [A [B [C D]]]. auto.
  - destruct (c =? TokenContract); [|discriminate]. intros Y W L.
    destruct (m_burn_spec _ _ _ _ _ Y W L) as [A [B [C [D _]]]]. auto.
  - destruct (c =? TokenContract); [|discriminate]. intros X; inversion X as [Y]. intros W L.
    destruct (m_update_spec _ _ _ _ _ _ _ _ _ Y W L) as [A [B [C [D _]]]]. auto.
  - destruct ok; [|discriminate]. intros X; inversion X; subst. intros W L.
    split; [exact W|]. split; [exact L|]. split; [reflexivity|]. unfold same_boxes; auto.
Qed.

(* ================================================================ blocks preserve the invariant *)
Lemma user_send_inv s h from to z v vok s' r :
  user_send s h from to z v vok = (s', r) -> Inv s -> Inv s'.
Proof.
  unfold user_send. destruct (is_emb from); [intros X; inversion X; subst; auto|].
  destruct (amounts_check z v =? 0) eqn:A; cbn [negb]; [|intros X; inversion X; subst; auto].
  apply Z.eqb_eq in A. apply amounts_check_ok in A.
  destruct (apply_send s h from to z v vok) as [s1|e] eqn:S; intros X; inversion X; subst; auto.
  intros I. pose proof I as [_ [L W]].
  destruct (apply_send_spec _ _ _ _ _ _ _ _ S W A) as [W1 [T1 [I1 _]]].
  eapply Inv_of; [exact I | exact W1 | eapply le_max_same_toks; eauto | exact I1].
Qed.

(* nobody holds a marker for h when the addressee does not *)
Lemma not_rcvd_any s h sd :
  WF s -> find_send h (sends s) = Some sd -> mem_pair (s_to sd, h) (rcv s) = false -> rcvd_any h (rcv s) = false.
Proof.
  intros W F M. destruct (rcvd_any h (rcv s)) eqn:R; [|reflexivity].
  apply rcvd_any_in in R. destruct R as [a Ha]. destruct (wf_rcv _ W _ _ Ha) as [sd' [G T]].
  rewrite F in G. inversion G; subst sd'. subst a.
  apply mem_pair_in in Ha. congruence.
Qed.

Lemma is_emb_neq a c : is_emb a = false -> is_emb c = true -> a <> c.
Proof. intros A C E; subst; congruence. Qed.

Lemma user_receive_inv s a h s' r :
  user_receive true s a h = (s', r) -> Inv s -> Inv s'.
Proof.
  unfold user_receive. destruct (is_emb a) eqn:EA; [intros X; inversion X; subst; auto|].
  destruct (find_send h (sends s)) as [sd|] eqn:F; [|intros X; inversion X; subst; auto].
  destruct (mem_pair (s_to sd, h) (conf s)) eqn:C; cbn [negb]; [|intros X; inversion X; subst; auto].
  cbn [andb]. destruct (s_to sd =? a) eqn:T; cbn [negb]; [|intros X; inversion X; subst; auto].
  apply Z.eqb_eq in T.
  destruct (mem_pair (a, h) (rcv s)) eqn:M; [intros X; inversion X; subst; auto|].
  intros X; inversion X; subst s' r; clear X. intros I. pose proof I as [_ [L W]].
  set (s1 := mkState (bal s) (toks s) (sends s) ((a, h) :: rcv s) (conf s) (front s)).
  assert (R : rcvd_any h (rcv s) = false) by (eapply not_rcvd_any; eauto; rewrite T; exact M).
  assert (Hv : 0 <= s_amt sd).
  { pose proof (wf_amt _ W) as FA. rewrite Forall_forall in FA. apply FA. eapply find_send_in; eauto. }
  assert (W1 : WF s1).
  { destruct W. constructor; unfold s1, inbox in *; cbn [bal toks sends rcv conf front] in *; auto.
    - intros a' h' [X|X]; [inversion X; subst; exists sd; auto | auto].
    - intros c Hc. cbn [hashes_of]. assert (a =? c = false) as -> by (apply Z.eqb_neq; eapply is_emb_neq; eauto). auto. }
  eapply Inv_of; [exact I | apply WF_add_balance; [exact W1 | exact Hv] | eapply le_max_same_toks; [|exact L]; reflexivity |].
  intros z. rewrite imb_add_balance.
  rewrite (imb_mark s s1 a h sd z W F R); try reflexivity. destruct (s_zts sd =? z); lia.
Qed.

Lemma confirm_inv s h s' r : confirm s h = (s', r) -> Inv s -> Inv s'.
Proof.
  unfold confirm. destruct (find_send h (sends s)) as [sd|] eqn:F; [|intros X; inversion X; subst; auto].
  destruct (mem_pair (s_to sd, h) (conf s)) eqn:M; intros X; inversion X; subst s' r; clear X; auto.
  intros I. pose proof I as [_ [L W]].
  assert (Nh : ~ In h (map snd (conf s))).
  { intros X. apply in_map_iff in X. destruct X as [[c h'] [E Hin]]. cbn [snd] in E; subst h'.
    destruct (wf_conf _ W _ _ Hin) as [sd' [G T]]. rewrite F in G; inversion G; subst sd' c.
    apply mem_pair_in in Hin. congruence. }
  eapply Inv_of; [exact I | | eapply le_max_same_toks; [|exact L]; reflexivity | intros z; reflexivity].
  destruct W. constructor; unfold inbox in *; cbn [bal toks sends rcv conf front] in *; auto.
  - intros c h' X. apply in_app_iff in X. destruct X as [X|[X|[]]]; [auto | inversion X; subst; exists sd; auto].
  - rewrite map_app. cbn [map snd]. apply NoDup_app_snoc; assumption.
  - intros c Hc. destruct (wf_seq0 c Hc) as [A [B Bl]]. split; [exact A|]. rewrite hashes_of_app.
    split; [rewrite firstn_app_le; assumption | rewrite app_length; lia].
Qed.

(* SequencerPopFront on the next-in-line send: the marker is new, the cursor moves by one *)
Lemma pop_front_spec s c h sd :
  WF s -> is_emb c = true -> find_send h (sends s) = Some sd -> s_to sd = c -> seq_front c s = Some h ->
  WF (pop_front s c h) /\ 0 <= s_amt sd /\
  (forall z, imb (pop_front s c h) z = imb s z - (if s_zts sd =? z then s_amt sd else 0)).
Proof.
  intros W Hc F T Q. unfold seq_front in Q.
  destruct (wf_seq _ W c Hc) as [F0 [FR FL]].
  assert (ND : NoDup (inbox c s)) by (apply hashes_of_nodup; apply (wf_conf_nodup _ W)).
  assert (R : rcvd_any h (rcv s) = false).
  { destruct (rcvd_any h (rcv s)) eqn:R; [|reflexivity]. exfalso.
    apply rcvd_any_in in R. destruct R as [a Ha]. destruct (wf_rcv _ W _ _ Ha) as [sd' [G T']].
    rewrite F in G; inversion G; subst sd'. rewrite T in T'; subst a.
    apply hashes_of_in in Ha. apply in_rev in Ha. rewrite FR in Ha.
    exact (NoDup_nth_not_firstn _ _ _ ND Q Ha). }
  assert (Hv : 0 <= s_amt sd).
  { pose proof (wf_amt _ W) as FA. rewrite Forall_forall in FA. apply FA. eapply find_send_in; eauto. }
  split; [|split; [exact Hv|]].
  - pose proof W as W0. destruct W. constructor; unfold pop_front, inbox in *; cbn [bal toks sends rcv conf front] in *; auto.
    + intros a' h' [X|X]; [inversion X; subst; exists sd; auto | auto].
    + intros c' Hc'. destruct (Z.eq_dec c' c) as [->|N].
      * rewrite get_set_front_same. cbn [hashes_of]. rewrite Z.eqb_refl. cbn [rev]. rewrite FR.
        replace (Z.to_nat (get_front c (front s) + 1)) with (S (Z.to_nat (get_front c (front s)))) by lia.
        split; [lia|]. split; [symmetry; apply firstn_snoc_nth; exact Q|].
        apply Nat.le_succ_l. apply nth_error_Some. unfold inbox. congruence.
      * rewrite get_set_front_other by exact N. cbn [hashes_of].
        assert (c =? c' = false) as -> by (apply Z.eqb_neq; congruence). apply (wf_seq0 c' Hc').
  - intros z. apply (imb_mark s (pop_front s c h) c h sd z W F R); reflexivity.
Qed.

Lemma rollback_inv s0 saved c sd dh rok s' st :
  Inv s0 -> WF (add_balance saved c (s_zts sd) (s_amt sd)) -> 0 <= s_amt sd ->
  toks saved = toks s0 ->
  (forall z, imb (add_balance saved c (s_zts sd) (s_amt sd)) z = imb s0 z) ->
  rollback_embedded saved c sd dh rok = (s', ROk st) -> Inv s'.
Proof.
  intros I W Hv ET IM. unfold rollback_embedded.
  assert (L1 : supply_le_max (add_balance saved c (s_zts sd) (s_amt sd))).
  { eapply le_max_same_toks; [|exact (proj1 (proj2 I))]. exact ET. }
  destruct (0 <? s_amt sd).
  - destruct dh as [|h dh']; [discriminate|].
    destruct (apply_send _ h c (s_from sd) (s_zts sd) (s_amt sd) rok) as [s2|e] eqn:A; [|discriminate].
    intros X; inversion X; subst s' st; clear X.
    destruct (apply_send_spec _ _ _ _ _ _ _ _ A W Hv) as [W2 [T2 [I2 _]]].
    eapply Inv_of; [exact I | exact W2 | eapply le_max_same_toks; [exact T2 | exact L1] | intros z; rewrite I2; apply IM].
  - intros X; inversion X; subst s' st; clear X.
    eapply Inv_of; [exact I | exact W | exact L1 | exact IM].
Qed.

Lemma contract_receive_inv s c h k dh rok s' r :
  contract_receive true s c h k dh rok = (s', r) -> Inv s -> Inv s'.
Proof.
  unfold contract_receive. intros H I.
  destruct (is_emb c) eqn:Hc; cbn [negb] in H; [|inversion H; subst; exact I].
  destruct (find_send h (sends s)) as [sd|] eqn:F; [|inversion H; subst; exact I].
  destruct (mem_pair (s_to sd, h) (conf s)) eqn:C; cbn [negb] in H; [|inversion H; subst; exact I].
  cbn [andb] in H. destruct (s_to sd =? c) eqn:T; cbn [negb] in H; [|inversion H; subst; exact I].
  apply Z.eqb_eq in T.
  destruct (seq_front c s) as [h'|] eqn:Q; [|inversion H; subst; exact I].
  destruct (h' =? h) eqn:E; cbn [negb] in H; [|inversion H; subst; exact I].
  apply Z.eqb_eq in E; subst h'.
  pose proof I as [_ [L W]].
  destruct (pop_front_spec _ _ _ _ W Hc F T Q) as [Wp [Hv Ip]].
  set (saved := pop_front s c h) in *.
  set (s1 := add_balance saved c (s_zts sd) (s_amt sd)) in *.
  assert (W1 : WF s1) by (apply WF_add_balance; assumption).
  assert (I1 : forall z, imb s1 z = imb s z).
  { intros z. unfold s1. rewrite imb_add_balance, Ip. destruct (s_zts sd =? z); lia. }
  assert (L1 : supply_le_max s1) by (eapply le_max_same_toks; [|exact L]; reflexivity).
  assert (RB : forall s'' st, rollback_embedded saved c sd dh rok = (s'', ROk st) -> Inv s'').
  { intros s'' st. eapply rollback_inv; eauto. }
  assert (RBm : (match rollback_embedded saved c sd dh rok with (_, RErr e) => (s, RErr e) | r0 => r0 end) = (s', r) -> Inv s').
  { destruct (rollback_embedded saved c sd dh rok) as [s'' [st|e]] eqn:RR; intros X; inversion X; subst; [eapply RB; eauto | exact I]. }
  assert (MAIN : match run_method s1 c sd k with
                 | None => (s, RErr E_PANIC)
                 | Some None => match rollback_embedded saved c sd dh rok with (_, RErr e) => (s, RErr e) | r0 => r0 end
                 | Some (Some (s2, descs)) =>
                   match apply_descs s2 c descs dh with
                   | inr e => if e =? E_PANIC then (s, RErr E_PANIC) else if e =? E_BAD_OP then (s, RErr E_BAD_OP) else
                              match rollback_embedded saved c sd dh rok with (_, RErr e0) => (s, RErr e0) | r0 => r0 end
                   | inl s3 => if descs_amounts_ok descs then (s3, ROk true) else (s, RErr E_DESC_VERIFY)
                   end
                 end = (s', r) -> Inv s').
  { destruct (run_method s1 c sd k) as [[[s2 descs]|]|] eqn:M.
    - destruct (run_method_spec _ _ _ _ _ _ M W1 L1) as [W2 [L2 [I2 _]]].
      destruct (apply_descs s2 c descs dh) as [s3|e] eqn:A.
      + destruct (descs_amounts_ok descs) eqn:OK; intros X; inversion X; subst; [|exact I].
        destruct (apply_descs_spec _ _ _ _ _ A OK W2) as [W3 [T3 [I3 _]]].
        eapply Inv_of; [exact I | exact W3 | eapply le_max_same_toks; [exact T3 | exact L2] |].
        intros z. rewrite I3, I2. apply I1.
      + destruct (e =? E_PANIC); [intros X; inversion X; subst; exact I|].
        destruct (e =? E_BAD_OP); [intros X; inversion X; subst; exact I|]. exact RBm.
    - exact RBm.
    - intros X; inversion X; subst; exact I. }
  exact (MAIN H).
Qed.

Theorem step_inv s o s' r : Inv s -> step true s o = (s', r) -> Inv s'.
Proof.
  intros I H. destruct o; cbn [step] in H.
  - eapply user_send_inv; eauto.
  - eapply user_receive_inv; eauto.
  - eapply contract_receive_inv; eauto.
  - eapply confirm_inv; eauto.
Qed.

Theorem run_inv ops : forall s, Inv s -> Inv (run true s ops).
Proof.
  induction ops as [|o r IH]; intros s I; cbn [run]; [exact I|].
  apply IH. destruct (step true s o) as [s' res] eqn:E. cbn [fst]. eapply step_inv; eauto.
Qed.

Theorem supply_conserved ops s0 :
  Inv s0 ->
  let s := run true s0 ops in
  (forall z, z <> ZeroId -> tok_total s z = sum_bal z (bal s) + inflight_sum z s) /\
  (forall z, tok_total s z <= tok_max s z) /\
  (forall a z, 0 <= balance s a z).
Proof.
  intros I s. pose proof (run_inv ops s0 I) as J. fold s in J.
  split; [exact (proj1 J)|]. split; [|apply Inv_bal_nonneg; exact J].
  intros z. unfold tok_total, tok_max. destruct (get_tok z (toks s)) as [t|] eqn:G; [|lia].
  exact (proj1 (proj2 J) z t G).
Qed.

(* ================================================================ shape of the transitions (no invariant needed) *)
Lemma balance_add_balance s a t v a' t' :
  balance (add_balance s a t v) a' t' = if key_eqb (a', t') (a, t) then balance s a t + v else balance s a' t'.
Proof.
  unfold balance, add_balance; cbn [bal]. destruct (key_eqb (a', t') (a, t)) eqn:K.
  - apply key_eqb_eq in K. rewrite K. apply get_set_bal_same.
  - apply key_eqb_neq in K. apply get_set_bal_other. exact K.
Qed.

Lemma apply_send_shape s h from to z v vok s' :
  apply_send s h from to z v vok = inl s' ->
  toks s' = toks s /\ rcv s' = rcv s /\ conf s' = conf s /\ front s' = front s /\
  sends s' = sends s ++ [mkSend h from to z v] /\
  (forall a t, balance s' a t = if key_eqb (a, t) (from, z) then balance s from z - v else balance s a t).
Proof.
  unfold apply_send. destruct (hash_used h s); [discriminate|].
  destruct vok; cbn [negb]; [|discriminate].
  destruct (enough_funds s from z v); cbn [negb]; [|discriminate].
  unfold sub_balance. destruct (v <=? get_bal (from, z) (bal s)); [|discriminate].
  intros X; inversion X; subst s'; clear X. unfold push_send; cbn [bal toks sends rcv conf front].
  repeat (split; [reflexivity|]). intros a t. unfold balance; cbn [bal].
  destruct (key_eqb (a, t) (from, z)) eqn:K.
  - apply key_eqb_eq in K. rewrite K. apply get_set_bal_same.
  - apply key_eqb_neq in K. apply get_set_bal_other. exact K.
Qed.

Lemma apply_descs_toks c descs : forall s dh s', apply_descs s c descs dh = inl s' -> toks s' = toks s.
Proof.
  induction descs as [|[[[to z] v] ok] r IH]; intros s dh s'; cbn [apply_descs].
  - intros X; inversion X; reflexivity.
  - destruct (negb ok); [discriminate|]. destruct (negb (enough_funds s c z v)); [discriminate|].
    destruct dh as [|h dh']; [discriminate|].
    destruct (apply_send s h c to z v ok) as [s1|e] eqn:A; [|discriminate].
    intros R. rewrite (IH _ _ _ R). apply (apply_send_shape _ _ _ _ _ _ _ _ A).
Qed.

Lemma rollback_shape saved c sd dh rok s' r :
  rollback_embedded saved c sd dh rok = (s', r) -> 0 <= s_amt sd ->
  (exists e, r = RErr e) \/
  (r = ROk false /\ toks s' = toks saved /\ rcv s' = rcv saved /\ conf s' = conf saved /\ front s' = front saved /\
   (forall a z, balance s' a z = balance saved a z) /\
   sends s' = sends saved ++ (if 0 <? s_amt sd then [mkSend (hd 0 dh) c (s_from sd) (s_zts sd) (s_amt sd)] else [])).
Proof.
  unfold rollback_embedded. destruct (0 <? s_amt sd) eqn:P.
  - destruct dh as [|h dh']; [intros X; inversion X; left; eauto|].
    destruct (apply_send _ h c (s_from sd) (s_zts sd) (s_amt sd) rok) as [s2|e] eqn:A; intros X Hv; inversion X; subst; [|left; eauto].
    right. destruct (apply_send_shape _ _ _ _ _ _ _ _ A) as [T [R [C [F [Sd B]]]]].
    split; [reflexivity|]. repeat (split; [assumption|]). split; [|exact Sd].
    intros a z. rewrite B, !balance_add_balance. rewrite key_eqb_refl.
    destruct (key_eqb (a, z) (c, s_zts sd)) eqn:K; [apply key_eqb_eq in K; inversion K; subst; lia | reflexivity].
  - intros X Hv; inversion X; subst. right. split; [reflexivity|]. repeat (split; [reflexivity|]).
    split; [|symmetry; apply app_nil_r].
    intros a z. rewrite balance_add_balance.
    destruct (key_eqb (a, z) (c, s_zts sd)) eqn:K; [apply key_eqb_eq in K; inversion K; subst; lia | reflexivity].
Qed.

Lemma contract_receive_cases enf s c h k dh rok s' r :
  contract_receive enf s c h k dh rok = (s', r) ->
  (exists e, r = RErr e /\ s' = s) \/
  (exists sd, find_send h (sends s) = Some sd /\ seq_front c s = Some h /\ is_emb c = true /\
     ((r = ROk false /\ rollback_embedded (pop_front s c h) c sd dh rok = (s', ROk false)) \/
      (r = ROk true /\ exists s2 descs,
          run_method (add_balance (pop_front s c h) c (s_zts sd) (s_amt sd)) c sd k = Some (Some (s2, descs)) /\
          apply_descs s2 c descs dh = inl s' /\ descs_amounts_ok descs = true))).
Proof.
  unfold contract_receive. intros H.
  destruct (is_emb c) eqn:Hc; cbn [negb] in H; [|inversion H; subst; left; eauto].
  destruct (find_send h (sends s)) as [sd|] eqn:F; [|inversion H; subst; left; eauto].
  destruct (negb (mem_pair (s_to sd, h) (conf s))); [inversion H; subst; left; eauto|].
  destruct (enf && negb (s_to sd =? c)); [inversion H; subst; left; eauto|].
  destruct (seq_front c s) as [h'|] eqn:Q; [|inversion H; subst; left; eauto].
  destruct (h' =? h) eqn:E; cbn [negb] in H; [|inversion H; subst; left; eauto].
  apply Z.eqb_eq in E; subst h'.
  set (saved := pop_front s c h) in *.
  set (s1 := add_balance saved c (s_zts sd) (s_amt sd)) in *.
  assert (RBm : (match rollback_embedded saved c sd dh rok with (_, RErr e) => (s, RErr e) | r0 => r0 end) = (s', r) ->
                (exists e, r = RErr e /\ s' = s) \/ (r = ROk false /\ rollback_embedded saved c sd dh rok = (s', ROk false))).
  { destruct (rollback_embedded saved c sd dh rok) as [s'' [st|e]] eqn:RR; intros X; inversion X; subst; [|left; eauto].
    right. unfold rollback_embedded in RR.
    destruct (0 <? s_amt sd); [destruct dh; [discriminate|]; destruct (apply_send _ _ _ _ _ _ _); inversion RR; subst; auto | inversion RR; subst; auto]. }
  assert (MAIN : match run_method s1 c sd k with
                 | None => (s, RErr E_PANIC)
                 | Some None => match rollback_embedded saved c sd dh rok with (_, RErr e) => (s, RErr e) | r0 => r0 end
                 | Some (Some (s2, descs)) =>
                   match apply_descs s2 c descs dh with
                   | inr e => if e =? E_PANIC then (s, RErr E_PANIC) else if e =? E_BAD_OP then (s, RErr E_BAD_OP) else
                              match rollback_embedded saved c sd dh rok with (_, RErr e0) => (s, RErr e0) | r0 => r0 end
                   | inl s3 => if descs_amounts_ok descs then (s3, ROk true) else (s, RErr E_DESC_VERIFY)
                   end
                 end = (s', r) ->
          (exists e, r = RErr e /\ s' = s) \/
          ((r = ROk false /\ rollback_embedded saved c sd dh rok = (s', ROk false)) \/
           (r = ROk true /\ exists s2 descs, run_method s1 c sd k = Some (Some (s2, descs)) /\
                               apply_descs s2 c descs dh = inl s' /\ descs_amounts_ok descs = true))).
  { destruct (run_method s1 c sd k) as [[[s2 descs]|]|] eqn:M.
    - destruct (apply_descs s2 c descs dh) as [s3|e] eqn:A.
      + destruct (descs_amounts_ok descs) eqn:OK; intros X; inversion X; subst; [|left; eauto].
        right; right. split; [reflexivity|]. exists s2, descs. auto.
      + destruct (e =? E_PANIC); [intros X; inversion X; subst; left; eauto|].
        destruct (e =? E_BAD_OP); [intros X; inversion X; subst; left; eauto|].
        intros X. destruct (RBm X) as [Y|Y]; [left; exact Y | right; left; exact Y].
    - intros X. destruct (RBm X) as [Y|Y]; [left; exact Y | right; left; exact Y].
    - intros X; inversion X; subst; left; eauto. }
  assert (G : (exists e, r = RErr e /\ s' = s) \/
          ((r = ROk false /\ rollback_embedded saved c sd dh rok = (s', ROk false)) \/
           (r = ROk true /\ exists s2 descs, run_method s1 c sd k = Some (Some (s2, descs)) /\
                               apply_descs s2 c descs dh = inl s' /\ descs_amounts_ok descs = true)))
    by (exact (MAIN H)).
  destruct G as [G|G]; [left; exact G | right; exists sd; auto].
Qed.

(* a block that is not produced leaves the ledger as it was *)
Theorem rejected_no_change enf s o s' e : step enf s o = (s', RErr e) -> s' = s.
Proof.
  destruct o; cbn [step].
  - unfold user_send. destruct (is_emb from); [intros X; inversion X; reflexivity|].
    destruct (negb (amounts_check z v =? 0)); [intros X; inversion X; reflexivity|].
    destruct (apply_send s h from to z v vok); intros X; inversion X; reflexivity.
  - unfold user_receive. destruct (is_emb a); [intros X; inversion X; reflexivity|].
    destruct (find_send h (sends s)); [|intros X; inversion X; reflexivity].
    destruct (negb (mem_pair (s_to s0, h) (conf s))); [intros X; inversion X; reflexivity|].
    destruct (enf && negb (s_to s0 =? a)); [intros X; inversion X; reflexivity|].
    destruct (mem_pair (a, h) (rcv s)); intros X; inversion X; reflexivity.
  - intros H. destruct (contract_receive_cases _ _ _ _ _ _ _ _ _ H) as [[e' [_ E]]|[sd [_ [_ [_ [[X _]|[X _]]]]]]]; [exact E | discriminate | discriminate].
  - unfold confirm. destruct (find_send h (sends s)); [|intros X; inversion X; reflexivity].
    destruct (mem_pair (s_to s0, h) (conf s)); intros X; inversion X; reflexivity.
Qed.

(* a failed call: the contract keeps nothing, the sender gets a send of exactly the amount and token it sent *)
Theorem refund_exact enf s c h k dh rok s' :
  WF s -> contract_receive enf s c h k dh rok = (s', ROk false) ->
  exists sd, find_send h (sends s) = Some sd /\
    toks s' = toks s /\ (forall a z, balance s' a z = balance s a z) /\
    rcv s' = (c, h) :: rcv s /\
    sends s' = sends s ++ (if 0 <? s_amt sd then [mkSend (hd 0 dh) c (s_from sd) (s_zts sd) (s_amt sd)] else []).
Proof.
  intros W H. destruct (contract_receive_cases _ _ _ _ _ _ _ _ _ H) as [[e [X _]]|[sd [F [_ [_ [[_ R]|[X _]]]]]]]; try discriminate.
  exists sd. split; [exact F|].
  assert (Hv : 0 <= s_amt sd).
  { pose proof (wf_amt _ W) as FA. rewrite Forall_forall in FA. apply FA. eapply find_send_in; eauto. }
  destruct (rollback_shape _ _ _ _ _ _ _ R Hv) as [[e X]|[_ [T [Rc [_ [_ [B Sd]]]]]]]; [discriminate|].
  split; [exact T|]. split; [exact B|]. split; [exact Rc | exact Sd].
Qed.

(* ================================================================ only issue / mint / burn change the recorded supply *)
Lemma tok_total_same_toks s s' : toks s' = toks s -> forall z, tok_total s' z = tok_total s z.
Proof. intros E z. unfold tok_total. rewrite E. reflexivity. Qed.

Lemma m_update_total s sd z owner mi bu uok s2 descs :
  m_update s sd z owner mi bu uok = Some (s2, descs) -> forall z', tok_total s2 z' = tok_total s z'.
Proof.
  unfold m_update.
  destruct uok; cbn [negb]; [|discriminate].
  destruct (0 <? s_amt sd); [discriminate|].
  destruct (get_tok z (toks s)) as [t|] eqn:G; [|discriminate].
  destruct (negb (t_owner t =? s_from sd)); [discriminate|].
  destruct (negb (Bool.eqb (t_mintable t) mi) && negb (t_mintable t)); [discriminate|].
  intros X; inversion X; subst s2 descs; clear X.
  intros z'. rewrite tok_total_set_tok. cbn [t_total]. destruct (z' =? z) eqn:E; [|reflexivity].
  apply Z.eqb_eq in E; subst. unfold tok_total. rewrite G. reflexivity.
Qed.

Theorem only_token_ops_change_supply enf s o s' r :
  step enf s o = (s', r) ->
  (forall z, tok_total s' z = tok_total s z) \/
  (exists h k dh rok, o = OContractReceive TokenContract h k dh rok /\ is_token_call k = true /\ r = ROk true).
Proof.
  destruct o; cbn [step].
  - unfold user_send. destruct (is_emb from); [intros X; inversion X; left; reflexivity|].
    destruct (negb (amounts_check z v =? 0)); [intros X; inversion X; left; reflexivity|].
    destruct (apply_send s h from to z v vok) eqn:A; intros X; inversion X; subst; left; [|reflexivity].
    apply tok_total_same_toks. apply (apply_send_shape _ _ _ _ _ _ _ _ A).
  - unfold user_receive. destruct (is_emb a); [intros X; inversion X; left; reflexivity|].
    destruct (find_send h (sends s)); [|intros X; inversion X; left; reflexivity].
    destruct (negb (mem_pair (s_to s0, h) (conf s))); [intros X; inversion X; left; reflexivity|].
    destruct (enf && negb (s_to s0 =? a)); [intros X; inversion X; left; reflexivity|].
    destruct (mem_pair (a, h) (rcv s)); intros X; inversion X; left; reflexivity.
  - intros H. destruct (contract_receive_cases _ _ _ _ _ _ _ _ _ H) as [[e [_ E]]|[sd [F [_ [_ [[_ R]|[Er [s2 [descs [M [A _]]]]]]]]]]].
    + subst; left; reflexivity.
    + left. apply tok_total_same_toks. unfold rollback_embedded in R.
      destruct (0 <? s_amt sd).
      * destruct dh as [|h0 dh0]; [discriminate|].
        destruct (apply_send _ h0 c (s_from sd) (s_zts sd) (s_amt sd) rok) eqn:A; inversion R; subst.
        apply (apply_send_shape _ _ _ _ _ _ _ _ A).
      * inversion R; subst. reflexivity.
    + pose proof (apply_descs_toks _ _ _ _ _ A) as T3.
      destruct k; cbn [run_method] in M; try discriminate.
      * destruct (c =? TokenContract) eqn:EC; [|discriminate]. apply Z.eqb_eq in EC; subst c.
        right. exists h, (KIssue nz total max mintable burnable text_ok dok), dh, rok. auto.
      * destruct (c =? TokenContract) eqn:EC; [|discriminate]. apply Z.eqb_eq in EC; subst c.
        right. exists h, (KMint z amount to unpack_ok dok), dh, rok. auto.
      * destruct (c =? TokenContract) eqn:EC; [|discriminate]. apply Z.eqb_eq in EC; subst c.
        right. exists h, (KBurn unpack_ok), dh, rok. auto.
      * destruct (c =? TokenContract); [|discriminate]. inversion M as [M'].
        left. intros z'. rewrite (tok_total_same_toks _ _ T3).
        rewrite (m_update_total _ _ _ _ _ _ _ _ _ M' z'). apply tok_total_same_toks. reflexivity.
      * destruct ok; [|discriminate]. inversion M; subst s2. left. intros z'.
        rewrite (tok_total_same_toks _ _ T3). reflexivity.
  - unfold confirm. destruct (find_send h (sends s)); [|intros X; inversion X; left; reflexivity].
    destruct (mem_pair (s_to s0, h) (conf s)); intros X; inversion X; left; reflexivity.
Qed.

(* ================================================================ genesis *)
Lemma get_tok_in z t m : get_tok z m = Some t -> In (z, t) m.
Proof.
  induction m as [|[z' t'] r IH]; cbn [get_tok]; [discriminate|].
  destruct (z =? z') eqn:E; [apply Z.eqb_eq in E; subst; intros X; inversion X; left; reflexivity | right; auto].
Qed.
Lemma sum_bal_absent z m : (forall e, In e m -> snd (fst e) <> z) -> sum_bal z m = 0.
Proof.
  induction m as [|[k v] r IH]; cbn [sum_bal]; [reflexivity|]. intros H.
  assert (snd k =? z = false) as -> by (apply Z.eqb_neq; apply (H (k, v)); left; reflexivity).
  apply IH. intros e He. apply H. right; exact He.
Qed.

Theorem genesis_sound balances tokens :
  check_token_total_supply balances tokens = true ->
  Forall (fun zt => t_total (snd zt) <= t_max (snd zt)) tokens ->
  Forall (fun e => 0 <= snd e) balances ->
  Inv (genesis_state balances tokens).
Proof.
  unfold check_token_total_supply. rewrite andb_true_iff, !forallb_forall. intros [A B] M N.
  split; [|split].
  - intros z _. unfold tok_total, inflight_sum, genesis_state; cbn [bal toks sends rcv inflight_of].
    destruct (get_tok z tokens) as [t|] eqn:G.
    + apply get_tok_in in G. specialize (A _ G). cbn [fst snd] in A. lia.
    + rewrite sum_bal_absent; [lia|]. intros e He Ez. specialize (B _ He). rewrite Ez, G in B. discriminate.
  - intros z t G. cbn [genesis_state toks] in G. apply get_tok_in in G. rewrite Forall_forall in M. exact (M _ G).
  - constructor; unfold genesis_state, inbox; cbn [bal toks sends rcv conf front map hashes_of rev get_front].
    + constructor.
    + constructor.
    + intros ? ? [].
    + intros ? ? [].
    + constructor.
    + intros c _. cbn. repeat split; lia.
    + exact N.
Qed.

(* ================================================================ before the enforcement height (protocol history, not a finding) *)
Definition pre_enf_state : state :=
  genesis_state [((100, 1), 10)] [(1, mkToken 10 100 3 true true)].
Definition pre_enf_ops : list op :=
  [OSend 1000 100 101 1 5 true; OConfirm 1000; OReceive 102 1000; OReceive 101 1000].

Theorem pre_enforcement_refuted :
  Inv pre_enf_state /\ ~ supply_eq (run false pre_enf_state pre_enf_ops).
Proof.
  split.
  - apply genesis_sound; [vm_compute; reflexivity | |]; repeat constructor; cbn; lia.
  - intros H. specialize (H 1). vm_compute in H. assert (1 <> 0) as N by lia. specialize (H N). discriminate.
Qed.
