(* C15 — proofs about the live discovery endpoint model (Discv.v) *)
From ZV Require Import Prelude GoSem Discv.
From Coq Require Import Lia List.
Import ListNotations.
Open Scope Z_scope.
Ltac Zify.zify_post_hook ::= Z.div_mod_to_equations.

(* ---------------------------------------------------------------- bounds checks *)
Lemma at_res_ok : forall l i, (i < length l)%nat -> exists v, at_res l i = Ok v.
Proof.
  intros l i Hi. unfold at_res. destruct (nth_error l i) eqn:E; [eauto|].
  apply nth_error_None in E. lia.
Qed.

Lemma slice_res_ok : forall l a b, (a <= b)%nat -> (b <= length l)%nat ->
  exists s, slice_res l a b = Ok s /\ length s = (b - a)%nat.
Proof.
  intros l a b Hab Hb. unfold slice_res.
  assert (Ha : (a <=? b)%nat = true) by (apply Nat.leb_le; lia).
  assert (Hb' : (b <=? length l)%nat = true) by (apply Nat.leb_le; lia).
  rewrite Ha, Hb'. cbn [andb]. eexists; split; [reflexivity|].
  rewrite firstn_length, skipn_length. lia.
Qed.

Lemma ip_len_eq : forall ip k, (ip_len ip =? k) = true -> length ip = Z.to_nat k.
Proof. intros ip k H. apply Z.eqb_eq in H. unfold ip_len in H. lia. Qed.

(* ---------------------------------------------------------------- To4 / IsMulticast / Equal / IsUnspecified *)
Lemma to4_ok : forall ip, exists o, to4 ip = Ok o /\ (forall v, o = Some v -> length v = 4%nat).
Proof.
  intros ip. unfold to4.
  destruct (ip_len ip =? 4) eqn:E4.
  { apply ip_len_eq in E4. eexists; split; [reflexivity|]. intros v Hv. inversion Hv; subst. exact E4. }
  destruct (ip_len ip =? 16) eqn:E16.
  2:{ eexists; split; [reflexivity|]. intros v Hv; discriminate. }
  apply ip_len_eq in E16. change (Z.to_nat 16) with 16%nat in E16.
  destruct (slice_res_ok ip 0 10) as [z [Hz _]]; [lia|lia|]. rewrite Hz. cbn [bind].
  destruct (negb (is_zeros z)). { eexists; split; [reflexivity|]. intros v Hv; discriminate. }
  destruct (at_res_ok ip 10) as [a Ha]; [lia|]. rewrite Ha. cbn [bind].
  destruct (negb (a =? 255)). { eexists; split; [reflexivity|]. intros v Hv; discriminate. }
  destruct (at_res_ok ip 11) as [b Hb]; [lia|]. rewrite Hb. cbn [bind].
  destruct (negb (b =? 255)). { eexists; split; [reflexivity|]. intros v Hv; discriminate. }
  destruct (slice_res_ok ip 12 16) as [s [Hs Hl]]; [lia|lia|]. rewrite Hs. cbn [bind].
  eexists; split; [reflexivity|]. intros v Hv. inversion Hv; subst. exact Hl.
Qed.

Lemma is_multicast_ok : forall ip, exists b, is_multicast ip = Ok b.
Proof.
  intros ip. unfold is_multicast.
  destruct (to4_ok ip) as [o [Ho Hl]]. rewrite Ho. cbn [bind].
  destruct o as [v|].
  - destruct (at_res_ok v 0) as [b Hb]; [rewrite (Hl v eq_refl); lia|]. rewrite Hb. cbn [bind]. eauto.
  - destruct (ip_len ip =? 16) eqn:E16; [|eauto].
    apply ip_len_eq in E16. change (Z.to_nat 16) with 16%nat in E16.
    destruct (at_res_ok ip 0) as [b Hb]; [lia|]. rewrite Hb. cbn [bind]. eauto.
Qed.

Lemma ip_equal_ok : forall ip x, exists b, ip_equal ip x = Ok b.
Proof.
  intros ip x. unfold ip_equal.
  destruct (ip_len ip =? ip_len x); [eauto|].
  destruct ((ip_len ip =? 4) && (ip_len x =? 16)) eqn:E1.
  { apply andb_prop in E1. destruct E1 as [_ E]. apply ip_len_eq in E. change (Z.to_nat 16) with 16%nat in E.
    destruct (slice_res_ok x 0 12) as [p [Hp _]]; [lia|lia|]. rewrite Hp. cbn [bind].
    destruct (negb (bytes_eqb p v4InV6Prefix)); [eauto|].
    destruct (slice_res_ok x 12 (length x)) as [t [Ht _]]; [lia|lia|]. rewrite Ht. cbn [bind]. eauto. }
  destruct ((ip_len ip =? 16) && (ip_len x =? 4)) eqn:E2; [|eauto].
  apply andb_prop in E2. destruct E2 as [E _]. apply ip_len_eq in E. change (Z.to_nat 16) with 16%nat in E.
  destruct (slice_res_ok ip 0 12) as [p [Hp _]]; [lia|lia|]. rewrite Hp. cbn [bind].
  destruct (negb (bytes_eqb p v4InV6Prefix)); [eauto|].
  destruct (slice_res_ok ip 12 (length ip)) as [t [Ht _]]; [lia|lia|]. rewrite Ht. cbn [bind]. eauto.
Qed.

Lemma is_unspecified_ok : forall ip, exists b, is_unspecified ip = Ok b.
Proof.
  intros ip. unfold is_unspecified.
  destruct (ip_equal_ok ip IPv4zero) as [a Ha]. rewrite Ha. cbn [bind].
  destruct a; [eauto|]. apply ip_equal_ok.
Qed.

(* nodeFromRPC (and the address newNode stores) never reaches an index or a slice out of range, whatever the length
   and the content of the address bytes and whatever the port *)
Lemma node_from_rpc_no_panic : forall ip udp, node_from_rpc ip udp <> Panic /\ node_ip ip <> Panic.
Proof.
  intros ip udp. split.
  - unfold node_from_rpc.
    destruct (is_multicast_ok ip) as [m Hm]. rewrite Hm. cbn [bind].
    destruct m; [discriminate|].
    destruct (is_unspecified_ok ip) as [u Hu]. rewrite Hu. cbn [bind].
    destruct u; discriminate.
  - unfold node_ip. destruct (to4_ok ip) as [o [Ho _]]. rewrite Ho. cbn [bind]. destruct o; discriminate.
Qed.

(* an entry without a discovery port is never turned into a node *)
Lemma node_from_rpc_port0 : forall ip, node_from_rpc ip 0 = Ok false.
Proof.
  intros ip. unfold node_from_rpc.
  destruct (is_multicast_ok ip) as [m Hm]. rewrite Hm. cbn [bind].
  destruct m; [reflexivity|].
  destruct (is_unspecified_ok ip) as [u Hu]. rewrite Hu. cbn [bind].
  destruct u; reflexivity.
Qed.

(* ---------------------------------------------------------------- expiration *)
Lemma expired_spec : forall ts now, 0 <= ts < two64 -> 0 <= now < 2 ^ 62 ->
  (expired ts now = false <-> (now < ts /\ ts < two63 - unixToInternal)).
Proof.
  intros ts now Hts Hnow. unfold expired, to_int64, wrapS, unixToInternal, two64, two63 in *.
  rewrite Z.leb_gt.
  change (2 ^ 64) with 18446744073709551616. change (2 ^ (64 - 1)) with 9223372036854775808.
  change (2 ^ 62) with 4611686018427387904 in Hnow.
  destruct (ts mod 18446744073709551616 <? 9223372036854775808) eqn:E;
    [apply Z.ltb_lt in E|apply Z.ltb_ge in E]; lia.
Qed.

(* ---------------------------------------------------------------- the findnode answer *)
Lemma rev_repeat : forall (x : Z) n, rev (repeat x n) = repeat x n.
Proof.
  intros x n. induction n as [|n IHn]; [reflexivity|].
  cbn [repeat rev]. rewrite IHn. clear IHn. induction n as [|n IHn]; [reflexivity|]. cbn [repeat app]. now rewrite IHn.
Qed.

Lemma repeat_succ : forall (m k : Z), 0 <= k -> m :: repeat m (Z.to_nat k) = repeat m (Z.to_nat (k + 1)).
Proof. intros m k Hk. replace (Z.to_nat (k + 1)) with (S (Z.to_nat k)) by lia. reflexivity. Qed.

(* invariant of the loop: k full datagrams sent, cur entries waiting, i = k*m + cur entries seen; entries wait only
   while there is another iteration *)
Lemma fn_loop_spec : forall fuel i c cur m k,
  1 <= m -> 0 <= cur < m -> i = k * m + cur -> 0 <= k -> i <= c -> Z.of_nat fuel = c - i -> (cur = 0 \/ i < c) ->
  exists k' last, fn_loop fuel i c cur m (repeat m (Z.to_nat k)) = repeat m (Z.to_nat k') ++ last /\ 0 <= k' /\
    ((last = [] /\ c = k' * m) \/ (exists x, last = [x] /\ 1 <= x < m /\ c = k' * m + x)).
Proof.
  induction fuel as [|f IH]; intros i c cur m k Hm Hcur Hi Hk Hic Hf Hw.
  - cbn [fn_loop]. rewrite rev_repeat. exists k, []. rewrite app_nil_r.
    split; [reflexivity|]. split; [lia|]. left. split; [reflexivity|]. lia.
  - cbn [fn_loop].
    assert (Hlt : (i <? c) = true) by (apply Z.ltb_lt; lia). rewrite Hlt.
    destruct (cur + 1 =? m) eqn:Efull.
    + apply Z.eqb_eq in Efull. cbn [orb]. rewrite Efull. rewrite repeat_succ by lia.
      apply IH; try lia.
    + apply Z.eqb_neq in Efull. cbn [orb].
      destruct (i =? c - 1) eqn:Elast.
      * apply Z.eqb_eq in Elast. assert (f = O) by lia. subst f. cbn [fn_loop rev]. rewrite rev_repeat.
        exists k, [cur + 1]. split; [reflexivity|]. split; [lia|]. right. exists (cur + 1). split; [reflexivity|]. lia.
      * apply Z.eqb_neq in Elast. apply IH; try lia.
Qed.

Lemma zsum_app : forall a b, zsum (a ++ b) = zsum a + zsum b.
Proof. intros a b. unfold zsum. induction a as [|x a IH]; cbn [app fold_right]; [lia|]. rewrite IH. lia. Qed.
Lemma zsum_repeat : forall m n, zsum (repeat m n) = Z.of_nat n * m.
Proof. intros m n. unfold zsum. induction n as [|n IH]; [reflexivity|]. cbn [repeat fold_right]. rewrite IH. lia. Qed.

(* the answer to a findnode: every datagram carries between 1 and m entries, all of them together are the c closest
   entries, and there are ceil(c/m) datagrams *)
Lemma findnode_answer_spec : forall c m, 0 <= c -> 1 <= m ->
  let l := findnode_answer c m in
  zsum l = c /\ Forall (fun x => 1 <= x <= m) l /\ Z.of_nat (length l) * m < c + m.
Proof.
  intros c m Hc Hm l. subst l. unfold findnode_answer.
  destruct (fn_loop_spec (Z.to_nat c) 0 c 0 m 0) as [k' [last [Hr [Hk' Hl]]]]; try lia.
  change (repeat m (Z.to_nat 0)) with (@nil Z) in Hr. rewrite Hr.
  rewrite zsum_app, zsum_repeat, app_length, repeat_length.
  assert (HF : Forall (fun x => 1 <= x <= m) (repeat m (Z.to_nat k'))).
  { clear -Hm. induction (Z.to_nat k') as [|n IHn]; [constructor|]. cbn [repeat]. constructor; [lia|exact IHn]. }
  destruct Hl as [[Hl Hcm]|[x [Hl [Hx Hcm]]]]; subst last.
  - unfold zsum. cbn [fold_right length]. rewrite app_nil_r. split; [lia|]. split; [exact HF|]. nia.
  - unfold zsum. cbn [fold_right length]. split; [lia|]. split; [|nia].
    apply Forall_app. split; [exact HF|]. constructor; [lia|constructor].
Qed.

(* ---------------------------------------------------------------- the per-packet decision *)
Lemma disc_handle_refused : forall kind decodes ts now version known closest,
  decodes = false \/ expired ts now = true \/ kind = dvPong \/ kind = dvNeighbors \/ (kind = dvFindnode /\ known = false)
  \/ (kind = dvPing /\ version <> dvVersion) \/ (kind < 1 \/ 4 < kind) ->
  disc_handle kind decodes ts now version known closest = (0, 0, 0).
Proof.
  intros kind decodes ts now version known closest H. unfold disc_handle.
  destruct decodes; cbn [negb]; [|reflexivity].
  destruct (expired ts now); [reflexivity|].
  destruct H as [H|[H|[H|[H|[[H1 H2]|[[H1 H2]|H]]]]]]; try discriminate; subst; cbn.
  - reflexivity.
  - reflexivity.
  - reflexivity.
  - destruct (version =? dvVersion) eqn:E; [apply Z.eqb_eq in E; contradiction|reflexivity].
  - unfold dvPing, dvFindnode.
    destruct (kind =? 1) eqn:E1; [apply Z.eqb_eq in E1; lia|].
    destruct (kind =? 3) eqn:E3; [apply Z.eqb_eq in E3; lia|]. reflexivity.
Qed.

Lemma disc_handle_bounded : forall kind decodes ts now version known closest,
  0 <= closest <= dvBucketSize ->
  let '(pongs, dgrams, nodes) := disc_handle kind decodes ts now version known closest in
  0 <= pongs <= 1 /\ 0 <= dgrams /\ dgrams * dvMaxNeighbors < dvBucketSize + dvMaxNeighbors /\ 0 <= nodes <= dvBucketSize
  /\ (nodes = 0 \/ nodes = closest) /\ (pongs = 0 \/ dgrams = 0).
Proof.
  intros kind decodes ts now version known closest Hc. unfold disc_handle.
  destruct decodes; cbn [negb]; [|unfold dvMaxNeighbors, dvBucketSize; lia].
  destruct (expired ts now); [unfold dvMaxNeighbors, dvBucketSize; lia|].
  destruct (kind =? dvPing). { destruct (version =? dvVersion); unfold dvMaxNeighbors, dvBucketSize; lia. }
  destruct (kind =? dvFindnode); [|unfold dvMaxNeighbors, dvBucketSize; lia].
  destruct known; [|unfold dvMaxNeighbors, dvBucketSize; lia].
  pose proof (findnode_answer_spec closest dvMaxNeighbors) as S. cbv zeta in S.
  destruct S as [S1 [S2 S4]]; [lia|unfold dvMaxNeighbors; lia|].
  cbv zeta. rewrite S1. unfold dvBucketSize, dvMaxNeighbors in *. lia.
Qed.

(* ---------------------------------------------------------------- the reply callback of findnode *)
Lemma looked_at_bounded : forall replies M nrecv, 0 <= M -> Forall (fun n => 0 <= n <= M) replies ->
  nrecv + looked_at nrecv replies <= Z.max nrecv (dvBucketSize - 1 + M) /\ 0 <= looked_at nrecv replies.
Proof.
  induction replies as [|n r IH]; intros M nrecv HM HF.
  - cbn [looked_at]. lia.
  - inversion HF as [|? ? Hn Hr]; subst. cbn [looked_at].
    destruct (nrecv <? dvBucketSize) eqn:E.
    + apply Z.ltb_lt in E. destruct (IH M (nrecv + n) HM Hr) as [I1 I2]. unfold dvBucketSize in *. lia.
    + apply (IH M nrecv HM Hr).
Qed.

(* once bucketSize entries were received, nothing more is looked at *)
Lemma collect_done : forall replies nrecv, dvBucketSize <= nrecv -> collect nrecv replies = repeat false (length replies).
Proof.
  induction replies as [|n r IH]; intros nrecv H; [reflexivity|].
  cbn [collect length repeat]. assert (E : (nrecv <? dvBucketSize) = false) by (apply Z.ltb_ge; lia).
  rewrite E. now rewrite IH.
Qed.

(* ---------------------------------------------------------------- the pending-reply queue *)
Definition matches (from ptype : Z) (p : pend) : bool := (p_from p =? from) && (p_type p =? ptype).

Lemma got_reply_unsolicited : forall q from ptype n,
  forallb (fun p => negb (matches from ptype p)) q = true -> got_reply q from ptype n = (q, false).
Proof.
  induction q as [|p r IH]; intros from ptype n H; [reflexivity|].
  cbn [forallb] in H. apply andb_prop in H. destruct H as [Hp Hr].
  cbn [got_reply]. rewrite (IH _ _ n Hr). unfold matches in Hp. apply negb_true_iff in Hp. rewrite Hp. reflexivity.
Qed.

Lemma got_reply_shrinks : forall q from ptype n, (length (fst (got_reply q from ptype n)) <= length q)%nat.
Proof.
  induction q as [|p r IH]; intros from ptype n; [cbn; lia|].
  cbn [got_reply]. specialize (IH from ptype n). destruct (got_reply r from ptype n) as [r' m]. cbn [fst] in IH.
  destruct ((p_from p =? from) && (p_type p =? ptype)).
  - destruct (callback p n) as [p' done]. destruct done; cbn [fst length]; lia.
  - cbn [fst length]. lia.
Qed.

(* the waiters for other senders / other packet types are untouched, in order *)
Lemma got_reply_others : forall q from ptype n,
  filter (fun p => negb (matches from ptype p)) (fst (got_reply q from ptype n)) = filter (fun p => negb (matches from ptype p)) q.
Proof.
  induction q as [|p r IH]; intros from ptype n; [reflexivity|].
  cbn [got_reply]. specialize (IH from ptype n). destruct (got_reply r from ptype n) as [r' m]. cbn [fst] in IH.
  cbn [filter]. unfold matches at 2.
  destruct ((p_from p =? from) && (p_type p =? ptype)) eqn:E.
  - cbn [negb]. unfold callback. destruct (p_type p =? dvNeighbors).
    + destruct (dvBucketSize <=? p_nrecv p + n); cbn [fst filter]; [exact IH|].
      unfold matches at 1. cbn [p_from p_type]. rewrite E. cbn [negb]. exact IH.
    + cbn [fst]. exact IH.
  - cbn [negb fst filter]. unfold matches at 1. rewrite E. cbn [negb]. now rewrite IH.
Qed.

(* a reply never moves a deadline: whatever stays in the queue keeps sender, type and deadline *)
Lemma got_reply_deadlines : forall q from ptype n p',
  In p' (fst (got_reply q from ptype n)) ->
  exists p, In p q /\ p_from p' = p_from p /\ p_type p' = p_type p /\ p_deadline p' = p_deadline p.
Proof.
  induction q as [|p r IH]; intros from ptype n p' Hin; [cbn in Hin; contradiction|].
  cbn [got_reply] in Hin. specialize (IH from ptype n p'). destruct (got_reply r from ptype n) as [r' m]. cbn [fst] in IH.
  destruct ((p_from p =? from) && (p_type p =? ptype)).
  - unfold callback in Hin. destruct (p_type p =? dvNeighbors).
    + destruct (dvBucketSize <=? p_nrecv p + n); cbn [fst] in Hin.
      * destruct (IH Hin) as [x [Hx Hy]]. exists x. split; [right; exact Hx|exact Hy].
      * destruct Hin as [Hin|Hin].
        { subst p'. exists p. split; [left; reflexivity|]. cbn. auto. }
        { destruct (IH Hin) as [x [Hx Hy]]. exists x. split; [right; exact Hx|exact Hy]. }
    + cbn [fst] in Hin. destruct (IH Hin) as [x [Hx Hy]]. exists x. split; [right; exact Hx|exact Hy].
  - cbn [fst] in Hin. destruct Hin as [Hin|Hin].
    + subst p'. exists p. split; [left; reflexivity|auto].
    + destruct (IH Hin) as [x [Hx Hy]]. exists x. split; [right; exact Hx|exact Hy].
Qed.

(* the timeout case: what is left starts with an entry that is still in time (the queue is in deadline order:
   entries are appended with now + respTimeout), and nothing is added *)
Lemma time_out_spec : forall q now,
  (exists gone, q = gone ++ time_out q now /\ Forall (fun p => p_deadline p < now) gone)
  /\ match time_out q now with [] => True | p :: _ => now <= p_deadline p end.
Proof.
  induction q as [|p r IH]; intros now.
  - split; [exists []; split; [reflexivity|constructor]|exact I].
  - cbn [time_out]. destruct (p_deadline p <? now) eqn:E.
    + apply Z.ltb_lt in E. destruct (IH now) as [[gone [Hg HF]] Hh]. split; [|exact Hh].
      exists (p :: gone). split; [cbn [app]; now rewrite <- Hg|constructor; [exact E|exact HF]].
    + apply Z.ltb_ge in E. split; [exists []; split; [reflexivity|constructor]|exact E].
Qed.
