(* Proofs about Block.v: the hash pre-image of blocks and momentums is injective on the covered fields. *)
From ZV Require Import Prelude PoWProofs Block.
Open Scope Z_scope.
Ltac Zify.zify_post_hook ::= Z.div_mod_to_equations.

(* ---- lists *)
Lemma app_inj_length {A} (a a' b b' : list A) :
  length a = length a' -> a ++ b = a' ++ b' -> a = a' /\ b = b'.
Proof.
  revert a'; induction a as [|x a IH]; intros [|y a'] Hl E; cbn in *; try discriminate.
  - auto.
  - injection E as -> E. injection Hl as Hl. destruct (IH _ Hl E) as [-> ->]. auto.
Qed.

Lemma concat_inj_fixed {A} (n : nat) (l1 l2 : list (list A)) :
  (0 < n)%nat -> Forall (fun x => length x = n) l1 -> Forall (fun x => length x = n) l2 ->
  concat l1 = concat l2 -> l1 = l2.
Proof.
  intros Hn H1; revert l2; induction H1 as [|x l1 Hx _ IH]; intros l2 H2 E.
  - destruct H2 as [|y l2 Hy _]; [reflexivity|]. cbn in E. destruct y; cbn in *; [lia|discriminate].
  - destruct H2 as [|y l2 Hy H2].
    + cbn in E. destruct x; cbn in *; [lia|discriminate].
    + cbn in E. apply app_inj_length in E as [-> E]; [|congruence]. f_equal. apply IH; auto.
Qed.

(* ---- big-endian fixed width *)
Lemma be_bytes_length n x : length (be_bytes n x) = n.
Proof. unfold be_bytes. rewrite rev_length. apply le_bytes_length. Qed.
Lemma be_bytes_byte n x : Forall byte (be_bytes n x).
Proof. unfold be_bytes. apply Forall_rev. apply le_bytes_byte. Qed.
Lemma be_value_bytes n x : 0 <= x < 256 ^ Z.of_nat n -> be_value (be_bytes n x) = x.
Proof. intros. unfold be_value, be_bytes. rewrite rev_involutive. apply le_bytes_value; auto. Qed.
Lemma be_bytes_inj n x y :
  0 <= x < 256 ^ Z.of_nat n -> 0 <= y < 256 ^ Z.of_nat n -> be_bytes n x = be_bytes n y -> x = y.
Proof. intros Hx Hy E. rewrite <- (be_value_bytes n x Hx), <- (be_value_bytes n y Hy), E. reflexivity. Qed.

Lemma two64_pow : 256 ^ Z.of_nat 8 = two64. Proof. reflexivity. Qed.
Lemma u64be_length x : length (u64be x) = 8%nat. Proof. apply be_bytes_length. Qed.
Lemma u64be_inj x y : is_u64 x -> is_u64 y -> u64be x = u64be y -> x = y.
Proof. unfold is_u64, u64be. rewrite <- two64_pow. apply be_bytes_inj. Qed.

Lemma nbytes_le32 z : 0 <= z < 2 ^ 256 -> nbytes z <= 32.
Proof.
  intros Hz. unfold nbytes. rewrite Z.abs_eq by lia.
  destruct (z =? 0) eqn:E; [lia|]. apply Z.eqb_neq in E.
  assert (Z.log2 z < 256) by (apply Z.log2_lt_pow2; lia).
  pose proof (Z.log2_nonneg z). lia.
Qed.
Lemma big32_small z : 0 <= z < 2 ^ 256 -> big32 z = be_bytes 32 z.
Proof.
  intros Hz. unfold big32. pose proof (nbytes_le32 z Hz).
  replace (Z.max 32 (nbytes z)) with 32 by lia. rewrite Z.abs_eq by lia. reflexivity.
Qed.
Lemma pow256_32 : 256 ^ Z.of_nat 32 = 2 ^ 256. Proof. reflexivity. Qed.
Lemma big32_length z : 0 <= z < 2 ^ 256 -> length (big32 z) = 32%nat.
Proof. intros. rewrite big32_small by auto. apply be_bytes_length. Qed.
Lemma big32_inj x y : 0 <= x < 2 ^ 256 -> 0 <= y < 2 ^ 256 -> big32 x = big32 y -> x = y.
Proof.
  intros Hx Hy. rewrite !big32_small by auto. rewrite <- pow256_32 in Hx, Hy. apply be_bytes_inj; auto.
Qed.
(* the decoder's reading of the 32 bytes gives the amount back *)
Lemma big_of_big32 z : 0 <= z < 2 ^ 256 -> big_of_bytes (big32 z) = z.
Proof. intros Hz. rewrite big32_small by auto. unfold big_of_bytes. apply be_value_bytes. rewrite pow256_32. auto. Qed.

(* split one fixed-width field off both sides of an equation between concatenations *)
Ltac split_app E H1 :=
  apply app_inj_length in E as [H1 E];
  [| solve [ rewrite ?u64be_length, ?app_length, ?u64be_length, ?big32_length by assumption;
             unfold blen in *; congruence ] ].

Section Injective.
  Variable H : bytes -> bytes.
  Hypothesis H_len : forall x, length (H x) = 32%nat.

  Theorem ab_preimage_injective (x y : AB) :
    ab_wf x -> ab_wf y ->
    (H (desc_source x) = H (desc_source y) -> desc_source x = desc_source y) ->
    (H (ab_data (body x)) = H (ab_data (body y)) -> ab_data (body x) = ab_data (body y)) ->
    ab_preimage H x = ab_preimage H y -> ab_covered x = ab_covered y.
  Proof.
    intros [] [] Hdesc Hdata E.
    unfold ab_preimage, ab_preimage_with, hash_height_bytes in E.
    rewrite <- !app_assoc in E.
    split_app E E1. split_app E E2. split_app E E3. split_app E E4. split_app E E5.
    split_app E E6. split_app E E7. split_app E E8. split_app E E9. split_app E E10.
    split_app E E11. split_app E E12.
    apply app_inj_length in E as [E13 E]; [|rewrite !H_len; reflexivity].
    apply app_inj_length in E as [E14 E]; [|rewrite !H_len; reflexivity].
    split_app E E15. split_app E E16.
    apply u64be_inj in E1, E2, E3, E5, E7, E15, E16; auto.
    apply big32_inj in E10; auto.
    apply Hdesc in E13. apply Hdata in E14.
    assert (Ed : desc_hashes x = desc_hashes y).
    { unfold desc_source in E13. eapply (concat_inj_fixed 32); eauto; lia. }
    unfold ab_covered. rewrite E1, E2, E3, E4, E5, E6, E7, E8, E9, E10, E11, E12, Ed, E14, E15, E16, E.
    reflexivity.
  Qed.

  Lemma aheader_bytes_length h : ah_wf h -> length (aheader_bytes h) = 60%nat.
  Proof. intros []. unfold aheader_bytes. rewrite !app_length, u64be_length. unfold blen in *. lia. Qed.
  Lemma aheader_bytes_inj h1 h2 : ah_wf h1 -> ah_wf h2 -> aheader_bytes h1 = aheader_bytes h2 -> h1 = h2.
  Proof.
    intros [] [] E. unfold aheader_bytes in E.
    split_app E E1. split_app E E2. apply u64be_inj in E2; auto.
    destruct h1, h2; cbn in *; congruence.
  Qed.
  Lemma content_bytes_inj c1 c2 : Forall ah_wf c1 -> Forall ah_wf c2 -> content_bytes c1 = content_bytes c2 -> c1 = c2.
  Proof.
    intros H1 H2 E. unfold content_bytes in E.
    assert (E' : map aheader_bytes c1 = map aheader_bytes c2).
    { apply (concat_inj_fixed 60); [lia| | |exact E].
      - apply Forall_map. eapply Forall_impl; [|exact H1]. apply aheader_bytes_length.
      - apply Forall_map. eapply Forall_impl; [|exact H2]. apply aheader_bytes_length. }
    clear E. rename E' into E.
    { revert c2 H2 E. induction H1 as [|a c1 Ha _ IH]; intros [|b c2] H2 E; cbn in E; try discriminate; auto.
      inversion H2; subst. injection E as E1 E2. f_equal; [apply aheader_bytes_inj; auto | apply IH; auto]. }
  Qed.

  Theorem mom_preimage_injective (m n : Mom) :
    mom_wf m -> mom_wf n ->
    (H (m_data m) = H (m_data n) -> m_data m = m_data n) ->
    (H (content_bytes (m_content m)) = H (content_bytes (m_content n)) ->
     content_bytes (m_content m) = content_bytes (m_content n)) ->
    mom_preimage H m = mom_preimage H n -> mom_covered m = mom_covered n.
  Proof.
    intros [] [] Hdata Hcont E.
    unfold mom_preimage, mom_preimage_with in E.
    split_app E E1. split_app E E2. split_app E E3. split_app E E4. split_app E E5.
    apply app_inj_length in E as [E6 E]; [|rewrite !H_len; reflexivity].
    apply app_inj_length in E as [E7 E]; [|rewrite !H_len; reflexivity].
    apply u64be_inj in E1, E2, E4, E5; auto.
    apply Hdata in E6. apply Hcont in E7. apply content_bytes_inj in E7; auto.
    unfold mom_covered. rewrite E1, E2, E3, E4, E5, E6, E7, E. reflexivity.
  Qed.
End Injective.

(* ---- the sort of NewMomentumContent is a permutation-invariant function on distinct keys (used by C20 too) *)
From Coq Require Import Permutation Sorted.

Lemma bytes_leb_refl a : bytes_leb a a = true.
Proof. induction a as [|x a IH]; cbn; auto. rewrite Z.ltb_irrefl. exact IH. Qed.
Lemma bytes_leb_total a b : bytes_leb a b = true \/ bytes_leb b a = true.
Proof.
  revert b; induction a as [|x a IH]; intros [|y b]; cbn; auto.
  destruct (x <? y) eqn:E1; auto. destruct (y <? x) eqn:E2; auto.
Qed.
Lemma bytes_leb_antisym a b : bytes_leb a b = true -> bytes_leb b a = true -> a = b.
Proof.
  revert b; induction a as [|x a IH]; intros [|y b]; cbn; auto; try discriminate.
  destruct (x <? y) eqn:E1; destruct (y <? x) eqn:E2; try discriminate; try lia.
  intros Hab Hba. assert (x = y) by lia. subst. f_equal. apply IH; auto.
Qed.
Lemma bytes_leb_trans a b c : bytes_leb a b = true -> bytes_leb b c = true -> bytes_leb a c = true.
Proof.
  revert b c; induction a as [|x a IH]; intros [|y b] [|z c]; cbn; auto; try discriminate.
  destruct (x <? y) eqn:E1; destruct (y <? x) eqn:E2; try lia.
  - intros _. destruct (y <? z) eqn:E3; destruct (z <? y) eqn:E4; try lia; try discriminate; intros Hbc.
    + replace (x <? z) with true by lia. reflexivity.
    + assert (y = z) by lia. subst. rewrite E1. reflexivity.
  - assert (x = y) by lia. subst. destruct (y <? z); auto. destruct (z <? y); auto. apply IH.
Qed.

Section Sort.
  Context {A : Type} (key : A -> bytes).
  Definition key_le (x y : A) : Prop := bytes_leb (key x) (key y) = true.

  Lemma insert_by_perm x l : Permutation (insert_by key x l) (x :: l).
  Proof.
    induction l as [|y l IH]; cbn; auto.
    destruct (bytes_leb (key x) (key y)); auto.
    rewrite IH. apply perm_swap.
  Qed.
  Lemma sort_by_perm l : Permutation (sort_by key l) l.
  Proof. induction l as [|x l IH]; cbn; auto. rewrite insert_by_perm. auto. Qed.

  Lemma insert_by_sorted x l : StronglySorted key_le l -> StronglySorted key_le (insert_by key x l).
  Proof.
    induction 1 as [|y l Hs IH Hy]; cbn.
    - repeat constructor.
    - destruct (bytes_leb (key x) (key y)) eqn:E.
      + constructor; [constructor; auto|]. constructor; [exact E|].
        eapply Forall_impl; [|exact Hy]. intros z Hz. unfold key_le in *. eapply bytes_leb_trans; eauto.
      + constructor; auto.
        assert (Hyx : key_le y x).
        { unfold key_le. destruct (bytes_leb_total (key x) (key y)); congruence. }
        eapply Permutation_Forall; [symmetry; apply insert_by_perm|]. constructor; auto.
  Qed.
  Lemma sort_by_sorted l : StronglySorted key_le (sort_by key l).
  Proof. induction l; cbn; [constructor | apply insert_by_sorted; auto]. Qed.

  (* two sorted permutations of each other with injective keys on their elements are equal *)
  Lemma sorted_perm_unique l1 l2 :
    (forall x y, In x l1 -> In y l1 -> key x = key y -> x = y) ->
    StronglySorted key_le l1 -> StronglySorted key_le l2 -> Permutation l1 l2 -> l1 = l2.
  Proof.
    intros Hinj H1; revert l2; induction H1 as [|a l1 Hs1 IH Ha]; intros l2 H2 P.
    - apply Permutation_nil in P. subst. reflexivity.
    - destruct H2 as [|b l2 Hs2 Hb]; [apply Permutation_sym, Permutation_nil in P; discriminate|].
      assert (Eab : a = b).
      { assert (Ia : In a (b :: l2)) by (eapply Permutation_in; [exact P | left; reflexivity]).
        assert (Ib : In b (a :: l1)) by (eapply Permutation_in; [symmetry; exact P | left; reflexivity]).
        destruct Ia as [->|Ia]; [reflexivity|]. destruct Ib as [->|Ib]; [reflexivity|].
        rewrite Forall_forall in Ha, Hb.
        apply Hinj; [left; reflexivity | right; exact Ib |].
        apply bytes_leb_antisym; [apply Ha; exact Ib | apply Hb; exact Ia]. }
      subst b. f_equal. apply IH; auto.
      + intros x y Hx Hy. apply Hinj; right; auto.
      + eapply Permutation_cons_inv; eauto.
  Qed.

  Theorem sort_by_perm_invariant l1 l2 :
    (forall x y, In x l1 -> In y l1 -> key x = key y -> x = y) ->
    Permutation l1 l2 -> sort_by key l1 = sort_by key l2.
  Proof.
    intros Hinj P. apply sorted_perm_unique; try apply sort_by_sorted.
    - intros x y Hx Hy. apply Hinj; eapply Permutation_in; try apply sort_by_perm; auto.
    - rewrite !sort_by_perm. exact P.
  Qed.
End Sort.
