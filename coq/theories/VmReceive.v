(* Model of vm/vm.go generateEmbeddedReceive / rollbackEmbedded / finalizeEmbedded / applySend and of
   vm/vm_context/{lifecycle,balance}.go (Save / Reset / Done, AddBalance / SubBalance), parametric in the
   method table.  Every place where the Go code can panic is an explicit [RPanic] / [ASPanic]:
   nil method (lookup error other than ErrContractMethodNotFound), Reset without a snapshot followed by a use of
   the account store, SubBalance below zero, a panicking method.  An error returned by generateEmbeddedReceive
   itself is [RInternal]: vm.Supervisor.GenerateAutoReceive then passes a nil block to the verifier.
   Store I/O errors (DealWithErr on leveldb reads in finalizeEmbedded) are outside the model. *)
From ZV Require Import Prelude GoSem.
Open Scope Z_scope.

(* balances: association list token standard -> amount, absent = 0 *)
Definition bals := list (bytes * Z).
Fixpoint bal_get (b : bals) (z : bytes) : Z :=
  match b with [] => 0 | (k, v) :: r => if bytes_eqb k z then v else bal_get r z end.
Fixpoint bal_set (b : bals) (z : bytes) (x : Z) : bals :=
  match b with
  | [] => [(z, x)]
  | (k, v) :: r => if bytes_eqb k z then (k, x) :: r else (k, v) :: bal_set r z x
  end.

Definition zero_zts : bytes := repeat 0 10.

Section Vm.
  Variable cstate : Type.                       (* contract storage *)

  (* the account store of the contract as the vm context sees it *)
  Record cacct := { a_bal : bals; a_store : cstate; a_cursor : Z (* sequencer: number of received sends *) }.
  Definition with_bal (a : cacct) (b : bals) : cacct := {| a_bal := b; a_store := a_store a; a_cursor := a_cursor a |}.

  Record send := { s_from : bytes; s_from_embedded : bool; s_amount : Z; s_zts : bytes; s_data : bytes; s_hash : bytes }.
  Record dsend := { d_to : bytes; d_amount : Z; d_zts : bytes; d_data : bytes }.   (* descendant ContractSend *)

  Inductive mres := MOk (a : cacct) (ds : list dsend) | MErr (code : Z) | MPanic.
  Definition method := cacct -> send -> mres.
  Inductive lres := LFound (m : method) | LNotFound | LOther.   (* embedded.GetEmbeddedMethod *)

  (* vm_context/balance.go *)
  Definition add_balance (a : cacct) (z : bytes) (x : Z) : cacct := with_bal a (bal_set (a_bal a) z (bal_get (a_bal a) z + x)).
  Inductive asres := ASOk (a : cacct) | ASErr (code : Z) | ASPanic.
  Definition sub_balance (a : cacct) (z : bytes) (x : Z) : asres :=
    if x <=? bal_get (a_bal a) z then ASOk (with_bal a (bal_set (a_bal a) z (bal_get (a_bal a) z - x))) else ASPanic.

  Definition E_insufficient_balance := 100.

  (* vm.go applySend for a ContractSend block: [dest_check] is GetEmbeddedMethod + ValidateSendBlock of the
     destination (None = passes / destination is no contract), then enoughFunds, then SubBalance *)
  Variable dest_check : dsend -> option Z.
  Definition apply_send (a : cacct) (d : dsend) : asres :=
    match dest_check d with
    | Some c => ASErr c
    | None =>
      if negb (bytes_eqb (d_zts d) zero_zts) && (bal_get (a_bal a) (d_zts d) <? d_amount d) then ASErr E_insufficient_balance
      else sub_balance a (d_zts d) (d_amount d)
    end.
  Fixpoint apply_all (a : cacct) (ds : list dsend) : asres :=
    match ds with
    | [] => ASOk a
    | d :: r => match apply_send a d with ASOk a' => apply_all a' r | e => e end
    end.

  Inductive rres :=
  | RApplied (a : cacct) (ds : list dsend)             (* receive block, status success, descendants ds *)
  | RRefunded (a : cacct) (ds : list dsend) (code : Z) (* receive block, status fail, ds = the refund *)
  | RInternal (code : Z)                               (* generateEmbeddedReceive returned an error *)
  | RPanic.

  Definition refund_of (s : send) : dsend := {| d_to := s_from s; d_amount := s_amount s; d_zts := s_zts s; d_data := [] |}.

  (* rollbackEmbedded; [acc] is ctx.Account after Reset(): None when no snapshot had been taken *)
  Definition rollback (acc : option cacct) (s : send) (code : Z) : rres :=
    match acc with
    | None => RPanic                                   (* AddBalance on a nil account store *)
    | Some a =>
      let a1 := add_balance a (s_zts s) (s_amount s) in
      if 0 <? s_amount s then
        match apply_send a1 (refund_of s) with
        | ASOk a2 => RRefunded a2 [refund_of s] code
        | ASErr c => RInternal c
        | ASPanic => RPanic
        end
      else RRefunded a1 [] code
    end.

  Definition E_method_not_found := 101.

  Definition pop_front (a : cacct) : cacct := {| a_bal := a_bal a; a_store := a_store a; a_cursor := a_cursor a + 1 |}.

  (* generateEmbeddedReceive as fixed in /repo (snapshot taken before the lookup result is inspected) *)
  Definition generate_receive (lookup : send -> lres) (a : cacct) (s : send) : rres :=
    let a0 := pop_front a in                             (* SequencerPopFront *)
    let snap := Some a0 in                               (* Save *)
    match lookup s with
    | LNotFound => rollback snap s E_method_not_found
    | LOther => RPanic                                   (* method == nil: method.ReceiveBlock dereferences it *)
    | LFound m =>
      let a1 := add_balance a0 (s_zts s) (s_amount s) in
      match m a1 s with
      | MPanic => RPanic
      | MErr c => rollback snap s c
      | MOk a2 ds =>
        match apply_all a2 ds with
        | ASOk a3 => RApplied a3 ds                        (* Done *)
        | ASErr c => rollback snap s c
        | ASPanic => RPanic
        end
      end
    end.

  (* the code before the fix: Save() came after the ErrContractMethodNotFound branch *)
  Definition generate_receive_prefix (lookup : send -> lres) (a : cacct) (s : send) : rres :=
    let a0 := pop_front a in
    match lookup s with
    | LNotFound => rollback None s E_method_not_found
    | _ => generate_receive lookup a s
    end.
End Vm.

Arguments a_bal {cstate}. Arguments a_store {cstate}. Arguments a_cursor {cstate}.
Arguments MOk {cstate}. Arguments MErr {cstate}. Arguments MPanic {cstate}.
Arguments LFound {cstate}. Arguments LNotFound {cstate}. Arguments LOther {cstate}.
Arguments RApplied {cstate}. Arguments RRefunded {cstate}. Arguments RInternal {cstate}. Arguments RPanic {cstate}.
Arguments ASOk {cstate}. Arguments ASErr {cstate}. Arguments ASPanic {cstate}.
