(* Executable entry points compared with the implementation by ./check C15. *)
From ZV Require Import Prelude GoSem Paging.
From ZV Require Export Handler Frame Session.
From ZV.gen Require Import Consts.
Open Scope Z_scope.

Definition zl_eqb : list Z -> list Z -> bool := list_eqb Z.eqb.
Definition outcome_eqb (a b : outcome) : bool :=
  match a, b with
  | OPanic, OPanic => true
  | OErr x, OErr y => x =? y
  | OHashes x, OHashes y => zl_eqb x y
  | OBlocks x bx, OBlocks y by_ => zl_eqb x y && (bx =? by_)
  | ONoReply, ONoReply => true
  | _, _ => false
  end.
(* in: (chain height, message size, request) *)
Definition handle_run (i : Z * Z * req) : outcome := let '(H, size, r) := i in handle H size r.

Definition handshake_run (i : Z * Z * bool * bool * bool * bool) : Z :=
  let '(code, size, d, g, n, v) := i in handshake code size d g n v.

Definition readInt24_run (b : list Z) : Z := match readInt24 b with Ok x => x | Panic => -1 end.

(* in: (avail, header MAC ok, decrypted header, frame MAC ok, code ok); out: (class, frame size when a message is returned) *)
Definition read_msg_run (i : Z * bool * list Z * bool * bool) : Z * Z :=
  let '(avail, hm, hdr, fm, c) := i in
  match read_msg avail hm hdr fm c with
  | FMsg _ f => (0, f) | FShort => (1, 0) | FBadHeaderMAC => (2, 0) | FBadFrameMAC => (3, 0) | FBadCode => (4, 0) | FPanic => (9, 0)
  end.
Definition zz15_eqb (a b : Z * Z) : bool := (fst a =? fst b) && (snd a =? snd b).

Definition decode_packet_run (i : Z * bool * bool * Z * bool) : Z :=
  let '(len, h, s, t, r) := i in
  match decode_packet len h s t r with
  | PTooSmall => 1 | PBadHash => 2 | PBadSig => 3 | PUnknownType => 4 | PBadRlp => 5 | PReq _ => 6 | PPanic => 9
  end.

(* in: (initial phase, events); out: the phase afterwards *)
Definition session_run (i : phase * list event) : phase := ph (run (mkConn (fst i) 0 0) (snd i)).
Definition phase_eqb (a b : phase) : bool :=
  match a, b with
  | PEnc, PEnc | PProto, PProto | PWaitStatus, PWaitStatus | PRunning, PRunning | PClosed, PClosed => true
  | _, _ => false
  end.
