(* Executable entry points compared with the implementation by ./check C15. *)
From ZV Require Import Prelude GoSem Paging.
From ZV Require Export Handler Frame Session BaseMsg EncHs Discv.
From ZV.gen Require Import Consts.
Open Scope Z_scope.

Definition zl_eqb : list Z -> list Z -> bool := list_eqb Z.eqb.
Definition outcome_eqb (a b : outcome) : bool :=
  match a, b with
  | OPanic, OPanic => true
  | OErr x, OErr y => x =? y
  | OHashes x, OHashes y => zl_eqb x y
  | OBlocks x bx, OBlocks y by_ => zl_eqb x y && (bx =? by_)
  | ONoReply, ONoReply => true
  | _, _ => false
  end.
(* in: (chain height, message size, request) *)
Definition handle_run (i : Z * Z * req) : outcome := let '(H, size, r) := i in handle H size r.

Definition handshake_run (i : Z * Z * bool * bool * bool * bool) : Z :=
  let '(code, size, d, g, n, v) := i in handshake code size d g n v.

Definition readInt24_run (b : list Z) : Z := match readInt24 b with Ok x => x | Panic => -1 end.

(* in: (avail, header MAC ok, decrypted header, frame MAC ok, code ok); out: (class, frame size when a message is returned) *)
Definition read_msg_run (i : Z * bool * list Z * bool * bool) : Z * Z :=
  let '(avail, hm, hdr, fm, c) := i in
  match read_msg avail hm hdr fm c with
  | FMsg _ f => (0, f) | FShort => (1, 0) | FBadHeaderMAC => (2, 0) | FBadFrameMAC => (3, 0) | FBadCode => (4, 0) | FPanic => (9, 0)
  end.
Definition zz15_eqb (a b : Z * Z) : bool := (fst a =? fst b) && (snd a =? snd b).

Definition decode_packet_run (i : Z * bool * bool * Z * bool) : Z :=
  let '(len, h, s, t, r) := i in
  match decode_packet len h s t r with
  | PTooSmall => 1 | PBadHash => 2 | PBadSig => 3 | PUnknownType => 4 | PBadRlp => 5 | PReq _ => 6 | PPanic => 9
  end.

(* in: (initial phase, events); out: the phase afterwards *)
Definition session_run (i : phase * list event) : phase := ph (run (mkConn (fst i) 0 0) (snd i)).
Definition phase_eqb (a b : phase) : bool :=
  match a, b with
  | PEnc, PEnc | PProto, PProto | PWaitStatus, PWaitStatus | PRunning, PRunning | PClosed, PClosed => true
  | _, _ => false
  end.

(* ---- base protocol (BaseMsg.v) *)
Definition oz_eqb : option Z -> option Z -> bool := option_eqb Z.eqb.
(* in: (limited, payload); out: the decoded reason, -1 for a panic *)
Definition disc_reason_run (i : bool * list Z) : Z :=
  match disc_reason (fst i) (snd i) with Ok r => r | Panic => -1 end.
(* Peer.handle. in: (limited, plen, code, payload) *)
Definition base_handle_run (i : bool * Z * Z * list Z) : hres := let '(l, plen, code, p) := i in handle_base l plen code p.
Definition hres_eqb (a b : hres) : bool :=
  match a, b with
  | HPong, HPong | HIgnore, HIgnore | HOutOfRange, HOutOfRange | HPanic, HPanic => true
  | HDisc x, HDisc y => x =? y
  | HDeliver x, HDeliver y => x =? y
  | _, _ => false
  end.
(* Peer.run over a message pipe (payload reader without a length). in: (plen, code, payload);
   out: (0 pong / 1 open / 2 closed / 9 panic, reason handed to close, reason reported by run) *)
Definition peer_run_run (i : Z * Z * list Z) : Z * Z * Z :=
  let '(plen, code, p) := i in
  match handle_base false plen code p with
  | HPong => (0, 0, 0)
  | HIgnore | HDeliver _ => (1, 0, 0)
  | HDisc r => (2, close_reason (EReadDisc r), reported_reason (EReadDisc r))
  | HOutOfRange => (2, close_reason EReadErr, reported_reason EReadErr)
  | HPanic => (9, 0, 0)
  end.
Definition zzz15_eqb (a b : Z * Z * Z) : bool :=
  let '(a1, a2, a3) := a in let '(b1, b2, b3) := b in (a1 =? b1) && (a2 =? b2) && (a3 =? b3).
(* a running peer of the real Server over RLPx frames. in: (plen, code, payload) *)
Definition srv_react_run (i : Z * Z * list Z) : reaction := let '(plen, code, p) := i in react true plen code p.
Definition reaction_eqb (a b : reaction) : bool :=
  match a, b with
  | RPong, RPong | RStay, RStay | RPanic, RPanic => true
  | RClosed x, RClosed y => oz_eqb x y
  | _, _ => false
  end.
(* readProtocolHandshake. in: (limited, size, code, payload, decodes, version, id_zero); out: -1 ok, -2 error, -9 panic, r = DiscReason r *)
Definition read_hs_run (i : bool * Z * Z * list Z * bool * Z * bool) : Z :=
  let '(l, size, code, p, d, v, z) := i in
  match read_hs l size code p d v z with HsOk => -1 | HsErr => -2 | HsPanic => -9 | HsDisc r => r end.
(* Server.setupConn over RLPx frames. in: (size, code, payload, decodes, version, id_zero, id_match, caps_match) *)
Definition setup_conn_run (i : Z * Z * list Z * bool * Z * bool * bool * bool) : setup_res :=
  let '(size, code, p, d, v, z, im, cm) := i in setup_conn true size code p d v z im cm.
Definition setup_res_eqb (a b : setup_res) : bool :=
  match a, b with
  | SAdded, SAdded | SPanic, SPanic => true
  | SRefused x, SRefused y => oz_eqb x y
  | _, _ => false
  end.

(* ---- encryption handshake (EncHs.v): one connection through setupConn. coarse: the level at which the remote side only
   sees peer / not a peer. out: 0 peer, 1 refused in the encryption handshake, 2 refused after it, 9 panic *)
Definition conn_code (coarse : bool) (r : conn_res) : Z :=
  match r with CPeer => 0 | CRefusedEnc => 1 | CRefusedProto => if coarse then 1 else 2 | CPanic => 9 end.
(* in: (coarse, auth bytes that arrive, envelope opens, static key is a point, signature recovers, first frame verifies,
        hello: size, code, payload, decodes, version, zero identity, identity matches) *)
Definition auth_listen_run (i : bool * Z * bool * bool * bool * bool * Z * Z * list Z * bool * Z * bool * bool) : Z :=
  let '(coarse, got, d, k, s, m, size, code, p, dec, v, z, im) := i in
  conn_code coarse (listen_conn got d k s m size code p dec v z im).
(* in: (coarse, response bytes that arrive, envelope opens, ephemeral key is a point, first frame verifies, hello ...) *)
Definition auth_dial_run (i : bool * Z * bool * bool * bool * Z * Z * list Z * bool * Z * bool * bool) : Z :=
  let '(coarse, got, d, e, m, size, code, p, dec, v, z, im) := i in
  conn_code coarse (dial_conn got d e m size code p dec v z im).

(* ---- the live discovery endpoint (Discv.v) *)
Definition dv_consts_run (i : Z) : list Z := dv_consts.
(* in: (kind, decodes, expiration, clock, version, sender known, table entries handed out); out: (pongs, neighbors datagrams, entries) *)
Definition disc_handle_run (i : Z * bool * Z * Z * Z * bool * Z) : Z * Z * Z :=
  let '(kind, d, ts, now, v, known, c) := i in disc_handle kind d ts now v known c.
Definition zzz_eqb (a b : Z * Z * Z) : bool :=
  let '(a1, a2, a3) := a in let '(b1, b2, b3) := b in (a1 =? b1) && (a2 =? b2) && (a3 =? b3).
(* in: (decodes, expired, a pending entry of the same sender and type exists); out: handed to the callback *)
Definition disc_reply_run (i : bool * bool * bool) : bool := let '(d, e, p) := i in disc_reply d e p.
(* in: (address bytes, udp port); out: 1 the entry becomes a node, 0 not, 9 panic *)
Definition node_from_rpc_run (i : list Z * Z) : Z :=
  match node_from_rpc (fst i) (snd i) with Ok true => 1 | Ok false => 0 | Panic => 9 end.
Definition findnode_collect_run (l : list Z) : list bool := findnode_collect l.
Definition bl_eqb : list bool -> list bool -> bool := list_eqb Bool.eqb.
